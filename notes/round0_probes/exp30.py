import sys, copy, random
sys.argv=['x']
from exp2 import *
from exp11 import canon
bad=0; stats={'ok':0,'rej':0,'exp_rej':0,'tempuse':0}
for seed in range(500):
  rng = random.Random(seed)
  eng = engine.Engine(); eng.load_empty(); apply(eng, ['InitNewDoc'])
  apply(eng, ['AddTable','Aa',[{'id':'X','type':'Int','isFormula':False}]])
  apply(eng, ['AddTable','Bb',[{'id':'Y','type':'Int','isFormula':False},{'id':'P','type':'Ref:Aa','isFormula':False}]])
  for c, ty in (('R','Ref:Bb'),('RL','RefList:Bb'),('S','Ref:Aa')): apply(eng, ['AddColumn','Aa',c,{'type':ty,'isFormula':False}])
  apply(eng, ['BulkAddRecord','Aa',[None,None],{'X':[1,2]}]); apply(eng, ['BulkAddRecord','Bb',[None,None],{'Y':[1,2]}])
  # model
  M = {'Aa': {1:{'X':1,'R':0,'RL':None,'S':0}, 2:{'X':2,'R':0,'RL':None,'S':0}}, 'Bb': {1:{'Y':1,'P':0}, 2:{'Y':2,'P':0}}}
  DEF = {'Aa': {'X':0,'R':0,'RL':None,'S':0}, 'Bb': {'Y':0,'P':0}}
  TGT = {('Aa','R'):'Bb', ('Aa','RL'):'Bb', ('Aa','S'):'Aa', ('Bb','P'):'Aa'}
  tmp = {'Aa':{}, 'Bb':{}}
  bundle = []; expect_reject = False; model_ok = True
  def refval(t, c):
    tg = TGT[(t,c)]
    if c == 'RL':
      k = rng.randint(0,2)
      return ['L'] + [rng.choice([1,2,-1,-2,-3]) for _ in range(k)] if k else None
    return rng.choice([0,1,2,-1,-2,-3])
  for step in range(rng.randint(1,5)):
    t = rng.choice(['Aa','Bb']); k = rng.choice(['add','add','upd','rm'])
    if k == 'add':
      n = rng.randint(1,2); ids = [rng.choice([None,-1,-2]) for _ in range(n)]
      cols = {}
      for c in DEF[t]:
        if rng.random()<0.6: cols[c] = [(refval(t,c) if (t,c) in TGT else rng.randint(0,9)) for _ in range(n)]
      bundle.append(['BulkAddRecord', t, ids, cols])
    elif k == 'upd':
      rid = rng.choice([1,2,-1,-2]); c = rng.choice(list(DEF[t]))
      bundle.append(['UpdateRecord', t, rid, {c: (refval(t,c) if (t,c) in TGT else rng.randint(0,9))}])
    else:
      bundle.append(['RemoveRecord', t, rng.choice([1,2,-1,-2])])
  # interpret model
  M2 = copy.deepcopy(M); tmp = {'Aa':{}, 'Bb':{}}
  def tr_ref(tg, v):
    if isinstance(v, list): 
      out = [tr_ref(tg, x) for x in v[1:]]
      return None if any(x is None for x in out) else (['L']+out if out else None)
    if isinstance(v, int) and v < 0:
      return tmp[tg].get(v)   # None if unknown -> reject
    return v
  rej = False
  for a in bundle:
    t = a[1]
    if a[0] == 'BulkAddRecord':
      ids = []
      for i, rid in enumerate(a[2]):
        nid = (max(M2[t]) + 1) if M2[t] else 1
        ids.append(nid); M2[t][nid] = dict(DEF[t])
      # mapping registered before values converted
      for rid, nid in zip(a[2], ids):
        if rid is not None and rid < 0: tmp[t][rid] = nid
      for c, vals in a[3].items():
        for nid, v in zip(ids, vals):
          if (t,c) in TGT:
            tv = tr_ref(TGT[(t,c)], v)
            if tv is None and v is not None and v != 0 and not (isinstance(v, list) and len(v)==1): rej = True
            if isinstance(v, (int,list)) and v not in (0,None) and tv is None: rej = True
            M2[t][nid][c] = tv if tv is not None else (None if c=='RL' else 0)
          else: M2[t][nid][c] = v
    elif a[0] == 'UpdateRecord':
      rid = tmp[t].get(a[2], a[2]) if a[2] < 0 else a[2]
      if rid not in M2[t]: rej = True; break
      for c, v in a[3].items():
        if (t,c) in TGT:
          tv = tr_ref(TGT[(t,c)], v)
          if isinstance(v, (int,list)) and v not in (0,None) and tv is None: rej = True
          M2[t][rid][c] = tv if tv is not None else (None if c=='RL' else 0)
        else: M2[t][rid][c] = v
    else:
      rid = tmp[t].get(a[2], a[2]) if a[2] < 0 else a[2]
      if rid in M2[t]:
        del M2[t][rid]
        for (tt, c), tg in TGT.items():
          if tg == t:
            for r in M2[tt].values():
              if c == 'RL':
                if r[c]: 
                  x = [y for y in r[c][1:] if y != rid]; r[c] = ['L']+x if x else None
              elif r[c] == rid: r[c] = 0
    if rej: break
  if any(isinstance(x,int) and x<0 for a in bundle for x in ([a[2]] if a[0]!='BulkAddRecord' else [])) or any(v for a in bundle if a[0]!='RemoveRecord' for vals in (a[3].values()) for v in (vals if isinstance(vals, list) and a[0]=='BulkAddRecord' else [vals]) if (isinstance(v,int) and v<0) or (isinstance(v,list) and any(isinstance(y,int) and y<0 for y in v))): stats['tempuse']+=1
  before = snapshot(eng)
  try:
    out = apply(eng, *copy.deepcopy(bundle)); ok = True
  except Exception as e:
    ok = False; err = repr(e)[:100]
  if rej:
    stats['exp_rej']+=1
    if ok or norm(snapshot(eng)) != norm(before): bad+=1; print('seed', seed, 'expected rejection; ok=', ok, bundle)
    continue
  if not ok:
    stats['rej']+=1; bad+=1; print('seed', seed, 'unexpected rejection', err, bundle); continue
  stats['ok']+=1
  for t in ('Aa','Bb'):
    td = eng.fetch_table(t)
    erows = {r: {c: objtypes.encode_object(td.columns[c][i]) for c in DEF[t]} for i, r in enumerate(td.row_ids)}
    if canon(erows) != canon(M2[t]) and {k: canon(v) for k, v in erows.items()} != {k: canon(v) for k, v in M2[t].items()}:
      bad+=1; print('seed', seed, t, bundle, '\n  got', erows, '\n  exp', M2[t]); break
print('bad', bad, stats)
