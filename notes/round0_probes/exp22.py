import sys
sys.argv=['x']
from exp2 import *
def t(order, extra=False):
  eng = engine.Engine(); eng.load_empty(); apply(eng, ['InitNewDoc'])
  if order == 'T-first':
    apply(eng, ['AddTable','T',[{'id':'A','type':'Int','isFormula':False}]])
    apply(eng, ['AddTable','U',[{'id':'RT','type':'Ref:T','isFormula':False},{'id':'G','type':'Any','isFormula':True,'formula':'$RT.A'}]])
  else:
    apply(eng, ['AddTable','U',[{'id':'X','type':'Int','isFormula':False}]])
    apply(eng, ['AddTable','T',[{'id':'A','type':'Int','isFormula':False}]])
    apply(eng, ['AddColumn','U','RT',{'type':'Ref:T','isFormula':False}])
    apply(eng, ['AddColumn','U','G',{'type':'Any','isFormula':True,'formula':'$RT.A'}])
  if extra:
    apply(eng, ['AddColumn','T','RL',{'type':'RefList:T','isFormula':False}])
  apply(eng, ['RenameColumn','T','A','Alpha'])
  C = eng.fetch_table('_grist_Tables_column')
  print(order, extra, [f for f in C.columns['formula'] if f])
t('T-first'); t('U-first'); t('T-first', True); t('U-first', True)
