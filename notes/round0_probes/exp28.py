import sys, io, tokenize, ast, types, re
sys.argv=['x']
from exp2 import *
from hypothesis import given, settings, strategies as st, HealthCheck, seed
PH = 'Qx9_'   # placeholder prefix same role as DOLLAR (identifier chars)
def translate(formula):
  """Independent: $name -> rec.name outside strings/comments, using tokenize on placeholder text."""
  src = re.sub(r'\$(?=[A-Za-z_])', PH, formula)
  out = []; 
  toks = list(tokenize.generate_tokens(io.StringIO(src).readline))
  # rebuild by positions
  lines = src.splitlines(True)
  def off(pos): return sum(len(l) for l in lines[:pos[0]-1]) + pos[1]
  res = []; last = 0
  for t in toks:
    if t.type == tokenize.NAME and t.string.startswith(PH):
      s, e = off(t.start), off(t.end)
      res.append(src[last:s]); res.append('rec.' + t.string[len(PH):]); last = e
  res.append(src[last:])
  text = ''.join(res).replace(PH, '$')   # restore $ inside strings/comments
  return text
def reference_value(formula, recvals):
  text = translate(formula)
  tree = ast.parse(text)
  if not tree.body: return ('v', None)
  if isinstance(tree.body[-1], ast.Expr):
    tree.body[-1] = ast.copy_location(ast.Return(tree.body[-1].value), tree.body[-1])
  fn = ast.FunctionDef(name='f', args=ast.arguments(posonlyargs=[], args=[ast.arg('rec'), ast.arg('table')], kwonlyargs=[], kw_defaults=[], defaults=[]), body=tree.body, decorator_list=[], type_params=[])
  mod = ast.Module(body=[fn], type_ignores=[]); ast.fix_missing_locations(mod)
  ns = {}
  exec(compile(mod, '<ref>', 'exec'), ns)
  rec = types.SimpleNamespace(**recvals)
  try: return ('v', ns['f'](rec, None))
  except Exception as e: return ('x', type(e).__name__)
atoms = st.sampled_from(['$A', '$B', 'rec.A', '1', '2.5', '"s"', "'$A'", '"""m\n$B"""', 'None', 'True', "f'{$A}z'", '[$A, 2]'])
def bin_(c): return st.tuples(c, st.sampled_from(['+','*','-','==','<','and','or']), c).map(lambda t: '(%s %s %s)' % t)
def cond(c): return st.tuples(c,c,c).map(lambda t: '(%s if %s else %s)' % t)
def call(c): return st.tuples(st.sampled_from(['str','len','repr','bool']), c).map(lambda t: '%s(%s)' % t)
expr = st.recursive(atoms, lambda c: st.one_of(bin_(c), cond(c), call(c), c.map(lambda e: '[%s for _ in range(2)]' % e)), max_leaves=5)
stmts = st.one_of(
  expr,
  expr.map(lambda e: 'x = %s\nx' % e),
  expr.map(lambda e: 'x = %s  # $A comment\nreturn x' % e),
  expr.map(lambda e: 'if $A:\n  return %s\nelse:\n  return 0' % e),
  expr.map(lambda e: 'def g(y):\n  return y\ng(%s)' % e),
  expr.map(lambda e: 'try:\n  v = %s\nexcept Exception:\n  v = -1\nv' % e),
  expr.map(lambda e: '  %s' % e),
  expr.map(lambda e: 'x = %s' % e),           # missing return
  expr.map(lambda e: '$A = %s' % e),          # assign to rec
  expr.map(lambda e: '%s +' % e),             # syntax error
  st.just('# only comment $A'), st.just('"""doc\n $A\n"""'), st.just('rec = 5\nrec'),
)
eng = engine.Engine(); eng.load_empty(); apply(eng, ['InitNewDoc'])
apply(eng, ['AddTable','Tab',[{'id':'A','type':'Int','isFormula':False},{'id':'B','type':'Text','isFormula':False},{'id':'G','type':'Any','isFormula':True,'formula':'$A*2'},{'id':'F','type':'Any','isFormula':True,'formula':'1'}]])
apply(eng, ['BulkAddRecord','Tab',[None,None],{'A':[3,0],'B':['x','']}])
bad = {}; cnt = {'valid':0,'invalid':0}
@seed(5)
@settings(max_examples=1500, deadline=None, suppress_health_check=list(HealthCheck), database=None)
@given(stmts)
def t(f):
  try: apply(eng, ['ModifyColumn','Tab','F',{'formula': f}])
  except Exception as e:
    bad.setdefault(('apply raised', type(e).__name__), f); return
  td = eng.fetch_table('Tab')
  if td.columns['G'] != [6, 0]: bad.setdefault(('G changed',), (f, td.columns['G']))
  got = [objtypes.encode_object(v) for v in td.columns['F']]
  try:
    refs = [reference_value(f, {'A': a, 'B': b, 'id': i+1}) for i, (a, b) in enumerate(zip([3,0],['x','']))]
    valid = True
  except SyntaxError: valid = False
  if not valid:
    cnt['invalid']+=1
    if not all(isinstance(g, list) and g[:1]==['E'] for g in got): bad.setdefault(('invalid but value',), (f, got))
    return
  cnt['valid']+=1
  for g, r in zip(got, refs):
    if r[0]=='x':
      if not (isinstance(g, list) and g[:1]==['E']): bad.setdefault(('ref error, engine value',), (f, g, r))
    else:
      e = objtypes.encode_object(r[1])
      if g != e and not (isinstance(g, list) and g[:1]==['E']): bad.setdefault(('value mismatch',), (f, g, e))
      elif g != e: bad.setdefault(('engine error, ref value', g[1]), (f, g, e))
t()
print(cnt)
for k, v in bad.items(): print(k, '\n    ', repr(v)[:300])
