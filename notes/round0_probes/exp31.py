import sys, copy, random
sys.argv=['x']
from exp2 import *
def lst(v):
  if v is None or v == 0: return []
  if isinstance(v, (list, tuple)): return [x for x in v if isinstance(x, int)]
  if isinstance(v, int) and not isinstance(v, bool): return [v]
  return []
bad=0; stats={'ok':0,'rej':0,'rej_changed':0}
for seed in range(300):
  rng = random.Random(seed)
  eng = engine.Engine(); eng.load_empty(); apply(eng, ['InitNewDoc'])
  apply(eng, ['AddTable','Aa',[{'id':'X','type':'Int','isFormula':False}]]); apply(eng, ['AddTable','Bb',[{'id':'Y','type':'Int','isFormula':False}]])
  apply(eng, ['BulkAddRecord','Aa',[None]*3,{'X':[1,2,3]}]); apply(eng, ['BulkAddRecord','Bb',[None]*3,{'Y':[1,2,3]}])
  apply(eng, ['AddColumn','Aa','R',{'type': rng.choice(['Ref:Bb','RefList:Bb']),'isFormula':False}])
  if rng.random()<0.7:
    apply(eng, ['BulkUpdateRecord','Aa',[1,2,3],{'R':[rng.choice([0,1,2,3]) for _ in range(3)]}])
  apply(eng, ['AddReverseColumn','Aa','R'])
  def pairs():
    C = eng.fetch_table('_grist_Tables_column'); T = eng.fetch_table('_grist_Tables'); tn = dict(zip(T.row_ids, T.columns['tableId']))
    idx = {r: i for i, r in enumerate(C.row_ids)}; out=[]
    for i, r in enumerate(C.row_ids):
      rc = C.columns['reverseCol'][i]
      if rc and r < rc: out.append(((tn[C.columns['parentId'][i]], C.columns['colId'][i]), (tn[C.columns['parentId'][idx[rc]]], C.columns['colId'][idx[rc]])))
    return out
  def sym():
    for (ta, ca), (tb, cb) in pairs():
      A = eng.fetch_table(ta); B = eng.fetch_table(tb)
      fa = {(a, b) for a, v in zip(A.row_ids, A.columns[ca]) for b in lst(objtypes.encode_object(v)[1:] if isinstance(objtypes.encode_object(v), list) else v)}
      fb = {(a, b) for b, v in zip(B.row_ids, B.columns[cb]) for a in lst(objtypes.encode_object(v)[1:] if isinstance(objtypes.encode_object(v), list) else v)}
      fa = {(a,b) for a,b in fa if b in set(B.row_ids)}; fb = {(a,b) for a,b in fb if a in set(A.row_ids)}
      if fa != fb: return (ta, ca, tb, cb, sorted(fa ^ fb))
    return None
  err = sym()
  for step in range(10):
    if err: break
    prs = pairs()
    if not prs: break
    (ta, ca), (tb, cb) = prs[0]
    side = rng.choice([(ta, ca, tb), (tb, cb, ta)])
    t, c, other = side
    rows = list(eng.tables[t].row_ids); orows = list(eng.tables[other].row_ids)
    ty = eng.schema[t].columns[c].type
    def rv():
      if ty.startswith('RefList'):
        k = rng.randint(0,3); return (['L'] + [rng.choice(orows or [1]) for _ in range(k)]) if k else None
      return rng.choice([0] + orows)
    k = rng.choice(['upd','upd','bulk','add','rm','rmo','type','type'])
    before = snapshot(eng)
    try:
      if k=='upd' and rows: ua = ['UpdateRecord', t, rng.choice(rows), {c: rv()}]
      elif k=='bulk' and rows:
        rs = rng.sample(rows, min(len(rows), 2)); ua = ['BulkUpdateRecord', t, rs, {c: [rv() for _ in rs]}]
      elif k=='add': ua = ['AddRecord', t, None, {c: rv()}]
      elif k=='rm' and rows: ua = ['RemoveRecord', t, rng.choice(rows)]
      elif k=='rmo' and orows: ua = ['RemoveRecord', other, rng.choice(orows)]
      elif k=='type': ua = ['ModifyColumn', t, c, {'type': ('Ref:' if ty.startswith('RefList') else 'RefList:') + other}]
      else: continue
      apply(eng, copy.deepcopy(ua)); stats['ok']+=1
    except Exception as e:
      stats['rej']+=1
      if norm(snapshot(eng)) != norm(before): stats['rej_changed']+=1; bad+=1; print('seed', seed, 'REJECT LEFT TRACE', ua, repr(e)[:80]); break
      continue
    err = sym()
    if err: print('seed', seed, 'ASYM after', ua, err)
  if err: bad+=1
print('bad', bad, stats)
