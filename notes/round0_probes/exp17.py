import sys
sys.argv=['x']
from exp2 import *
def mk(recalcWhen, deps):
  eng = engine.Engine(); eng.load_empty(); apply(eng, ['InitNewDoc'])
  apply(eng, ['AddTable', 'T', [{'id': 'A', 'type': 'Text', 'isFormula': False},{'id': 'B', 'type': 'Text', 'isFormula': False},
     {'id':'F','type':'Text','isFormula':True,'formula':'$A.upper()'},
     {'id':'C','type':'Text','isFormula':False,'formula':'"%s|%s|%s" % ($A, $B, value)'}]])
  cols = {c: eng.docmodel.get_column_rec('T', c).id for c in 'ABFC'}
  apply(eng, ['UpdateRecord', '_grist_Tables_column', cols['C'], {'recalcWhen': recalcWhen, 'recalcDeps': ['L'] + [cols[d] for d in deps]}])
  evals = []
  eng.formula_tracer = lambda col, rec: evals.append((col.col_id, rec._row_id)) if col.table_id=='T' else None
  return eng, evals
def step(eng, evals, ua):
  del evals[:]
  try:
    out = apply(eng, ua); r = 'ok'
  except Exception as e: r = repr(e)[:60]
  td = eng.fetch_table('T')
  print('  ', ua, '->', r, 'evalsC', sorted(set(r_ for c, r_ in evals if c=='C')), 'C=', dict(zip(td.row_ids, td.columns['C'])))
for rw, deps in ((0, 'A'), (0, 'AC'), (0, 'F'), (1, 'A'), (2, '')):
  print('recalcWhen', rw, 'deps', deps)
  eng, ev = mk(rw, deps)
  step(eng, ev, ['AddRecord','T',None,{'A':'a','B':'b'}])
  step(eng, ev, ['AddRecord','T',None,{'A':'a2','B':'b2','C':'explicit'}])
  step(eng, ev, ['UpdateRecord','T',1,{'B':'bb'}])
  step(eng, ev, ['UpdateRecord','T',1,{'A':'aa'}])
  step(eng, ev, ['UpdateRecord','T',1,{'A':'aa'}])
  step(eng, ev, ['UpdateRecord','T',1,{'A':'aaa', 'C':'mine'}])
  step(eng, ev, ['UpdateRecord','T',2,{'C':'mine2'}])
  step(eng, ev, ['BulkUpdateRecord','T',[1,2],{'A':['x','a2']}])
  step(eng, ev, ['ApplyDocActions',[['UpdateRecord','T',1,{'A':'viaDoc'}]]])
  step(eng, ev, ['RenameColumn','T','A','A2'])
  step(eng, ev, ['ModifyColumn','T','B',{'type':'Int'}])
