import sys
sys.argv=['x']
from exp2 import *
eng = engine.Engine(); eng.load_empty()
apply(eng, ['InitNewDoc'])
apply(eng, ['AddTable', 'T', [{'id': 'C', 'type': 'Choice', 'isFormula': False},{'id': 'L', 'type': 'ChoiceList', 'isFormula': False}]])
apply(eng, ['BulkAddRecord', 'T', [None]*4, {'C': ['a','b','', 'c'], 'L': [['L','a','b'], None, 'alt', ['L','b']]}])
apply(eng, ['RemoveRecord', 'T', 2])
for ren in ({'a':'b','b':'a'}, {'':'z'}, {'alt':'q'}):
  before = snapshot(eng)
  try:
    apply(eng, ['RenameChoices','T','C',ren]); apply(eng, ['RenameChoices','T','L',ren]); print(ren, snapshot(eng)['T'])
  except Exception as e: print(ren, 'RAISED', repr(e)[:120], norm(snapshot(eng))==norm(before))
