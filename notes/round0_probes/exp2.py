import sys, time, logging, random, json, traceback
sys.path.insert(0, '/tmp/shim'); sys.path.insert(0, '/repo/sandbox/grist')
logging.disable(logging.CRITICAL)
import engine, useractions, actions, objtypes

def snapshot(eng):
  return {t: actions.get_action_repr(eng.fetch_table(t)) for t in sorted(eng.tables)}
def norm(x):
  return json.dumps(x, sort_keys=True, default=repr)

def apply(eng, *uas):
  return eng.apply_user_actions([useractions.from_repr(list(u)) for u in uas])

TYPES = ['Text','Int','Numeric','Bool','Any','Choice','ChoiceList','Date','DateTime:UTC']
def user_tables(eng):
  return [t for t in eng.tables if not t.startswith('_grist_')]
def cols(eng, t):
  return [c for c in eng.tables[t].all_columns if c not in ('id','manualSort') and not c.startswith('#') and not c.startswith('gristHelper')]

def rand_value(rng):
  return rng.choice([None, 0, 1, 2, -1, 1.5, '', 'a', 'b', 'foo', True, False, ['L','a','b'], ['L', 1, 2]])

def rand_formula(rng, eng, t):
  cs = cols(eng, t)
  ts = user_tables(eng)
  opts = ['1', '"x"']
  if cs:
    c = rng.choice(cs); opts += ['$%s' % c, '$%s * 2' % c, 'str($%s)' % c, 'len(%s.lookupRecords(%s=$%s))' % (t, c, c)]
  t2 = rng.choice(ts)
  cs2 = cols(eng, t2)
  if cs2:
    opts += ['len(%s.all)' % t2, 'SUM(r.%s for r in %s.all)' % (rng.choice(cs2), t2)]
  return rng.choice(opts)

def rand_action(rng, eng):
  ts = user_tables(eng)
  kind = rng.choice(['addtable','addcol','addcol','addrec','addrec','addrec','update','update','remove','rencol','rmcol','modtype','rentable','rmtable','formula','summary', 'ref'])
  if not ts or kind == 'addtable':
    return ['AddTable', rng.choice(['T','U','V', None]), [{'id': rng.choice(['A','B','C']), 'type': rng.choice(TYPES), 'isFormula': False}]]
  t = rng.choice(ts)
  cs = cols(eng, t)
  rows = list(eng.tables[t].row_ids)
  if kind == 'addcol':
    return ['AddColumn', t, rng.choice(['A','B','C','D','E', None]), {'type': rng.choice(TYPES), 'isFormula': False}]
  if kind == 'formula':
    return ['AddColumn', t, rng.choice(['F','G','H']), {'type': rng.choice(['Any','Int','Text','Numeric']), 'isFormula': True, 'formula': rand_formula(rng, eng, t)}]
  if kind == 'ref':
    return ['AddColumn', t, rng.choice(['R','S']), {'type': rng.choice(['Ref:','RefList:']) + rng.choice(ts), 'isFormula': False}]
  if kind == 'addrec':
    n = rng.randint(1,3)
    cv = {c: [rand_value(rng) for _ in range(n)] for c in cs if rng.random() < 0.6}
    return ['BulkAddRecord', t, [None]*n, cv]
  if kind == 'update' and rows and cs:
    rs = rng.sample(rows, min(len(rows), rng.randint(1,3)))
    cv = {c: [rand_value(rng) for _ in rs] for c in rng.sample(cs, min(len(cs), rng.randint(1,2)))}
    return ['BulkUpdateRecord', t, rs, cv]
  if kind == 'remove' and rows:
    return ['BulkRemoveRecord', t, rng.sample(rows, min(len(rows), rng.randint(1,2)))]
  if kind == 'rencol' and cs:
    return ['RenameColumn', t, rng.choice(cs), rng.choice(['A','B','C','X','Y','Z q', 'class'])]
  if kind == 'rmcol' and cs:
    return ['RemoveColumn', t, rng.choice(cs)]
  if kind == 'modtype' and cs:
    return ['ModifyColumn', t, rng.choice(cs), {'type': rng.choice(TYPES)}]
  if kind == 'rentable':
    return ['RenameTable', t, rng.choice(['T','U','V','W','X y'])]
  if kind == 'rmtable':
    return ['RemoveTable', t]
  if kind == 'summary' and cs:
    trec = eng.docmodel.get_table_rec(t)
    if trec.summarySourceTable: return None
    crefs = [eng.docmodel.get_column_rec(t, c).id for c in rng.sample(cs, min(len(cs), rng.randint(0,2)))]
    return ['CreateViewSection', trec.id, 0, 'record', crefs, None]
  return None

def run(seed, nsteps=25):
  rng = random.Random(seed)
  eng = engine.Engine(); eng.load_empty()
  apply(eng, ['InitNewDoc'])
  hist = []
  stats = {'ok':0,'rej':0}
  for i in range(nsteps):
    ua = rand_action(rng, eng)
    if ua is None: continue
    before = snapshot(eng)
    try:
      out = apply(eng, ua)
    except Exception as e:
      stats['rej'] += 1
      after = snapshot(eng)
      if norm(after) != norm(before):
        print('SEED', seed, 'FAIL-NOTRACE', ua, repr(e)); return stats
      continue
    stats['ok'] += 1
    after = snapshot(eng)
    undo = [actions.get_action_repr(a) for a in out.undo]
    stored = [actions.get_action_repr(a) for a in out.stored]
    # undo
    try:
      apply(eng, ['ApplyUndoActions', undo])
    except Exception as e:
      print('SEED', seed, 'UNDO-RAISED', ua, repr(e)); traceback.print_exc(); return stats
    s = snapshot(eng)
    if norm(s) != norm(before):
      print('SEED', seed, 'UNDO-MISMATCH step', i, ua)
      for t in set(s)|set(before):
        if norm(s.get(t)) != norm(before.get(t)): print('  table', t, '\n   got ', s.get(t), '\n   want', before.get(t))
      return stats
    # redo
    try:
      apply(eng, ['ApplyDocActions', stored])
    except Exception as e:
      print('SEED', seed, 'REDO-RAISED', ua, repr(e)); return stats
    s = snapshot(eng)
    if norm(s) != norm(after):
      print('SEED', seed, 'REDO-MISMATCH step', i, ua)
      for t in set(s)|set(after):
        if norm(s.get(t)) != norm(after.get(t)): print('  table', t, '\n   got ', s.get(t), '\n   want', after.get(t))
      return stats
    hist.append(ua)
  return stats

if __name__ == '__main__':
  t0 = time.time()
  tot = {'ok':0,'rej':0}
  for seed in range(int(sys.argv[1]), int(sys.argv[2])):
    try:
      st = run(seed)
    except Exception as e:
      print('SEED', seed, 'HARNESS', repr(e)); traceback.print_exc(); continue
    for k in tot: tot[k] += st[k]
  print(tot, time.time()-t0)
