import sys, logging, marshal, datetime, random, time
sys.path.insert(0, '/tmp/shim'); sys.path.insert(0, '/repo/sandbox/grist')
logging.disable(logging.CRITICAL)
import moment
raw = moment.read_tz_raw_data()
print(len(raw), raw[0][0], len(raw[0][3]))
t0=time.time(); bad=0; n=0; maxerr=0
for name, abbrs, offsets, untils in raw:
  z = moment.get_zone(name)
  pts = []
  for u in untils[:-1]:
    s = u/1000.0
    if abs(s) > 4e9: continue
    for d in (-3600, -1, 0, 1, 3600, 0.5):
      pts.append(s+d)
  for ts in pts:
    n+=1
    try:
      dt = moment.ts_to_dt(ts, z)
      back = moment.dt_to_ts(dt)
    except Exception as e:
      bad+=1
      if bad<5: print('EXC', name, ts, repr(e))
      continue
    err = abs(back-ts); maxerr=max(maxerr, err)
    if err > 1e-6:
      bad+=1
      if bad<8: print('RT', name, ts, back, dt, dt.utcoffset())
    # naive local time -> offset must be one of adjacent offsets
    naive = dt.replace(tzinfo=None)
    off = z.dt_offset(naive)
    i = z._index(ts*1000)
    allowed = {datetime.timedelta(minutes=-offsets[j]) for j in (i-1,i,i+1) if 0<=j<len(offsets)}
    if off not in allowed:
      bad+=1
      if bad<12: print('OFF', name, ts, naive, off, allowed)
print(n, bad, maxerr, time.time()-t0)
frac = [o for _,_,offs,_ in raw for o in offs if o != int(o)]
print('fractional offsets', len(frac), frac[:5])
