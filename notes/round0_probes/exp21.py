import sys, copy, random
sys.argv=['x']
from exp2 import *
from exp11 import canon
FORMS = [
 '$A', 'rec.A', '$A + 1', 'Tab.lookupRecords(A=$A)', 'len(Tab.lookupRecords(A=$A, order_by="B"))', 'Tab.lookupOne(A=$A).B',
 'Tab.lookupRecords(A=$A, order_by=("-B","A")).B', 'sum(r.A for r in Tab.all)', '[r.B for r in Tab.lookupRecords(A=$A)]', 'Tab.all.A',
 'PREVIOUS(rec, order_by="A").B', 'RANK(rec, order_by="-A", group_by="B")', 'NEXT(rec, order_by=("A","B"), group_by=("B",)).A',
 '$R.A', '$R.R.B', '$RL.A', 'Uab.lookupOne(X=$A).X', 'Uab.lookupRecords(RT=$id).X', 'Tab.lookupRecords(order_by="A").find.le($A).B',
 '"$A" + str($A) # $A', 'max(x.A for x in Tab.lookupRecords(B=$B))', 'Tab.lookupRecords(B=CONTAINS($B))',
]
def build(forms):
  eng = engine.Engine(); eng.load_empty(); apply(eng, ['InitNewDoc'])
  apply(eng, ['AddTable','Tab',[{'id':'A','type':'Int','isFormula':False},{'id':'B','type':'Text','isFormula':False},{'id':'R','type':'Ref:Tab','isFormula':False},{'id':'RL','type':'RefList:Tab','isFormula':False}]])
  apply(eng, ['AddTable','Uab',[{'id':'X','type':'Int','isFormula':False},{'id':'RT','type':'Ref:Tab','isFormula':False}]])
  apply(eng, ['BulkAddRecord','Tab',[None]*4,{'A':[1,2,2,3],'B':['x','y','x','z'],'R':[2,3,1,0],'RL':[['L',1,2],None,['L',3],['L',4,1]]}])
  apply(eng, ['BulkAddRecord','Uab',[None]*3,{'X':[1,2,5],'RT':[1,1,3]}])
  for i, f in enumerate(forms):
    apply(eng, ['AddColumn','Tab','F%d'%i,{'type':'Any','isFormula':True,'formula':f}])
    apply(eng, ['AddColumn','Uab','G%d'%i,{'type':'Any','isFormula':True,'formula':f.replace('$A','$X').replace('$B','$X').replace('$RL','$RT').replace('$R.','$RT.').replace('rec.A','rec.X').replace('$id','$RT')}])
  return eng
def vals_by_colref(eng, ren):
  C = eng.fetch_table('_grist_Tables_column'); T = eng.fetch_table('_grist_Tables')
  tn = dict(zip(T.row_ids, T.columns['tableId']))
  out = {}
  for i, cref in enumerate(C.row_ids):
    t = tn[C.columns['parentId'][i]]
    if t.startswith('_grist'): continue
    td = eng.fetch_table(t)
    v = [objtypes.encode_object(x) for x in td.columns[C.columns["colId"][i]]]; FM[cref] = (t, C.columns["colId"][i], C.columns["formula"][i])
    out[cref] = canon(v)
  return out
FM={}
def subst(v, m):
  if isinstance(v, list):
    if v and v[0] in ('R','r') and len(v)>1 and isinstance(v[1], str): return [v[0], m.get(v[1], v[1])] + [subst(x, m) for x in v[2:]]
    return [subst(x, m) for x in v]
  return v
eng = build(FORMS)
base = vals_by_colref(eng, {})
errs = [ (i, base[k]) for i,k in enumerate(sorted(base)) if any(isinstance(x, list) and x[:1]==['E'] for x in base[k])]
print('cols with errors before rename:', len(errs), errs[:6])
for ua, m in ((['RenameColumn','Tab','A','Alpha'],{}), (['RenameColumn','Tab','B','class'],{}), (['RenameTable','Tab','Things'],{'Tab':'Things'}), (['RenameColumn','Tab','R','A b'],{}), (['RenameColumn','Uab','X','A'],{}), (['UpdateRecord','_grist_Tables_column',2,{'label':'New Label!'}],{})):
  eng = build(FORMS); before = vals_by_colref(eng, {})
  apply(eng, ua)
  after = vals_by_colref(eng, m)
  diffs = [(k, before[k], after[k]) for k in before if subst(before[k], m) != after.get(k)]
  print(ua, "diffs", len(diffs)); [print("    ", FM[k], b, "->", a) for k,b,a in diffs]
