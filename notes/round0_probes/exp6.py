import sys
sys.argv=['x']
from exp2 import *
eng = engine.Engine(); eng.load_empty()
apply(eng, ['InitNewDoc'])
apply(eng, ['AddTable', 'T', [{'id': 'Z', 'type': 'Numeric', 'isFormula': False},{'id': 'F', 'type': 'Any', 'isFormula': True, 'formula':'$Z + 1'}]])
apply(eng, ['BulkAddRecord', 'T', [None, None], {'Z': [2, 3.5]}])
before = snapshot(eng)
for ua in (['ModifyColumn', 'T', 'Z', {'type': 'Bogus'}], ['AddColumn', 'T', 'Q', {'type': 'Bogus'}], ['ModifyColumn', 'T', 'Z', {'type': 'Ref:Nope'}],['AddColumn', 'T', 'Q', {'type': 'DateTime:Nope/Zone'}]):
  try:
    out = apply(eng, ua); print('accepted', ua); before = snapshot(eng)
  except Exception as e:
    print('raised', repr(e)[:100])
    s = snapshot(eng)
    print(' unchanged', norm(s)==norm(before))
    if norm(s)!=norm(before):
      for t in s:
        if norm(s[t])!=norm(before.get(t)): print(t,'\n got ', s[t], '\n want', before.get(t))
    o = apply(eng, ['Calculate']); print(' calc', [actions.get_action_repr(a) for a in o.stored])
    try: eng.assert_schema_consistent(); print(' schema ok')
    except Exception as e: print(' schema BAD', e)
