import sys
sys.argv=['x']
from exp2 import *
eng = engine.Engine(); eng.load_empty(); apply(eng, ['InitNewDoc'])
apply(eng, ['AddTable','Tab',[{'id':'A','type':'Text','isFormula':False},{'id':'N','type':'Int','isFormula':False},{'id':'F','type':'Any','isFormula':True,'formula':'$N*2'}]])
apply(eng, ['AddColumn','Tab','E',{}])   # empty column
apply(eng, ['CreateViewSection', 1, 0, 'record', [2], None])
def show(ua):
  out = apply(eng, ua); r = out.get_repr()
  print(ua)
  for a, d in zip(r['stored'], r['direct']): print('   ', 'D' if d else '-', str(a)[:150])
show(['AddRecord','Tab',None,{'A':'x','N':1}])
show(['AddRecord','Tab',-1,{'A':'y','N':2,'E':'5'}])
show(['UpdateRecord','Tab',1,{'A':'y'}])
show(['UpdateRecord','Tab',2,{'manualSort': 0.5}])
show(['RemoveRecord','Tab',1])
show(['BulkAddRecord','Tab',[None,None],{'A':['q','q'],'manualSort':[0.6,0.6]}])
