import sys, logging, marshal, itertools, keyword, re, random, math
sys.path.insert(0, '/tmp/shim'); sys.path.insert(0, '/repo/sandbox/grist')
logging.disable(logging.CRITICAL)
import objtypes, identifiers, treeview, relabeling
from sortedcontainers import SortedListWithKey
from hypothesis import given, settings, strategies as st, HealthCheck
# C24 probe
class S(str): pass
for v in [{S('a'): 1}, {1:2}, S('x'), [S('x')], 2**100, {1,2}, float('nan'), (1,(2,))]:
  enc = objtypes.encode_object(v)
  try: marshal.dumps(enc, 2); ok=True
  except Exception as e: ok=repr(e)
  print(repr(v)[:30], enc, ok)
# C21
@settings(max_examples=3000, deadline=None)
@given(st.one_of(st.none(), st.text(max_size=12)), st.sets(st.sampled_from(['A','a','B','Table1','TABLE1','c','C2','id','If','if','class','Class'])))
def t21(name, avoid):
  for fn, table in ((identifiers.pick_col_ident, False), (identifiers.pick_table_ident, True)):
    r = fn(name, avoid=avoid)
    assert re.match(r'^[A-Za-z][A-Za-z0-9_]*$', r), (name, r)
    assert not keyword.iskeyword(r), (name, r)
    assert r.upper() not in {a.upper() for a in avoid}, (name, avoid, r)
    if table: assert r[0].isupper(), (name, r)
    valid = name is not None and re.match(r'^[A-Za-z][A-Za-z0-9_]*$', name) and not keyword.iskeyword(name) and (not table or name[0].isupper())
    if valid and name.upper() not in {a.upper() for a in avoid}: assert r == name, (name, r)
try: t21(); print('C21 ok')
except AssertionError as e: print('C21 FAIL', e)
# C36 brute
from collections import namedtuple
P = namedtuple('P','id indentation')
bad=0; n=0
for L in range(1,6):
  for ind in itertools.product(range(0,4), repeat=L):
    for dele in itertools.product([0,1], repeat=L):
      n+=1
      items=[P(i+1, ind[i]) for i in range(L)]
      d={i+1 for i in range(L) if dele[i]}
      fixes = dict(treeview.fix_indents(items, d))
      new=[fixes.get(p.id,p.indentation) for p in items]
      rem=[(new[i]) for i in range(L) if not dele[i]]
      ok = (not rem or rem[0]==0) and all(rem[i]<=rem[i-1]+1 for i in range(1,len(rem))) and all(new[i]<=ind[i] for i in range(L))
      if not ok:
        bad+=1
        if bad<4: print('C36 bad', ind, dele, new)
print('C36', n, bad)
