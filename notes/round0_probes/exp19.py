import sys, logging, random, json, copy, traceback
sys.path.insert(0, '/tmp/shim'); sys.path.insert(0, '/repo/sandbox/grist')
logging.disable(logging.CRITICAL)
import migrations, schema, actions, table_data_set, test_migrations
def schema_at(v):
  """Return TableDataSet with metadata schema as of version v (empty data except DocInfo)."""
  tdset = table_data_set.TableDataSet()
  tdset.apply_doc_actions(test_migrations.schema_version0())
  for ver in range(1, v+1):
    migrations.all_migrations.get(ver, migrations.noop_migration)(tdset)
  if 'schemaVersion' in tdset.all_tables['_grist_DocInfo'].columns:
    tdset.apply_doc_action(actions.UpdateRecord('_grist_DocInfo', 1, {'schemaVersion': v}))
  return tdset
def rand_text(rng):
  return rng.choice(['', 'abc', '{}', '[]', '5', 'null', '"s"', '{"a":1}', '[1,2]', '{"filterBar":true}', '{"visibleCol":"A"}', '{"timeCreated": 1700000000000, "timeUpdated": 1700000000001, "resolved": true, "text":"hi"}', '{"timeCreated":"x"}', '{"12":["a"]}', 'not json {'])
def fill(tdset, rng, v):
  sch = tdset.get_schema()
  # user tables
  ntab = rng.randint(0,3)
  tabs = tdset.all_tables
  def add(table, n, maker):
    if table not in tabs or n==0: return []
    cols = sch[table]
    ids = list(range(1, n+1))
    vals = {c: [maker(c, info, i) for i in ids] for c, info in cols.items()}
    existing = set(tabs[table].row_ids)
    ids2 = [i for i in ids if i not in existing]
    vals = {c: [vals[c][i-1] for i in ids2] for c in vals}
    tdset.apply_doc_action(actions.BulkAddRecord(table, ids2, vals)); return ids2
  counts = {'_grist_Tables': ntab, '_grist_Tables_column': ntab*rng.randint(1,3), '_grist_Views': rng.randint(0,3), '_grist_Views_section': rng.randint(0,4), '_grist_Views_section_field': rng.randint(0,6), '_grist_TableViews': rng.randint(0,2), '_grist_TabBar': rng.randint(0,2), '_grist_Pages': rng.randint(0,3), '_grist_ACLRules': rng.randint(0,2), '_grist_ACLResources': rng.randint(0,2), '_grist_Filters': rng.randint(0,3), '_grist_Cells': rng.randint(0,3), '_grist_Triggers': rng.randint(0,2), '_grist_Attachments': rng.randint(0,2)}
  def maker(c, info, i):
    t = info.get('type', 'Text')
    if t.startswith('Ref:'):
      n = counts.get(t[4:], 0); return rng.randint(0, n) if n else 0
    if t.startswith('RefList:'):
      n = counts.get(t[8:], 0); return None if not n or rng.random()<.5 else json.dumps(sorted(rng.sample(range(1,n+1), rng.randint(1,n))))
    if t == 'Int': return rng.randint(0,5)
    if t == 'Bool': return rng.random()<.5
    if t == 'PositionNumber': return float(i)
    if t in ('DateTime','Date'): return rng.choice([None, 1600000000.0])
    if t == 'ChoiceList': return rng.choice([None, '["add"]'])
    if t == 'Text':
      if c == 'tableId': return 'Table%d' % i
      if c == 'colId': return 'C%d' % i
      if c == 'type': return rng.choice(['Text','Int','Any','Ref:Table1','Numeric'])
      if c == 'formula': return rng.choice(['', '$C1 + 1'])
      return rand_text(rng)
    return None
  # tables need real data tables too
  for tname, n in counts.items():
    if tname == '_grist_Tables':
      ids = add(tname, n, maker)
    else:
      add(tname, n, maker)
  # create user data tables to match metadata
  tt = tabs.get('_grist_Tables'); tc = tabs.get('_grist_Tables_column')
  by = {}
  for rid, tid in zip(tt.row_ids, tt.columns['tableId']): by[rid] = tid
  colsby = {}
  for i, rid in enumerate(tc.row_ids):
    p = tc.columns['parentId'][i]
    if p in by: colsby.setdefault(by[p], []).append({'id': tc.columns['colId'][i], 'type': tc.columns['type'][i], 'isFormula': bool(tc.columns['isFormula'][i]), 'formula': tc.columns['formula'][i]})
  for rid, tid in by.items():
    tdset.apply_doc_action(actions.AddTable(tid, colsby.get(tid, [])))
  return tdset
cur = {a.table_id: {c['id']: c for c in a.columns} for a in schema.schema_create_actions()}
res = {}
for seed in range(400):
  rng = random.Random(seed)
  v = rng.randint(0, schema.SCHEMA_VERSION)
  try:
    td = fill(schema_at(v), rng, v)
  except Exception as e:
    res.setdefault(('GEN', type(e).__name__, str(e)[:60]), []).append((seed, v)); continue
  try:
    acts = migrations.create_migrations(copy.deepcopy(td.all_tables))
    td.apply_doc_actions(acts)
    meta = {t: s for t, s in td.get_schema().items() if t.startswith('_grist_')}
    if meta != cur: res.setdefault(('SCHEMA-MISMATCH',), []).append((seed, v))
    else: res.setdefault(('ok',), []).append((seed, v))
  except Exception as e:
    tb = traceback.extract_tb(e.__traceback__)
    fr = [f for f in tb if 'migrations.py' in f.filename]
    res.setdefault((type(e).__name__, str(e)[:50], fr[-1].name if fr else '?', fr[-1].lineno if fr else 0), []).append((seed, v))
for k, v in sorted(res.items(), key=lambda kv: -len(kv[1])): print(len(v), k, v[:4])
