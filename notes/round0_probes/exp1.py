import sys, time, logging
sys.path.insert(0, '/tmp/shim'); sys.path.insert(0, '/repo/sandbox/grist')
logging.disable(logging.CRITICAL)
import engine, useractions, actions, objtypes

def snapshot(eng):
  return {t: actions.get_action_repr(eng.fetch_table(t)) for t in sorted(eng.tables)}

def apply(eng, *uas):
  return eng.apply_user_actions([useractions.from_repr(list(u)) for u in uas])

t0=time.time()
eng = engine.Engine(); eng.load_empty()
apply(eng, ['InitNewDoc'])
print('init', time.time()-t0)
t0=time.time()
s0 = snapshot(eng)
out = apply(eng, ['AddTable', 'T', [{'id':'A','type':'Int','isFormula':False}, {'id':'B','type':'Any','isFormula':True,'formula':'$A*2'}]])
print('addtable', time.time()-t0, out.retValues)
s1 = snapshot(eng)
t0=time.time()
out2 = apply(eng, ['BulkAddRecord','T',[None]*5,{'A':[1,2,3,4,5]}])
print('add', time.time()-t0, out2.retValues, [actions.get_action_repr(a) for a in out2.stored])
s2 = snapshot(eng)
t0=time.time()
u = apply(eng, ['ApplyUndoActions', [actions.get_action_repr(a) for a in out2.undo]])
print('undo', time.time()-t0)
print(snapshot(eng)==s1)
u = apply(eng, ['ApplyUndoActions', [actions.get_action_repr(a) for a in out.undo]])
print(snapshot(eng)==s0)
t0=time.time()
for i in range(20):
  apply(eng, ['AddTable', 'X%d'%i, [{'id':'A','type':'Int','isFormula':False}]])
print('20 addtable', time.time()-t0)
t0=time.time()
for i in range(200):
  apply(eng, ['AddRecord', 'X1', None, {'A': i}])
print('200 addrecord', time.time()-t0)
