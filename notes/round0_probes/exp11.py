import sys, marshal, copy
sys.argv=['x']
from exp2 import *
import main as grist_main, random

def canon(v):
  if isinstance(v, bool) or v is None or isinstance(v, str): return v
  if isinstance(v, (int, float)):
    f = float(v)
    return 'NaN' if f != f else f
  if isinstance(v, (list, tuple)): return [canon(x) for x in v]
  if isinstance(v, dict): return {k: canon(x) for k, x in sorted(v.items())}
  return repr(v)
def snap(eng, formulas=True):
  out = {}
  for t in sorted(eng.tables):
    td = eng.fetch_table(t, formulas=formulas)
    rep = actions.get_action_repr(td)
    out[t] = {c: dict(zip(rep[2], canon(vals))) for c, vals in rep[3].items()}
    out[t]['id'] = list(rep[2])
  return out
def diff(a, b):
  d=[]
  for t in sorted(set(a)|set(b)):
    if t not in a or t not in b: d.append((t,'missing')); continue
    for c in sorted(set(a[t])|set(b[t])):
      if a[t].get(c) != b[t].get(c): d.append((t,c,a[t].get(c),b[t].get(c)))
  return d

def fresh_from(eng, formulas):
  e2 = engine.Engine()
  mt = eng.fetch_table('_grist_Tables'); mc = eng.fetch_table('_grist_Tables_column')
  def rt(td):  # roundtrip through reply encoding + db-like decode
    rep = actions.get_action_repr(td)
    cols = {k.encode('utf8'): [marshal.dumps(v) if isinstance(v, list) else v for v in vals] for k, vals in rep[3].items()}
    cols[b'id'] = rep[2]
    return grist_main.table_data_from_db(rep[1], marshal.dumps(cols))
  e2.load_meta_tables(rt(mt), rt(mc))
  for t in sorted(eng.tables):
    if t in ('_grist_Tables','_grist_Tables_column'): continue
    e2.load_table(rt(eng.fetch_table(t, formulas=formulas)))
  out = e2.apply_user_actions([useractions.from_repr(['Calculate'])])
  return e2, out

def run(seed, nsteps=25, perm=False):
  rng = random.Random(seed)
  eng = engine.Engine(); eng.load_empty()
  if perm:
    prng = random.Random(seed*7+1)
    def mk(nodes):
      nodes = list(nodes)
      lk = sorted([n for n in nodes if n.col_id.startswith('#lookup')]); ot = sorted([n for n in nodes if not n.col_id.startswith('#lookup')])
      prng.shuffle(lk); prng.shuffle(ot)
      return [engine.WorkItem(n, None, []) for n in reversed(lk+ot)]
    eng._make_sorted_work_items = mk
  apply(eng, ['InitNewDoc'])
  for i in range(nsteps):
    ua = rand_action(rng, eng)
    if ua is None: continue
    try: apply(eng, copy.deepcopy(ua))
    except Exception as e: pass
  return eng

bad5=bad7=bad6=0
for seed in range(int(sys.argv[1]) if len(sys.argv)>1 else 0, 60):
  eng = run(seed)
  s = snap(eng)
  e5, o5 = fresh_from(eng, formulas=False)
  d = diff(s, snap(e5))
  if d: bad5+=1; print('C05 seed', seed, d[:3])
  e7, o7 = fresh_from(eng, formulas=True)
  d = diff(s, snap(e7))
  if d or o7.stored: bad7+=1; print('C07 seed', seed, d[:3], [actions.get_action_repr(a) for a in o7.stored][:3])
  ep = run(seed, perm=True)
  d = diff(s, snap(ep))
  if d: bad6+=1; print('C06 seed', seed, d[:3])
print(bad5, bad7, bad6)
