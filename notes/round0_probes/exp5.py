import sys
sys.argv=['x']
from exp2 import *
eng = engine.Engine(); eng.load_empty()
apply(eng, ['InitNewDoc'])
apply(eng, ['AddTable', 'T', [{'id': 'Z', 'type': 'Numeric', 'isFormula': False},{'id': 'F', 'type': 'Any', 'isFormula': True, 'formula':'$Z + 1'}]])
apply(eng, ['BulkAddRecord', 'T', [None, None], {'Z': [2, 3.5]}])
before = snapshot(eng)
out = apply(eng, ['ModifyColumn', 'T', 'Z', {'type': 'Int'}])
after = snapshot(eng)
for a in out.stored: print('S', actions.get_action_repr(a))
for a in out.undo: print('U', actions.get_action_repr(a))
apply(eng, ['ApplyUndoActions', [actions.get_action_repr(a) for a in out.undo]])
print('undo ok', norm(snapshot(eng))==norm(before))
o2 = apply(eng, ['ApplyDocActions', [actions.get_action_repr(a) for a in out.stored]])
s = snapshot(eng)
print('redo ok', norm(s)==norm(after))
print(s['T']); print(after['T'])
