import sys, logging, math, datetime, json
sys.path.insert(0, '/tmp/shim'); sys.path.insert(0, '/repo/sandbox/grist')
logging.disable(logging.CRITICAL)
import usertypes, objtypes, moment
from hypothesis import given, settings, strategies as st, HealthCheck, seed
TYPES = {'Text': usertypes.Text(), 'Numeric': usertypes.Numeric(), 'Int': usertypes.Int(), 'Bool': usertypes.Bool(), 'Date': usertypes.Date(),
  'DateTime': usertypes.DateTime('America/New_York'), 'Choice': usertypes.Choice(), 'ChoiceList': usertypes.ChoiceList(), 'Ref': usertypes.Reference('T'),
  'RefList': usertypes.ReferenceList('T'), 'Attachments': usertypes.Attachments(), 'Any': usertypes.Any(), 'Id': usertypes.Id(),
  'PositionNumber': usertypes.PositionNumber(), 'ManualSortPos': usertypes.ManualSortPos()}
prim = st.one_of(st.none(), st.booleans(), st.integers(-2**40, 2**40), st.integers(-5,5), st.floats(allow_nan=True, allow_infinity=True),
  st.text(max_size=6), st.sampled_from(['', '1', '1.5', '-2', '1e5', 'nan', 'inf', 'true', 'False', 'yes', '2020-01-02', '2020-01-02T03:04:05Z', '[1, 2]', '["a"]', '[', 'RecordList([1, 2], group_by=None, sort_by=None)', ' 7 ']),
  st.binary(max_size=4), st.dates(), st.datetimes(), st.datetimes(timezones=st.just(moment.tzinfo('Europe/Paris'))),
  st.builds(objtypes.AltText, st.text(max_size=4)), st.builds(lambda: objtypes.RaisedException(ValueError('x'))))
vals = st.recursive(prim, lambda c: st.one_of(st.lists(c, max_size=3), st.lists(c, max_size=3).map(tuple), st.dictionaries(st.text(max_size=2), c, max_size=2)), max_leaves=6)
def eq(a, b):
  if isinstance(a, float) and isinstance(b, float) and a != a and b != b: return True
  try:
    if type(a) == type(b) and a == b: return True
  except Exception: pass
  return objtypes.encode_object(a) == objtypes.encode_object(b) or (isinstance(a,(list,tuple)) and isinstance(b,(list,tuple)) and len(a)==len(b) and all(eq(x,y) for x,y in zip(a,b)))
fails = {}
@seed(1)
@settings(max_examples=20000, deadline=None, suppress_health_check=list(HealthCheck), database=None)
@given(st.sampled_from(sorted(TYPES)), vals)
def t(tn, v):
  ty = TYPES[tn]
  try: r = ty.convert(v)
  except Exception as e:
    fails.setdefault((tn, 'raises', type(e).__name__), repr(v)[:80]); return
  ok = ty.is_right_type(r) or r is v or isinstance(r, str)
  if not ok: fails.setdefault((tn, 'wrongtype', type(r).__name__), (repr(v)[:60], repr(r)[:60]))
  try: r2 = ty.convert(r)
  except Exception as e:
    fails.setdefault((tn, 'raises2', type(e).__name__), repr(v)[:80]); return
  if not eq(r, r2): fails.setdefault((tn, 'notidem'), (repr(v)[:60], repr(r)[:60], repr(r2)[:60]))
t()
for k, v in sorted(fails.items()): print(k, v)
print('done', len(fails))
