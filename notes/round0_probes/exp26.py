import sys, copy, random, functools
sys.argv=['x']
from exp2 import *
from numbers import Number
def cmpv(a, b):
  try:
    if a < b: return -1
    if b < a: return 1
    return 0
  except TypeError:
    af = ((0 if a is None else 1), (0 if isinstance(a, Number) else 1), type(a).__name__)
    bf = ((0 if b is None else 1), (0 if isinstance(b, Number) else 1), type(b).__name__)
    return -1 if af < bf else (1 if bf < af else 0)
def ref_sort(rows, spec):
  # rows: list of dict incl id; spec: tuple of colspecs
  def cmp(r1, r2):
    for cs in spec:
      c, sign = (cs[1:], -1) if cs.startswith('-') else (cs, 1)
      x = cmpv(r1[c], r2[c])
      if x: return x*sign
    return -1 if r1['id'] < r2['id'] else (1 if r1['id'] > r2['id'] else 0)
  return sorted(rows, key=functools.cmp_to_key(cmp))
def make_spec(order_by, sort_by, has_ms=True):
  if sort_by: return (sort_by,)
  if order_by is None: order_by = ()
  if isinstance(order_by, str): order_by = (order_by,)
  if 'id' in order_by: return order_by[:order_by.index('id')]
  if has_ms and 'manualSort' not in order_by: return order_by + ('manualSort',)
  return order_by
KEYS = {'N': [0, 1, 2, 1.0, None, 'alt'], 'S': ['', 'a', 'b', 'B'], 'CL': [None, ['L','a'], ['L','a','b'], ['L'], 'alt'], 'R': [0,1,2,3]}
def fmt(v): return repr(v)
bad=0; nontriv=0
for seed in range(150):
  rng = random.Random(seed)
  eng = engine.Engine(); eng.load_empty(); apply(eng, ['InitNewDoc'])
  apply(eng, ['AddTable','Tab',[{'id':'N','type':'Numeric','isFormula':False},{'id':'S','type':'Text','isFormula':False},{'id':'CL','type':'ChoiceList','isFormula':False},{'id':'R','type':'Ref:Tab','isFormula':False},{'id':'O','type':'Int','isFormula':False}]])
  n = rng.randint(0,6)
  if n: apply(eng, ['BulkAddRecord','Tab',[None]*n,{c:[rng.choice(KEYS[c]) for _ in range(n)] for c in KEYS} | {'O':[rng.choice([1,2,3]) for _ in range(n)]}])
  apply(eng, ['AddTable','P',[{'id':'X','type':'Int','isFormula':False}]]); apply(eng, ['AddRecord','P',None,{'X':1}])
  probes = []
  for i in range(6):
    ncond = rng.randint(0,2); conds = {}
    for c in rng.sample(['N','S','CL','R'], ncond):
      if c == 'CL':
        k = rng.choice(['a','b','', 'zz']); me = rng.choice([None, '""', '"a"'])
        conds[c] = ('contains', k, me)
      else: conds[c] = ('eq', rng.choice([v for v in KEYS[c] if not isinstance(v, list)]))
    ob = rng.choice([None, 'NONE', 'O', '-O', ('O','-S'), ('-S','id'), 'id', 'S'])
    sb = rng.choice([None, None, 'O', '-S'])
    args = []
    for c, cd in conds.items():
      if cd[0]=='eq': args.append('%s=%s' % (c, fmt(cd[1])))
      else: args.append('%s=CONTAINS(%s%s)' % (c, fmt(cd[1]), '' if cd[2] is None else ', match_empty=%s' % cd[2]))
    if sb: args.append('sort_by=%r' % sb)
    elif ob is not None: args.append('order_by=%s' % ('None' if ob=='NONE' else repr(ob)))
    f = 'Tab.lookupRecords(%s)' % ', '.join(args)
    apply(eng, ['AddColumn','P','L%d'%i,{'type':'Any','isFormula':True,'formula':f}])
    probes.append((conds, None if ob=='NONE' else ('id' if ob is None else ob), sb, f))
  def check():
    td = eng.fetch_table('Tab'); rows = [dict(id=r, **{c: td.columns[c][i] for c in td.columns}) for i, r in enumerate(td.row_ids)]
    P = eng.fetch_table('P')
    for i, (conds, ob, sb, f) in enumerate(probes):
      def match(r):
        for c, cd in conds.items():
          v = r[c]
          if cd[0]=='eq':
            key = cd[1]
            if c == 'N': 
              if isinstance(key, str): ok = (v == key)
              else: ok = (not isinstance(v, str)) and v == (None if key is None else float(key)) if key is not None else v is None
            elif c == 'R': ok = (v == key)
            else: ok = (v == key)
            if not ok: return False
          else:
            k, me = cd[1], cd[2]
            if isinstance(v, str): return False
            lst = list(v) if v else []
            if not lst:
              if me is None or eval(me) != k: return False
            elif k not in lst: return False
        return True
      exp = [r['id'] for r in ref_sort([r for r in rows if match(r)], make_spec(ob, sb))]
      got = objtypes.encode_object(P.columns['L%d'%i][0])
      if got != ['r','Tab',exp]:
        return (f, 'got', got, 'exp', exp, rows)
    return None
  err = check()
  for step in range(8):
    if err: break
    rows = list(eng.tables['Tab'].row_ids); k = rng.choice(['add','upd','upd','rm','ms'])
    try:
      if k=='add': apply(eng, ['AddRecord','Tab',None,{c: rng.choice(KEYS[c]) for c in KEYS} | {'O': rng.choice([1,2,3])}])
      elif k=='upd' and rows:
        c = rng.choice(['N','S','CL','R','O']); apply(eng, ['UpdateRecord','Tab',rng.choice(rows),{c: rng.choice(KEYS.get(c,[1,2,3]))}])
      elif k=='rm' and rows: apply(eng, ['RemoveRecord','Tab',rng.choice(rows)])
      elif k=='ms' and rows: apply(eng, ['UpdateRecord','Tab',rng.choice(rows),{'manualSort': rng.choice([0.5, 1.5, 2.5, 10.0])}])
    except Exception as e: pass
    err = check()
  if err: bad+=1; print('seed', seed, str(err)[:600])
print('bad', bad)
