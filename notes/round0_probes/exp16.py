import sys, copy, random
sys.argv=['x']
from exp2 import *
def hist(seed, nsteps=30):
  rng = random.Random(seed)
  eng = engine.Engine(); eng.load_empty(); apply(eng, ['InitNewDoc'])
  h=[]
  for i in range(nsteps):
    ua = rand_action(rng, eng)
    if ua is None: continue
    ok=True
    try: out = apply(eng, copy.deepcopy(ua))
    except Exception as e: ok=False
    h.append((ua, ok))
  return h
h = [u for u,ok in hist(144)]
def replay(h):
  eng = engine.Engine(); eng.load_empty(); apply(eng, ['InitNewDoc'])
  for u in h:
    try: apply(eng, copy.deepcopy(u))
    except Exception as e: pass
  return eng
def fails(h):
  eng = replay(h)
  t = h[-1][1]
  return t in eng.tables and len(list(eng.tables[t].row_ids)) == 0 and any(u[0]=='BulkAddRecord' and u[1]==t for u in h)
print('fails', fails(h))
changed=True
while changed:
  changed=False
  for i in range(len(h)-1):
    h2 = h[:i]+h[i+1:]
    if fails(h2): h=h2; changed=True; break
print('--- minimal')
eng = engine.Engine(); eng.load_empty(); apply(eng, ['InitNewDoc'])
for u in h:
  b = snapshot(eng)
  try: apply(eng, copy.deepcopy(u)); print('OK  ', u)
  except Exception as e: print('FAIL', u, repr(e)[:150], 'unchanged=', norm(snapshot(eng))==norm(b))
  print('     rows', {t: list(eng.tables[t].row_ids) for t in eng.tables if not t.startswith('_grist')})
