import sys, logging, json, operator, types
sys.path.insert(0, '/tmp/shim'); sys.path.insert(0, '/repo/sandbox/grist')
logging.disable(logging.CRITICAL)
from predicate_formula import parse_predicate_formula
from hypothesis import given, settings, strategies as st, HealthCheck, seed
consts = st.sampled_from(['1','2','0','1.5','"a"','"b"','""','True','False','None'])
names = st.sampled_from(['$x','$y','rec.x','rec.s','user.Email','user.A.b','foo', 'choice.x'])
def binop(c): return st.tuples(c, st.sampled_from(['+','-','*','/','%']), c).map(lambda t: '(%s %s %s)' % t)
def cmpop(c): return st.tuples(c, st.sampled_from(['==','!=','<','<=','>','>=','is','is not','in','not in']), c).map(lambda t: '(%s %s %s)' % t)
def boolop(c): return st.tuples(st.sampled_from(['and','or']), st.lists(c, min_size=2, max_size=3)).map(lambda t: '(' + (' %s ' % t[0]).join(t[1]) + ')')
def notop(c): return c.map(lambda e: '(not %s)' % e)
def lst(c): return st.lists(c, max_size=3).map(lambda l: '[' + ', '.join(l) + ']')
def tup(c): return st.lists(c, min_size=2, max_size=3).map(lambda l: '(' + ', '.join(l) + ')')
def call(c): return st.tuples(st.sampled_from(['len','str','f']), st.lists(c, min_size=1, max_size=2)).map(lambda t: '%s(%s)' % (t[0], ', '.join(t[1])))
expr = st.recursive(st.one_of(consts, names), lambda c: st.one_of(binop(c), cmpop(c), boolop(c), notop(c), lst(c), tup(c), call(c)), max_leaves=8)
class NS(types.SimpleNamespace): pass
ENV = {'rec': NS(x=1, y='a', s='b'), 'user': NS(Email='a', A=NS(b=2)), 'foo': 3, 'choice': NS(x=1.5), 'len': len, 'str': str, 'f': lambda *a, **k: len(a)}
OPS = {'Add': operator.add, 'Sub': operator.sub, 'Mult': operator.mul, 'Div': operator.truediv, 'Mod': operator.mod, 'Eq': operator.eq, 'NotEq': operator.ne,
  'Lt': operator.lt, 'LtE': operator.le, 'Gt': operator.gt, 'GtE': operator.ge, 'Is': operator.is_, 'IsNot': operator.is_not, 'In': lambda a,b: a in b, 'NotIn': lambda a,b: a not in b}
def ev(t):
  k = t[0]
  if k == 'Const': return t[1]
  if k == 'Name': return ENV[t[1]]
  if k == 'Attr': return getattr(ev(t[1]), t[2])
  if k == 'List': return [ev(x) for x in t[1:]]
  if k == 'Not': return not ev(t[1])
  if k == 'And':
    r = True
    for x in t[1:]:
      r = ev(x)
      if not r: return r
    return r
  if k == 'Or':
    r = False
    for x in t[1:]:
      r = ev(x)
      if r: return r
    return r
  if k == 'Call':
    args = [ev(x) for x in t[2:] if not (isinstance(x, list) and x[:1] == ['keywords'])]
    return ev(t[1])(*args)
  if k == 'Comment': return ev(t[1])
  return OPS[k](ev(t[1]), ev(t[2]))
def norm(v):
  if isinstance(v, tuple): return [norm(x) for x in v]
  if isinstance(v, list): return [norm(x) for x in v]
  return v
bad = {}; n=[0,0]
@seed(2)
@settings(max_examples=20000, deadline=None, suppress_health_check=list(HealthCheck), database=None)
@given(expr)
def t(e):
  n[0]+=1
  try: tree = parse_predicate_formula(e)
  except SyntaxError as ex:
    bad.setdefault(('syntaxerr', str(ex)[:30]), e); return
  json.dumps(tree)
  py = e.replace('$', 'rec.')
  try: a = ('v', norm(eval(py, {}, dict(ENV))))
  except Exception as ex: a = ('x', type(ex).__name__)
  try: b = ('v', norm(ev(tree)))
  except Exception as ex: b = ('x', type(ex).__name__)
  if a[0]=='v': n[1]+=1
  if a != b and not (a[0]=='v' and b[0]=='v' and a[1]!=a[1]): bad.setdefault(('mismatch',), (e, a, b, tree))
t()
print(n)
for k, v in bad.items(): print(k, str(v)[:400])
