import sys, logging, math, bisect
sys.path.insert(0, '/tmp/shim'); sys.path.insert(0, '/repo/sandbox/grist')
logging.disable(logging.CRITICAL)
import relabeling
from relabeling import nextfloat, prevfloat
from sortedcontainers import SortedListWithKey
from hypothesis import given, settings, strategies as st, HealthCheck, assume

fin = st.floats(min_value=1e-280, max_value=1e15, allow_nan=False, allow_infinity=False)
@st.composite
def existing(draw):
  mode = draw(st.sampled_from(['sparse','dense','ints']))
  n = draw(st.integers(0, 12))
  if mode == 'ints': return [float(i+1) for i in range(n)]
  if mode == 'sparse': return sorted(set(draw(st.lists(fin.filter(lambda x: x>0), min_size=n, max_size=n))))
  base = draw(fin.filter(lambda x: x > 0)); out=[]; x=base
  for _ in range(n):
    out.append(x)
    for _ in range(draw(st.integers(1,3))): x = nextfloat(x)
  return out
@st.composite
def keys(draw, ex):
  n = draw(st.integers(1, 8)); ks=[]
  for _ in range(n):
    k = draw(st.sampled_from(['inf','existing','near','rand','zero','neginf']))
    if k=='inf': ks.append(float('inf'))
    elif k=='neginf': ks.append(float('-inf'))
    elif k=='existing' and ex: ks.append(draw(st.sampled_from(ex)))
    elif k=='near' and ex: ks.append(nextfloat(draw(st.sampled_from(ex))))
    elif k=="zero": ks.append(0.0)
    else: ks.append(draw(fin))
  return ks
@settings(max_examples=20000, deadline=None, suppress_health_check=list(HealthCheck))
@given(st.data())
def t(data):
  ex = data.draw(existing()); ks = data.draw(keys(ex))
  sl = SortedListWithKey(list(range(len(ex))), key=lambda i: ex[i])
  adj, newk = relabeling.prepare_inserts(sl, ks)
  newex = list(ex)
  for i, k in adj: newex[i] = k
  assert all(math.isfinite(x) for x in newex+list(newk)), (ex, ks, adj, newk)
  assert all(newex[i] < newex[i+1] for i in range(len(newex)-1)), ('order', ex, ks, adj)
  allv = newex + list(newk)
  assert len(set(allv)) == len(allv), ('distinct', ex, ks, adj, newk)
  # placement
  for k, nk in zip(ks, newk):
    idx = bisect.bisect_left(ex, k)
    lo = newex[idx-1] if idx>0 else -math.inf
    hi = newex[idx] if idx<len(ex) else math.inf
    assert lo < nk < hi, ('place', ex, ks, adj, newk)
  # order among new
  order = sorted(range(len(ks)), key=lambda i:(ks[i], i))
  assert all(newk[order[i]] < newk[order[i+1]] for i in range(len(order)-1)), ('neworder', ex, ks, newk)
try:
  t(); print('C20 ok')
except Exception as e:
  import traceback; traceback.print_exc()
