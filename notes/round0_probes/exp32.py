import sys, copy, random
sys.argv=['x']
from exp2 import *
import formula_prompt
bad=0; n=0; exc={}
import time
T0=time.time()
for seed in range(6):
  rng = random.Random(seed)
  eng = engine.Engine(); eng.load_empty(); apply(eng, ['InitNewDoc'])
  for i in range(20):
    ua = rand_action(rng, eng)
    if ua is None: continue
    try: apply(eng, copy.deepcopy(ua))
    except Exception: pass
  # add a side-effect formula
  ts = [t for t in eng.tables if not t.startswith('_grist')]
  if ts:
    t = ts[0]
    try:
      apply(eng, ['AddTable', 'Side', [{'id':'K','type':'Int','isFormula':False}]])
      apply(eng, ['AddColumn', t, 'SE', {'type':'Any','isFormula':True,'formula':'Side.lookupOrAddDerived(K=$id % 3).id'}])
    except Exception as e: pass
  before = snapshot(eng)
  calls = []
  for t in ts:
    cs = [c for c in eng.tables[t].all_columns if not c.startswith('#')]
    rows = list(eng.tables[t].row_ids) or [1]
    for c in cs[:6]:
      calls.append(lambda t=t,c=c: eng.get_formula_error(t, c, rng.choice(rows)))
      calls.append(lambda t=t,c=c: formula_prompt.evaluate_formula(eng, t, c, rng.choice(rows)))
      calls.append(lambda t=t,c=c: formula_prompt.get_formula_prompt(eng, t, c))
      calls.append(lambda t=t,c=c: eng.autocomplete(rng.choice(['$', '$'+c[:1], 'rec.', t+'.', t+'.lookupRecords(', 'SU', '$%s.' % c]), t, c, rng.choice(rows + ['new']), {'Email':'a@b', 'Name':'x', 'UserID': 1, 'Access': 'owners', 'Origin': None, 'LinkKey': {}, 'UserRef': 'u', 'SessionID': 's', 'IsLoggedIn': True, 'ShareRef': None}))
    calls.append(lambda t=t: eng.fetch_table(t, query={cs[0]: [1, 'a', [1,2]]} if cs else None))
    calls.append(lambda t=t: eng.find_col_from_values([1,2,'a','foo'], 3, rng.choice([None, t])))
  calls.append(lambda: eng.fetch_meta_tables())
  for f in calls:
    n+=1
    try: f()
    except Exception as e: exc[type(e).__name__] = exc.get(type(e).__name__, 0) + 1
    if norm(snapshot(eng)) != norm(before):
      bad+=1; print('seed', seed, 'CHANGED by call', n); before = snapshot(eng)
  out = apply(eng, ['Calculate'])
  if out.stored: bad+=1; print('seed', seed, 'Calculate emitted', [actions.get_action_repr(a) for a in out.stored][:3])
print("bad", bad, "calls", n, exc, "secs", time.time()-T0)
