import sys, io, csv, os, tempfile, logging
sys.path.insert(0, '/tmp/shim'); sys.path.insert(0, '/repo/sandbox/grist')
logging.disable(logging.CRITICAL)
from imports import import_csv
def run(grid, headers, delim=',', quote='"', quoting=csv.QUOTE_MINIMAL):
  fd, p = tempfile.mkstemp(suffix='.csv')
  with os.fdopen(fd, 'w', newline='', encoding='utf-8') as f:
    w = csv.writer(f, delimiter=delim, quotechar=quote, quoting=quoting, lineterminator='\n')
    for r in grid: w.writerow(r)
  try:
    opts, tables = import_csv.parse_file(p, {'delimiter': delim, 'quotechar': quote, 'include_col_names_as_headers': headers, 'encoding':'utf-8'})
  finally: os.unlink(p)
  return tables
# wide row after 100
grid = [['h1','h2']] + [['a%d'%i,'b%d'%i] for i in range(120)]
grid[110] = ['x','y','EXTRA']
t = run(grid, True)
print([c['id'] for c in t[0]['column_metadata']], [len(d) for d in t[0]['table_data']], 'EXTRA' in str(t[0]['table_data']))
grid = [['a%d'%i,'b%d'%i] for i in range(120)]
grid[110] = ['x','y','EXTRA']
t = run(grid, False)
print([c['id'] for c in t[0]['column_metadata']], [len(d) for d in t[0]['table_data']], 'EXTRA' in str(t[0]['table_data']))
# vertical tab
grid = [['aa','bb'],['c\x0bd','e'],['f','g']]
t = run(grid, False); print(t[0]['table_data'])
grid = [['aa','bb'],['c\x85d','e'],['f','g']]
t = run(grid, False); print(t[0]['table_data'])
grid = [['aa','bb'],['c\rd','e\nz'],['f','g']]
t = run(grid, False); print(t[0]['table_data'])
print('--- QUOTE_ALL')
for ch in ['\x0b','\x0c','\x1c','\x85',' ','\r','\n','\r\n','\x00', '"', ',']:
  grid = [['aa','bb'],['c'+ch+'d','e'],['f','g']]
  try:
    t = run(grid, False, quoting=csv.QUOTE_ALL); print(repr(ch), t[0]['table_data'])
  except Exception as e: print(repr(ch), 'EXC', repr(e))
