import sys, copy, random
sys.argv=['x']
from exp2 import *
from exp11 import canon
def model(rows, require, col_values, options):
  """rows: {id: {'K':..,'V':..,'W':..}} ; returns ('err',) or (result, newrows). next id = max+1"""
  on_many = options.get('on_many', 'first'); upd = options.get('update', True); add = options.get('add', True)
  if on_many not in ('first','none','all'): return ('err',)
  if not require and not options.get('allow_empty_require', False): return ('err',)
  result = {'recordIds': [], 'addRecordIds': [], 'updateRecordIds': []}
  if not require and not col_values: return (result, rows)
  lens = {len(v) for v in list(require.values()) + list(col_values.values())}
  if len(lens) != 1: return ('err',)
  n = lens.pop()
  keys = list(zip(*require.values())) if require else []
  if require and len(set(keys)) < n: return ('err',)
  rows = copy.deepcopy(rows); orig = copy.deepcopy(rows)
  result['recordIds'] = [[] for _ in range(n)]
  adds = []; updates = []
  for i in range(n):
    req = {k: v[i] for k, v in require.items()}
    m = [rid for rid in sorted(orig) if all(orig[rid][k] == v for k, v in req.items())]
    if not m and add:
      vals = dict(req); vals.update({k: v[i] for k, v in col_values.items()}); adds.append((i, vals))
    if m and upd:
      if len(m) > 1:
        if on_many == 'first': m = m[:1]
        elif on_many == 'none': continue
      for rid in m: updates.append((rid, {k: v[i] for k, v in col_values.items()}))
      result['recordIds'][i] = m; result['updateRecordIds'].append(m)
  nid = max(rows) + 1 if rows else 1
  for i, vals in adds:
    rid = nid; nid += 1
    rows[rid] = {'K': 0, 'V': '', 'W': 0}; rows[rid].update(vals)
    result['recordIds'][i] = [rid]; result['addRecordIds'].append(rid)
  for rid, vals in updates: rows[rid].update(vals)
  return (result, rows)
bad = 0; stats = {'err':0,'ok':0,'multi':0,'added':0}
for seed in range(600):
  rng = random.Random(seed)
  eng = engine.Engine(); eng.load_empty(); apply(eng, ['InitNewDoc'])
  apply(eng, ['AddTable','Tab',[{'id':'K','type':'Int','isFormula':False},{'id':'V','type':'Text','isFormula':False},{'id':'W','type':'Int','isFormula':False}]])
  n = rng.randint(0,5)
  rows = {}
  if n:
    ks = [rng.choice([1,2,3]) for _ in range(n)]; ws = [rng.choice([1,2]) for _ in range(n)]; vs = [rng.choice(['a','b']) for _ in range(n)]
    apply(eng, ['BulkAddRecord','Tab',[None]*n,{'K':ks,'V':vs,'W':ws}])
    rows = {i+1: {'K':ks[i],'V':vs[i],'W':ws[i]} for i in range(n)}
  m = rng.randint(0,3)
  reqcols = rng.sample(['K','W'], rng.randint(0,2)); valcols = rng.sample(['V','W','K'], rng.randint(0,2))
  require = {c: [rng.choice([1,2,3,4]) for _ in range(m)] for c in reqcols}
  col_values = {c: [(rng.choice(['x','y']) if c=='V' else rng.choice([5,6])) for _ in range(m + (1 if rng.random()<0.1 else 0))] for c in valcols}
  options = {}
  if rng.random()<0.5: options['on_many'] = rng.choice(['first','none','all','bogus'])
  if rng.random()<0.3: options['update'] = rng.choice([True, False])
  if rng.random()<0.3: options['add'] = rng.choice([True, False])
  if rng.random()<0.3: options['allow_empty_require'] = True
  exp = model(rows, require, col_values, options)
  before = snapshot(eng)
  try:
    out = apply(eng, ['BulkAddOrUpdateRecord','Tab',copy.deepcopy(require),copy.deepcopy(col_values),dict(options)]); got = ('ok', out.retValues[0])
  except Exception as e:
    got = ('err', repr(e)[:80])
  if exp[0] == 'err':
    stats['err']+=1
    if got[0] != 'err' or norm(snapshot(eng)) != norm(before): bad+=1; print('seed', seed, 'expected rejection', require, col_values, options, got)
    continue
  if got[0] == 'err': bad+=1; print('seed', seed, 'unexpected error', require, col_values, options, got); continue
  stats['ok']+=1
  td = eng.fetch_table('Tab')
  erows = {r: {c: td.columns[c][i] for c in 'KVW'} for i, r in enumerate(td.row_ids)}
  if got[1] != exp[0] or canon(erows) != canon(exp[1]) and {k: canon(v) for k,v in erows.items()} != {k: canon(v) for k,v in exp[1].items()}:
    bad+=1; print('seed', seed, require, col_values, options, '\n  got', got[1], erows, '\n  exp', exp[0], exp[1])
  if exp[0]['addRecordIds']: stats['added']+=1
  if any(len(x)>1 for x in exp[0]['updateRecordIds']): stats['multi']+=1
print('bad', bad, stats)
