import sys
sys.argv=['x']
from exp2 import *
eng = engine.Engine(); eng.load_empty()
apply(eng, ['InitNewDoc'])
apply(eng, ['AddTable', 'T', [{'id': 'A', 'type': 'Int', 'isFormula': False}]])
apply(eng, ['BulkAddRecord', 'T', [None]*3, {'A': [1,2,3]}])
print(snapshot(eng)['T'])
out = apply(eng, ['AddColumn', 'T', 'S', {'type': 'RefList:T', 'isFormula': False}])
print(snapshot(eng)['T'])
for a in out.get_repr()['stored']: print(a)
out = apply(eng, ['AddColumn', 'T', 'S2', {'type': 'Ref:T', 'isFormula': False}])
print(snapshot(eng)['T'])
