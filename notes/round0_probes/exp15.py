import sys, copy, random
sys.argv=['x']
from exp2 import *
def hist(seed, nsteps=30):
  rng = random.Random(seed)
  eng = engine.Engine(); eng.load_empty(); apply(eng, ['InitNewDoc'])
  h=[]
  for i in range(nsteps):
    ua = rand_action(rng, eng)
    if ua is None: continue
    try: out = apply(eng, copy.deepcopy(ua)); h.append(ua)
    except Exception: continue
    t = [t for t in eng.tables if t=='X_y']
    if t and not list(eng.tables['X_y'].row_ids) and any(u[0]=='BulkAddRecord' and u[1] in ('X_y',) for u in h):
      return h
  return h
h = hist(144)
for u in h: print(u)
def replay(h):
  eng = engine.Engine(); eng.load_empty(); apply(eng, ['InitNewDoc'])
  for u in h: apply(eng, copy.deepcopy(u))
  return eng
# ddmin-ish: drop actions one at a time while failure persists
def fails(h):
  try: eng = replay(h)
  except Exception: return False
  last = h[-1]
  t = last[1]
  return t in eng.tables and len(list(eng.tables[t].row_ids)) == 0 and any(u[0]=='BulkAddRecord' and u[1]==t for u in h)
print('fails', fails(h))
changed=True
while changed:
  changed=False
  for i in range(len(h)-1):
    h2 = h[:i]+h[i+1:]
    if fails(h2): h=h2; changed=True; break
print('--- minimal')
for u in h: print(u)
