import sys, copy, random, itertools
sys.argv=['x']
from exp2 import *
def meta(eng):
  T = eng.fetch_table('_grist_Tables'); C = eng.fetch_table('_grist_Tables_column')
  tabs = {r: {k: T.columns[k][i] for k in T.columns} for i, r in enumerate(T.row_ids)}
  cols = {r: {k: C.columns[k][i] for k in C.columns} for i, r in enumerate(C.row_ids)}
  return tabs, cols
def check_summaries(eng):
  tabs, cols = meta(eng); errs=[]
  for tref, t in tabs.items():
    if not t['summarySourceTable']: continue
    src = tabs[t['summarySourceTable']]['tableId']
    gcols = [(c['colId'], cols[c['summarySourceCol']]) for c in cols.values() if c['parentId']==tref and c['summarySourceCol']]
    S = eng.fetch_table(t['tableId']); D = eng.fetch_table(src)
    exp = {}
    for i, rid in enumerate(D.row_ids):
      keysets=[]
      for gname, sc in gcols:
        v = D.columns[sc['colId']][i]
        ty = sc['type'].split(':')[0]
        if ty in ('ChoiceList','RefList'):
          if isinstance(v, str): keysets=None; break
          v = v or ()
          try: ks = set(v)
          except TypeError: keysets=None; break
          if not ks: ks = {''} if ty=='ChoiceList' else {0}
          keysets.append(sorted(ks, key=repr))
        else: keysets.append([v])
      if keysets is None: continue
      for k in itertools.product(*keysets): exp.setdefault(k, []).append(rid)
    got = {}
    for i, rid in enumerate(S.row_ids):
      k = tuple(S.columns[g][i] for g, _ in gcols)
      if k in got: errs.append((t['tableId'], 'dupkey', k))
      got[k] = list(S.columns['group'][i] or [])
    e2 = {k: sorted(v) for k, v in exp.items()}
    if e2 != got: errs.append((t['tableId'], 'exp', e2, 'got', got))
  return errs
def vals(rng, ty):
  if ty=='ChoiceList': return rng.choice([None, ['L','a'], ['L','a','b'], ['L','b','a','a'], 'alt', ['L']])
  if ty=='Int': return rng.choice([0,1,2,'x',None])
  if ty=='Text': return rng.choice(['','a','b'])
  if ty=='Bool': return rng.choice([True, False])
  if ty.startswith('RefList'): return rng.choice([None, ['L',1], ['L',1,2], ['L',2,1]])
  if ty.startswith('Ref'): return rng.choice([0,1,2])
bad=0
for seed in range(120):
  rng = random.Random(seed)
  eng = engine.Engine(); eng.load_empty(); apply(eng, ['InitNewDoc'])
  types = [rng.choice(['ChoiceList','Int','Text','Bool','Ref:T','RefList:T']) for _ in range(3)]
  apply(eng, ['AddTable','T',[{'id':'A','type':types[0],'isFormula':False},{'id':'B','type':types[1],'isFormula':False},{'id':'C','type':types[2],'isFormula':False}]])
  n = rng.randint(0,5)
  if n: apply(eng, ['BulkAddRecord','T',[None]*n,{'A':[vals(rng,types[0]) for _ in range(n)],'B':[vals(rng,types[1]) for _ in range(n)],'C':[vals(rng,types[2]) for _ in range(n)]}])
  g = rng.sample([2,3,4], rng.randint(0,2))
  apply(eng, ['CreateViewSection', 1, 0, 'record', sorted(g), None])
  for step in range(12):
    rows = list(eng.tables['T'].row_ids)
    k = rng.choice(['add','upd','upd','rm','regroup','type'])
    try:
      if k=='add': apply(eng, ['AddRecord','T',None,{'A':vals(rng,types[0]),'B':vals(rng,types[1]),'C':vals(rng,types[2])}])
      elif k=='upd' and rows:
        c = rng.randrange(3); apply(eng, ['UpdateRecord','T',rng.choice(rows),{'ABC'[c]: vals(rng,types[c])}])
      elif k=='rm' and rows: apply(eng, ['RemoveRecord','T',rng.choice(rows)])
      elif k=='regroup':
        tabs, cols = meta(eng)
        secs = eng.fetch_table('_grist_Views_section')
        sids = [sid for i, sid in enumerate(secs.row_ids) if tabs.get(secs.columns['tableRef'][i],{}).get('summarySourceTable') and secs.columns['parentId'][i]]
        if sids: apply(eng, ['UpdateSummaryViewSection', sids[0], sorted(rng.sample([2,3,4], rng.randint(0,3)))])
      elif k=='type':
        c = rng.randrange(3); nt = rng.choice(['ChoiceList','Int','Text','Bool']); 
        apply(eng, ['ModifyColumn','T','ABC'[c],{'type':nt}]); types[c]=nt
    except Exception as e:
      pass
    errs = check_summaries(eng)
    if errs: bad+=1; print('seed', seed, 'step', step, k, types, str(errs)[:400]); break
print('bad', bad)
