import sys, logging, json
sys.path.insert(0, '/tmp/shim'); sys.path.insert(0, '/repo/sandbox/grist')
logging.disable(logging.CRITICAL)
from imports import import_json
from hypothesis import given, settings, strategies as st, HealthCheck, seed
keys = st.sampled_from(['a','b','c','k','x'])
scal = st.one_of(st.none(), st.booleans(), st.integers(-3,3), st.floats(allow_nan=False, allow_infinity=False, width=16), st.text(alphabet='xyz', max_size=2))
val = st.recursive(scal, lambda c: st.one_of(st.lists(c, max_size=3), st.dictionaries(keys, c, max_size=3)), max_leaves=10)
top = st.one_of(st.lists(val, max_size=4), st.dictionaries(keys, val, max_size=3))
NAME='m'
def check(data):
  out = import_json.dumps(data, NAME)
  tables = {t['table_name']: t for t in out['tables']}
  T = {}
  for name, t in tables.items():
    cols = [c['id'] for c in t['column_metadata']]
    lens = {len(d) for d in t['table_data']}
    assert len(lens) <= 1, ('unequal', name)
    T[name] = {c: d for c, d in zip(cols, t['table_data'])}
    T[name]['__n'] = lens.pop() if lens else None
  used = {}   # table -> set(rowidx) claimed
  nscal = [0]
  def claim(tn, r):
    assert r not in used.setdefault(tn, set()), ('row claimed twice', tn, r); used[tn].add(r)
  def parent_col(tn, ptn):
    # first_available_key(columns, ptn) with columns excluding itself: find col ptn, ptn2.. that holds refs; take the LAST candidate present
    cands = [ptn] + ['%s%d' % (ptn, i) for i in range(2, 8)]
    present = [c for c in cands if c in T[tn]]
    return present[-1] if present else None
  def match_row(tn, r, value):
    """row r (1-based) of table tn must represent `value`."""
    claim(tn, r)
    d = value if isinstance(value, dict) else {'': value}
    for k, v in d.items():
      sub = tn + '_' + k
      if isinstance(v, dict):
        ref = T[tn][k][r-1]; assert isinstance(ref, int) and ref >= 1, ('noref', tn, k)
        match_row(sub, ref, v)
      elif isinstance(v, list):
        if not v: continue
        pc = parent_col(sub, tn); assert pc, ('no parent col', sub, tn)
        rows = [i+1 for i, p in enumerate(T[sub][pc]) if p == r and (i+1) not in used.get(sub, set())]
        # elements must be matched in order among rows pointing to r
        assert len(rows) >= len(v), ('too few child rows', sub, r, rows, v)
        for elem, rr in zip(v, rows): match_row(sub, rr, elem)
      else:
        nscal[0] += 1
        got = T[tn].get(k, [None]*r)[r-1] if k in T[tn] else None
        assert got == v and type(got) == type(v) or (v is None and got is None), ('scalar', tn, k, r, v, got)
  items = data if isinstance(data, list) else [data]
  if not items: return 0
  if NAME not in T:
    assert all(False for _ in items) or True
  for i, it in enumerate(items): match_row(NAME, i+1, it)
  # exactly once: every row claimed
  for tn, t in T.items():
    n = t['__n']
    if n is not None: assert used.get(tn, set()) == set(range(1, n+1)), ('unclaimed rows', tn, n, used.get(tn))
  return nscal[0]
bad = {}
@seed(3)
@settings(max_examples=5000, deadline=None, suppress_health_check=list(HealthCheck), database=None)
@given(top)
def t(data):
  try: check(data)
  except AssertionError as e: bad.setdefault(str(e.args[0][0] if e.args and isinstance(e.args[0], tuple) else e)[:40], (data, e.args))
  except Exception as e: bad.setdefault('EXC '+type(e).__name__, (data, repr(e)))
t()
for k, v in bad.items(): print(k, '\n   ', str(v)[:500])
print(len(bad))
