import sys
sys.argv=['x']
from exp2 import *
eng = engine.Engine(); eng.load_empty()
apply(eng, ['InitNewDoc'])
apply(eng, ['AddTable', 'T', [{'id': 'A', 'type': 'Int', 'isFormula': False}]])
apply(eng, ['BulkAddRecord', 'T', [None, None], {'A': [1, 2]}])
for ua in (['BulkAddRecord','T',[0],{'A':[5]}], ['BulkAddRecord','T',[7,7],{'A':[5,6]}], ['BulkAddRecord','T',[2],{'A':[5]}], ['BulkAddRecord','T',[1000001],{'A':[5]}], ['BulkAddRecord','T',[10, None, -1, 4],{'A':[5,6,7,8]}], ['ReplaceTableData','T',[3,3],{'A':[1,2]}], ['AddRecord','T',1.5,{'A':1}], ['AddRecord','T',True,{'A':1}]):
  before = snapshot(eng)
  try:
    out = apply(eng, ua); print('accepted', ua, out.retValues, snapshot(eng)['T'])
  except Exception as e:
    print('raised', ua, repr(e)[:100], 'unchanged', norm(snapshot(eng))==norm(before))
