import sys
sys.argv=['x']
from exp2 import *
import random
def run_hist(seed, nsteps=25):
  rng = random.Random(seed)
  eng = engine.Engine(); eng.load_empty()
  apply(eng, ['InitNewDoc'])
  hist=[]
  for i in range(nsteps):
    ua = rand_action(rng, eng)
    if ua is None: continue
    try:
      import copy
      out = apply(eng, copy.deepcopy(ua))
    except Exception as e:
      continue
    hist.append(ua)
    # mimic original: undo+redo each step
    undo = [actions.get_action_repr(a) for a in out.undo]
    stored = [actions.get_action_repr(a) for a in out.stored]
    apply(eng, ['ApplyUndoActions', undo]); apply(eng, ['ApplyDocActions', stored])
  return hist
h = run_hist(59)
for u in h: print(u)
