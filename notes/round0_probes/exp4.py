import sys
sys.argv=['x']
from exp2 import *
eng = engine.Engine(); eng.load_empty()
apply(eng, ['InitNewDoc'])
apply(eng, ['AddTable', 'T', [{'id': 'A', 'type': 'Text', 'isFormula': False},{'id': 'Z', 'type': 'Date', 'isFormula': False}]])
apply(eng, ['CreateViewSection', 1, 0, 'record', [2,3], None])
apply(eng, ['BulkAddRecord', 'T', [None, None, None], {'Z': [['L', 1, 2], 0, 2], 'A': ['x','y','z']}])
before = snapshot(eng)
out = apply(eng, ['ModifyColumn', 'T', 'Z', {'type': 'Int'}])
after = snapshot(eng)
for a in out.stored: print('S', actions.get_action_repr(a))
for a in out.undo: print('U', actions.get_action_repr(a))
apply(eng, ['ApplyUndoActions', [actions.get_action_repr(a) for a in out.undo]])
print('undo ok', norm(snapshot(eng))==norm(before))
o2 = apply(eng, ['ApplyDocActions', [actions.get_action_repr(a) for a in out.stored]])
s = snapshot(eng)
print('redo ok', norm(s)==norm(after))
for t in s:
  if norm(s[t])!=norm(after[t]): print(t,'\n got ', s[t], '\n want', after[t])
for a in o2.stored: print('S2', actions.get_action_repr(a))
