import sys, copy
sys.argv=['x']
from exp2 import *
from exp11 import canon
import random, math
DEFAULTS = {'Any':None,'Attachments':None,'Blob':None,'Bool':False,'Choice':'','ChoiceList':None,'Date':None,'DateTime':None,'Id':0,'Int':0,'ManualSortPos':float('inf'),'Numeric':0,'PositionNumber':float('inf'),'Ref':0,'RefList':None,'Text':''}
def dflt(t): return DEFAULTS.get(t.split(':')[0], None)
class Store:
  def __init__(s): s.t = {}   # table -> {'cols': {col: type}, 'rows': {id: {col: v}}}
  def apply(s, a):
    getattr(s, a[0])(*a[1:])
  def AddTable(s, tid, cols):
    assert tid not in s.t, 'table exists'; s.t[tid] = {'cols': {c['id']: c['type'] for c in cols}, 'rows': {}}
  def RemoveTable(s, tid): del s.t[tid]
  def RenameTable(s, a, b):
    assert b not in s.t; s.t[b] = s.t.pop(a)
  def AddColumn(s, tid, cid, info):
    T = s.t[tid]; assert cid not in T['cols'], 'col exists'; T['cols'][cid] = info['type']
    for r in T['rows'].values(): r[cid] = dflt(info['type'])
  def RemoveColumn(s, tid, cid):
    T = s.t[tid]; del T['cols'][cid]
    for r in T['rows'].values(): del r[cid]
  def RenameColumn(s, tid, a, b):
    T = s.t[tid]; assert b not in T['cols']; T['cols'] = {(b if k==a else k): v for k,v in T['cols'].items()}
    for r in T['rows'].values(): r[b] = r.pop(a)
  def ModifyColumn(s, tid, cid, info):
    T = s.t[tid]; assert cid in T['cols']
    if 'type' in info: T['cols'][cid] = info['type']
  def BulkAddRecord(s, tid, ids, cols):
    T = s.t[tid]
    for c in cols: assert c in T['cols'], ('unknown col', tid, c)
    for i, rid in enumerate(ids):
      assert rid not in T['rows'], ('row exists', tid, rid)
      assert isinstance(rid, int) and rid > 0, ('bad id', rid)
      T['rows'][rid] = {c: (cols[c][i] if c in cols else dflt(t)) for c, t in T['cols'].items()}
  def AddRecord(s, tid, rid, cols): s.BulkAddRecord(tid, [rid], {k:[v] for k,v in cols.items()})
  def BulkRemoveRecord(s, tid, ids):
    T = s.t[tid]
    for rid in ids: T['rows'].pop(rid, None)
  def RemoveRecord(s, tid, rid): s.BulkRemoveRecord(tid, [rid])
  def BulkUpdateRecord(s, tid, ids, cols):
    T = s.t[tid]
    for c in cols: assert c in T['cols'], ('unknown col', tid, c)
    for i, rid in enumerate(ids):
      assert rid in T['rows'], ('no row', tid, rid)
      for c in cols: T['rows'][rid][c] = cols[c][i]
  def UpdateRecord(s, tid, rid, cols): s.BulkUpdateRecord(tid, [rid], {k:[v] for k,v in cols.items()})
  def ReplaceTableData(s, tid, ids, cols):
    s.t[tid]['rows'] = {}; s.BulkAddRecord(tid, ids, cols)
  def view(s):
    return {tid: {'id': sorted(T['rows']), **{c: {rid: canon(T['rows'][rid][c]) for rid in sorted(T['rows'])} for c in T['cols']}} for tid, T in s.t.items()}
def eview(eng):
  out = {}
  for t in eng.tables:
    rep = actions.get_action_repr(eng.fetch_table(t))
    out[t] = {'id': list(rep[2]), **{c: dict(zip(rep[2], canon(v))) for c, v in rep[3].items()}}
  return out
def run(seed, nsteps=30):
  rng = random.Random(seed)
  eng = engine.Engine(); eng.load_empty(); st = Store()
  out = apply(eng, ['InitNewDoc'])
  for a in out.get_repr()['stored']: st.apply(a)
  for i in range(nsteps):
    ua = rand_action(rng, eng)
    if ua is None: continue
    try: out = apply(eng, copy.deepcopy(ua))
    except Exception: continue
    for a in out.get_repr()['stored']:
      try: st.apply(a)
      except AssertionError as e:
        print('seed', seed, 'STORE REJECT', ua, a, e); return 1
    a, b = st.view(), eview(eng)
    if a != b:
      print('seed', seed, 'MISMATCH after', ua)
      for t in set(a)|set(b):
        if a.get(t) != b.get(t):
          for c in set(a.get(t,{}))|set(b.get(t,{})):
            if a.get(t,{}).get(c) != b.get(t,{}).get(c): print('  ', t, c, 'store', a.get(t,{}).get(c), 'engine', b.get(t,{}).get(c))
      return 1
  return 0
print(sum(run(s) for s in range(150)))
