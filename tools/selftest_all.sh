#!/bin/sh
# tools/selftest_all.sh [ID ...] : run every mutant of the given properties (default: all), print a table and
# record results in mutants/RESULTS.json (used by tools/design_sync.py).
cd "$(dirname "$0")/.."
IDS="$*"; [ -z "$IDS" ] && IDS="$(ls mutants | grep '^C')"
for id in $IDS; do
  for m in mutants/$id/*.diff; do
    [ -f "$m" ] || continue
    line="$(./selftest "$id" "$m" 2>&1 | grep "^SELFTEST" | tail -1)"
    echo "$line"
    python3 - "$id/$(basename "$m")" "$line" <<'PY'
import json, os, sys
p = 'mutants/RESULTS.json'
r = json.load(open(p)) if os.path.exists(p) else {}
line = sys.argv[2]
r[sys.argv[1]] = 'CAUGHT' if line.endswith('CAUGHT') else ('MISSED' if 'MISSED' in line else 'patch does not apply')
json.dump(r, open(p, 'w'), indent=1, sort_keys=True)
PY
  done
done
