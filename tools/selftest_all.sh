#!/bin/sh
# tools/selftest_all.sh [ID ...] : run every mutant of the given properties (default: all) and print a table.
cd "$(dirname "$0")/.."
IDS="$*"; [ -z "$IDS" ] && IDS="$(ls mutants)"
for id in $IDS; do
  for m in mutants/$id/*.diff; do
    [ -f "$m" ] || continue
    ./selftest "$id" "$m" 2>&1 | grep "^SELFTEST"
  done
done
