#!/bin/sh
# tools/all_against.sh <patch.diff> <outfile> [check args...]: apply a patch to a scratch copy of the engine sources and
# run EVERY registered check against it (quick tier unless args say otherwise). Used for benign changes: every check
# must stay quiet (rc 0) on code where the properties still hold.
HERE="$(cd "$(dirname "$0")/.." && pwd)"
PATCH="$1"; OUT="$2"; shift 2
case "$PATCH" in /*) ;; *) PATCH="$HERE/$PATCH" ;; esac
SCR="$(mktemp -d /tmp/gv-ben-XXXXXX)"
trap 'rm -rf "$SCR"' EXIT
mkdir -p "$SCR/app/common" "$SCR/sandbox"
rsync -a --exclude '__pycache__' /repo/sandbox/ "$SCR/sandbox/"
cp /repo/app/common/schema.ts /repo/app/common/gristTypes.ts "$SCR/app/common/"
(cd "$SCR" && patch -p1 -s < "$PATCH") || { echo "patch failed"; exit 2; }
: > "$OUT"
cd "$HERE"
for id in $(python3 -c "import json; print(' '.join(c['property_id'] for c in json.load(open('MANIFEST.json'))['checks']))"); do
  VERIF_REPO="$SCR" ./check $id --no-evidence "$@" > "$SCR/log.txt" 2>&1; rc=$?
  echo "$id rc=$rc $(grep -v '^KNOWN' "$SCR/log.txt" | grep '^violation' | sed 's/^violation \([^ ]*\):.*/\1/' | sort -u | head -3 | tr '\n' ' ')" >> "$OUT"
  if [ $rc -ne 0 ]; then grep -v '^KNOWN' "$SCR/log.txt" | tail -6 | cut -c1-600 >> "$OUT.detail"; fi
done
echo "$(basename "$PATCH"): $(grep -c 'rc=0' "$OUT") quiet, $(grep -vc 'rc=0' "$OUT") not quiet"
