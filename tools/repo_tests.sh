#!/bin/sh
# Runs (a) the pinned baseline command and (b) the full sandbox suite with the harness shim on PYTHONPATH.
# Usage: tools/repo_tests.sh [outdir]
OUT="${1:-/tmp/gv-repo-tests}"; mkdir -p "$OUT"
cd /repo
/venv/bin/python -m pytest -ra -q -p no:cacheprovider --timeout=900 --continue-on-collection-errors -x -q sandbox/grist/test_relabeling.py >/dev/null 2>&1
/venv/bin/python -m pytest -q -p no:cacheprovider --timeout=900 --continue-on-collection-errors --junitxml="$OUT/base.xml" > "$OUT/base.log" 2>&1
PYTHONPATH=/verif/harness/shims /venv/bin/python -m pytest -q -p no:cacheprovider --timeout=900 --continue-on-collection-errors --junitxml="$OUT/shim.xml" sandbox/grist > "$OUT/shim.log" 2>&1
/venv/bin/python - "$OUT" <<'PY'
import sys, json, xml.etree.ElementTree as ET
out = sys.argv[1]
base = json.load(open('/root/.vp/BASELINE.json'))['stable_pass']
def passed(path):
  ok = set()
  for tc in ET.parse(path).getroot().iter('testcase'):
    if not any(ch.tag in ('failure', 'error', 'skipped') for ch in tc):
      ok.add('%s::%s' % (tc.get('classname'), tc.get('name')))
  return ok
b = passed(out + '/base.xml')
missing = [t for t in base if t not in b]
print('baseline: %d/%d stable tests pass; missing: %s' % (len(base) - len(missing), len(base), missing[:5]))
s = passed(out + '/shim.xml')
print('with shim: %d tests pass' % len(s))
open(out + '/shim_pass.txt', 'w').write('\n'.join(sorted(s)))
PY
