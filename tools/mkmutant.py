#!/usr/bin/env python3
"""tools/mkmutant.py <ID> <name> <repo-relative-file> <<< JSON {"old": "...", "new": "..."}
Creates mutants/<ID>/<name>.diff (unified, -p1) replacing exactly one occurrence of old by new."""
import sys, json, os, difflib
pid, name, rel = sys.argv[1:4]
spec = json.load(sys.stdin)
src = open(os.path.join('/repo', rel)).read()
assert src.count(spec['old']) == 1, 'old text occurs %d times' % src.count(spec['old'])
dst = src.replace(spec['old'], spec['new'])
diff = difflib.unified_diff(src.splitlines(True), dst.splitlines(True), 'a/' + rel, 'b/' + rel)
os.makedirs('/verif/mutants/%s' % pid, exist_ok=True)
open('/verif/mutants/%s/%s.diff' % (pid, name), 'w').write(''.join(diff))
print('wrote mutants/%s/%s.diff' % (pid, name))
