#!/bin/sh
# tools/seed_accept.sh <ID> <i> [check ids...]
# Confirms a seeded breaking change produced by a fresh sub-agent under /tmp/seed/<ID>/_out and archives it as
# seeded/<ID>-<i>/{patch.diff,demo.py,meta.json}; then runs the given checks (default: <ID>) against it.
cd "$(dirname "$0")/.."
# usage: seed_accept.sh <worktree-name under /tmp/seed> <i> [property id (default: worktree name)] [extra check ids...]
WTN="$1"; I="$2"; ID="${3:-$1}"; [ $# -ge 3 ] && shift 3 || shift 2; CHECKS="$ID $*"
SRC="/tmp/seed/$WTN/_out"
N=1; while [ -e "seeded/$ID-$N" ]; do N=$((N+1)); done
DST="seeded/$ID-$N"
mkdir -p "$DST"
cp "$SRC/change$I.diff" "$DST/patch.diff"; cp "$SRC/demo$I.py" "$DST/demo.py"; cp "$SRC/meta$I.json" "$DST/meta.src.json"
WT="/tmp/seedval/$ID-$N"; rm -rf "$WT"; git -C /repo worktree prune
git -C /repo worktree add --detach "$WT" HEAD -q || exit 2
PYTHONPATH=/tmp/seedshim timeout 120 /venv/bin/python "$DST/demo.py" "$WT" > "$WT.demo0.txt" 2>&1; RC0=$?
(cd "$WT" && git apply "$OLDPWD/$DST/patch.diff") || { echo "patch does not apply"; git -C /repo worktree remove --force "$WT"; exit 2; }
PYTHONPATH=/tmp/seedshim timeout 120 /venv/bin/python "$DST/demo.py" "$WT" > "$WT.demo1.txt" 2>&1; RC1=$?
(cd "$WT" && /venv/bin/python -m pytest -q -p no:cacheprovider --timeout=900 --continue-on-collection-errors --junitxml="$WT.junit.xml" > "$WT.pytest.log" 2>&1)
BASE="$(/venv/bin/python - "$WT.junit.xml" <<'PY'
import sys, json, xml.etree.ElementTree as ET
base = json.load(open('/root/.vp/BASELINE.json'))['stable_pass']
ok = set()
for tc in ET.parse(sys.argv[1]).getroot().iter('testcase'):
  if not any(ch.tag in ('failure', 'error', 'skipped') for ch in tc):
    ok.add('%s::%s' % (tc.get('classname'), tc.get('name')))
missing = [t for t in base if t not in ok]
print('%d/%d baseline tests pass%s' % (len(base) - len(missing), len(base), ('; FAILING: ' + ', '.join(missing[:5])) if missing else ''))
PY
)"
git -C /repo worktree remove --force "$WT"; rm -f "$WT.junit.xml" "$WT.pytest.log"
echo "demo without change: rc=$RC0; with change: rc=$RC1; $BASE"
RES=""
for c in $CHECKS; do
  out="$(./selftest "$c" "$DST/patch.diff" 2>&1)"
  line="$(echo "$out" | grep '^SELFTEST' | tail -1)"
  sigs="$(echo "$out" | grep '^violation' | sed 's/^violation \([^ ]*\):.*/\1/' | sort -u | head -4 | tr '\n' ' ')"
  echo "$line $sigs"
  RES="$RES$c: $(echo "$line" | sed 's/.*: //') [$sigs]; "
done
/venv/bin/python - "$DST" "$ID" "$RC0" "$RC1" "$BASE" "$RES" <<'PY'
import json, sys
dst, pid, rc0, rc1, base, res = sys.argv[1:7]
src = json.load(open(dst + '/meta.src.json'))
meta = {'property': pid, 'summary': src.get('summary'), 'needs_to_manifest': src.get('needs_to_manifest'),
        'files': src.get('files'), 'author': 'fresh sub-agent given only the property text and a scratch worktree',
        'confirmed': {'demo_rc_without_change': int(rc0), 'demo_rc_with_change': int(rc1), 'baseline': base,
                      'how': 'tools/seed_accept.sh: scratch worktree of /repo HEAD, demo run before/after git apply, pinned pytest command'},
        'caught_by': res.strip()}
json.dump(meta, open(dst + '/meta.json', 'w'), indent=1)
import os; os.remove(dst + '/meta.src.json')
print(json.dumps(meta['confirmed']), meta['caught_by'])
PY
