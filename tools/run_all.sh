#!/bin/sh
# tools/run_all.sh <tier> <seed> <outfile> [extra args]: run every registered check once, record rc and wall time.
cd "$(dirname "$0")/.."
TIER="$1"; SEED="$2"; OUT="$3"; shift 3
: > "$OUT"
for id in $(python3 -c "import json; print(' '.join(c['property_id'] for c in json.load(open('MANIFEST.json'))['checks']))"); do
  t0=$(date +%s)
  ./check $id --tier $TIER --seed $SEED "$@" > /tmp/runall_$id.log 2>&1; rc=$?
  t1=$(date +%s)
  echo "$id rc=$rc wall=$((t1-t0)) $(tail -1 /tmp/runall_$id.log | cut -c1-160)" >> "$OUT"
done
