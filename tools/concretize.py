#!/usr/bin/env python3
"""tools/concretize.py <replay.json> <out.json>: rewrite a history replay so that its case carries the
concrete user actions (stable under later changes of the abstract-op grammar)."""
import json, sys
rp = json.load(open(sys.argv[1]))
case = rp['case']
conc = rp.get('concrete')
assert conc, 'replay has no concrete history'
if 'h' in case:
  case = dict(case, h={'concrete': conc})
else:
  case = dict(case, concrete=conc)
rp['case'] = case
json.dump(rp, open(sys.argv[2], 'w'), indent=1, sort_keys=True)
