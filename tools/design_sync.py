#!/usr/bin/env python3
"""Regenerates the generated blocks of DESIGN.md (findings table, mutant table) from known_findings.json,
mutants/ and seeded/. Blocks are delimited by <!-- BEGIN name --> / <!-- END name --> markers."""
import json, os, re, glob
HERE = os.path.dirname(os.path.dirname(os.path.abspath(__file__)))
design = open(os.path.join(HERE, 'DESIGN.md')).read()
k = json.load(open(os.path.join(HERE, 'known_findings.json')))

def findings():
  out = ['| property | status | signature / commit | what |', '|---|---|---|---|']
  for e in sorted(k, key=lambda e: (e['property'], e['status'], e.get('signature', ''))):
    ref = ('`%s` (commit %s)' % (e.get('signature', ''), e.get('commit'))) if e['status'] == 'fixed' else '`%s`' % e.get('signature', '')
    out.append('| %s | %s | %s | %s |' % (e['property'], e['status'], ref, e['what'].replace('|', '/').replace('\n', ' ')))
  return '\n'.join(out)

def mutants():
  res = {}
  path = os.path.join(HERE, 'mutants', 'RESULTS.json')
  if os.path.exists(path):
    res = json.load(open(path))
  out = ['| property | mutant (mutants/<ID>/) | result of `./selftest` |', '|---|---|---|']
  for d in sorted(glob.glob(os.path.join(HERE, 'mutants', 'C*'))):
    pid = os.path.basename(d)
    for f in sorted(glob.glob(os.path.join(d, '*.diff'))):
      name = os.path.basename(f)
      out.append('| %s | %s | %s |' % (pid, name, res.get('%s/%s' % (pid, name), 'not yet run')))
  return '\n'.join(out)

def seeded():
  out = ['| seeded change | breaks | needs to manifest | first run (checks as they were then) | final checks | notes |',
         '|---|---|---|---|---|---|']
  for f in sorted(glob.glob(os.path.join(HERE, 'seeded', '*', 'meta.json'))):
    m = json.load(open(f))
    out.append('| seeded/%s | %s | %s | %s | %s | %s |' % (os.path.basename(os.path.dirname(f)), m.get('property'),
               str(m.get('needs_to_manifest', '')).replace('|', '/').replace('\n', ' ')[:300],
               str(m.get('caught_by', 'not yet run')).replace('|', '/')[:160],
               str(m.get('caught_by_now', 'not re-run')).replace('|', '/')[:200],
               str(m.get('notes', '')).replace('|', '/')))
  return '\n'.join(out)

for name, fn in (('findings', findings), ('mutants', mutants), ('seeded', seeded)):
  b, e = '<!-- BEGIN %s -->' % name, '<!-- END %s -->' % name
  if b in design:
    design = design[:design.index(b) + len(b)] + '\n' + fn() + '\n' + design[design.index(e):]
open(os.path.join(HERE, 'DESIGN.md'), 'w').write(design)
print('DESIGN.md synced')
