#!/bin/sh
# tools/seed_rerun.sh [tier] [seeded ids...]: re-run the property's check (given tier, default quick) against every
# archived seeded change and record the outcome in its meta.json as caught_by_now (the first-run result stays in
# caught_by). A patch that no longer applies to the current tree (the tree moved on) is recorded as such.
cd "$(dirname "$0")/.."
TIER="${1:-quick}"; [ $# -ge 1 ] && shift
LIST="$*"; [ -z "$LIST" ] && LIST="$(ls seeded)"
for s in $LIST; do
  id="${s%%-*}"
  out="$(./selftest "$id" "seeded/$s/patch.diff" --tier "$TIER" 2>&1)"
  line="$(echo "$out" | grep '^SELFTEST' | tail -1)"
  sigs="$(echo "$out" | grep '^violation' | sed 's/^violation \([^ ]*\):.*/\1/' | sort -u | head -4 | tr '\n' ' ')"
  res="$(echo "$line" | sed 's/.*: //')"
  echo "$s $res [$sigs]"
  /venv/bin/python - "seeded/$s/meta.json" "$id" "$TIER" "$res" "$sigs" <<'PY'
import json, sys
p, pid, tier, res, sigs = sys.argv[1:6]
m = json.load(open(p))
m['caught_by_now'] = '%s (%s tier): %s [%s]' % (pid, tier, res, sigs.strip())
json.dump(m, open(p, 'w'), indent=1)
PY
done
