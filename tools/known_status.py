#!/venv/bin/python
"""tools/known_status.py: re-run the witness of every `known` finding on the current tree and report the ones
that no longer fail with their listed signature (candidates for status `fixed`)."""
import os, sys, json
sys.path.insert(0, os.path.join(os.path.dirname(os.path.abspath(__file__)), '..', 'harness'))
from gv import env  # noqa
from gv import runner
k = json.load(open(os.path.join(os.path.dirname(os.path.abspath(__file__)), '..', 'known_findings.json')))
only = sys.argv[1:]
for e in k:
  if e.get('status') != 'known' or (only and e['property'] not in only):
    continue
  prop = runner.load_prop(e['property'])
  if 'case' not in e:
    print('NOCASE', e['signature']); continue
  out, herr = runner.run_one(prop, e['case'])
  if herr:
    print('HARNESS-ERROR', e['signature'], herr[-300:]); continue
  sigs = [f['signature'] for f in out['failures']]
  print('%-8s %s   %s' % ('seen' if runner.failure_matches(out, e['signature']) else 'GONE', e['signature'], [s for s in sigs if s != e['signature']] or ''))
