#!/usr/bin/env python3
"""Regenerates MANIFEST.json from harness/gv/props/*.py metadata + properties.jsonl.
Run: python3 tools_manifest.py   (keeps not_applicable current for unbuilt properties)"""
import json, os, re, ast
HERE = os.path.dirname(os.path.abspath(__file__))
props = [json.loads(l) for l in open(os.path.join(HERE, 'properties.jsonl'))]
NA_REASONS = json.load(open(os.path.join(HERE, 'not_applicable.json'))) if os.path.exists(os.path.join(HERE, 'not_applicable.json')) else {}

def meta(pid):
  path = os.path.join(HERE, 'harness', 'gv', 'props', pid.lower() + '.py')
  if not os.path.exists(path):
    return None
  tree = ast.parse(open(path).read())
  out = {}
  for node in tree.body:
    if isinstance(node, ast.Assign) and len(node.targets) == 1 and isinstance(node.targets[0], ast.Name):
      name = node.targets[0].id
      if name in ('LEVEL', 'TECHNIQUE', 'LEVEL_TEXT', 'LEVEL_NOTE', 'ENGINE', 'DESIGN_REF'):
        try:
          out[name] = ast.literal_eval(node.value)
        except Exception:
          pass
  return out

READY = set(json.load(open(os.path.join(HERE, 'ready.json'))))
checks = []; na = []
for p in props:
  pid = p['id']
  m = meta(pid)
  if m is None or pid in NA_REASONS or pid not in READY:
    na.append({'property_id': pid, 'reason': NA_REASONS.get(pid, 'check not built yet in this round (planned; see DESIGN.md section 4)')})
    continue
  checks.append({
    'property_id': pid,
    'quick_cmd': './check %s --tier quick' % pid,
    'thorough_cmd': './check %s --tier thorough' % pid,
    'evidence_file': 'evidence/%s.json' % pid,
    'replay_cmd_template': './check %s --replay {path}' % pid,
    'engine': m.get('ENGINE', 'gv'),
    'level_claimed': {'category': m.get('LEVEL', 'exploration'),
                      'text': m.get('LEVEL_TEXT', 'Generated-input search against an explicit oracle; holds on everything explored, no absence claim.'),
                      'design_ref': m.get('DESIGN_REF', 'DESIGN.md section 4, ' + pid)},
    'level_note': m.get('LEVEL_NOTE', 'Trusted: the harness oracle for this property (DESIGN.md section 4), Hypothesis generators, the friendly_traceback stand-in.'),
    'technique': m.get('TECHNIQUE', 'property-based testing (Hypothesis) against an explicit oracle'),
  })
man = {
  'version': 1,
  'setup_cmd': '/venv/bin/python -c "import hypothesis" 2>/dev/null || /venv/bin/pip install --no-index --find-links /opt/veriftools/wheels hypothesis',
  'hooks': {'guard': 'GRIST_CORE_VERIF', 'enable': 'no source hooks are needed: checks import /repo/sandbox/grist at run time and observe through public/test-facing API (DESIGN.md 2.1)',
            'baseline_off_cmd': 'cd /repo && /venv/bin/python -m pytest -ra -q -p no:cacheprovider --timeout=900 --continue-on-collection-errors',
            'source_commits': [], 'add_only': True},
  'engines': [
    {'name': 'gv', 'path': 'harness/gv', 'serves_properties': [c['property_id'] for c in checks],
     'kind_free_text': 'Hypothesis-driven property-based testing harness: sharded generation, collect-then-minimise, replay, evidence'}],
  'checks': checks,
  'not_applicable': na,
  'notes': 'All checks: ./check <ID> [--tier quick|thorough] [--replay FILE]; VERIF_SEED selects the seed. See DESIGN.md.',
}
json.dump(man, open(os.path.join(HERE, 'MANIFEST.json'), 'w'), indent=1)
print('checks:', len(checks), 'not_applicable:', len(na))
