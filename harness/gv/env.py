"""Environment set-up shared by every check: import paths, shim, logging."""
import os, sys, logging

HERE = os.path.dirname(os.path.abspath(__file__))
HARNESS = os.path.dirname(HERE)
VERIF = os.path.dirname(HARNESS)
REPO = os.environ.get('VERIF_REPO', '/repo')
GRIST = os.path.join(REPO, 'sandbox', 'grist')

_done = False

def setup():
  global _done
  if _done:
    return
  _done = True
  sys.dont_write_bytecode = True
  shim = os.path.join(HARNESS, 'shims')
  try:
    import friendly_traceback  # noqa: F401  (real one, if ever installed)
  except ImportError:
    sys.path.insert(0, shim)
  if GRIST not in sys.path:
    sys.path.insert(0, GRIST)
  logging.disable(logging.CRITICAL)
  sys.setrecursionlimit(max(sys.getrecursionlimit(), 5000))
  if os.environ.get('GV_NO_MEMO') != '1':
    _memoize_formula_bodies()
  if os.environ.get('GV_NO_CHUNKCACHE') != '1':
    _install_chunk_cache()


def _install_chunk_cache():
  """Build (once) and install native/chunkcache.c; silently skipped if no C compiler works."""
  import ctypes, subprocess
  src = os.path.join(HARNESS, 'native', 'chunkcache.c')
  outdir = os.path.join(VERIF, '.work', 'native')
  so = os.path.join(outdir, 'chunkcache-%d%d.so' % sys.version_info[:2])
  try:
    if not os.path.exists(so) or os.path.getmtime(so) < os.path.getmtime(src):
      os.makedirs(outdir, exist_ok=True)
      tmp = so + '.%d.tmp' % os.getpid()
      subprocess.check_call(['cc', '-O2', '-shared', '-fPIC', '-o', tmp, src],
                            stdout=subprocess.DEVNULL, stderr=subprocess.DEVNULL)
      os.replace(tmp, so)
    lib = ctypes.CDLL(so)
    setter = ctypes.cast(ctypes.pythonapi.PyObject_SetArenaAllocator, ctypes.c_void_p)
    lib.gv_install.argtypes = [ctypes.c_void_p]
    lib.gv_install.restype = None
    lib.gv_install(setter)
  except Exception:
    pass


def _memoize_formula_bodies():
  """Per-process memo of codebuilder.make_formula_body (a pure function of its arguments: formula text,
  type default, (table, col) association, indent). Fresh engines (C05/C07/twins) re-parse every formula
  with astroid, which dominates run time here (deep recursion makes CPython 3.12 mmap/munmap a 16 KB
  frame-stack chunk ~10^4 times per case, and munmap costs ~1 ms in this VM). The first evaluation of
  each distinct argument tuple still runs the code under test; GV_NO_MEMO=1 disables the memo."""
  import codebuilder
  orig = codebuilder.make_formula_body
  if getattr(orig, '_gv_memo', False):
    return
  cache = {}

  def make_formula_body(formula, default_value, assoc_value=None, indent=''):
    try:
      key = (formula, repr(default_value), assoc_value, indent)
      hash(key)
    except TypeError:
      return orig(formula, default_value, assoc_value, indent=indent)
    hit = cache.get(key)
    if hit is None:
      hit = orig(formula, default_value, assoc_value, indent=indent)
      if len(cache) > 20000:
        cache.clear()
      cache[key] = hit
    return hit
  make_formula_body._gv_memo = True
  codebuilder.make_formula_body = make_formula_body

def seed_from_env():
  try:
    return int(os.environ.get('VERIF_SEED', '1'))
  except ValueError:
    return 1
