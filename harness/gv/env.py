"""Environment set-up shared by every check: import paths, shim, logging."""
import os, sys, logging

HERE = os.path.dirname(os.path.abspath(__file__))
HARNESS = os.path.dirname(HERE)
VERIF = os.path.dirname(HARNESS)
REPO = os.environ.get('VERIF_REPO', '/repo')
GRIST = os.path.join(REPO, 'sandbox', 'grist')

_done = False

def setup():
  global _done
  if _done:
    return
  _done = True
  sys.dont_write_bytecode = True
  shim = os.path.join(HARNESS, 'shims')
  try:
    import friendly_traceback  # noqa: F401  (real one, if ever installed)
  except ImportError:
    sys.path.insert(0, shim)
  if GRIST not in sys.path:
    sys.path.insert(0, GRIST)
  logging.disable(logging.CRITICAL)
  sys.setrecursionlimit(max(sys.getrecursionlimit(), 5000))

def seed_from_env():
  try:
    return int(os.environ.get('VERIF_SEED', '1'))
  except ValueError:
    return 1
