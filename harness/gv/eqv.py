"""Node-observable equality of cell values and whole-document snapshots (DESIGN.md 2.2)."""
import json, hashlib, math


def canon(v):
  """Canonical form of an *encoded* cell value (what Node receives).
  int/float compare by numeric value; bool stays distinct; NaN == NaN; -0.0 == 0.0."""
  if v is None or isinstance(v, str):
    return v
  if isinstance(v, bool):
    return '#true' if v else '#false'      # Python's True == 1.0 would blur bool and number
  if isinstance(v, int):
    try:
      f = float(v)
    except OverflowError:
      return ['#bigint', str(v)]
    if int(f) == v:
      return f + 0.0
    return ['#bigint', str(v)]
  if isinstance(v, float):
    if v != v:
      return '#NaN'
    if v == float('inf'):
      return '#+inf'
    if v == float('-inf'):
      return '#-inf'
    return v + 0.0   # folds -0.0 into 0.0
  if isinstance(v, (list, tuple)):
    return [canon(x) for x in v]
  if isinstance(v, dict):
    return {str(k): canon(x) for k, x in sorted(v.items(), key=lambda kv: str(kv[0]))}
  if isinstance(v, bytes):
    return ['#bytes', v.decode('latin1')]
  return ['#repr', repr(v)]


def table_view(engine, table_id, formulas=True, private=False):
  """{'id': [...], col: {rowid: canon(value)}} from what fetch_table reports."""
  import actions
  td = engine.fetch_table(table_id, formulas=formulas, private=private)
  rep = actions.get_action_repr(td)
  ids = list(rep[2])
  out = {'id': ids}
  for c, vals in rep[3].items():
    out[c] = {r: canon(v) for r, v in zip(ids, vals)}
  return out


def snapshot(engine, formulas=True):
  return {t: table_view(engine, t, formulas=formulas) for t in sorted(engine.tables)}


def diff(a, b, limit=6):
  """List of human-readable differences between two snapshots (empty when equal)."""
  d = []
  for t in sorted(set(a) | set(b)):
    if t not in a:
      d.append([t, 'table only in second']); continue
    if t not in b:
      d.append([t, 'table only in first']); continue
    ta, tb = a[t], b[t]
    if ta.get('id') != tb.get('id'):
      d.append([t, 'row ids', ta.get('id'), tb.get('id')])
    for c in sorted(set(ta) | set(tb)):
      if c == 'id':
        continue
      if c not in ta or c not in tb:
        d.append([t, c, 'column only in %s' % ('second' if c not in ta else 'first')]); continue
      if ta[c] != tb[c]:
        rows = sorted(set(ta[c]) | set(tb[c]))
        bad = [(r, ta[c].get(r, '#absent'), tb[c].get(r, '#absent')) for r in rows
               if ta[c].get(r, '#absent') != tb[c].get(r, '#absent')]
        d.append([t, c, [[r, x, y] for r, x, y in bad[:4]]])
    if len(d) >= limit:
      break
  return d[:limit]


def jdump(x):
  return json.dumps(x, sort_keys=True, default=repr)


def digest(x):
  return hashlib.sha256(jdump(x).encode('utf8')).hexdigest()[:16]


def is_error_cell(v):
  return isinstance(v, list) and len(v) >= 1 and v[0] == 'E'


def cells_diff(a, b):
  """Full difference of two snapshots: (structural, cells) where structural lists table / row-id /
  column-set differences and cells lists (table, col, row, va, vb) for tables whose shape agrees."""
  structural, cells = [], []
  for t in sorted(set(a) | set(b)):
    if t not in a or t not in b:
      structural.append([t, 'table only in %s' % ('second' if t not in a else 'first')]); continue
    ta, tb = a[t], b[t]
    if ta.get('id') != tb.get('id'):
      structural.append([t, 'row ids', ta.get('id'), tb.get('id')]); continue
    for c in sorted(set(ta) | set(tb)):
      if c == 'id':
        continue
      if c not in ta or c not in tb:
        structural.append([t, c, 'column only in %s' % ('second' if c not in ta else 'first')]); continue
      if ta[c] != tb[c]:
        for r in ta['id']:
          if ta[c].get(r) != tb[c].get(r):
            cells.append((t, c, r, ta[c].get(r), tb[c].get(r)))
  return structural, cells


def rows_multiset(tview, ignore_cols=()):
  """Rows of a table view as a sorted list of canonical strings, ignoring the row id."""
  cols = sorted(c for c in tview if c != 'id' and c not in ignore_cols)
  return sorted(jdump([tview[c].get(r) for c in cols]) for r in tview['id']), cols
