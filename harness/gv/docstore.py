"""Independent doc-action interpreter (C02): a strict in-memory store written from the action
documentation in actions.py and the type-default table in documentation/grist-data-format.md.
Shares no code with table_data_set.py or the engine."""
from .eqv import canon

INF = float('inf')
DEFAULTS = {'Any': None, 'Attachments': None, 'Blob': None, 'Bool': False, 'Choice': '', 'ChoiceList': None,
            'Date': None, 'DateTime': None, 'Id': 0, 'Int': 0, 'ManualSortPos': INF, 'Numeric': 0,
            'PositionNumber': INF, 'Ref': 0, 'RefList': None, 'Text': ''}


def default_for(col_type):
  return DEFAULTS.get(col_type.split(':', 1)[0], None)


class Reject(Exception):
  """A stored action that does not describe a legal change of the store."""


class Store(object):
  def __init__(self):
    self.t = {}           # table_id -> {'cols': {col_id: type}, 'rows': {row_id: {col_id: value}}}
    self.noop_removals = 0

  def apply(self, a):
    name = a[0]
    f = getattr(self, 'do_' + name, None)
    if f is None:
      raise Reject('unknown doc action %r' % (name,))
    f(*a[1:])

  def _table(self, tid):
    if tid not in self.t:
      raise Reject('no table %r' % (tid,))
    return self.t[tid]

  # -- schema actions
  def do_AddTable(self, tid, cols):
    if tid in self.t:
      raise Reject('AddTable: table %r exists' % (tid,))
    ids = [c['id'] for c in cols]
    if len(set(ids)) != len(ids):
      raise Reject('AddTable: duplicate column ids %r' % (ids,))
    self.t[tid] = {'cols': {c['id']: c['type'] for c in cols}, 'rows': {}}

  def do_RemoveTable(self, tid):
    self._table(tid)
    del self.t[tid]

  def do_RenameTable(self, old, new):
    self._table(old)
    if new in self.t:
      raise Reject('RenameTable: %r exists' % (new,))
    self.t[new] = self.t.pop(old)

  def do_AddColumn(self, tid, cid, info):
    T = self._table(tid)
    if cid in T['cols'] or cid == 'id':
      raise Reject('AddColumn: column %s.%s exists' % (tid, cid))
    T['cols'][cid] = info['type']
    for r in T['rows'].values():
      r[cid] = default_for(info['type'])

  def do_RemoveColumn(self, tid, cid):
    T = self._table(tid)
    if cid not in T['cols']:
      raise Reject('RemoveColumn: no column %s.%s' % (tid, cid))
    del T['cols'][cid]
    for r in T['rows'].values():
      del r[cid]

  def do_RenameColumn(self, tid, old, new):
    T = self._table(tid)
    if old not in T['cols']:
      raise Reject('RenameColumn: no column %s.%s' % (tid, old))
    if new in T['cols'] or new == 'id':
      raise Reject('RenameColumn: %s.%s exists' % (tid, new))
    T['cols'] = {(new if k == old else k): v for k, v in T['cols'].items()}
    for r in T['rows'].values():
      r[new] = r.pop(old)

  def do_ModifyColumn(self, tid, cid, info):
    T = self._table(tid)
    if cid not in T['cols']:
      raise Reject('ModifyColumn: no column %s.%s' % (tid, cid))
    if 'type' in info:
      T['cols'][cid] = info['type']

  # -- record actions
  def do_BulkAddRecord(self, tid, ids, cols):
    T = self._table(tid)
    for c in cols:
      if c not in T['cols']:
        raise Reject('AddRecord: unknown column %s.%s' % (tid, c))
      if len(cols[c]) != len(ids):
        raise Reject('AddRecord: column %s has %d values for %d rows' % (c, len(cols[c]), len(ids)))
    if len(set(ids)) != len(ids):
      raise Reject('AddRecord: repeated row ids %r' % (ids,))
    for i, rid in enumerate(ids):
      if not isinstance(rid, int) or isinstance(rid, bool) or rid <= 0:
        raise Reject('AddRecord: bad row id %r' % (rid,))
      if rid in T['rows']:
        raise Reject('AddRecord: row %s[%s] exists' % (tid, rid))
      T['rows'][rid] = {c: (cols[c][i] if c in cols else default_for(t)) for c, t in T['cols'].items()}

  def do_AddRecord(self, tid, rid, cols):
    self.do_BulkAddRecord(tid, [rid], {k: [v] for k, v in cols.items()})

  def do_BulkRemoveRecord(self, tid, ids):
    T = self._table(tid)
    for rid in ids:
      if rid not in T['rows']:
        self.noop_removals += 1      # SQLite DELETE of a missing row is a no-op; counted
      T['rows'].pop(rid, None)

  def do_RemoveRecord(self, tid, rid):
    self.do_BulkRemoveRecord(tid, [rid])

  def do_BulkUpdateRecord(self, tid, ids, cols):
    T = self._table(tid)
    for c in cols:
      if c not in T['cols']:
        raise Reject('UpdateRecord: unknown column %s.%s' % (tid, c))
      if len(cols[c]) != len(ids):
        raise Reject('UpdateRecord: column %s has %d values for %d rows' % (c, len(cols[c]), len(ids)))
    for i, rid in enumerate(ids):
      if rid not in T['rows']:
        raise Reject('UpdateRecord: no row %s[%s]' % (tid, rid))
      for c in cols:
        T['rows'][rid][c] = cols[c][i]

  def do_UpdateRecord(self, tid, rid, cols):
    self.do_BulkUpdateRecord(tid, [rid], {k: [v] for k, v in cols.items()})

  def do_ReplaceTableData(self, tid, ids, cols):
    self._table(tid)['rows'] = {}
    self.do_BulkAddRecord(tid, ids, cols)

  # -- view in the shape of eqv.snapshot
  def snapshot(self):
    out = {}
    for tid, T in self.t.items():
      ids = sorted(T['rows'])
      v = {'id': ids}
      for c in T['cols']:
        v[c] = {r: canon(T['rows'][r][c]) for r in ids}
      out[tid] = v
    return out
