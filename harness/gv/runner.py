"""Check runner: sharding, collect-then-minimise, known findings, evidence, replay.

  python -m gv.runner <ID> [--tier quick|thorough] [--replay FILE] [--seed N]
                           [--examples N] [--shards K] [--no-evidence]

Exit codes: 0 property held on everything explored (KNOWN-FINDING lines allowed),
1 unlisted violation (prints `VIOLATION property=<id> replay=<path>`), 2 harness error.
"""
import argparse, importlib, json, os, shutil, subprocess, sys, time, traceback

from . import env
from .eqv import jdump, digest

VERIF = env.VERIF
KNOWN_FILE = os.path.join(VERIF, 'known_findings.json')


def load_prop(pid):
  return importlib.import_module('gv.props.%s' % pid.lower())


def load_known(pid):
  data = []
  if os.path.exists(KNOWN_FILE):
    with open(KNOWN_FILE) as f:
      data = json.load(f)
  extra = os.path.join(VERIF, 'known_findings.d', '%s.json' % pid)   # staging area, merged before commit
  if os.path.exists(extra):
    with open(extra) as f:
      data = data + json.load(f)
  return [e for e in data if e.get('property') == pid]


# ---------------------------------------------------------------------------
# Outcome helpers used by property modules

class Outcome(dict):
  """ok, failures[{signature,message,detail}], classes[], nontrivial, key, concrete, skipped"""
  def __init__(self, **kw):
    dict.__init__(self, ok=True, failures=[], classes=[], nontrivial=False, key=None,
                  concrete=None, skipped=False)
    self.update(kw)

  def fail(self, signature, message, detail=None):
    self['ok'] = False
    self['failures'].append({'signature': signature, 'message': message, 'detail': detail})
    return self

  def cls(self, *labels):
    for l in labels:
      if l not in self['classes']:
        self['classes'].append(l)
    return self


# ---------------------------------------------------------------------------
# Worker

class _CaseTimeout(BaseException):
  pass


def _on_alarm(signum, frame):
  raise _CaseTimeout()


def run_one(prop, case):
  """Run one case, never raising. Returns (outcome or None, harness_error or None).
  A watchdog (CASE_TIMEOUT seconds, default 300) turns a hang inside one case into a harness error."""
  import signal, threading
  limit = getattr(prop, 'CASE_TIMEOUT', 300)
  use_alarm = threading.current_thread() is threading.main_thread() and hasattr(signal, 'setitimer')
  if use_alarm:
    old = signal.signal(signal.SIGALRM, _on_alarm)
    signal.setitimer(signal.ITIMER_REAL, limit)
  try:
    out = prop.run_case(case)
    return out, None
  except _CaseTimeout:
    return None, 'case did not finish within %s s (watchdog)' % limit
  except Exception:
    return None, traceback.format_exc()
  finally:
    if use_alarm:
      signal.setitimer(signal.ITIMER_REAL, 0)
      signal.signal(signal.SIGALRM, old)


class _TimeUp(Exception):
  pass


def worker_main(args):
  env.setup()
  import hypothesis
  from hypothesis import given, settings, seed, HealthCheck, Phase
  prop = load_prop(args.id)
  tier = args.tier
  t0 = time.time()
  res = {
    'shard': args.shard, 'evaluations': 0, 'skipped': 0, 'classes': {}, 'nontrivial_keys': [],
    'samples': [], 'failures': [], 'harness_errors': [], 'timed_out': False, 'exhaustive_done': None,
    'nt_extra': 0,
  }
  keys = set()
  max_fail = 40
  max_seconds = args.max_seconds

  def handle(case):
    out, herr = run_one(prop, case)
    if herr is not None:
      res['evaluations'] += 1
      if len(res['harness_errors']) < 5:
        res['harness_errors'].append({'case': case, 'traceback': herr})
      return
    res['evaluations'] += int(out.get('weight', 1))
    if out.get('skipped'):
      res['skipped'] += 1
    for l in out['classes']:
      res['classes'][l] = res['classes'].get(l, 0) + 1
    if out['nontrivial']:
      k = out['key'] or digest(case)
      if k not in keys:
        keys.add(k)
        res['nt_extra'] += max(0, int(out.get('nt_weight', 1)) - 1)
        if len(res['samples']) < 2:
          res['samples'].append({'case': case, 'concrete': out.get('concrete'), 'classes': out['classes']})
    if not out['ok']:
      res['classes']['FAILED'] = res['classes'].get('FAILED', 0) + 1
      for f in out['failures']:
        sig = f['signature']
        n_same = sum(1 for x in res['failures'] if x['signature'] == sig)
        if len(res['failures']) < max_fail and n_same < 4:
          res['failures'].append({'signature': sig, 'message': f['message'], 'detail': f.get('detail'),
                                  'case': case, 'concrete': out.get('concrete')})
        res.setdefault('failure_counts', {})
        res['failure_counts'][sig] = res['failure_counts'].get(sig, 0) + 1

  # exhaustive / enumerated part (finite domains), split across shards
  if hasattr(prop, 'enumerate_cases'):
    done = True
    for i, case in enumerate(prop.enumerate_cases(tier)):
      if i % args.nshards != args.shard:
        continue
      if max_seconds and time.time() - t0 > max_seconds:
        done = False; res['timed_out'] = True
        break
      handle(case)
    res['exhaustive_done'] = done

  n = args.examples
  if n > 0 and hasattr(prop, 'strategy'):
    strat = prop.strategy(tier)

    @settings(max_examples=n, database=None, deadline=None, derandomize=False,
              suppress_health_check=list(HealthCheck), phases=[Phase.generate],
              report_multiple_bugs=False, print_blob=False)
    @seed(args.seed * 1000 + args.shard)
    @given(strat)
    def test(case):
      if max_seconds and time.time() - t0 > max_seconds:
        res['timed_out'] = True
        raise _TimeUp()      # ends the Hypothesis run (otherwise it keeps generating up to max_examples)
      handle(case)
    try:
      test()
    except _TimeUp:
      pass
    except Exception:
      if not res['timed_out']:
        res['harness_errors'].append({'case': None, 'traceback': traceback.format_exc()})

  res['nontrivial_keys'] = sorted(keys)
  res['wall_s'] = time.time() - t0
  with open(args.out, 'w') as f:
    f.write(jdump(res))
  return 0


# ---------------------------------------------------------------------------
# Generic JSON shrinker (collect-then-minimise; DESIGN.md 2.5)

def _paths(x, path=()):
  """Yield (path, value) for every node in a JSON value."""
  yield path, x
  if isinstance(x, list):
    for i, v in enumerate(x):
      for p in _paths(v, path + (i,)):
        yield p
  elif isinstance(x, dict):
    for k in sorted(x):
      for p in _paths(x[k], path + (k,)):
        yield p


def _get(x, path):
  for p in path:
    x = x[p]
  return x


def _set(x, path, v):
  if not path:
    return v
  import copy
  x = copy.deepcopy(x)
  y = x
  for p in path[:-1]:
    y = y[p]
  y[path[-1]] = v
  return x


def shrink_case(case, still_fails, budget=400, no_delete=lambda path: False, deadline=None):
  """Greedy structural minimisation of a JSON case. `still_fails(case)` -> bool."""
  evals = [0]
  def test(c):
    if evals[0] >= budget or (deadline is not None and time.time() > deadline):
      evals[0] = max(evals[0], budget)
      return False
    evals[0] += 1
    try:
      return bool(still_fails(c))
    except Exception:
      return False
  improved = True
  while improved and evals[0] < budget:
    improved = False
    # pass 1: delete chunks / single elements from lists (longest lists first)
    lists = [(p, v) for p, v in _paths(case) if isinstance(v, list) and len(v) > 0 and not no_delete(p)]
    lists.sort(key=lambda pv: -len(jdump(pv[1])))
    for p, _ in lists:
      try:
        cur = _get(case, p)
      except (KeyError, IndexError, TypeError):
        continue
      if not isinstance(cur, list):
        continue
      chunk = max(1, len(cur) // 2)
      while chunk >= 1 and evals[0] < budget:
        i = 0
        changed = False
        while i < len(cur) and evals[0] < budget:
          cand_list = cur[:i] + cur[i + chunk:]
          cand = _set(case, p, cand_list)
          if test(cand):
            case = cand; cur = cand_list; improved = True; changed = True
          else:
            i += chunk
        if chunk == 1:
          break
        chunk = chunk // 2
    # pass 2: simplify scalars
    for p, v in list(_paths(case)):
      if evals[0] >= budget:
        break
      try:
        cur = _get(case, p)
      except (KeyError, IndexError, TypeError):
        continue
      cands = []
      if isinstance(cur, bool):
        continue
      if isinstance(cur, int) and cur != 0:
        cands = [0, cur // 2] if abs(cur) > 1 else [0]
      elif isinstance(cur, float) and cur != 0.0:
        cands = [0.0, float(int(cur))] if cur == cur and abs(cur) < 1e15 else [0.0]
      elif isinstance(cur, str) and cur:
        cands = ['', cur[:len(cur) // 2], cur[1:]]
      for c in cands:
        if c == cur:
          continue
        cand = _set(case, p, c)
        if test(cand):
          case = cand; improved = True
          break
  return case, evals[0]


# ---------------------------------------------------------------------------
# Parent

def budget_for(prop, tier, args):
  b = dict(getattr(prop, 'BUDGET', {}).get(tier, {}))
  b.setdefault('examples', 200)
  b.setdefault('shards', 8)
  b.setdefault('max_seconds', 60 if tier == 'quick' else 900)
  if args.examples is not None:
    b['examples'] = args.examples
  if args.shards is not None:
    b['shards'] = args.shards
  if args.max_seconds is not None:
    b['max_seconds'] = args.max_seconds
  return b


def failure_matches(out, signature):
  return (out is not None) and any(f['signature'] == signature for f in out['failures'])


def write_replay(pid, tier, seed, sig, case, out):
  d = os.path.join(VERIF, 'replays', pid)
  if os.environ.get('VERIF_REPO'):   # sensitivity runs against a scratch copy
    d = os.path.join(VERIF, '.work', 'mutant-replays', pid)
  os.makedirs(d, exist_ok=True)
  name = '%s.json' % digest([sig, case])
  path = os.path.join(d, name)
  f0 = [f for f in out['failures'] if f['signature'] == sig][0] if out else {}
  with open(path, 'w') as f:
    json.dump({'property': pid, 'seed': seed, 'tier': tier, 'signature': sig, 'case': case,
               'concrete': (out or {}).get('concrete'), 'message': f0.get('message'),
               'detail': f0.get('detail')}, f, indent=1, sort_keys=True, default=repr)
  return os.path.relpath(path, VERIF)


def replay_main(args):
  env.setup()
  prop = load_prop(args.id)
  with open(args.replay) as f:
    rp = json.load(f)
  case = rp['case']
  out, herr = run_one(prop, case)
  if herr:
    print('HARNESS-ERROR in replay:\n' + herr)
    return 2
  known = {e['signature']: e for e in load_known(args.id) if e.get('status') == 'known'}
  rc = 0
  for f in out['failures']:
    if f['signature'] in known:
      print('KNOWN-FINDING: property=%s %s [%s]' % (args.id, known[f['signature']]['what'], f['signature']))
    else:
      print('replay failure: %s: %s' % (f['signature'], f['message']))
      if f.get('detail') is not None:
        print('  detail: %s' % jdump(f['detail'])[:2000])
      rc = 1
  if rc:
    print('VIOLATION property=%s replay=%s' % (args.id, args.replay))
  else:
    print('replay: property %s holds on this case' % args.id)
  return rc


def parent_main(args):
  env.setup()
  pid = args.id
  tier = args.tier
  seed = args.seed
  t0 = time.time()
  try:
    prop = load_prop(pid)
  except Exception:
    print('HARNESS-ERROR: cannot load property module\n' + traceback.format_exc())
    return 2
  b = budget_for(prop, tier, args)
  nshards = b['shards']
  work = os.path.join(VERIF, '.work', '%s-%s-%d' % (pid, tier, os.getpid()))
  shutil.rmtree(work, ignore_errors=True)
  os.makedirs(work)
  per = (b['examples'] + nshards - 1) // nshards if b['examples'] > 0 else 0
  procs = []
  penv = dict(os.environ)
  penv.setdefault('PYTHONHASHSEED', '0')
  penv['PYTHONDONTWRITEBYTECODE'] = '1'
  for i in range(nshards):
    out = os.path.join(work, 'shard%d.json' % i)
    cmd = [sys.executable, '-m', 'gv.runner', pid, '--worker', '--tier', tier, '--seed', str(seed),
           '--shard', str(i), '--nshards', str(nshards), '--examples', str(per),
           '--max-seconds', str(b['max_seconds']), '--out', out]
    log = open(os.path.join(work, 'shard%d.log' % i), 'w')
    penv['GV_SHARD'] = str(i)
    procs.append((subprocess.Popen(cmd, env=dict(penv), stdout=log, stderr=subprocess.STDOUT, cwd=env.HARNESS), out, log))
  results = []
  harness_errors = []
  hard_limit = b['max_seconds'] * 3 + 600
  for p, out, log in procs:
    try:
      rc = p.wait(timeout=max(60, hard_limit - (time.time() - t0)))
    except subprocess.TimeoutExpired:
      p.kill(); rc = p.wait()
    log.close()
    if os.path.exists(out):
      with open(out) as f:
        results.append(json.load(f))
    else:
      with open(log.name) as f:
        harness_errors.append({'case': None, 'traceback': 'shard died rc=%s\n%s' % (rc, f.read()[-3000:])})

  # merge
  evaluations = sum(r['evaluations'] for r in results)
  skipped = sum(r['skipped'] for r in results)
  classes = {}
  keys = set()
  samples = []
  failures = []
  fcounts = {}
  timed_out = any(r['timed_out'] for r in results)
  for r in results:
    for k, v in r['classes'].items():
      classes[k] = classes.get(k, 0) + v
    keys.update(r['nontrivial_keys'])
    samples.extend(r['samples'])
    failures.extend(r['failures'])
    harness_errors.extend(r['harness_errors'])
    for k, v in r.get('failure_counts', {}).items():
      fcounts[k] = fcounts.get(k, 0) + v
  nt_extra = sum(r.get('nt_extra', 0) for r in results)
  exh = [r['exhaustive_done'] for r in results if r['exhaustive_done'] is not None]
  exhaustive = bool(exh) and all(exh) and len(results) == nshards

  known_all = load_known(pid)
  known = {e['signature']: e for e in known_all if e.get('status') == 'known'}

  # known-finding witnesses: re-observe each listed finding on the current tree
  known_seen = {}
  for sig, e in known.items():
    if 'case' in e:
      out, herr = run_one(prop, e['case'])
      if herr:
        harness_errors.append({'case': e['case'], 'traceback': herr})
      elif failure_matches(out, sig):
        known_seen[sig] = 'witness'
      # other failures produced by a witness case are judged like generated ones
      if out is not None:
        for f in out['failures']:
          if f['signature'] != sig:
            failures.append(dict(f, case=e['case'], concrete=out.get('concrete')))
            fcounts[f['signature']] = fcounts.get(f['signature'], 0) + 1
  for sig in fcounts:
    if sig in known and sig not in known_seen:
      known_seen[sig] = 'generated'

  # regression replays committed under replays/<ID>/fixed-*.json (fixed findings must stay fixed)
  rdir = os.path.join(VERIF, 'regress', pid)
  n_regress = 0
  if os.path.isdir(rdir):
    for name in sorted(os.listdir(rdir)):
      if not name.endswith('.json'):
        continue
      with open(os.path.join(rdir, name)) as f:
        rp = json.load(f)
      out, herr = run_one(prop, rp['case'])
      n_regress += 1
      if herr:
        harness_errors.append({'case': rp['case'], 'traceback': herr})
      elif not out['ok']:
        for f in out['failures']:
          failures.append(dict(f, case=rp['case'], concrete=out.get('concrete')))
          fcounts[f['signature']] = fcounts.get(f['signature'], 0) + 1

  for sig in sorted(known_seen):
    print('KNOWN-FINDING: property=%s %s [%s; seen via %s; %d generated cases]' % (
      pid, known[sig]['what'], sig, known_seen[sig], fcounts.get(sig, 0)))

  # unlisted failures: minimise one per signature, write replay, report
  violations = []
  by_sig = {}
  for f in failures:
    if f['signature'] in known:
      continue
    by_sig.setdefault(f['signature'], []).append(f)
  shrink_budget = getattr(prop, 'SHRINK_BUDGET', {}).get(tier, 150 if tier == 'quick' else 600)
  t_shrink0 = time.time()
  for sig in sorted(by_sig):
    fs = sorted(by_sig[sig], key=lambda f: len(jdump(f['case'])))
    f = fs[0]
    case = f['case']
    nd = getattr(prop, 'no_delete', lambda path: False)
    used = 0
    if getattr(prop, 'SHRINK', True) and time.time() - t_shrink0 < (60 if tier == 'quick' else 600):
      def still(c, sig=sig):
        o, herr = run_one(prop, c)
        return herr is None and failure_matches(o, sig)
      if still(case):
        case, used = shrink_case(case, still, budget=shrink_budget, no_delete=nd,
                                 deadline=time.time() + (25 if tier == 'quick' else 240))
    out, herr = run_one(prop, case)
    if herr or not failure_matches(out, sig):
      out = {'failures': [f], 'concrete': f.get('concrete')}
      case = f['case']
    path = write_replay(pid, tier, seed, sig, case, out)
    violations.append((sig, path, f['message'], used))

  wall = time.time() - t0
  rc = 0
  if harness_errors:
    rc = 2
    print('HARNESS-ERROR: %d harness errors; first:\n%s' % (len(harness_errors), harness_errors[0]['traceback']))
    if harness_errors[0].get('case') is not None:
      print('  case: %s' % jdump(harness_errors[0]['case'])[:3000])
  missing_classes = [c for c in getattr(prop, 'REQUIRED_CLASSES', []) if not classes.get(c)]
  if rc == 0 and missing_classes and not violations and not timed_out:
    rc = 2
    print('HARNESS-ERROR: required classes never generated: %s' % ', '.join(missing_classes))
  min_nontrivial = getattr(prop, 'MIN_NONTRIVIAL', 2)
  if rc == 0 and len(keys) < min_nontrivial and not violations:
    rc = 2
    print('HARNESS-ERROR: only %d distinct non-trivial cases (need %d); evaluations=%d' % (
      len(keys), min_nontrivial, evaluations))
  for sig, path, msg, used in violations:
    print('violation %s: %s (minimised with %d evaluations)' % (sig, msg, used))
    print('VIOLATION property=%s replay=%s' % (pid, path))
  if violations:
    rc = 1

  if not args.no_evidence:
    ev = {
      'property_id': pid, 'tier': tier, 'seed': seed, 'level': getattr(prop, 'LEVEL', 'exploration'),
      'coverage': {
        'evaluations': evaluations, 'distinct_nontrivial': len(keys) + nt_extra, 'rule': prop.RULE,
        'samples': [s for s in samples[:4]], 'classes': dict(sorted(classes.items())),
        'skipped_by_precondition': skipped,
        'excluded_known': {sig: fcounts.get(sig, 0) for sig in known},
        'known_findings_reobserved': sorted(known_seen),
        'regression_replays_run': n_regress,
        'shards': nshards, 'budget': b, 'budget_exhausted_by_time': timed_out,
        'exhaustive': exhaustive if hasattr(prop, 'enumerate_cases') and not hasattr(prop, 'strategy') else
                      (exhaustive and getattr(prop, 'EXHAUSTIVE_IS_WHOLE_DOMAIN', False)),
        'enumerated_part_complete': exhaustive if hasattr(prop, 'enumerate_cases') else None,
        'oracle': getattr(prop, 'ORACLE', ''),
      },
      'assumptions': list(getattr(prop, 'ASSUMPTIONS', [])),
      'wall_s': round(wall, 2),
      'violations': len(violations),
    }
    if rc == 2:
      ev['coverage']['harness_error'] = True
    os.makedirs(os.path.join(VERIF, 'evidence'), exist_ok=True)
    with open(os.path.join(VERIF, 'evidence', '%s.json' % pid), 'w') as f:
      json.dump(ev, f, indent=1, sort_keys=True, default=repr)
  print('%s tier=%s seed=%d: %d cases, %d distinct non-trivial, %d skipped, %d violations, %d known, %.1fs%s' % (
    pid, tier, seed, evaluations, len(keys) + nt_extra, skipped, len(violations), len(known_seen), wall,
    ' (time budget reached: explored part only)' if timed_out else ''))
  shutil.rmtree(work, ignore_errors=True)
  return rc


def main(argv=None):
  ap = argparse.ArgumentParser()
  ap.add_argument('id')
  ap.add_argument('--tier', default=os.environ.get('VERIF_TIER', 'quick'), choices=['quick', 'thorough'])
  ap.add_argument('--seed', type=int, default=env.seed_from_env())
  ap.add_argument('--replay')
  ap.add_argument('--examples', type=int)
  ap.add_argument('--shards', type=int)
  ap.add_argument('--max-seconds', type=float, dest='max_seconds')
  ap.add_argument('--no-evidence', action='store_true')
  ap.add_argument('--worker', action='store_true')
  ap.add_argument('--shard', type=int, default=0)
  ap.add_argument('--nshards', type=int, default=1)
  ap.add_argument('--out')
  args = ap.parse_args(argv)
  args.id = args.id.upper()
  if args.worker:
    return worker_main(args)
  if args.replay:
    return replay_main(args)
  return parent_main(args)


if __name__ == '__main__':
  try:
    sys.exit(main())
  except SystemExit:
    raise
  except Exception:
    print('HARNESS-ERROR:\n' + traceback.format_exc())
    sys.exit(2)
