"""Reference model for lookups, sorted lookups, find.* and PREVIOUS/NEXT/RANK (C13, C14).

Written from the documentation (docstrings of UserTable.lookupRecords/lookupOne, CONTAINS, RecordSet.find,
PREVIOUS/NEXT/RANK, the type docs in usertypes.py and the fallback rule commented in sort_key.py); it shares
no code with table.py / lookup.py / sort_key.py / twowaymap.py / records.py / prevnext.py.

Values are modelled as small tagged tuples ("what a formula sees"):
  ('none',) ('bool', b) ('num', v) ('str', s) ('alt', text) ('date', ts) ('ref', row_id)
  ('tuple', (str, ...)) ('rset', (row_id, ...)) ('list', [...])     # 'list' only for formula literals
Anything outside the modelled input domain raises OutOfModel; callers then do not judge that evaluation.
"""
import functools
import math


class OutOfModel(Exception):
  pass


def pure(col_type):
  return col_type.split(':', 1)[0]


TRUTHY = ('true', 'yes', '1')
FALSY = ('false', 'no', '0')
NUMERIC_TAGS = ('num', 'bool')


def _check_num(v):
  if isinstance(v, float) and v != v:
    raise OutOfModel('NaN')
  return v


# ---------------------------------------------------------------------------
# stored cell (as fetch_table reports it) -> value seen by formulas

def rich(col_type, v):
  p = pure(col_type)
  if isinstance(v, list):
    if v and v[0] == 'L':
      items = v[1:]
      if p == 'ChoiceList' and all(isinstance(x, str) for x in items):
        return ('tuple', tuple(items))
      if p == 'RefList' and all(type(x) is int for x in items):
        return ('rset', tuple(items))
    raise OutOfModel('object cell in %s column' % p)
  if v is None:
    if p == 'ChoiceList':
      return ('tuple', ())          # "default value is None, but is presented to formulas as the empty list"
    if p == 'RefList':
      return ('rset', ())
    if p in ('Text', 'Choice', 'Int', 'Numeric', 'Date', 'Bool', 'Any'):
      return ('none',)
    raise OutOfModel('None in %s column' % p)
  if isinstance(v, bool):
    if p in ('Bool', 'Any'):
      return ('bool', v)
    raise OutOfModel('bool in %s column' % p)
  if isinstance(v, (int, float)):
    _check_num(v)
    if p == 'Int':
      if type(v) is int:
        return ('num', v)
      raise OutOfModel('float in Int column')
    if p in ('Numeric', 'Any', 'ManualSortPos', 'PositionNumber'):
      return ('num', float(v) if p != 'Any' else v)
    if p == 'Date':
      return ('date', float(v))
    if p in ('Ref', 'Id'):
      if type(v) is int:
        return ('ref', v) if p == 'Ref' else ('num', v)
      raise OutOfModel('float in Ref column')
    raise OutOfModel('number in %s column' % p)
  if isinstance(v, str):
    if p in ('Text', 'Choice', 'Any'):
      return ('str', v)
    return ('alt', v)               # wrong-type text is seen as an AltText object
  raise OutOfModel('cell %r' % (v,))


def literal(v):
  """A JSON constant written into a formula as a Python literal."""
  if v is None:
    return ('none',)
  if isinstance(v, bool):
    return ('bool', v)
  if isinstance(v, (int, float)):
    return ('num', _check_num(v))
  if isinstance(v, str):
    return ('str', v)
  if isinstance(v, list):
    return ('list', list(v))
  raise OutOfModel('literal %r' % (v,))


# ---------------------------------------------------------------------------
# conversion of a lookup key by the type of the looked-up column ("'123' is converted to 123 and 'foo' to
# AltText('foo')", test_lookups.test_conversion; per-type rules from the type docs in usertypes.py)

def _text_of_number(v):
  if isinstance(v, float):
    if math.isinf(v):
      raise OutOfModel('inf to text')
    if abs(v) < 2 ** 53 and v == int(v):
      return str(int(v))
    return '%.15g' % v
  return str(v)


def _parse_float(text):
  try:
    f = float(text)
  except ValueError:
    return None
  if f != f:
    raise OutOfModel('NaN key')
  return f


def convert_key(col_type, k):
  p = pure(col_type)
  tag = k[0]
  if p in ('Text', 'Choice'):
    if tag in ('none', 'str'):
      return k
    if tag == 'alt':
      return ('str', k[1])
    if tag == 'num':
      return ('str', _text_of_number(k[1]))
    if tag == 'bool':
      return ('str', 'True' if k[1] else 'False')
    raise OutOfModel('%s key for %s' % (tag, p))
  if p in ('Int', 'Numeric'):
    if tag == 'none' or (tag == 'str' and k[1] == ''):
      return ('none',)
    if tag == 'bool':
      f = 1.0 if k[1] else 0.0
    elif tag == 'num':
      f = float(k[1])
    elif tag in ('str', 'alt'):
      f = _parse_float(k[1])
      if f is None:
        return ('alt', k[1])
    else:
      raise OutOfModel('%s key for %s' % (tag, p))
    if p == 'Numeric':
      return ('num', f)
    if math.isinf(f) or f != int(f) or not (-(1 << 31) <= int(f) < (1 << 31)):
      raise OutOfModel('non-integer key for Int')
    return ('num', int(f))
  if p == 'Bool':
    if tag == 'none':
      return ('bool', False)
    if tag == 'bool':
      return k
    if tag == 'num':
      return ('bool', k[1] != 0)
    if tag in ('str', 'alt'):
      if tag == 'str' and k[1] == '':
        return ('bool', False)
      low = k[1].lower()
      if low in FALSY:
        return ('bool', False)
      if low in TRUTHY:
        return ('bool', True)
      return ('alt', k[1])
    raise OutOfModel('%s key for Bool' % tag)
  if p == 'Date':
    if tag == 'none' or (tag == 'str' and k[1] == ''):
      return ('none',)
    if tag == 'num':
      return ('date', float(k[1]))
    if tag == 'date':
      return k
    if tag == 'alt':
      return k
    raise OutOfModel('%s key for Date' % tag)
  if p == 'Ref':
    if tag == 'none' or (tag == 'str' and k[1] == ''):
      return ('ref', 0)
    if tag == 'num' and type(k[1]) is int:
      return ('ref', k[1])
    if tag == 'ref':
      return k
    if tag in ('str', 'alt'):
      return ('alt', k[1])
    raise OutOfModel('%s key for Ref' % tag)
  if p == 'ChoiceList':
    if tag == 'none' or (tag == 'str' and k[1] == ''):
      return ('tuple', ())
    if tag == 'list':
      if all(isinstance(x, str) for x in k[1]):
        return ('tuple', tuple(k[1]))
      raise OutOfModel('non-str list key')
    if tag == 'tuple':
      return k
    if tag == 'str':
      if k[1].startswith('['):
        raise OutOfModel('json-ish text key')
      return ('alt', k[1])
    if tag == 'alt':
      return k
    raise OutOfModel('%s key for ChoiceList' % tag)
  raise OutOfModel('equality lookup on %s column' % p)


def eq_rich(a, b):
  """Equality of a (converted) key and a cell value of the same column."""
  if a[0] in NUMERIC_TAGS and b[0] in NUMERIC_TAGS:
    return a[1] == b[1]
  return a == b


def contains_match(cell, key, has_match_empty, match_empty):
  """CONTAINS(key[, match_empty]) against a cell: the cell must be a container (strings never match);
  an empty container matches only key == match_empty."""
  if key[0] == 'ref':
    key = ('num', key[1])           # records stand for their row id
  if key[0] in ('list', 'rset', 'tuple'):
    raise OutOfModel('container key for CONTAINS')
  if cell[0] == 'tuple':
    elems = [('str', x) for x in cell[1]]
  elif cell[0] == 'rset':
    elems = [('num', x) for x in cell[1]]
  elif cell[0] in ('str', 'alt'):
    return False
  else:
    raise OutOfModel('CONTAINS on a %s cell' % cell[0])
  if not elems and has_match_empty:
    if match_empty[0] in ('list', 'rset', 'tuple'):
      raise OutOfModel('container match_empty')
    elems = [('num', match_empty[1]) if match_empty[0] == 'ref' else match_empty]
  return any(eq_rich(key, e) for e in elems)


# ---------------------------------------------------------------------------
# ordering

_TYPE_NAME = {'none': 'NoneType', 'str': 'str', 'alt': 'AltText', 'date': 'date', 'tuple': 'tuple',
              'ref': 'Record', 'rset': 'RecordSet', 'bool': 'bool'}


def _fallback(a):
  """sort_key.py: None is less than everything else; numbers are less than other types; other types are
  ordered by type name."""
  if a[0] == 'num':
    name = type(a[1]).__name__
  else:
    name = _TYPE_NAME[a[0]]
  return (0 if a[0] == 'none' else 1, 0 if a[0] in NUMERIC_TAGS else 1, name)


def _sign(x, y):
  return -1 if x < y else (1 if y < x else 0)


def cmp_rich(a, b):
  """-1 / 0 / 1: a sorts before / together with / after b."""
  if a[0] in NUMERIC_TAGS and b[0] in NUMERIC_TAGS:
    return _sign(a[1], b[1])
  if a[0] == b[0] and a[0] in ('str', 'date', 'tuple', 'ref'):
    return _sign(a[1], b[1])
  return _sign(_fallback(a), _fallback(b))


def sort_spec(order, has_manual_sort):
  """order = ['default'] | ['order_by', None | 'col' | [cols]] | ['sort_by', 'col'] -> [(col, sign)].
  Row id (ascending) is always the final tie-breaker and is not listed."""
  kind = order[0]
  if kind == 'sort_by':
    cols = [order[1]]                         # "only allows a single field, and falls back to row ID"
  else:
    ob = 'id' if kind == 'default' else order[1]   # "By default ... as if with order_by='id'"
    if ob is None:
      cols = []
    elif isinstance(ob, str):
      cols = [ob]
    else:
      cols = list(ob)
    if 'id' in cols:
      cols = cols[:cols.index('id')]          # row ids are unique: nothing after 'id' matters
    elif has_manual_sort and 'manualSort' not in cols and '-manualSort' not in cols:
      cols = cols + ['manualSort']            # "for records with equal order_by fields ... manualSort"
  return [(c[1:], -1) if c.startswith('-') else (c, 1) for c in cols]


def row_value(row, col):
  """row = {'id': n, col: tagged value}"""
  if col == 'id':
    return ('num', row['id'])
  return row[col]


def cmp_rows(spec, r1, r2):
  for col, sign in spec:
    c = cmp_rich(row_value(r1, col), row_value(r2, col))
    if c:
      return c * sign
  return _sign(r1['id'], r2['id'])


def ordered(rows, spec):
  return sorted(rows, key=functools.cmp_to_key(lambda a, b: cmp_rows(spec, a, b)))


def user_sort_cols(order):
  """Columns the caller named (without '-'), for precondition checks."""
  if order[0] == 'default':
    return []
  v = order[1]
  cols = [] if v is None else ([v] if isinstance(v, str) else list(v))
  return [c.lstrip('-') for c in cols]


def classify_values(values):
  """'num' | 'str' | 'num+none' | 'str+none' | 'none' | 'empty' | 'mixed' for a list of tagged values."""
  tags = set(v[0] for v in values)
  if not tags:
    return 'empty'
  has_none = 'none' in tags
  tags.discard('none')
  if not tags:
    return 'none'
  if tags <= set(NUMERIC_TAGS) and 'bool' not in tags:
    base = 'num'
  elif tags == {'str'}:
    base = 'str'
  elif tags == {'date'}:
    base = 'date'
  elif tags == {'bool'}:
    base = 'bool'
  else:
    return 'mixed'
  return base + ('+none' if has_none else '')


# ---------------------------------------------------------------------------
# linear-scan searches over an ordered list (C14)

def cmp_row_to_values(spec, row, values):
  """Position of `row` relative to the probe values on the first len(values) sort columns."""
  for (col, sign), v in zip(spec, values):
    c = cmp_rich(row_value(row, col), v)
    if c:
      return c * sign
  return 0


def find_scan(op, rows, spec, values):
  """Row id found by find.<op>(*values) over `rows` (already in order), 0 for the empty record."""
  found = 0
  for r in rows:
    c = cmp_row_to_values(spec, r, values)
    if op == 'lt' and c < 0:
      found = r['id']               # keep the last one before
    elif op == 'le' and c <= 0:
      found = r['id']
    elif op == 'gt' and c > 0:
      return r['id']                # first one after
    elif op == 'ge' and c >= 0:
      return r['id']
    elif op == 'eq' and c == 0:
      return r['id']
  return found


def neighbours(rows, row_id):
  """(previous id, next id, 1-based position, size) of row_id in the ordered list; None if absent."""
  ids = [r['id'] for r in rows]
  for i, x in enumerate(ids):
    if x == row_id:
      return (ids[i - 1] if i > 0 else 0, ids[i + 1] if i + 1 < len(ids) else 0, i + 1, len(ids))
  return None


def table_rows(rep, types):
  """fetch_table repr -> ([{'id':..., col: tagged}], {col: error-text}) ; columns that cannot be
  modelled are reported in the second value and left out of the rows."""
  ids = list(rep[2])
  rows = [{'id': r} for r in ids]
  bad = {}
  for col, vals in rep[3].items():
    t = types.get(col)
    if t is None:
      continue
    try:
      conv = [rich(t, v) for v in vals]
    except OutOfModel as e:
      bad[col] = str(e)
      continue
    for row, v in zip(rows, conv):
      row[col] = v
  return rows, bad
