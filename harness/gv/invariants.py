"""Structural invariants computed by the harness from fetched tables (C08, C09)."""
from . import env
env.setup()
import schema as _schema   # noqa: E402  (static declarations of metadata column types)


def meta_ref_columns():
  """{meta_table: {col: (kind 'Ref'|'RefList', target_table)}} from the declared metadata schema."""
  out = {}
  for a in _schema.schema_create_actions():
    for c in a.columns:
      t = c['type']
      if t.startswith('Ref:') or t.startswith('RefList:'):
        kind, target = t.split(':', 1)
        out.setdefault(a.table_id, {})[c['id']] = (kind, target)
  return out

_META_REFS = None


def schema_mismatch(doc):
  """C08: compares Engine.schema with the schema described by the two metadata tables.
  Returns None or (label, detail)."""
  eng = doc.engine
  tabs = doc.tables_meta()
  cols = doc.columns_meta()
  by_id = {c['id']: c for c in cols}
  table_ids = {}
  for t in tabs:
    if t['tableId'] in table_ids.values():
      return 'duplicate-tableId-in-metadata', t['tableId']
    table_ids[t['id']] = t['tableId']
  orphan = sorted(set(c['parentId'] for c in cols) - set(table_ids))
  if orphan:
    return 'column-record-of-missing-table', orphan
  expected = {tid: {} for tid in table_ids.values()}
  for c in cols:
    rev = by_id.get(c['reverseCol'])
    expected[table_ids[c['parentId']]][c['colId']] = (
      c['type'], bool(c['isFormula']), c['formula'], rev['colId'] if rev else None)
  actual = {}
  for tid, st in eng.schema.items():
    if tid.startswith('_grist_'):
      continue
    actual[tid] = {cid: (c.type, bool(c.isFormula), c.formula, c.reverseColId or None)
                   for cid, c in st.columns.items()}
  if set(expected) != set(actual):
    return 'table-set-differs', {'metadata_only': sorted(set(expected) - set(actual)),
                                 'schema_only': sorted(set(actual) - set(expected))}
  for tid in sorted(expected):
    if expected[tid] != actual[tid]:
      e, a = expected[tid], actual[tid]
      if set(e) != set(a):
        return 'column-set-differs', {'table': tid, 'metadata_only': sorted(set(e) - set(a)),
                                      'schema_only': sorted(set(a) - set(e))}
      for cid in sorted(e):
        if e[cid] != a[cid]:
          which = [n for n, x, y in zip(('type', 'isFormula', 'formula', 'reverseColId'), e[cid], a[cid]) if x != y]
          return 'column-%s-differs' % '+'.join(which), {'table': tid, 'col': cid, 'metadata': e[cid], 'schema': a[cid]}
  live = set(t for t in eng.tables if not t.startswith('_grist_'))
  if live != set(actual):
    return 'engine-tables-differ-from-schema', {'tables_only': sorted(live - set(actual)),
                                                'schema_only': sorted(set(actual) - live)}
  return None


def dangling_meta_refs(doc):
  """C09 part 1: every non-zero Ref / RefList element in metadata tables resolves. Returns list of problems."""
  global _META_REFS
  if _META_REFS is None:
    _META_REFS = meta_ref_columns()
  rows = {}
  probs = []
  def ids(t):
    if t not in rows:
      rows[t] = set(doc.row_ids(t)) if t in doc.engine.tables else None
    return rows[t]
  for mt, refcols in _META_REFS.items():
    if mt not in doc.engine.tables:
      continue
    rep = doc.fetch_repr(mt)
    for col, (kind, target) in refcols.items():
      tgt = ids(target)
      if tgt is None:
        continue
      for rid, v in zip(rep[2], rep[3].get(col, [])):
        if kind == 'Ref':
          if isinstance(v, int) and not isinstance(v, bool) and v != 0 and v not in tgt:
            probs.append([mt, col, rid, v])
        else:
          if isinstance(v, list) and v and v[0] == 'L':
            for x in v[1:]:
              if isinstance(x, int) and x not in tgt:
                probs.append([mt, col, rid, x])
  return probs


def meta_structure_problems(doc):
  """C09 part 2: field/section/table consistency, raw sections, helper columns in use."""
  probs = []
  tabs = {t['id']: t for t in doc.tables_meta()}
  cols = {c['id']: c for c in doc.columns_meta()}
  secs = {s['id']: s for s in doc.meta('_grist_Views_section')}
  fields = doc.meta('_grist_Views_section_field')
  for f in fields:
    s = secs.get(f['parentId'])
    c = cols.get(f['colRef'])
    if s is None or c is None:
      probs.append(['field', f['id'], 'section or column missing', f['parentId'], f['colRef']]); continue
    if c['parentId'] != s['tableRef']:
      probs.append(['field', f['id'], 'column %s belongs to table %s, section shows table %s' % (c['id'], c['parentId'], s['tableRef'])])
  tids = [t['tableId'] for t in tabs.values()]
  if len(set(tids)) != len(tids):
    probs.append(['tables', 'duplicate tableId records', sorted(tids)])
  live = set(t for t in doc.engine.tables if not t.startswith('_grist_'))
  if live != set(tids):
    probs.append(['tables', 'user tables without exactly one metadata record', sorted(live ^ set(tids))])
  for t in tabs.values():
    raw = secs.get(t['rawViewSectionRef'])
    if not t['rawViewSectionRef'] or raw is None:
      if not t['summarySourceTable'] and not t['tableId'].startswith('GristHidden_'):
        probs.append(['table', t['tableId'], 'no raw view section'])
    elif raw['tableRef'] != t['id']:
      probs.append(['table', t['tableId'], 'raw view section shows another table'])
    rc = t.get('recordCardViewSectionRef')
    if rc and (rc not in secs or secs[rc]['tableRef'] != t['id']):
      probs.append(['table', t['tableId'], 'record card section missing or of another table'])
  used_display = set(c['displayCol'] for c in cols.values()) | set(f['displayCol'] for f in fields)
  used_rules = set()
  for owner in list(cols.values()) + fields + list(secs.values()):
    v = owner.get('rules')
    if isinstance(v, list):
      used_rules.update(x for x in v[1:] if isinstance(x, int))
  for c in cols.values():
    if c['colId'].startswith('gristHelper_Display') and c['id'] not in used_display:
      probs.append(['helper', c['colId'], 'display helper column not used by any column or field'])
    if c['colId'].startswith('gristHelper_ConditionalRule') and c['id'] not in used_rules:
      probs.append(['helper', c['colId'], 'rule helper column not used by any column, field or section'])
  return probs
