"""Weighted choice between strategies.

`st.one_of(a, a, b)` does NOT weight `a` double: Hypothesis removes repeated branches. `weighted((3, a), (1, b))`
draws an index from a flat table first, so the stated proportions hold (generation phase only; the runner never
asks Hypothesis to shrink)."""
from hypothesis import strategies as st


def weighted(*pairs):
  table = []
  for i, (w, _) in enumerate(pairs):
    table.extend([i] * int(w))
  strategies = [s for _, s in pairs]
  return st.sampled_from(table).flatmap(lambda i: strategies[i])
