"""Fault injection at doc-action boundaries and usercode rebuilds (DESIGN.md section 3, E4).
Per-instance wrapping from the harness; the repository is not touched."""
import contextlib


class InjectedFault(Exception):
  pass


class _Injection(object):
  def __init__(self):
    self.fired = False
    self.doc_actions_seen = 0
    self.rebuilds_seen = 0
    self.doc_actions_before_fault = 0
    self.depth = 0
    self.in_rollback = False
    self.at_action = None      # class name of the doc action at which the fault fired


@contextlib.contextmanager
def inject(engine, kind, k):
  """kind 'before'/'after': raise before/after the k-th (0-based) top-level doc action applied during the
  with-block; 'rebuild': raise at entry of the k-th rebuild_usercode call. kind 'count' never raises.
  The fault fires at most once (so the engine's own rollback, which applies undo doc actions, runs clean)."""
  inj = _Injection()
  orig_apply = engine.apply_doc_action
  orig_rebuild = engine.rebuild_usercode

  def apply_doc_action(doc_action):
    top = inj.depth == 0
    idx = inj.doc_actions_seen
    if top:
      inj.doc_actions_seen += 1
      if kind == 'before' and idx == k and not inj.fired and not inj.in_rollback:
        inj.fired = True
        inj.doc_actions_before_fault = idx
        inj.at_action = doc_action.__class__.__name__
        raise InjectedFault('before doc action #%d %r' % (idx, doc_action.__class__.__name__))
    inj.depth += 1
    try:
      res = orig_apply(doc_action)
    except Exception:
      inj.in_rollback = True     # something failed already: whatever follows is recovery, never inject there
      raise
    finally:
      inj.depth -= 1
    if top and kind == 'after' and idx == k and not inj.fired and not inj.in_rollback:
      inj.fired = True
      inj.doc_actions_before_fault = idx + 1
      inj.at_action = doc_action.__class__.__name__
      raise InjectedFault('after doc action #%d %r' % (idx, doc_action.__class__.__name__))
    return res

  def rebuild_usercode():
    idx = inj.rebuilds_seen
    inj.rebuilds_seen += 1
    if kind == 'rebuild' and idx == k and not inj.fired and not inj.in_rollback:
      inj.fired = True
      inj.doc_actions_before_fault = inj.doc_actions_seen
      raise InjectedFault('at usercode rebuild #%d' % idx)
    try:
      return orig_rebuild()
    except Exception:
      inj.in_rollback = True
      raise

  orig_undo = engine._undo_to_checkpoint

  def undo_to_checkpoint(checkpoint):
    # never inject into the engine's own rollback (a fault during rollback is a double fault, outside C04)
    # (_undo_to_checkpoint is also used to undo side effects of a formula that raised - normal operation)
    import sys
    if sys._getframe(1).f_code.co_name == 'apply_user_actions':
      inj.in_rollback = True
    return orig_undo(checkpoint)

  engine.apply_doc_action = apply_doc_action
  engine.rebuild_usercode = rebuild_usercode
  engine._undo_to_checkpoint = undo_to_checkpoint
  try:
    yield inj
  finally:
    del engine.apply_doc_action
    del engine.rebuild_usercode
    del engine._undo_to_checkpoint
