"""JSON "value specs" for arbitrary Python values (shared by C22 and C24).

A spec is JSON: None/bool/int/float/str stand for themselves, a JSON list is a Python list of
decoded specs, and a dict {"k": kind, ...} describes everything else (see `build`). `build` never
raises for any shrunk/mangled spec: unknown kinds and malformed fields fall back to simple values.
`source(spec)` renders (most of) the same values as Python source text usable inside a Grist formula
(C24 part 2), using the helper classes of `PRELUDE`.

Strategies: `values(profile)` with profile 'convert' (C22: values reachable from user input and
formulas) or 'encode' (C24: additionally subclasses, odd-key dicts, sets, self-reference, deep
nesting, hostile objects).
"""
import datetime
import decimal
import enum

from hypothesis import strategies as st

from . import env
env.setup()
import moment      # noqa: E402
import objtypes    # noqa: E402

ZONES = ['UTC', 'America/New_York', 'Asia/Kolkata', 'Europe/London', 'Pacific/Apia', 'Australia/Lord_Howe']
EXC_CLASSES = [ValueError, TypeError, ZeroDivisionError, KeyError, AttributeError, Exception,
               UnicodeDecodeError, SyntaxError, OSError, StopIteration]


# ---- helper classes (kept in sync with PRELUDE below) -------------------------------------------
class StrSub(str): pass
class IntSub(int): pass
class FloatSub(float): pass
class BytesSub(bytes): pass
class ListSub(list): pass
class TupleSub(tuple): pass
class DictSub(dict): pass
class Color(enum.IntEnum):
  RED = 1
  BIG = 2 ** 40
class Plain(object):
  def __repr__(self): return 'Plain()'
class ReprRaises(object):
  def __repr__(self): raise ValueError('no repr')
class StrRaises(object):
  def __str__(self): raise ValueError('no str')
  def __repr__(self): return 'StrRaises()'
class ReprNotStr(object):
  def __repr__(self): return 42
class ReprSub(object):
  def __repr__(self): return StrSub('ReprSub()')
  __str__ = __repr__
class EqRaises(object):
  def __eq__(self, other): raise ValueError('no eq')
  __hash__ = object.__hash__
  def __repr__(self): return 'EqRaises()'
class BoolRaises(object):
  def __bool__(self): raise ValueError('no bool')
  def __repr__(self): return 'BoolRaises()'
class StrEmpty(object):
  def __str__(self): return ''
  def __repr__(self): return 'StrEmpty()'

SUBS = {'str': StrSub, 'int': IntSub, 'float': FloatSub, 'bytes': BytesSub, 'list': ListSub,
        'tuple': TupleSub, 'dict': DictSub}
HOSTILE = {'plain': Plain, 'repr_raises': ReprRaises, 'str_raises': StrRaises, 'repr_notstr': ReprNotStr,
           'repr_sub': ReprSub, 'eq_raises': EqRaises, 'bool_raises': BoolRaises, 'str_empty': StrEmpty}

PRELUDE = '''
import datetime, decimal, enum, moment, objtypes
class StrSub(str): pass
class IntSub(int): pass
class FloatSub(float): pass
class BytesSub(bytes): pass
class ListSub(list): pass
class TupleSub(tuple): pass
class DictSub(dict): pass
class Color(enum.IntEnum):
  RED = 1
  BIG = 2 ** 40
class Plain(object):
  def __repr__(self): return 'Plain()'
class ReprRaises(object):
  def __repr__(self): raise ValueError('no repr')
class StrRaises(object):
  def __str__(self): raise ValueError('no str')
  def __repr__(self): return 'StrRaises()'
class ReprNotStr(object):
  def __repr__(self): return 42
class ReprSub(object):
  def __repr__(self): return StrSub('ReprSub()')
  __str__ = __repr__
class EqRaises(object):
  def __eq__(self, other): raise ValueError('no eq')
  __hash__ = object.__hash__
  def __repr__(self): return 'EqRaises()'
class BoolRaises(object):
  def __bool__(self): raise ValueError('no bool')
  def __repr__(self): return 'BoolRaises()'
class StrEmpty(object):
  def __str__(self): return ''
  def __repr__(self): return 'StrEmpty()'
def _selfref(kind, extra):
  if kind == 'dict':
    x = {'extra': extra}; x['self'] = x
  else:
    x = list(extra); x.append(x)
  return x
def _deep(n, kind, leaf):
  x = leaf
  for _ in range(n):
    x = {'a': x} if kind == 'dict' else ((x,) if kind == 'tuple' else [x])
  return x
def _setof(items, frozen):
  out = set()
  for i in items:
    try:
      out.add(i)
    except Exception:
      pass
  return frozenset(out) if frozen else out
def _dictof(pairs, cls):
  out = cls()
  for k, v in pairs:
    try:
      out[k] = v
    except Exception:
      pass
  return out
'''.lstrip('\n')


def _selfref(kind, extra):
  if kind == 'dict':
    x = {'extra': extra}; x['self'] = x
  else:
    x = list(extra); x.append(x)
  return x

def _deep(n, kind, leaf):
  x = leaf
  for _ in range(n):
    x = {'a': x} if kind == 'dict' else ((x,) if kind == 'tuple' else [x])
  return x

def _setof(items, frozen):
  out = set()
  for i in items:
    try:
      out.add(i)
    except Exception:
      pass
  return frozenset(out) if frozen else out

def _dictof(pairs, cls):
  out = cls()
  for k, v in pairs:
    try:
      out[k] = v
    except Exception:
      pass
  return out


# ---- normalisation helpers ----------------------------------------------------------------------
def _int(x, default=0):
  if isinstance(x, bool):
    return int(x)
  if isinstance(x, int):
    return x
  if isinstance(x, float) and x == x and abs(x) < 1e18:
    return int(x)
  return default

def _str(x):
  return x if isinstance(x, str) else ''

def _list(x):
  return x if isinstance(x, list) else []

def _ymd(v):
  v = _list(v)
  y = _int(v[0] if len(v) > 0 else 2000, 2000)
  m = _int(v[1] if len(v) > 1 else 1, 1)
  d = _int(v[2] if len(v) > 2 else 1, 1)
  return (abs(y) % 9999 + 1, abs(m) % 12 + 1, abs(d) % 28 + 1)

def _hmsu(v):
  v = _list(v)
  g = lambda i: abs(_int(v[i] if len(v) > i else 0))
  return (g(3) % 24, g(4) % 60, g(5) % 60, g(6) % 1000000)

def _tz_kind(tz):
  if tz is None or isinstance(tz, bool):
    return 'naive'
  if isinstance(tz, str):
    return 'moment'
  return 'foreign'

def _zone(tz):
  return tz if tz in ZONES else 'UTC'

def _offset_minutes(tz):
  return _int(tz) % 1439 - 719      # datetime.timezone needs |offset| < 24h

def _pow(spec):
  b = 10 if _int(spec.get('b'), 2) == 10 else 2
  e = abs(_int(spec.get('e'))) % 20000
  n = b ** e + _int(spec.get('add'))
  return -n if spec.get('neg') else n


class Fixture(object):
  """Live engine objects for Record/RecordSet values; supplied by the property module."""
  tables = ()       # list of engine Table objects; index 0 = the table reference types point to

  def record(self, t, row):
    tab = self.tables[_int(t) % len(self.tables)]
    return tab.Record(abs(_int(row)) % 6)

  def recordset(self, t, rows, sort):
    tab = self.tables[_int(t) % len(self.tables)]
    rows = [abs(_int(r)) % 6 for r in _list(rows)][:8]
    if sort:
      return tab.RecordSet(objtypes.RecordList(rows, sort_by=('-A',), group_by={'B': 'x'}))
    return tab.RecordSet(rows)


def kind_of(spec):
  """Top-level shape label of a spec."""
  if spec is None:
    return 'none'
  if isinstance(spec, bool):
    return 'bool'
  if isinstance(spec, int):
    return 'int' if -2 ** 31 <= spec < 2 ** 31 else 'bigint'
  if isinstance(spec, float):
    return 'float' if spec == spec and abs(spec) != float('inf') else 'float-nonfinite'
  if isinstance(spec, str):
    return 'str'
  if isinstance(spec, list):
    return 'list'
  if isinstance(spec, dict):
    k = spec.get('k')
    if k == 'dt':
      return 'dt-' + _tz_kind(spec.get('tz'))
    if k in ('sub', 'obj', 'hostile', 'misc'):
      return '%s-%s' % (k, _str(spec.get('w')) or '?')
    if k == 'pow':
      return 'bigint'
    return _str(k) or 'dict?'
  return 'other'


def all_kinds(spec, acc=None):
  """Set of shape labels anywhere inside the spec."""
  acc = set() if acc is None else acc
  acc.add(kind_of(spec))
  if isinstance(spec, list):
    for s in spec:
      all_kinds(s, acc)
  elif isinstance(spec, dict):
    v = spec.get('v')
    if spec.get('k') in ('dict',):
      for p in _list(v):
        if isinstance(p, list):
          for s in p[:2]:
            all_kinds(s, acc)
    elif spec.get('k') in ('tuple', 'set', 'frozenset', 'sub', 'selfref') and isinstance(v, (list, dict)):
      all_kinds(v, acc) if isinstance(v, dict) else [all_kinds(s, acc) for s in v]
    for key in ('inp', 'leaf'):
      if key in spec:
        all_kinds(spec[key], acc)
  return acc


def build(spec, fx=None, depth=0, inself=False):
  """Decode a value spec into a Python value. Total: never raises on malformed specs.
  Inside a self-referential container nested self-reference is flattened and deep nesting is capped at 3
  levels (encoding such values costs depth**k steps: a cost problem, not a C24 question)."""
  if spec is None or isinstance(spec, (bool, int, float, str)):
    return spec
  if depth > 40:
    return None
  if isinstance(spec, list):
    return [build(s, fx, depth + 1, inself) for s in spec]
  if not isinstance(spec, dict):
    return None
  k = spec.get('k')
  v = spec.get('v')
  if k == 'bytes':
    return bytes(ord(c) & 255 for c in _str(v))
  if k == 'tuple':
    return tuple(build(s, fx, depth + 1, inself) for s in _list(v))
  if k == 'dict':
    pairs = [(build(p[0], fx, depth + 1, inself), build(p[1], fx, depth + 1, inself))
             for p in _list(v) if isinstance(p, list) and len(p) == 2]
    return _dictof(pairs, dict)
  if k in ('set', 'frozenset'):
    return _setof([build(s, fx, depth + 1, inself) for s in _list(v)], k == 'frozenset')
  if k == 'date':
    return datetime.date(*_ymd(v))
  if k == 'dt':
    tz = spec.get('tz')
    kind = _tz_kind(tz)
    tzinfo = None
    if kind == 'moment':
      tzinfo = moment.tzinfo(_zone(tz))
    elif kind == 'foreign':
      tzinfo = datetime.timezone(datetime.timedelta(minutes=_offset_minutes(tz)))
    return datetime.datetime(*(_ymd(v) + _hmsu(v)), tzinfo=tzinfo)
  if k == 'alt':
    return objtypes.AltText(_str(v), _str(spec.get('tn')) or None)
  if k == 'exc':
    cls = EXC_CLASSES[_int(spec.get('cls')) % len(EXC_CLASSES)]
    try:
      err = cls(_str(spec.get('msg')))
    except Exception:
      err = ValueError(_str(spec.get('msg')))
    if cls is UnicodeDecodeError:
      err = UnicodeDecodeError('utf8', b'\xff', 0, 1, _str(spec.get('msg')))
    if 'inp' in spec:
      return objtypes.RaisedException(err, user_input=build(spec['inp'], fx, depth + 1, inself))
    return objtypes.RaisedException(err)
  if k == 'rec' and fx is not None:
    return fx.record(spec.get('t'), spec.get('row'))
  if k == 'rset' and fx is not None:
    return fx.recordset(spec.get('t'), spec.get('rows'), bool(spec.get('sort')))
  if k == 'pow':
    return _pow(spec)
  if k == 'sub':
    w = spec.get('w')
    cls = SUBS.get(w, StrSub)
    inner = build(v, fx, depth + 1, inself)
    try:
      if w == 'dict':
        return _dictof(list(inner.items()) if isinstance(inner, dict) else [], DictSub)
      if w == 'bytes':
        return BytesSub(inner if isinstance(inner, bytes) else _str(inner).encode('utf8', 'replace'))
      if w in ('list', 'tuple'):
        return cls(inner if isinstance(inner, (list, tuple)) else [inner])
      if w == 'int':
        return IntSub(_int(inner))
      if w == 'float':
        return FloatSub(inner if isinstance(inner, (int, float)) and not isinstance(inner, bool) else 0.5)
      return StrSub(inner if isinstance(inner, str) else '')
    except Exception:
      return StrSub('')
  if k == 'enum':
    return Color.BIG if spec.get('big') else Color.RED
  if k == 'selfref':
    if inself:
      return build(_list(v), fx, depth + 1, True)
    return _selfref('dict' if spec.get('w') == 'dict' else 'list', build(_list(v), fx, depth + 1, True))
  if k == 'deep':
    n = abs(_int(spec.get('n'))) % 3001
    if inself:
      n = n % 4
    w = spec.get('w')
    return _deep(n, w if w in ('dict', 'tuple') else 'list', build(spec.get('leaf'), fx, depth + 1, inself))
  if k == 'hostile':
    return HOSTILE.get(spec.get('w'), Plain)()
  if k == 'obj':
    w = spec.get('w')
    if w == 'pending':
      return objtypes._pending_sentinel
    if w == 'censored':
      return objtypes._censored_sentinel
    if w == 'unmarshallable':
      return objtypes.UnmarshallableValue(_str(v))
    if w == 'recordstub':
      return objtypes.RecordStub(_str(v) or 'Tbl', abs(_int(spec.get('row'))) % 6)
    if w == 'recordsetstub':
      return objtypes.RecordSetStub(_str(v) or 'Tbl', [abs(_int(r)) % 6 for r in _list(spec.get('rows'))][:8])
    if w == 'reflookup':
      return objtypes.ReferenceLookup(_str(v), {'column': 'A'})
    if w == 'recordlist':
      return objtypes.RecordList([abs(_int(r)) % 6 for r in _list(spec.get('rows'))][:8],
                                 sort_by=('A',) if spec.get('sort') else None)
    return objtypes._pending_sentinel
  if k == 'misc':
    w = spec.get('w')
    return {'complex': complex(1, 2), 'decimal': decimal.Decimal('1.50'), 'range': range(3),
            'bytearray': bytearray(b'ab'), 'ellipsis': Ellipsis, 'notimplemented': NotImplemented,
            'type': StrSub, 'function': _int, 'memoryview': memoryview(b'ab'),
            'timedelta': datetime.timedelta(days=1, seconds=5), 'time': datetime.time(12, 30),
            'module': datetime}.get(w, Ellipsis)
  return None


def for_formula(spec):
  """Spec as used for formula values: ReferenceLookup (an input-only instruction object of the engine, which a
  formula could only build by importing engine internals) is replaced by an UnmarshallableValue."""
  if isinstance(spec, list):
    return [for_formula(s) for s in spec]
  if isinstance(spec, dict):
    if spec.get('k') == 'obj' and spec.get('w') == 'reflookup':
      return {'k': 'obj', 'w': 'unmarshallable', 'v': _str(spec.get('v'))}
    return {k: for_formula(v) for k, v in spec.items()}
  return spec


def source(spec, depth=0, inself=False):
  """Python expression text (valid after PRELUDE, inside a formula of table Tbl) building the value.
  Records use the formula's own `rec`/tables."""
  if spec is None or isinstance(spec, (bool, str)):
    return repr(spec)
  if isinstance(spec, int):
    return '(%d)' % spec
  if isinstance(spec, float):
    if spec != spec:
      return "float('nan')"
    if spec in (float('inf'), float('-inf')):
      return "float('%sinf')" % ('-' if spec < 0 else '')
    return '(%r)' % spec
  if depth > 40:
    return 'None'
  if isinstance(spec, list):
    return '[%s]' % ', '.join(source(s, depth + 1, inself) for s in spec)
  if not isinstance(spec, dict):
    return 'None'
  k = spec.get('k')
  v = spec.get('v')
  sub = lambda s: source(s, depth + 1, inself)
  if k == 'bytes':
    return repr(bytes(ord(c) & 255 for c in _str(v)))
  if k == 'tuple':
    return 'tuple([%s])' % ', '.join(sub(s) for s in _list(v))
  if k == 'dict':
    return '_dictof([%s], dict)' % ', '.join('(%s, %s)' % (sub(p[0]), sub(p[1]))
                                             for p in _list(v) if isinstance(p, list) and len(p) == 2)
  if k in ('set', 'frozenset'):
    return '_setof([%s], %r)' % (', '.join(sub(s) for s in _list(v)), k == 'frozenset')
  if k == 'date':
    return 'datetime.date(%d, %d, %d)' % _ymd(v)
  if k == 'dt':
    tz = spec.get('tz')
    kind = _tz_kind(tz)
    tzs = 'None'
    if kind == 'moment':
      tzs = 'moment.tzinfo(%r)' % _zone(tz)
    elif kind == 'foreign':
      tzs = 'datetime.timezone(datetime.timedelta(minutes=%d))' % _offset_minutes(tz)
    return 'datetime.datetime(%d, %d, %d, %d, %d, %d, %d, tzinfo=%s)' % (_ymd(v) + _hmsu(v) + (tzs,))
  if k == 'alt':
    return 'objtypes.AltText(%r, %r)' % (_str(v), _str(spec.get('tn')) or None)
  if k == 'exc':
    cls = EXC_CLASSES[_int(spec.get('cls')) % len(EXC_CLASSES)]
    if cls is UnicodeDecodeError:
      err = "UnicodeDecodeError('utf8', b'\\xff', 0, 1, %r)" % _str(spec.get('msg'))
    else:
      err = '%s(%r)' % (cls.__name__, _str(spec.get('msg')))
    if 'inp' in spec:
      return 'objtypes.RaisedException(%s, user_input=%s)' % (err, sub(spec['inp']))
    return 'objtypes.RaisedException(%s)' % err
  if k == 'rec':
    tabs = ['Tbl', 'Other']
    return '%s.lookupOne(id=%d)' % (tabs[_int(spec.get('t')) % 2], abs(_int(spec.get('row'))) % 6)
  if k == 'rset':
    tabs = ['Tbl', 'Other']
    rows = [abs(_int(r)) % 6 for r in _list(spec.get('rows'))][:8]
    t = tabs[_int(spec.get('t')) % 2]
    if spec.get('sort'):
      return "%s.lookupRecords(order_by='-A')" % t
    return '%s.lookupRecords(A=%d)' % (t, rows[0] if rows else 0)
  if k == 'pow':
    b = 10 if _int(spec.get('b'), 2) == 10 else 2
    e = abs(_int(spec.get('e'))) % 20000
    return '(%s(%d ** %d + (%d)))' % ('-' if spec.get('neg') else '', b, e, _int(spec.get('add')))
  if k == 'sub':
    w = spec.get('w')
    inner = sub(v)
    if w == 'dict':
      return '(lambda i: _dictof(list(i.items()) if isinstance(i, dict) else [], DictSub))(%s)' % inner
    if w == 'bytes':
      return "(lambda i: BytesSub(i if isinstance(i, bytes) else (i if isinstance(i, str) else '').encode('utf8', 'replace')))(%s)" % inner
    if w == 'list':
      return '(lambda i: ListSub(i if isinstance(i, (list, tuple)) else [i]))(%s)' % inner
    if w == 'tuple':
      return '(lambda i: TupleSub(i if isinstance(i, (list, tuple)) else [i]))(%s)' % inner
    if w == 'int':
      return '(lambda i: IntSub(i if isinstance(i, int) else 0))(%s)' % inner
    if w == 'float':
      return '(lambda i: FloatSub(i if isinstance(i, (int, float)) and not isinstance(i, bool) else 0.5))(%s)' % inner
    return "(lambda i: StrSub(i if isinstance(i, str) else ''))(%s)" % inner
  if k == 'enum':
    return 'Color.BIG' if spec.get('big') else 'Color.RED'
  if k == 'selfref':
    if inself:
      return sub(_list(v))
    return '_selfref(%r, %s)' % ('dict' if spec.get('w') == 'dict' else 'list', source(_list(v), depth + 1, True))
  if k == 'deep':
    n = abs(_int(spec.get('n'))) % 3001
    if inself:
      n = n % 4
    w = spec.get('w')
    return '_deep(%d, %r, %s)' % (n, w if w in ('dict', 'tuple') else 'list', sub(spec.get('leaf')))
  if k == 'hostile':
    return '%s()' % HOSTILE.get(spec.get('w'), Plain).__name__
  if k == 'obj':
    w = spec.get('w')
    if w == 'censored':
      return 'objtypes._censored_sentinel'
    if w == 'unmarshallable':
      return 'objtypes.UnmarshallableValue(%r)' % _str(v)
    if w == 'recordstub':
      return 'objtypes.RecordStub(%r, %d)' % (_str(v) or 'Tbl', abs(_int(spec.get('row'))) % 6)
    if w == 'recordsetstub':
      return 'objtypes.RecordSetStub(%r, %r)' % (_str(v) or 'Tbl',
                                                [abs(_int(r)) % 6 for r in _list(spec.get('rows'))][:8])
    if w == 'reflookup':
      return "objtypes.ReferenceLookup(%r, {'column': 'A'})" % _str(v)
    if w == 'recordlist':
      return 'objtypes.RecordList(%r, sort_by=%r)' % ([abs(_int(r)) % 6 for r in _list(spec.get('rows'))][:8],
                                                     ('A',) if spec.get('sort') else None)
    return 'objtypes._pending_sentinel'
  if k == 'misc':
    return {'complex': 'complex(1, 2)', 'decimal': "decimal.Decimal('1.50')", 'range': 'range(3)',
            'bytearray': "bytearray(b'ab')", 'ellipsis': 'Ellipsis', 'notimplemented': 'NotImplemented',
            'type': 'StrSub', 'function': '_deep', 'memoryview': "memoryview(b'ab')",
            'timedelta': 'datetime.timedelta(days=1, seconds=5)', 'time': 'datetime.time(12, 30)',
            'module': 'datetime'}.get(spec.get('w'), 'Ellipsis')
  return 'None'


# ---- strategies ---------------------------------------------------------------------------------
BOUNDARY_INTS = [0, 1, -1, 2, 255, 2 ** 31 - 1, 2 ** 31, 2 ** 31 + 1, -2 ** 31, -2 ** 31 - 1, 2 ** 32,
                 2 ** 53 - 1, 2 ** 53, 2 ** 53 + 1, -2 ** 53 - 1, 2 ** 63 - 1, 2 ** 63, -2 ** 63, -2 ** 63 - 1,
                 2 ** 64, 10 ** 30, -10 ** 30, 10 ** 308, 10 ** 309, 86400, 1577836800]
BOUNDARY_FLOATS = [0.0, -0.0, 0.5, -0.5, 1.0, 2147483647.0, 2147483647.5, 2147483648.0, -2147483648.0,
                   -2147483648.5, -2147483649.0, 9007199254740992.0, 9007199254740993.0, 1e15, 1e16, 1e22,
                   1.7976931348623157e308, 5e-324, 1e-7, 123456.789, 1577836800.0, 253402300800.0, -62135596800.0,
                   1e11, 1e12, float('nan'), float('inf'), float('-inf')]
NUMERIC_STRINGS = ['0', '1', '-1', '12', ' 12 ', '1.5', '-0', '1e3', '1E-3', '1_000', '1,000', '12abc', '0x10',
                   '٣', '١٢', '２', 'nan', 'NaN', 'inf', '-inf', 'Infinity', '1e400', '-1e400',
                   '2147483647', '2147483648', '-2147483648', '-2147483649', '2147483647.9', '9007199254740993',
                   '1' * 400, '.5', '5.', '+7', '--1', '1 2', '$5', '50%', '1/2', '0b1', '1j', '\t3\n']
DATE_STRINGS = ['2020-01-01', '2020-01-01T12:34:56', '2020-01-01 12:34:56', '2020-01-01T12:34:56.789Z',
                '2020-01-01T12:34:56+05:30', '2020-01-01T12:34:56-0800', '2020-13-45', '2020-02-30',
                '2020-02-29', '2021-02-29', '0001-01-01', '9999-12-31', '9999-12-31T23:59:59.999999',
                '0000-01-01', '20200101', '2020-1-1', '2020-01', '2020', '01/02/2020', '2020-01-01T',
                '2020-01-01T25:00', '2020-01-01T12:34', '2020-W01-1', '2020-001', ' 2020-01-01 ',
                '2020-01-01x', '1970-01-01', '1969-12-31T23:59:59Z', '2038-01-19T03:14:08Z', '10000-01-01']
JSON_STRINGS = ['[]', '[ ]', '[1, 2]', '[1,2,3]', '["a","b"]', '["a"]', '[""]', '[0]', '[-1]', '[1.5]',
                '[true]', '[null]', '[[1]]', '[{"a":1}]', '{"a":1}', '{}', '[1,', '[', ']', '[1]x', '"a"',
                'null', 'true', '[1, "a"]', '[2147483648]', '[1e999]', '[NaN]', '["\\ud800"]',
                'RecordList([1, 2], group_by=None, sort_by=None)', 'RecordList([])', 'RecordList([a])',
                'RecordList([1, 2', "RecordList([3], group_by={'A': 1}, sort_by=('A',))", 'RecordList([-1, 0])',
                'RecordList([2147483648])', 'Tbl[1]', 'Tbl[[1, 2]]', '[1, 2] ', ' [1, 2]']
BOOL_STRINGS = ['true', 'TRUE', 'True', 'false', 'False', 'yes', 'Yes', 'no', 'NO', 'y', 'n', 'on', 'off', 't', 'f',
                '', ' ', 'true ', 'None', 'null']


def _ints():
  return st.one_of(st.sampled_from(BOUNDARY_INTS), st.integers(-10, 10), st.integers(-2 ** 31 - 3, 2 ** 31 + 3),
                   st.integers(-2 ** 70, 2 ** 70),
                   st.builds(lambda b, d: b + d, st.sampled_from(BOUNDARY_INTS), st.integers(-2, 2)))

def _floats():
  return st.one_of(st.sampled_from(BOUNDARY_FLOATS), st.floats(allow_nan=True, allow_infinity=True),
                   st.floats(-2 ** 32, 2 ** 32), st.floats(-1e11, 1e11))

def _strings():
  num_re = st.from_regex(r'[ ]?[+-]?(\d{1,12}|\d{1,6}\.\d{0,6}|\.\d{1,4})([eE][+-]?\d{1,3})?[ ]?', fullmatch=True)
  date_re = st.from_regex(
    r'(\d{4}|\d{2})-(0\d|1[0-3]|\d)-([0-3]\d|\d)([T ]([01]\d|2[0-4]):[0-5]\d(:[0-6]\d(\.\d{1,7})?)?)?(Z|[+-][01]\d:?[0-5]\d)?',
    fullmatch=True)
  json_re = st.from_regex(r'\[(-?\d{1,11}|"[a-z ,]{0,3}"|true|null|\d\.\d)(, ?(-?\d{1,11}|"[a-z ,]{0,3}"|null)){0,3}\]',
                          fullmatch=True)
  rl_re = st.from_regex(r'RecordList\(\[(\d{1,3}(, ?-?\d{1,11}){0,3})?\](, group_by=None, sort_by=None)?\)',
                        fullmatch=True)
  return st.one_of(st.sampled_from(NUMERIC_STRINGS), st.sampled_from(DATE_STRINGS), st.sampled_from(JSON_STRINGS),
                   st.sampled_from(BOOL_STRINGS), num_re, date_re, json_re, rl_re,
                   st.text(max_size=12), st.text(st.characters(min_codepoint=0, max_codepoint=0x10ffff), max_size=6),
                   st.text('0123456789-+.eE:T []",', max_size=12))

def _ymd_s():
  return st.one_of(st.sampled_from([[0, 0, 0], [9998, 11, 27], [1969, 0, 0], [1968, 11, 27], [2019, 1, 27],
                                    [2037, 0, 18], [1899, 11, 27]]),
                   st.tuples(st.integers(0, 9998), st.integers(0, 11), st.integers(0, 27)).map(list),
                   st.tuples(st.integers(1890, 2100), st.integers(0, 11), st.integers(0, 27)).map(list))

def _dt_s():
  hms = st.tuples(st.integers(0, 23), st.integers(0, 59), st.integers(0, 59),
                  st.sampled_from([0, 0, 1, 500000, 999999, 123456])).map(list)
  tz = st.one_of(st.none(), st.sampled_from(ZONES), st.integers(0, 1438), st.sampled_from([719, 0, 1438, 1049]))
  return st.fixed_dictionaries({'k': st.just('dt'), 'v': st.builds(lambda a, b: a + b, _ymd_s(), hms), 'tz': tz})

def _records():
  rec = st.fixed_dictionaries({'k': st.just('rec'), 't': st.integers(0, 1), 'row': st.integers(0, 5)})
  rset = st.fixed_dictionaries({'k': st.just('rset'), 't': st.integers(0, 1),
                                'rows': st.lists(st.integers(0, 5), max_size=4), 'sort': st.booleans()})
  return st.one_of(rec, rset)

def _objs():
  return st.one_of(
    st.fixed_dictionaries({'k': st.just('obj'), 'w': st.sampled_from(['pending', 'censored'])}),
    st.fixed_dictionaries({'k': st.just('obj'), 'w': st.sampled_from(['unmarshallable', 'reflookup']),
                           'v': st.text(max_size=5)}),
    st.fixed_dictionaries({'k': st.just('obj'), 'w': st.just('recordstub'), 'v': st.sampled_from(['Tbl', 'Nope', '']),
                           'row': st.integers(0, 5)}),
    st.fixed_dictionaries({'k': st.just('obj'), 'w': st.sampled_from(['recordsetstub', 'recordlist']),
                           'v': st.sampled_from(['Tbl', 'Nope']), 'rows': st.lists(st.integers(0, 5), max_size=4),
                           'sort': st.booleans()}))

def _pows():
  return st.fixed_dictionaries({'k': st.just('pow'), 'b': st.sampled_from([2, 10]),
                                'e': st.sampled_from([31, 53, 63, 64, 100, 400, 1024, 4299, 4300, 5000, 15000]),
                                'add': st.integers(-2, 2), 'neg': st.booleans()})


def values(profile='convert', max_leaves=12):
  """Recursive value-spec strategy."""
  encode = (profile == 'encode')
  prim = st.one_of(st.none(), st.booleans(), _ints(), _floats(), _strings(), _strings())
  alt = st.fixed_dictionaries({'k': st.just('alt'),
                               'v': st.one_of(st.sampled_from(['', ' ', 'abc', '12', '1.5', '2020-01-01',
                                                               '2020-01-01T10:00:00', '[1, 2]', '["a"]', 'true', '[]']),
                                              _strings())})
  leaves = [prim, prim, prim,
            st.fixed_dictionaries({'k': st.just('bytes'),
                                   'v': st.one_of(st.sampled_from(['', '12', '1.5', 'abc', '\xff', '\x01\x02', 'true',
                                                                   '2020-01-01', '[1]', '\xc3\xa9', '\xed\xa0\x80']),
                                                  st.text(st.characters(max_codepoint=255), max_size=6))}),
            st.fixed_dictionaries({'k': st.just('date'), 'v': _ymd_s()}), _dt_s(), alt, _records(), _objs(), _pows()]
  if encode:
    leaves += [
      st.fixed_dictionaries({'k': st.just('enum'), 'big': st.booleans()}),
      st.fixed_dictionaries({'k': st.just('hostile'), 'w': st.sampled_from(sorted(HOSTILE))}),
      st.fixed_dictionaries({'k': st.just('misc'),
                             'w': st.sampled_from(['complex', 'decimal', 'range', 'bytearray', 'ellipsis',
                                                   'notimplemented', 'type', 'function', 'memoryview', 'timedelta',
                                                   'time', 'module'])}),
    ]
  else:
    leaves += [st.fixed_dictionaries({'k': st.just('hostile'), 'w': st.sampled_from(['plain'])})]
  leaf = st.one_of(*leaves)

  def extend(ch):
    keys = st.one_of(st.text(max_size=3), st.text(max_size=3), _ints(), st.none(), st.booleans(), _floats(),
                     st.fixed_dictionaries({'k': st.just('tuple'), 'v': st.lists(st.integers(0, 3), max_size=2)}),
                     st.fixed_dictionaries({'k': st.just('sub'), 'w': st.just('str'), 'v': st.text(max_size=3)})
                     if encode else st.text(max_size=2),
                     st.fixed_dictionaries({'k': st.just('bytes'), 'v': st.text(max_size=2)}))
    ext = [st.lists(ch, max_size=4),
           st.fixed_dictionaries({'k': st.just('tuple'), 'v': st.lists(ch, max_size=4)}),
           st.fixed_dictionaries({'k': st.just('dict'),
                                  'v': st.lists(st.tuples(keys, ch).map(list), max_size=3)}),
           st.fixed_dictionaries({'k': st.just('exc'), 'cls': st.integers(0, len(EXC_CLASSES) - 1),
                                  'msg': st.text(max_size=6), 'inp': ch}),
           st.fixed_dictionaries({'k': st.just('exc'), 'cls': st.integers(0, len(EXC_CLASSES) - 1),
                                  'msg': st.text(max_size=6)})]
    if encode:
      ext += [
        st.fixed_dictionaries({'k': st.sampled_from(['set', 'frozenset']), 'v': st.lists(ch, max_size=4)}),
        st.fixed_dictionaries({'k': st.just('sub'), 'w': st.sampled_from(sorted(SUBS)), 'v': ch}),
        st.fixed_dictionaries({'k': st.just('selfref'), 'w': st.sampled_from(['list', 'dict']),
                               'v': st.lists(ch, max_size=2)}),
        st.fixed_dictionaries({'k': st.just('deep'), 'w': st.sampled_from(['list', 'tuple', 'dict']),
                               'n': st.one_of(st.integers(0, 40), st.integers(900, 1100), st.integers(0, 3000),
                                              st.sampled_from([1000, 1999, 2000, 2001, 3000])),
                               'leaf': ch}),
      ]
    else:
      ext += [st.fixed_dictionaries({'k': st.just('sub'), 'w': st.sampled_from(['str', 'int', 'float', 'list']),
                                     'v': ch}),
              st.fixed_dictionaries({'k': st.sampled_from(['set', 'frozenset']), 'v': st.lists(ch, max_size=3)}),
              st.fixed_dictionaries({'k': st.just('deep'), 'w': st.sampled_from(['list', 'tuple']),
                                     'n': st.one_of(st.integers(0, 30), st.integers(0, 1500)), 'leaf': ch})]
    return st.one_of(*ext)

  return st.recursive(leaf, extend, max_leaves=max_leaves)


# ---- NaN-aware structural equality of encoded (marshal-able) structures ------------------------
def enc_equal(a, b):
  """Exact equality of two marshal-able structures: types must match exactly (bool/int/float/str/
  bytes/list/tuple/dict/None), NaN equals NaN, 0.0 and -0.0 are not distinguished."""
  stack = [(a, b)]
  seen = set()
  while stack:
    x, y = stack.pop()
    if type(x) is not type(y):
      return False
    if isinstance(x, (list, tuple, dict)):
      if (id(x), id(y)) in seen:     # cyclic / shared structure (only possible for corrupted encodings)
        continue
      seen.add((id(x), id(y)))
    if isinstance(x, float):
      if not (x == y or (x != x and y != y)):
        return False
    elif isinstance(x, (list, tuple)):
      if len(x) != len(y):
        return False
      stack.extend(zip(x, y))
    elif isinstance(x, dict):
      if len(x) != len(y):
        return False
      for k in x:
        if k not in y:
          return False
        stack.append((x[k], y[k]))
    else:
      if x != y:
        return False
  return True


def short(x, n=300):
  try:
    s = repr(x)
  except Exception:
    s = '<%s: repr failed>' % type(x).__name__
  return s if len(s) <= n else s[:n] + '...(%d chars)' % len(s)


# ---- deterministic gallery: one or more specimens of every shape (for enumerate_cases) ----------
def gallery(profile='encode'):
  g = [None, True, False, 0, 1, -1, 2 ** 31 - 1, 2 ** 31, -2 ** 31, -2 ** 31 - 1, 2 ** 53 + 1, 2 ** 63, 2 ** 64, -10 ** 30,
       {'k': 'pow', 'b': 10, 'e': 309, 'add': 0, 'neg': False}, {'k': 'pow', 'b': 10, 'e': 400, 'add': 0, 'neg': True},
       {'k': 'pow', 'b': 10, 'e': 4299, 'add': 0, 'neg': False}, {'k': 'pow', 'b': 10, 'e': 5000, 'add': 1, 'neg': False},
       0.0, -0.0, 0.5, 1.0, 2147483648.0, -2147483648.5, 9007199254740993.0, 1e22, 1.7976931348623157e308, 5e-324,
       float('nan'), float('inf'), float('-inf'), 1577836800.0, 253402300800.0, -62135596800.0,
       '', ' ', 'abc', '12', ' 12 ', '1.5', '1e3', '1_000', '٣', 'nan', 'inf', '1e400', '2147483648', 'true', 'No', '0',
       '2020-01-01', '2020-01-01T12:34:56', '2020-01-01 12:34:56.789Z', '2020-01-01T12:34:56+05:30', '2020-02-30',
       '0001-01-01', '9999-12-31', '10000-01-01', '[]', '[1, 2]', '["a","b"]', '[0]', '[null]', '[1,', '{"a":1}',
       'RecordList([1, 2], group_by=None, sort_by=None)', 'RecordList([])', 'Tbl[1]', '\ud800', 'é \x00', 'x' * 300,
       {'k': 'bytes', 'v': ''}, {'k': 'bytes', 'v': 'abc'}, {'k': 'bytes', 'v': '12'}, {'k': 'bytes', 'v': '\xff'},
       {'k': 'bytes', 'v': '\x01\x02'}, {'k': 'bytes', 'v': '2020-01-01'},
       {'k': 'date', 'v': [2019, 0, 0]}, {'k': 'date', 'v': [0, 0, 0]}, {'k': 'date', 'v': [9998, 11, 27]},
       {'k': 'date', 'v': [1968, 11, 27]},
       {'k': 'dt', 'v': [2019, 4, 0, 1, 2, 3, 0], 'tz': None}, {'k': 'dt', 'v': [2019, 4, 0, 1, 2, 3, 123456], 'tz': None},
       {'k': 'dt', 'v': [0, 0, 0, 0, 0, 0, 0], 'tz': None}, {'k': 'dt', 'v': [9998, 11, 27, 23, 59, 59, 999999], 'tz': None},
       {'k': 'dt', 'v': [2019, 4, 0, 1, 2, 3, 0], 'tz': 'UTC'}, {'k': 'dt', 'v': [2019, 4, 0, 1, 2, 3, 0], 'tz': 'America/New_York'},
       {'k': 'dt', 'v': [2019, 10, 2, 1, 30, 0, 0], 'tz': 'America/New_York'},
       {'k': 'dt', 'v': [2019, 4, 0, 1, 2, 3, 500000], 'tz': 'Asia/Kolkata'},
       {'k': 'dt', 'v': [2019, 4, 0, 1, 2, 3, 0], 'tz': 'Australia/Lord_Howe'},
       {'k': 'dt', 'v': [2010, 11, 29, 12, 0, 0, 0], 'tz': 'Pacific/Apia'},
       {'k': 'dt', 'v': [0, 0, 0, 0, 0, 0, 0], 'tz': 'Asia/Kolkata'}, {'k': 'dt', 'v': [9998, 11, 27, 23, 0, 0, 0], 'tz': 'Pacific/Apia'},
       {'k': 'dt', 'v': [1899, 11, 27, 0, 0, 0, 0], 'tz': 'Europe/London'},
       {'k': 'dt', 'v': [2019, 4, 0, 1, 2, 3, 0], 'tz': 719}, {'k': 'dt', 'v': [2019, 4, 0, 1, 2, 3, 0], 'tz': 1049},
       {'k': 'dt', 'v': [2019, 4, 0, 1, 2, 3, 0], 'tz': 0}, {'k': 'dt', 'v': [0, 0, 0, 0, 0, 0, 0], 'tz': 1438},
       {'k': 'alt', 'v': ''}, {'k': 'alt', 'v': 'abc'}, {'k': 'alt', 'v': '12'}, {'k': 'alt', 'v': '2020-01-01'},
       {'k': 'alt', 'v': '[1, 2]'}, {'k': 'alt', 'v': 'true'}, {'k': 'alt', 'v': '["a"]'},
       {'k': 'exc', 'cls': 0, 'msg': 'boom'}, {'k': 'exc', 'cls': 3, 'msg': ''}, {'k': 'exc', 'cls': 6, 'msg': 'x'},
       {'k': 'exc', 'cls': 7, 'msg': 'bad'}, {'k': 'exc', 'cls': 0, 'msg': 'm', 'inp': None},
       {'k': 'exc', 'cls': 0, 'msg': 'm', 'inp': 'text'}, {'k': 'exc', 'cls': 1, 'msg': 'm', 'inp': [1, 'a']},
       {'k': 'exc', 'cls': 1, 'msg': 'm', 'inp': {'k': 'date', 'v': [2019, 0, 0]}},
       {'k': 'exc', 'cls': 1, 'msg': 'm', 'inp': {'k': 'exc', 'cls': 2, 'msg': 'inner', 'inp': 5}},
       {'k': 'rec', 't': 0, 'row': 0}, {'k': 'rec', 't': 0, 'row': 1}, {'k': 'rec', 't': 0, 'row': 5}, {'k': 'rec', 't': 1, 'row': 2},
       {'k': 'rset', 't': 0, 'rows': [], 'sort': False}, {'k': 'rset', 't': 0, 'rows': [1, 2], 'sort': False},
       {'k': 'rset', 't': 0, 'rows': [2, 1], 'sort': True}, {'k': 'rset', 't': 1, 'rows': [1], 'sort': False},
       {'k': 'rset', 't': 1, 'rows': [], 'sort': True}, {'k': 'rset', 't': 0, 'rows': [0, 5], 'sort': False},
       {'k': 'obj', 'w': 'pending'}, {'k': 'obj', 'w': 'censored'}, {'k': 'obj', 'w': 'unmarshallable', 'v': 'xyz'},
       {'k': 'obj', 'w': 'recordstub', 'v': 'Tbl', 'row': 1}, {'k': 'obj', 'w': 'recordstub', 'v': 'Nope', 'row': 0},
       {'k': 'obj', 'w': 'recordsetstub', 'v': 'Tbl', 'rows': [1, 2]}, {'k': 'obj', 'w': 'reflookup', 'v': 'x'},
       {'k': 'obj', 'w': 'recordlist', 'rows': [1, 2], 'sort': True}, {'k': 'obj', 'w': 'recordlist', 'rows': [], 'sort': False},
       [], [1, 2], [1, 'a', None, 2.5], [[]], [[1], [2, [3]]], ['d', 5], ['L'], [0], [True, 2], [1.5], [2 ** 31],
       {'k': 'tuple', 'v': []}, {'k': 'tuple', 'v': [1, 2]}, {'k': 'tuple', 'v': ['a', 'b']}, {'k': 'tuple', 'v': [[1], {'k': 'tuple', 'v': [2]}]},
       {'k': 'dict', 'v': []}, {'k': 'dict', 'v': [['a', 1]]}, {'k': 'dict', 'v': [['a', {'k': 'date', 'v': [2019, 0, 0]}], ['b', [1]]]},
       {'k': 'dict', 'v': [[1, 1]]}, {'k': 'dict', 'v': [[None, 1]]}, {'k': 'dict', 'v': [[True, 1]]}, {'k': 'dict', 'v': [[1.5, 1]]},
       {'k': 'dict', 'v': [[{'k': 'tuple', 'v': [1, 2]}, 1]]}, {'k': 'dict', 'v': [[{'k': 'bytes', 'v': 'k'}, 1]]},
       {'k': 'dict', 'v': [['a', 1], [2, 2]]}, {'k': 'dict', 'v': [['', {'k': 'dict', 'v': [['x', None]]}]]},
       {'k': 'deep', 'w': 'list', 'n': 10, 'leaf': 1}, {'k': 'deep', 'w': 'tuple', 'n': 30, 'leaf': 'x'},
       {'k': 'deep', 'w': 'list', 'n': 500, 'leaf': 1}, {'k': 'deep', 'w': 'list', 'n': 1400, 'leaf': 1},
       {'k': 'hostile', 'w': 'plain'}]
  if profile == 'encode':
    g += [{'k': 'dict', 'v': [[{'k': 'sub', 'w': 'str', 'v': 'a'}, 1]]},
          {'k': 'dict', 'v': [['ok', 1], [{'k': 'sub', 'w': 'str', 'v': 'b'}, [1]]]},
          {'k': 'dict', 'v': [[{'k': 'enum', 'big': False}, 1]]}, {'k': 'dict', 'v': [[float('nan'), 1]]},
          {'k': 'dict', 'v': [[{'k': 'frozenset', 'v': [1]}, 1]]}, {'k': 'dict', 'v': [[{'k': 'rec', 't': 0, 'row': 1}, 1]]},
          {'k': 'enum', 'big': False}, {'k': 'enum', 'big': True},
          {'k': 'set', 'v': []}, {'k': 'set', 'v': [1, 2]}, {'k': 'set', 'v': ['a', None, 1.5]}, {'k': 'frozenset', 'v': [1]},
          {'k': 'frozenset', 'v': [{'k': 'tuple', 'v': [1]}, {'k': 'date', 'v': [2019, 0, 0]}]},
          {'k': 'selfref', 'w': 'list', 'v': []}, {'k': 'selfref', 'w': 'dict', 'v': []}, {'k': 'selfref', 'w': 'list', 'v': [1, 'a']},
          {'k': 'selfref', 'w': 'dict', 'v': [{'k': 'date', 'v': [2019, 0, 0]}]},
          {'k': 'deep', 'w': 'dict', 'n': 10, 'leaf': 1}, {'k': 'deep', 'w': 'dict', 'n': 500, 'leaf': 1},
          {'k': 'deep', 'w': 'list', 'n': 990, 'leaf': 1}, {'k': 'deep', 'w': 'list', 'n': 1000, 'leaf': 1},
          {'k': 'deep', 'w': 'tuple', 'n': 1001, 'leaf': {'k': 'date', 'v': [2019, 0, 0]}},
          {'k': 'deep', 'w': 'dict', 'n': 995, 'leaf': 1}, {'k': 'deep', 'w': 'dict', 'n': 2000, 'leaf': 1},
          {'k': 'deep', 'w': 'list', 'n': 1999, 'leaf': 1}, {'k': 'deep', 'w': 'list', 'n': 2001, 'leaf': 1},
          {'k': 'deep', 'w': 'list', 'n': 3000, 'leaf': 'x'}]
    g += [{'k': 'sub', 'w': w, 'v': v} for w, v in
          [('str', 'a'), ('str', ''), ('int', 5), ('int', 2 ** 40), ('float', 1.5), ('float', float('nan')), ('bytes', 'ab'),
           ('list', [1, 2]), ('tuple', [1, 2]), ('dict', {'k': 'dict', 'v': [['a', 1]]}),
           ('list', [{'k': 'sub', 'w': 'str', 'v': 'x'}])]]
    g += [{'k': 'hostile', 'w': w} for w in sorted(HOSTILE) if w != 'plain']
    g += [{'k': 'misc', 'w': w} for w in ['complex', 'decimal', 'range', 'bytearray', 'ellipsis', 'notimplemented', 'type',
                                         'function', 'memoryview', 'timedelta', 'time', 'module']]
  else:
    g += [{'k': 'sub', 'w': 'str', 'v': '12'}, {'k': 'sub', 'w': 'int', 'v': 5}, {'k': 'sub', 'w': 'float', 'v': 1.5},
          {'k': 'sub', 'w': 'list', 'v': [1, 2]}, {'k': 'set', 'v': [1, 2]}, {'k': 'frozenset', 'v': ['a']}]
  return g


WRAPPERS = ['id', 'list', 'tuple', 'dictval', 'dictkey', 'set', 'excinp', 'sublist', 'deep5', 'pair']

def wrap(spec, w):
  if w == 'list':
    return [spec]
  if w == 'tuple':
    return {'k': 'tuple', 'v': [spec]}
  if w == 'dictval':
    return {'k': 'dict', 'v': [['a', spec]]}
  if w == 'dictkey':
    return {'k': 'dict', 'v': [[spec, 1]]}
  if w == 'set':
    return {'k': 'set', 'v': [spec, 1]}
  if w == 'excinp':
    return {'k': 'exc', 'cls': 0, 'msg': 'm', 'inp': spec}
  if w == 'sublist':
    return {'k': 'sub', 'w': 'list', 'v': [spec]}
  if w == 'deep5':
    return {'k': 'deep', 'w': 'dict', 'n': 5, 'leaf': spec}
  if w == 'pair':
    return [spec, {'k': 'tuple', 'v': [spec, None]}]
  return spec
