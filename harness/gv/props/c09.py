"""C09 Metadata references always resolve (structural invariant after every successful bundle)."""
from hypothesis import strategies as st
from ..runner import Outcome
from .. import ops as O, eqv
from ..hist import HistoryRun, bundle_sig
from ..invariants import dangling_meta_refs, meta_structure_problems

ID = 'C09'
LEVEL = 'exploration'
TECHNIQUE = 'stateful property-based testing; structural invariant over all metadata tables'
RULE = ('case = prelude + up to 12 bundles with the schema profile (tables, columns, views, sections, fields, summary '
        'tables, display/rule helper columns, removals through every path incl. metadata records). Invariant evaluated '
        'after every successful bundle. Non-trivial = a bundle removed at least one metadata record (table, column, '
        'view, section, field, page) while other metadata records existed; distinct by hash of concrete user actions.')
ORACLE = ('every non-zero Ref and every RefList element in any _grist_* table resolves to an existing row (column types '
          'from the declared metadata schema); field.colRef.parentId == section.tableRef; every user table has exactly '
          'one _grist_Tables record, a raw view section of its own and, if set, a record-card section of its own; every '
          'gristHelper_Display*/ConditionalRule* column is referenced by a column, field or section')
ASSUMPTIONS = ['the generator never writes a dangling metadata reference itself (writing one on request is supported behaviour)',
               'GristHidden_* import tables are not generated']
BUDGET = {'quick': dict(examples=1400, shards=16, max_seconds=75),
          'thorough': dict(examples=4000, shards=16, max_seconds=1800)}
SHRINK_BUDGET = {'quick': 60, 'thorough': 400}

META_TABLES = ('_grist_Tables', '_grist_Tables_column', '_grist_Views', '_grist_Views_section',
               '_grist_Views_section_field', '_grist_Pages', '_grist_TabBar', '_grist_Filters')


def strategy(tier):
  return st.one_of(st.fixed_dictionaries({'h': O.history('schema', 1, 12)}),
                   st.fixed_dictionaries({'h': O.history('schema', 1, 12)}),
                   st.fixed_dictionaries({'h': O.history('widgets', 1, 10, focus='widgets')}))


def run_case(case):
  out = Outcome()
  hr = HistoryRun(case['h'], snapshots=False)
  st8 = {'nt': False, 'counts': None}

  def counts():
    return {t: len(hr.doc.row_ids(t)) for t in META_TABLES if t in hr.doc.engine.tables}

  def on_step(s):
    if not s.reply.ok:
      return None
    sig = bundle_sig(s.uas)
    removed = any(a[0] in ('RemoveRecord', 'BulkRemoveRecord') and a[1] in META_TABLES for a in s.reply.stored)
    if removed:
      st8['nt'] = True
      out.cls('metadata-records-removed')
    d = dangling_meta_refs(hr.doc)
    if d:
      mt, col, rid, v = d[0]
      out.fail('C09:dangling:%s.%s:%s' % (mt, col, sig),
               'after %r metadata cell %s[%s].%s refers to missing row %r' % (s.uas, mt, rid, col, v), d[:6])
      return True
    p = meta_structure_problems(hr.doc)
    if p:
      out.fail('C09:structure:%s:%s:%s' % (p[0][0], str(p[0][2] if len(p[0]) > 2 else p[0][1])[:40].replace(' ', '-'), sig),
               'after %r: %r' % (s.uas, p[0]), p[:6])
      return True
    return None

  hr.run(on_step)
  out['concrete'] = hr.concrete()
  out['key'] = eqv.digest(out['concrete'])
  out['nontrivial'] = st8['nt']
  out.cls(*sorted(hr.labels))
  return out
