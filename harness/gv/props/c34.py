"""C34 Time zone conversions round-trip (moment.py against the raw records of tzdata.data).

Three clauses of the statement, each checked against a reference that reads the zone records
straight from the marshalled data file and does integer-microsecond interval arithmetic (no use of
Zone/_index/_index_dt/TzInfo logic):

 1. instant   t  -> ts_to_dt(t, zone) -> dt_to_ts(.) == t              (<= 1 us)
 2. date      d  -> date_to_ts(d[, zone]) -> back to a date == d
 3. local     L  -> offset assigned by tzinfo.utcoffset / Zone.dt_offset / dt_to_ts(naive, zone) /
                    moment.tz(naive, name) is an offset of a period of the raw record whose local
                    range contains L (ambiguous: either; skipped: either side of the gap).
"""
import datetime as _dtm
import marshal
import os

from hypothesis import strategies as st
from ..runner import Outcome
from .. import env
env.setup()
import moment  # noqa: E402

ID = 'C34'
LEVEL = 'exploration'
TECHNIQUE = 'enumeration of raw transitions + Hypothesis; round trip and reference model'
RULE = ('case = (zone name, instant | local wall time | date). Enumerated part: every bundled zone x '
        'its raw transitions (quick: the first two, the last two and every third one; thorough: all), each '
        'expanded into a fixed battery: instants at until +-{0, 1us, 1s, 1h, half the offset change, the '
        'offset change}; local wall times at both edges of the skipped/repeated interval (+-{0, 1us, 1s, 1h}) and '
        'inside it; the dates around the transition. Generated part: zone x (transition, anchor, offset '
        'within +-2h) and uniform instants/local times/dates in 1900-01-01..2100-01-01. '
        'Non-trivial = instant within 1 h of a raw transition, or local wall time that is ambiguous or '
        'skipped (or within 1 h of such an interval edge), or a date for which a transition lies between its '
        'UTC midnight and its local midnight (+-1 h). Distinct by the case.')
ORACLE = ('round trip: |dt_to_ts(ts_to_dt(t, zone)) - t| <= 1 us (also through moment.tz(ms, name).datetime()); '
          'ts_to_date(date_to_ts(d)) == d and ts_to_dt(date_to_ts(d, zone), zone).date() == d; '
          'reference model: the offset given to a naive local datetime by every public route belongs to the '
          'set of offsets of raw-record periods [until[j-1], until[j]) whose local image contains it; if none '
          'does (skipped time) the offsets of the two periods around the gap; the offset carried by '
          'ts_to_dt(t) is one of the raw periods adjacent to t. Raw records are read with marshal directly.')
ASSUMPTIONS = [
  'supported range taken as 1900-01-01..2100-01-01 UTC (bundled transitions span 1902..2038)',
  'raw offsets are whole seconds (verified on load: max deviation < 1e-6 s); reference arithmetic is in integer microseconds',
  'ts_to_date takes no zone, so the zoned date round trip goes back through ts_to_dt(ts, zone).date() as test_moment.test_date_to_ts does',
  'dates whose local midnight does not exist (skipped by a transition) are excluded from the zoned date clause: '
  'the statement does not say which instant is "its midnight"; they are counted under class date:midnight-skipped',
  'only the date is compared for the date clause (a result at 01:00 of the same day satisfies the statement)',
  'the check is about internal consistency with the bundled data, not agreement of the data with IANA',
]
BUDGET = {'quick': dict(examples=24000, shards=8, max_seconds=60),
          'thorough': dict(examples=800000, shards=16, max_seconds=1800)}

US = 1000000
HOUR = 3600 * US
EPOCH = _dtm.datetime(1970, 1, 1)
LO_US = int((_dtm.datetime(1900, 1, 1) - EPOCH).total_seconds()) * US
HI_US = int((_dtm.datetime(2100, 1, 1) - EPOCH).total_seconds()) * US
LO_ORD = _dtm.date(1900, 1, 1).toordinal()
HI_ORD = _dtm.date(2100, 1, 1).toordinal()


# ---------------------------------------------------------------------------
# Independent reading of the raw zone records

class RawZone(object):
  """offsets west-positive in integer microseconds; untils in integer microseconds (finite ones)."""
  def __init__(self, name, offsets, untils):
    self.name = name
    self.off = []
    for o in offsets:
      s = o * 60.0
      if abs(s - round(s)) > 1e-6:
        raise ValueError('offset of %s is not whole seconds: %r' % (name, o))
      self.off.append(int(round(s)) * US)
    fin = [u for u in untils if u is not None and u != float('inf')]
    if len(fin) != len(offsets) - 1:
      raise ValueError('unexpected shape of raw record %s' % name)
    self.until = [int(u) * 1000 for u in fin]
    if any(int(u) != u for u in fin) or self.until != sorted(self.until):
      raise ValueError('unexpected untils in raw record %s' % name)
    self.n = len(self.until)
    self.min_off = min(self.off)
    self.max_off = max(self.off)

  def period_of_instant(self, t_us):
    """index j with until[j-1] <= t < until[j]"""
    j = 0
    lo, hi = 0, self.n
    while lo < hi:                  # own binary search: number of untils <= t
      mid = (lo + hi) // 2
      if self.until[mid] <= t_us:
        lo = mid + 1
      else:
        hi = mid
    j = lo
    return j

  def near_transition(self, t_us, within=HOUR):
    j = self.period_of_instant(t_us)
    for k in (j - 1, j):
      if 0 <= k < self.n and abs(self.until[k] - t_us) <= within:
        return True
    return False

  def _window(self, L_us):
    a = self.period_of_instant(L_us + self.min_off - 1)
    b = self.period_of_instant(L_us + self.max_off + 1)
    return range(max(0, a - 1), min(self.n, b + 1) + 1)

  def local_interpretations(self, L_us):
    """periods whose local image [start - off, end - off) contains the wall time L"""
    res = []
    for j in self._window(L_us):
      t = L_us + self.off[j]        # the instant L would denote in period j
      if (j == 0 or self.until[j - 1] <= t) and (j == self.n or t < self.until[j]):
        res.append(j)
    return res

  def classify_local(self, L_us):
    """-> (kind, allowed west-positive offsets)"""
    js = self.local_interpretations(L_us)
    if len(js) == 1:
      return 'plain', set([self.off[js[0]]])
    if len(js) > 1:
      return 'ambiguous', set(self.off[j] for j in js)
    allowed = set()
    for i in self._window(L_us):
      if i < self.n:
        lb = self.until[i] - self.off[i]        # wall clock reading when period i ends
        la = self.until[i] - self.off[i + 1]    # wall clock reading when period i+1 starts
        if lb <= L_us < la:
          allowed.add(self.off[i]); allowed.add(self.off[i + 1])
    if not allowed:
      raise ValueError('reference cannot place local time %r in %s' % (L_us, self.name))
    return 'skipped', allowed

  def local_edges(self, i):
    lb = self.until[i] - self.off[i]
    la = self.until[i] - self.off[i + 1]
    return min(lb, la), max(lb, la)


def _load_raw():
  with open(os.path.join(env.GRIST, 'tzdata.data'), 'rb') as f:
    data = marshal.load(f)
  zones = {}
  for rec in data:
    name, _abbrs, offsets, untils = rec
    zones[name] = RawZone(name, list(offsets), list(untils))
  return zones

RAW = _load_raw()
NAMES = sorted(RAW)


def td_us(td):
  return (td.days * 86400 + td.seconds) * US + td.microseconds


def naive_of(L_us):
  return EPOCH + _dtm.timedelta(microseconds=L_us)


# ---------------------------------------------------------------------------
# The three clause checks. Each returns (nontrivial, classes) and records failures on `out`.

def check_instant(out, rz, t_us=None, t_float=None):
  name = rz.name
  t = t_us / 1e6 if t_float is None else t_float
  tu = t_us if t_us is not None else int(round(t * 1e6))
  zone = moment.get_zone(name)
  near = rz.near_transition(tu)
  j = rz.period_of_instant(tu)
  try:
    dt = moment.ts_to_dt(t, zone)
    back = moment.dt_to_ts(dt)
    dt2 = moment.tz(t * 1000.0, name).datetime()
    back2 = moment.dt_to_ts(dt2)
    off = dt.utcoffset()
  except Exception as e:     # pylint: disable=broad-except
    out.fail('C34:instant-raises', 'ts_to_dt/dt_to_ts(%r, %s) raised %r' % (t, name, e),
             {'zone': name, 'ts': t, 'single': {'k': 'inst', 'z': name, 't_us': tu}})
    return near
  if not abs(back - t) <= 1e-6:
    out.fail('C34:instant-roundtrip', 'dt_to_ts(ts_to_dt(%r, %s)) == %r (local %s)' % (t, name, back, dt.isoformat()),
             {'zone': name, 'ts': t, 'back': back, 'local': dt.isoformat(),
              'single': {'k': 'inst', 'z': name, 't_us': tu}})
  if not abs(back2 - t) <= 1e-6:
    out.fail('C34:instant-roundtrip-tz-class', 'dt_to_ts(tz(%r ms, %s).datetime()) == %r' % (t * 1000.0, name, back2),
             {'zone': name, 'ts': t, 'back': back2, 'local': dt2.isoformat(),
              'single': {'k': 'inst', 'z': name, 't_us': tu}})
  adj = set(-rz.off[k] for k in (j - 1, j, j + 1) if 0 <= k <= rz.n)
  if td_us(off) not in adj:
    out.fail('C34:instant-offset-not-adjacent',
             'ts_to_dt(%r, %s) carries utcoffset %s, raw record uses %s around that instant' % (
               t, name, off, sorted(a / 6e7 for a in adj)),
             {'zone': name, 'ts': t, 'single': {'k': 'inst', 'z': name, 't_us': tu}})
  return near


def check_local(out, rz, L_us):
  name = rz.name
  zone = moment.get_zone(name)
  kind, allowed_w = rz.classify_local(L_us)
  allowed = set(-o for o in allowed_w)          # east-positive microseconds
  naive = naive_of(L_us)
  got = []
  try:
    tzi = moment.tzinfo(name)
    got.append(('tzinfo.utcoffset', td_us(tzi.utcoffset(naive))))
    got.append(('aware.utcoffset', td_us(naive.replace(tzinfo=tzi).utcoffset())))
    got.append(('Zone.dt_offset', td_us(zone.dt_offset(naive))))
    ts = moment.dt_to_ts(naive, zone)
    got.append(('dt_to_ts(naive, zone)', L_us - int(round(ts * 1e6))))
    ms = moment.tz(naive, name).timestamp
    got.append(('tz(naive, name)', L_us - int(round(ms * 1e3))))
    # the favor_offset variants used by astimezone: whichever offset is favoured, the result must still be
    # an offset of the zone at that wall time
    favs = sorted(allowed | set([-rz.off[0], -rz.off[-1]]))
    for fav in favs:
      tzf = moment.tzinfo(name, _dtm.timedelta(microseconds=fav))
      got.append(('tzinfo(favor=%ss).utcoffset' % (fav // US), td_us(tzf.utcoffset(naive))))
  except Exception as e:     # pylint: disable=broad-except
    out.fail('C34:local-raises', 'localising %s in %s raised %r' % (naive.isoformat(), name, e),
             {'zone': name, 'local': naive.isoformat(), 'single': {'k': 'local', 'z': name, 'L_us': L_us}})
    return kind
  for api, o in got:
    if not any(abs(o - a) <= 1 for a in allowed):
      out.fail('C34:local-offset:%s' % kind,
               '%s of %s local time %s in %s gives offset %+.4f h; raw record allows %s' % (
                 api, kind, naive.isoformat(), name, o / 3.6e9, sorted(a / 3.6e9 for a in allowed)),
               {'zone': name, 'local': naive.isoformat(), 'api': api, 'offset_s': o / 1e6,
                'allowed_s': sorted(a / 1e6 for a in allowed),
                'single': {'k': 'local', 'z': name, 'L_us': L_us}})
      break
  return kind


def check_date(out, rz, ordinal):
  """-> (class label, nontrivial)"""
  name = rz.name
  zone = moment.get_zone(name)
  d = _dtm.date.fromordinal(ordinal)
  L_us = (ordinal - EPOCH.toordinal()) * 86400 * US
  single = {'k': 'date', 'z': name, 'n': ordinal}
  try:
    ts0 = moment.date_to_ts(d)
    back0 = moment.ts_to_date(ts0)
    ts = moment.date_to_ts(d, zone)
    back = moment.ts_to_dt(ts, zone)
  except Exception as e:     # pylint: disable=broad-except
    out.fail('C34:date-raises', 'date_to_ts/ts_to_date(%s, %s) raised %r' % (d, name, e),
             {'zone': name, 'date': d.isoformat(), 'single': single})
    return 'date:raised', False
  if back0 != d:
    out.fail('C34:date-roundtrip-utc', 'ts_to_date(date_to_ts(%s)) == %s' % (d, back0),
             {'date': d.isoformat(), 'single': single})
  kind, allowed_w = rz.classify_local(L_us)
  j_utc = rz.period_of_instant(L_us)
  # instants that could be "midnight of d" in this zone, and the UTC midnight: is a transition in between?
  pts = [L_us] + [L_us + o for o in allowed_w]
  lo, hi = min(pts) - HOUR, max(pts) + HOUR
  nontrivial = rz.period_of_instant(lo) != rz.period_of_instant(hi)
  if kind == 'skipped':
    return 'date:midnight-skipped', nontrivial
  label = 'date:midnight-' + kind
  if back.date() != d:
    o_utc = rz.off[j_utc]
    if o_utc not in allowed_w and abs(ts * 1e6 - (L_us + o_utc)) <= 1:
      sig = 'C34:date-to-ts-uses-offset-at-utc-midnight'
    else:
      sig = 'C34:date-roundtrip-zoned'
    out.fail(sig, 'ts_to_dt(date_to_ts(%s, %s), zone) == %s: not the same date' % (d, name, back.isoformat()),
             {'zone': name, 'date': d.isoformat(), 'ts': ts, 'back': back.isoformat(),
              'offset_at_utc_midnight_h': -o_utc / 3.6e9,
              'offsets_at_local_midnight_h': sorted(-o / 3.6e9 for o in allowed_w), 'single': single})
  elif back.time() != _dtm.time(0):
    label = 'date:same-date-not-midnight'
  return label, nontrivial


# ---------------------------------------------------------------------------

INST_BASES = ['0', '-1us', '+1us', '-1s', '+1s', '-1h', '+1h', '-half', '+half', '-chg', '+chg']

def inst_base(rz, i, base):
  chg = abs(rz.off[i] - rz.off[i + 1])
  v = {'0': 0, '1us': 1, '1s': US, '1h': HOUR, 'half': chg // 2, 'chg': chg}[base.lstrip('+-')]
  return rz.until[i] + (-v if base.startswith('-') else v)


def battery(rz, i, dense):
  """(instants, locals, date ordinals) for raw transition i of the zone."""
  inst = sorted(set(inst_base(rz, i, b) for b in INST_BASES))
  lo, hi = rz.local_edges(i)
  loc = set()
  for edge in (lo, hi):
    for d in (-HOUR, -US, -1, 0, 1, US, HOUR):
      loc.add(edge + d)
  loc.add((lo + hi) // 2)
  if dense:
    w = hi - lo
    for k in range(1, 12):
      loc.add(lo + w * k // 12)
      inst.append(rz.until[i] + (k - 6) * 600 * US + k)
    inst = sorted(set(inst))
  days = set()
  for L in (lo, hi, rz.until[i]):
    o = EPOCH.toordinal() + L // (86400 * US)
    days.update((o - 1, o, o + 1))
  return inst, sorted(loc), sorted(days)


def run_transition(case, rz):
  out = Outcome()
  if rz.n == 0:
    out['skipped'] = True
    return out
  i = abs(int(case.get('i') or 0)) % rz.n
  inst, loc, days = battery(rz, i, bool(case.get('dense')))
  w = nt = 0
  kinds = set()
  for t in inst:
    w += 1
    nt += 1 if check_instant(out, rz, t_us=t) else 0
  for L in loc:
    w += 1
    k = check_local(out, rz, L)
    kinds.add(k)
    nt += 1 if k != 'plain' else 0
  for o in days:
    w += 1
    label, n = check_date(out, rz, o)
    out.cls(label)
    nt += 1 if n else 0
  chg = rz.off[i + 1] - rz.off[i]
  out.cls('transition', 'transition:' + ('fall-back' if chg > 0 else 'spring-forward' if chg < 0 else 'same-offset'))
  if abs(chg) > 2 * HOUR:
    out.cls('transition:change>2h')
  if rz.off[i] % (60 * US) or rz.off[i + 1] % (60 * US):
    out.cls('transition:sub-minute-offset')
  for k in sorted(kinds):
    out.cls('local:' + k)
  out['weight'] = w
  out['nt_weight'] = nt
  out['nontrivial'] = nt > 0
  out['concrete'] = {'zone': rz.name, 'until_ms': rz.until[i] // 1000,
                     'offset_minutes_before_after': [rz.off[i] / 6e7, rz.off[i + 1] / 6e7]}
  return out


def _int(x, default=0):
  try:
    if isinstance(x, bool) or x != x or x in (float('inf'), float('-inf')):
      return default
    return int(x)
  except (TypeError, ValueError, OverflowError):
    return default


def run_case(case):
  out = Outcome()
  name = case.get('z')
  if name not in RAW:
    out['skipped'] = True
    return out
  rz = RAW[name]
  k = case.get('k')
  if k == 'tr':
    return run_transition(case, rz)
  if k == 'zone':      # whole-range sweep for a zone (also the only enumerated case of fixed-offset zones)
    w = 0
    step = (HI_US - LO_US) // 40
    for n in range(41):
      w += 2
      check_instant(out, rz, t_us=LO_US + n * step + n)
      check_local(out, rz, LO_US + n * step + 7 * n)
    for o in (LO_ORD, EPOCH.toordinal(), HI_ORD):
      w += 1
      out.cls(check_date(out, rz, o)[0])
    out['weight'] = w
    out.cls('zone-sweep', 'zone-sweep:no-transitions' if rz.n == 0 else 'zone-sweep:with-transitions')
    return out
  if k == 'inst':
    if case.get('t_us') is not None or case.get('t') is not None:
      if case.get('t') is not None:
        try:
          t = float(case['t'])
        except (TypeError, ValueError):
          t = 0.0
        if not (LO_US / 1e6 <= t <= HI_US / 1e6):
          out['skipped'] = True
          return out
        near = check_instant(out, rz, t_float=t)
        out.cls('instant:uniform-float')
      else:
        tu = max(LO_US, min(HI_US, _int(case['t_us'])))
        near = check_instant(out, rz, t_us=tu)
        out.cls('instant:uniform')
        t = tu / 1e6
    else:
      if rz.n == 0:
        out['skipped'] = True
        return out
      i = abs(_int(case.get('i'))) % rz.n
      base = case.get('base') if case.get('base') in INST_BASES else '0'
      off = max(-2 * HOUR, min(2 * HOUR, _int(case.get('off'))))
      tu = inst_base(rz, i, base) + off
      near = check_instant(out, rz, t_us=tu)
      out.cls('instant:at-transition' if tu == rz.until[i] else 'instant:around-transition')
      t = tu / 1e6
    out['nontrivial'] = near
    if near:
      out.cls('instant:within-1h')
    out['concrete'] = {'zone': name, 'ts': t}
    return out
  if k == 'local':
    if case.get('L_us') is not None:
      L = max(LO_US, min(HI_US, _int(case['L_us'])))
      edge_near = False
    else:
      if rz.n == 0:
        out['skipped'] = True
        return out
      i = abs(_int(case.get('i'))) % rz.n
      lo, hi = rz.local_edges(i)
      anchor = {'lo': lo, 'hi': hi, 'mid': (lo + hi) // 2}.get(case.get('anchor'), lo)
      off = max(-2 * HOUR, min(2 * HOUR, _int(case.get('off'))))
      L = anchor + off
      edge_near = hi > lo and (abs(L - lo) <= HOUR or abs(L - hi) <= HOUR)
    kind = check_local(out, rz, L)
    out.cls('local:' + kind)
    out['nontrivial'] = kind != 'plain' or edge_near
    out['concrete'] = {'zone': name, 'local': naive_of(L).isoformat()}
    return out
  if k == 'date':
    if case.get('n') is not None:
      o = max(LO_ORD, min(HI_ORD, _int(case['n'])))
    else:
      if rz.n == 0:
        out['skipped'] = True
        return out
      i = abs(_int(case.get('i'))) % rz.n
      lo, _hi = rz.local_edges(i)
      o = EPOCH.toordinal() + lo // (86400 * US) + max(-3, min(3, _int(case.get('dd'))))
    label, nontrivial = check_date(out, rz, o)
    out.cls(label)
    out['nontrivial'] = nontrivial
    out['concrete'] = {'zone': name, 'date': _dtm.date.fromordinal(o).isoformat()}
    return out
  out['skipped'] = True
  return out


def enumerate_cases(tier):
  for zi, name in enumerate(NAMES):
    rz = RAW[name]
    yield {'k': 'zone', 'z': name}
    for i in range(rz.n):
      if tier == 'quick' and not (i < 2 or i >= rz.n - 2 or i % 3 == zi % 3):
        continue
      yield {'k': 'tr', 'z': name, 'i': i, 'dense': tier != 'quick'}


def strategy(tier):
  with_tr = [n for n in NAMES if RAW[n].n]
  z_tr = st.sampled_from(with_tr)
  z_any = st.sampled_from(NAMES)
  idx = st.integers(0, 400)
  off = st.one_of(st.sampled_from([0, 1, -1, US, -US, 1000, -1000, HOUR, -HOUR, HOUR - 1, 1 - HOUR, HOUR + 1, -HOUR - 1]),
                  st.integers(-2 * HOUR, 2 * HOUR),
                  st.integers(-7200, 7200).map(lambda s: s * US))
  inst_tr = st.fixed_dictionaries({'k': st.just('inst'), 'z': z_tr, 'i': idx,
                                   'base': st.sampled_from(INST_BASES), 'off': off})
  inst_uni = st.fixed_dictionaries({'k': st.just('inst'), 'z': z_any, 't_us': st.integers(LO_US, HI_US)})
  inst_flt = st.fixed_dictionaries({'k': st.just('inst'), 'z': z_any,
                                    't': st.floats(LO_US / 1e6, HI_US / 1e6, allow_nan=False)})
  loc_tr = st.fixed_dictionaries({'k': st.just('local'), 'z': z_tr, 'i': idx,
                                  'anchor': st.sampled_from(['lo', 'mid', 'hi']), 'off': off})
  loc_uni = st.fixed_dictionaries({'k': st.just('local'), 'z': z_any, 'L_us': st.integers(LO_US, HI_US)})
  date_tr = st.fixed_dictionaries({'k': st.just('date'), 'z': z_tr, 'i': idx, 'dd': st.integers(-3, 3)})
  date_uni = st.fixed_dictionaries({'k': st.just('date'), 'z': z_any, 'n': st.integers(LO_ORD, HI_ORD)})
  return st.one_of(inst_tr, inst_tr, inst_tr, inst_uni, inst_flt, loc_tr, loc_tr, loc_tr, loc_uni,
                   date_tr, date_tr, date_uni)
