"""C22 Cell value conversion is total and idempotent.

For every documented column type T (type objects taken from a live engine's columns) and a generated
Python value v: T.convert(v) does not raise; the result is of the right type, or the unchanged
error object, or an alt-text string; T.convert(result) is the same value again.
"""
from hypothesis import strategies as st
from ..runner import Outcome
from .. import env
env.setup()
import objtypes     # noqa: E402
import usertypes    # noqa: E402
import records      # noqa: E402
from .. import pyvals  # noqa: E402

ID = 'C22'
LEVEL = 'exploration'
RULE = ('case = (value spec, column type or "all 21 type objects"); value specs are JSON decoded by '
        'gv.pyvals.build into Python values: None, bools, ints (2**31/2**53/2**63 boundaries, bignums up to '
        '10**15000), floats (nan/inf/boundaries), numeric-/ISO-date-/JSON-/RecordList-looking and arbitrary '
        'unicode strings, bytes, nested lists/tuples/dicts/sets, str/int/float/list subclasses, date, naive and '
        'aware datetimes (moment and datetime.timezone tzinfo), AltText, RaisedException (with user input), '
        'pending/censored/unmarshallable/stub objects, Records and RecordSets of a live engine, deep nesting. '
        'Type objects are the type_obj of real engine columns (Text, Numeric, Int, Bool, Date, DateTime in 3 zones, '
        'Choice, ChoiceList, Ref and RefList to the own and to another table, Attachments, Any, Id, PositionNumber, '
        'ManualSortPos). An enumerated part additionally runs a fixed gallery of 170 specimens (every shape and '
        'boundary) bare and wrapped in list/tuple (more wrappers in thorough), strings also as AltText and bytes, '
        'against all type objects. One evaluation = one (value, type) pair. Non-trivial = the conversion changed the '
        'value (result is not the input and not equal to it) or fell back to alt text; distinct by (case).')
ORACLE = ('contract predicate: convert(v) raises nothing; if v is a RaisedException the result is v itself; '
          'otherwise is_right_type(result) or result is a str/AltText; second = convert(result) must equal '
          'result: same Python type class for numbers/bools, ==, NaN equal to NaN, and '
          'objtypes.encode_object(second) structurally equal to encode_object(result)')
ASSUMPTIONS = ['Blob is excluded: not a documented or creatable column type (documentation/grist-data-format.md)',
               'type objects are those the engine builds for real columns (gencode -> usertypes constructors)',
               'Record/RecordSet inputs come from a fixed two-table live document (rows 1..3, row ids 0..5 probed)',
               'GRIST_TRUTHY_VALUES/GRIST_FALSY_VALUES are unset']
TECHNIQUE = 'function-level PBT with contract predicate'
BUDGET = {'quick': dict(examples=8000, shards=8, max_seconds=60),
          'thorough': dict(examples=64000, shards=16, max_seconds=1800)}

COLS = [('c_text', 'Text'), ('c_num', 'Numeric'), ('c_int', 'Int'), ('c_bool', 'Bool'), ('c_date', 'Date'),
        ('c_dt_utc', 'DateTime:UTC'), ('c_dt_ny', 'DateTime:America/New_York'), ('c_dt_bad', 'DateTime:No/Such_Zone'),
        ('c_choice', 'Choice'), ('c_cl', 'ChoiceList'), ('c_ref', 'Ref:Tbl'), ('c_ref_o', 'Ref:Other'),
        ('c_rl', 'RefList:Tbl'), ('c_rl_o', 'RefList:Other'), ('c_att', 'Attachments'), ('c_any', 'Any')]

_state = {}


def fixture():
  """One small live engine per process: supplies the type objects and Record/RecordSet values."""
  if _state:
    return _state
  from ..doc import Doc
  d = Doc()
  r = d.apply([
    ['AddTable', 'Other', [{'id': 'A', 'type': 'Int', 'isFormula': False},
                           {'id': 'B', 'type': 'Text', 'isFormula': False}]],
    ['AddTable', 'Tbl', [{'id': 'A', 'type': 'Int', 'isFormula': False},
                         {'id': 'B', 'type': 'Text', 'isFormula': False}] +
     [{'id': c, 'type': t, 'isFormula': c == 'c_any', 'formula': ''} for c, t in COLS]],
    ['BulkAddRecord', 'Tbl', [None] * 3, {'A': [3, 1, 2], 'B': ['x', 'y', 'x']}],
    ['BulkAddRecord', 'Other', [None] * 2, {'A': [5, 6], 'B': ['p', 'q']}],
  ])
  if not r.ok:
    raise RuntimeError('C22 fixture: %r' % (r.error,))
  eng = d.engine
  tbl = eng.tables['Tbl']
  types = []
  for c, t in COLS:
    types.append((t, tbl.get_column(c).type_obj))
  types.append(('Id', tbl.get_column('id').type_obj))
  types.append(('ManualSortPos', tbl.get_column('manualSort').type_obj))
  types.append(('PositionNumber', eng.tables['_grist_Views_section_field'].get_column('parentPos').type_obj))
  for name, tobj in types:
    cname = {'Reference': 'Ref', 'ReferenceList': 'RefList'}.get(type(tobj).__name__, type(tobj).__name__)
    if cname != name.split(':')[0]:
      raise RuntimeError('C22 fixture: column type %s has type object %r' % (name, tobj))
  fx = pyvals.Fixture()
  fx.tables = [tbl, eng.tables['Other']]
  _state.update(doc=d, types=types, fx=fx)
  return _state


def _same(a, b):
  """The result of the second conversion is 'the same value' as the first."""
  if a is b:
    return True
  try:
    num = (bool, int, float)
    if isinstance(a, num) or isinstance(b, num):
      # bool / int / float are distinguishable in storage and by Node
      ka = bool if isinstance(a, bool) else int if isinstance(a, int) else float if isinstance(a, float) else None
      kb = bool if isinstance(b, bool) else int if isinstance(b, int) else float if isinstance(b, float) else None
      if ka is not kb:
        return False
      return a == b or (ka is float and a != a and b != b)
    if isinstance(a, (list, tuple)) and isinstance(b, (list, tuple)):
      if isinstance(a, list) != isinstance(b, list) or len(a) != len(b):
        return False
      return all(_same(x, y) for x, y in zip(a, b))
    return bool(a == b)
  except Exception:
    return False


def check_pair(name, tobj, v, out):
  """Returns (nontrivial, labels) or None after out.fail."""
  tn = name.split(':')[0]
  try:
    r1 = tobj.convert(v)
  except BaseException as e:    # noqa: B036 - the statement says "never raises"
    if isinstance(e, (KeyboardInterrupt, SystemExit, MemoryError)):
      raise
    out.fail('C22:raises:%s:%s' % (tn, type(e).__name__), '%s.convert(%s) raised %r' % (name, pyvals.short(v), e),
             {'type': name, 'value': pyvals.short(v)})
    return None
  try:
    right = bool(tobj.is_right_type(r1))
  except Exception as e:
    out.fail('C22:is_right_type-raises:%s' % tn, '%s.is_right_type(%s) raised %r' % (name, pyvals.short(r1), e))
    return None
  is_text = isinstance(r1, (str, objtypes.AltText))
  if isinstance(v, objtypes.RaisedException):
    if r1 is not v:
      out.fail('C22:error-not-passed-through:%s' % tn,
               '%s.convert(<RaisedException>) returned %s instead of the unchanged error object' % (name, pyvals.short(r1)))
      return None
    label = 'out:error-passthrough'
  elif isinstance(r1, objtypes.RaisedException):
    out.fail('C22:result-is-foreign-error:%s' % tn, '%s.convert(%s) produced an error object %s' % (
      name, pyvals.short(v), pyvals.short(r1)))
    return None
  elif right:
    label = 'out:right-type'
  elif is_text:
    label = 'out:alttext'
  else:
    out.fail('C22:wrong-result-kind:%s' % tn,
             '%s.convert(%s) = %s: neither right type, error, nor alt-text string' % (name, pyvals.short(v), pyvals.short(r1)),
             {'type': name, 'value': pyvals.short(v), 'result': pyvals.short(r1)})
    return None
  # idempotence
  try:
    r2 = tobj.convert(r1)
  except BaseException as e:    # noqa: B036
    if isinstance(e, (KeyboardInterrupt, SystemExit, MemoryError)):
      raise
    out.fail('C22:raises-on-own-result:%s' % tn, '%s.convert(%s) raised %r' % (name, pyvals.short(r1), e))
    return None
  same = _same(r1, r2)
  if same:
    e1 = objtypes.encode_object(r1)
    e2 = objtypes.encode_object(r2)
    same = pyvals.enc_equal(e1, e2)
  if not same:
    sig = 'C22:not-idempotent:%s' % tn
    # one root cause, two observable shapes: convert() does not unwrap AltText, its str() fallback returns
    # the wrapped text, and that text as a plain str converts (to the default / to a typed value).
    if isinstance(v, objtypes.AltText) and type(r1) is str and r1 == str(v):
      sig = 'C22:not-idempotent:alttext-empty' if r1 == '' else 'C22:not-idempotent:alttext-convertible-text'
    elif tn == 'ChoiceList' and isinstance(v, str) and isinstance(r1, tuple) and len(r1) == 0 and r2 is None:
      sig = 'C22:not-idempotent:choicelist-empty-json-list'
    elif tn in ('RefList', 'Attachments') and isinstance(r1, list) and len(r1) == 0 and r2 is None and \
        not isinstance(v, (str, objtypes.AltText)):
      # the known finding: an empty RecordSet / a list of empty RecordSets skips the emptiness test on those
      # branches. (An empty list reached from TEXT such as '[]' is a different path and is not covered.)
      sig = 'C22:not-idempotent:reflist-empty-list-result'
    elif (tn in ('Numeric', 'PositionNumber', 'ManualSortPos') and isinstance(v, int) and type(r1) is str
          and isinstance(r2, float) and abs(r2) == float('inf')):
      # float(int) overflows (-> alt text of all digits) but float(str) saturates to inf
      sig = 'C22:not-idempotent:bigint-text-parses-as-inf'
    out.fail(sig, '%s: convert(%s) = %s but convert of that = %s' % (name, pyvals.short(v), pyvals.short(r1), pyvals.short(r2)),
             {'type': name, 'value': pyvals.short(v), 'first': pyvals.short(r1), 'second': pyvals.short(r2)})
    return None
  changed = (r1 is not v) and not (_same(v, r1) and type(v) is type(r1))
  if changed and label == 'out:right-type':
    label = 'out:right-type-changed'
  return (changed or label == 'out:alttext'), label


def run_case(case):
  out = Outcome()
  stt = fixture()
  types = stt['types']
  spec = case.get('v') if isinstance(case, dict) else None
  t = case.get('t') if isinstance(case, dict) else None
  v = pyvals.build(spec, stt['fx'])
  sel = types if not isinstance(t, int) or isinstance(t, bool) else [types[abs(t) % len(types)]]
  nt = 0
  w = 0
  for name, tobj in sel:
    w += 1
    res = check_pair(name, tobj, v, out)
    if res is None:
      continue
    if res[0]:
      nt += 1
    out.cls('%s %s' % (name.split(':')[0], res[1]))
  out['weight'] = w
  out['nontrivial'] = nt > 0
  out['nt_weight'] = nt
  out.cls(*['in:' + k for k in sorted(pyvals.all_kinds(spec))])
  out['concrete'] = {'value': pyvals.short(v), 'types': [n for n, _ in sel]}
  return out


def enumerate_cases(tier):
  wrappers = ['id', 'list', 'tuple'] if tier == 'quick' else ['id', 'list', 'tuple', 'dictval', 'set', 'sublist', 'pair']
  for spec in pyvals.gallery('convert'):
    for w in wrappers:
      yield {'v': pyvals.wrap(spec, w), 't': None}
    if isinstance(spec, str):
      yield {'v': {'k': 'alt', 'v': spec}, 't': None}
      yield {'v': {'k': 'bytes', 'v': spec if all(ord(c) < 256 for c in spec) else 'x'}, 't': None}


def strategy(tier):
  return st.fixed_dictionaries({'v': pyvals.values('convert'),
                                't': st.one_of(st.none(), st.none(), st.none(), st.integers(0, 20))})
