"""C08 Internal schema always matches the metadata (invariant after every bundle and rollback)."""
from hypothesis import strategies as st
from ..runner import Outcome
from .. import ops as O, eqv
from ..hist import HistoryRun, bundle_sig
from ..invariants import schema_mismatch
from .. import faults

ID = 'C08'
LEVEL = 'exploration'
TECHNIQUE = 'stateful property-based testing with injected faults; harness-computed schema invariant'
RULE = ('case = prelude + up to 12 bundles with the schema/metadata-path profile (incl. deliberately invalid requests) '
        '+ optional injected fault (exception before/after the k-th doc action or at the k-th usercode rebuild of one '
        'bundle). The invariant is evaluated after every bundle, successful or rolled back. Non-trivial = a bundle '
        'changed metadata through a record path (update/removal of a _grist_Tables[_column] record) or a bundle was '
        'rolled back after at least one doc action; distinct by hash of concrete user actions + fault.')
ORACLE = ('harness-computed from fetch_table(_grist_Tables/_grist_Tables_column): {table: {col: (type, isFormula, '
          'formula, reverseColId)}} == same view of Engine.schema; user tables of Engine.tables == schema tables; every '
          'column record belongs to an existing table record (not via assert_schema_consistent)')
ASSUMPTIONS = ['metadata rows are only added through user actions (AddTable/AddColumn...), updates/removals also through records',
               'faults are raised at doc-action boundaries and at rebuild_usercode entry (DESIGN.md C04 fault model)']
BUDGET = {'quick': dict(examples=1300, shards=16, max_seconds=75),
          'thorough': dict(examples=4000, shards=16, max_seconds=1800)}
SHRINK_BUDGET = {'quick': 60, 'thorough': 400}


def strategy(tier):
  return st.fixed_dictionaries({
    'h': O.history('schema', 1, 12),
    'fault': st.one_of(st.none(), st.fixed_dictionaries({
      'bundle': st.integers(0, 11), 'kind': st.sampled_from(['before', 'after', 'rebuild']), 'k': st.integers(0, 12)}))})


def run_case(case):
  out = Outcome()
  hr = HistoryRun(case['h'], snapshots=False, settle=False)
  fault = case.get('fault')
  st8 = {'nt': False, 'n': 0, 'fired': False}

  def check(s):
    bad = schema_mismatch(hr.doc)
    if bad:
      out.fail('C08:%s:%s:%s' % ('after-success' if s.reply.ok else 'after-rollback', bad[0], bundle_sig(s.uas)),
               'after %s bundle %r the engine schema and the metadata disagree: %s' % (
                 'successful' if s.reply.ok else 'failed', s.uas, bad[0]), bad[1])
      return True
    return None

  orig_exec = hr._exec
  def exec_with_fault(uas, is_prelude, on_step):
    idx = st8['n']
    if not is_prelude:
      st8['n'] += 1
    if fault and not is_prelude and idx == int(fault['bundle']) % 12:
      with faults.inject(hr.doc.engine, fault['kind'], int(fault['k'])) as inj:
        res = orig_exec(uas, is_prelude, on_step)
      if inj.fired:
        st8['fired'] = True
        out.cls('fault-fired:' + fault['kind'])
        if inj.doc_actions_before_fault >= 1:
          st8['nt'] = True
      return res
    return orig_exec(uas, is_prelude, on_step)
  hr._exec = exec_with_fault

  def on_step(s):
    if s.reply.ok and any(u[0] in ('UpdateRecord', 'BulkUpdateRecord', 'RemoveRecord', 'BulkRemoveRecord') and
                          u[1] in ('_grist_Tables', '_grist_Tables_column') for u in s.uas):
      st8['nt'] = True
    if not s.reply.ok and not isinstance(s.reply.error, faults.InjectedFault):
      out.cls('natural-failure')
    return check(s)

  hr.run(on_step)
  out['concrete'] = hr.concrete()
  out['key'] = eqv.digest([out['concrete'], fault if st8['fired'] else None])
  out['nontrivial'] = st8['nt']
  out.cls(*sorted(hr.labels))
  return out
