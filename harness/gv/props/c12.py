"""C12 Summary tables are exact group-bys of their source.

A source table `Src` with typed group-by-able columns (and a `People` table as Ref/RefList target) gets 1-3
summary sections; a generated history edits the source data, regroups sections, renames, changes column
types, removes columns, adds summary formula columns and undoes. After every successful bundle every
summary table is compared with a reference group-by computed from fetch_table of the source.
"""
import itertools
from hypothesis import strategies as st
from ..runner import Outcome
from ..doc import Doc, is_hidden_col
from .. import ops as O, eqv

ID = 'C12'
LEVEL = 'exploration'
TECHNIQUE = 'stateful property-based testing against a reference group-by model'
RULE = ('case = setup (table Src with 2-5 data columns of types Text, Int, Numeric, Bool, Choice, Date, Ref:People, '
        'ChoiceList, RefList:People plus a Numeric column; 0-6 rows of right-type values, alt text, None, empty '
        'lists; 1-3 summary sections CreateViewSection(src, 0, "record", cols, None) over 0-3 columns) + up to 10 '
        '(quick) / 14 (thorough) bundles of 1-2 ops: add/update/remove source rows, remove People rows, new summary '
        'section, UpdateSummaryViewSection regrouping, RenameColumn/RenameTable of the source, ModifyColumn type '
        'changes of source columns (incl. Choice<->ChoiceList, Ref<->RefList, Text->Int), RemoveColumn of a source '
        'column, AddColumn of formula columns to a summary table, RemoveViewSection, undo in stack order. '
        'Non-trivial = some successful bundle changed the key set of >= 1 source row for a summary table that '
        'exists before and after it, or changed the set (or group-by columns) of summary tables; distinct by hash '
        'of the concrete user actions.')
ORACLE = ('reference model from fetch_table(source): for each summary table (metadata: summarySourceTable, group-by '
          'columns = columns with summarySourceCol) every source row contributes the cartesian product over the '
          'group-by columns of: the cell value (scalar column), the distinct elements of a [\'L\', ...] cell (list '
          'column; empty list/None -> \'\' for ChoiceList, 0 for RefList), nothing for a non-list value in a list '
          'column. Keys are compared with Python equality. Required: no two summary rows with equal keys, the set of '
          'summary-row keys equals the set of contributed keys, each row\'s `group` cell equals the ascending list of '
          'source row ids contributing its key, `count` (while it is the default len($group)) equals its length, and '
          'no summary row has an empty group.')
ASSUMPTIONS = ['group-by columns have a concrete type (Any-typed group-by columns are a known limitation listed '
               'elsewhere); NaN is not generated; source cells are values Node can send for the column type',
               'a history stops (without verdict) once a group-by column of the source holds a Date cell that is a '
               'number but not a whole day, or a negative row id in a Ref/RefList cell (only type conversions '
               'such as Numeric->Date or Int->Ref produce them): such cells have no well-defined key',
               'the summary `group` and `count` columns are not modified or removed by the generator',
               'documents contain no user formulas except formula columns added to summary tables',
               'a summary table whose source no longer has the group-by column (column removed) is judged on its '
               'remaining group-by columns as recorded in the metadata']
BUDGET = {'quick': dict(examples=1400, shards=16, max_seconds=40),
          'thorough': dict(examples=5000, shards=16, max_seconds=1800)}
SHRINK_BUDGET = {'quick': 100, 'thorough': 400}

SRC, PEOPLE = 'Src', 'People'
GB_TYPES = ['Text', 'Int', 'Numeric', 'Bool', 'Choice', 'Date', 'Ref:People', 'ChoiceList', 'RefList:People']
COLNAMES = ['A', 'B', 'C', 'D', 'E']
RENAMES = ['K', 'L', 'M', 'A', 'B']


# ---------------------------------------------------------------------------
# reference model

def summaries(d):
  """[{ref, tableId, source (tableId), source_ref, gb: [(summary colId, source colId, source type, source colRef)]}]"""
  tables = d.tables_meta()
  tmap = {t['id']: t for t in tables}
  cols = d.columns_meta()
  cmap = {c['id']: c for c in cols}
  out = []
  for t in tables:
    if not t['summarySourceTable']:
      continue
    src = tmap.get(t['summarySourceTable'])
    gb = []
    for c in cols:
      if c['parentId'] == t['id'] and c['summarySourceCol']:
        sc = cmap.get(c['summarySourceCol'])
        gb.append((c['colId'], sc['colId'] if sc else None, sc['type'] if sc else None, c['summarySourceCol'], c['type']))
    gb.sort(key=lambda x: x[3])
    out.append({'ref': t['id'], 'tableId': t['tableId'], 'source': src['tableId'] if src else None,
                'source_ref': t['summarySourceTable'], 'gb': gb})
  return out


def contributions(src_type, v):
  """Key elements one source cell contributes for a group-by column of type src_type."""
  base = (src_type or '').split(':')[0]
  if base in ('ChoiceList', 'RefList'):
    if v is None:
      return ['' if base == 'ChoiceList' else 0]
    if isinstance(v, list) and v[:1] == ['L']:
      elems = []
      for x in v[1:]:
        if not any(_eq(x, y) for y in elems):
          elems.append(x)
      if not elems:
        return ['' if base == 'ChoiceList' else 0]
      return elems
    return []
  return [v]


def _eq(a, b):
  try:
    return bool(a == b)
  except Exception:
    return False


def key_eq(k1, k2):
  return len(k1) == len(k2) and all(_eq(a, b) for a, b in zip(k1, k2))


def expected_groups(d, s, src_rep=None):
  """[(key tuple, [source row ids ascending])] for summary table description s; also {row: [keys]}"""
  rep = src_rep or d.fetch_repr(s['source'])
  ids = rep[2]
  groups = []
  per_row = {}
  for i, rid in enumerate(ids):
    parts = []
    for (_sc, src_col, src_type, _r, _t) in s['gb']:
      vals = rep[3].get(src_col)
      parts.append(contributions(src_type, vals[i]) if vals is not None else [])
    keys = list(itertools.product(*parts))
    per_row[rid] = keys
    for k in keys:
      for g in groups:
        if key_eq(g[0], k):
          if rid not in g[1]:
            g[1].append(rid)
          break
      else:
        groups.append((k, [rid]))
  for g in groups:
    g[1].sort()
  return groups, per_row


def outside_domain(d, s, src_rep=None):
  """Label if a group-by cell of the source holds a value whose key is not well defined: a Date cell that is a
  number but not a whole day (shows as the same date as its midnight), or a negative row id in a Ref/RefList
  cell (a temporary id). Such cells only arise from type conversions (e.g. Numeric 8.25 -> Date, Int -2 -> Ref)."""
  if s['source'] is None:
    return None
  rep = src_rep or d.fetch_repr(s['source'])
  for (_sc, src_col, src_type, _r, _t) in s['gb']:
    base = (src_type or '').split(':')[0]
    vals = rep[3].get(src_col) or []
    for v in vals:
      if base == 'Date' and isinstance(v, (int, float)) and not isinstance(v, bool) and v == v and v % 86400 != 0:
        return 'date-cell-not-midnight'
      if base in ('Ref', 'RefList'):
        elems = v[1:] if isinstance(v, list) and v[:1] == ['L'] else [v]
        if any(isinstance(x, (int, float)) and not isinstance(x, bool) and x < 0 for x in elems):
          return 'negative-row-id-in-reference'
  return None


def check_summary(d, s):
  """None or (label, message, detail)."""
  if s['source'] is None or any(x[1] is None for x in s['gb']):
    return ('dangling-summary-metadata', 'summary table %s has no source table/column' % s['tableId'], s['gb'])
  groups, _ = expected_groups(d, s)
  rep = d.fetch_repr(s['tableId'])
  ids = rep[2]
  cols = rep[3]
  if 'group' not in cols:
    return None
  count_is_default = any(c['colId'] == 'count' and c['formula'] == 'len($group)' and c['parentId'] == s['ref']
                         for c in d.columns_meta())
  rows = []
  for i, rid in enumerate(ids):
    key = tuple(cols[x[0]][i] for x in s['gb'])
    rows.append((rid, key, cols['group'][i], cols['count'][i] if 'count' in cols else None))
  detail = {'summary': s['tableId'], 'group_by': [[x[1], x[2]] for x in s['gb']],
            'summary_rows': [[r, list(k), g, c] for r, k, g, c in rows][:12],
            'expected': [[list(k), g] for k, g in groups][:12]}
  list_gb = any((x[2] or '').split(':')[0] in ('ChoiceList', 'RefList') for x in s['gb'])
  tag = 'list' if list_gb else 'scalar'
  for i, (rid, key, grp, cnt) in enumerate(rows):
    for (rid2, key2, _g, _c) in rows[:i]:
      if key_eq(key, key2):
        return ('duplicate-key:' + tag, 'summary table %s rows %s and %s share the key %r' % (s['tableId'], rid2, rid, key), detail)
  for (rid, key, grp, cnt) in rows:
    exp = [g for g in groups if key_eq(g[0], key)]
    got = grp[1:] if isinstance(grp, list) and grp[:1] == ['L'] else ([] if grp is None else grp)
    if not exp:
      if got == []:
        return ('empty-group-row-survives:' + tag, 'summary table %s row %s (key %r) has an empty group' % (s['tableId'], rid, key), detail)
      return ('row-for-absent-key:' + tag, 'summary table %s row %s has key %r which no source row has (group %r)' % (
        s['tableId'], rid, key, grp), detail)
    if got != exp[0][1]:
      kind = 'group-order' if isinstance(got, list) and sorted(got, key=repr) == sorted(exp[0][1], key=repr) else 'group-members'
      return ('%s:%s' % (kind, tag), 'summary table %s row %s key %r: group %r, expected %r' % (
        s['tableId'], rid, key, grp, exp[0][1]), detail)
    if count_is_default and not _eq(cnt, len(exp[0][1])):
      return ('count:' + tag, 'summary table %s row %s key %r: count %r for group %r' % (s['tableId'], rid, key, cnt, grp), detail)
  for k, g in groups:
    if not any(key_eq(k, key) for (_r, key, _g, _c) in rows):
      return ('missing-row:' + tag, 'summary table %s has no row for key %r (source rows %r)' % (s['tableId'], k, g), detail)
  return None


# ---------------------------------------------------------------------------
# ops

def _pick(seq, i):
  return seq[int(i) % len(seq)] if seq else None


def src_table(d):
  """The (single) non-summary user table that is not People: (ref, tableId) or None."""
  ts = [(r, t) for r, t in d.user_tables() if t != PEOPLE]
  return ts[0] if ts else None


def data_cols(d, tref):
  return [c for c in d.columns(tref) if not c['isFormula']]


def groupable(cols):
  return [c for c in cols if c['type'].split(':')[0] in O.GROUPABLE]


def _mask(cols, mask, maxn=3):
  out = [c for i, c in enumerate(cols) if (int(mask) >> (i % 6)) & 1]
  return out[:maxn]


def summary_sections(d):
  stabs = set(t['id'] for t in d.tables_meta() if t['summarySourceTable'])
  return [s for s in d.meta('_grist_Views_section') if s['tableRef'] in stabs and s['parentId']]


def resolve(d, op, st_):
  k = op.get('k')
  src = src_table(d)
  if k == 'undo':
    return ['ApplyUndoActions', st_['undo'][-1]] if st_['undo'] else None
  if k == 'rmpeopletable':
    return ['RemoveTable', PEOPLE] if PEOPLE in d.engine.tables else None
  if k == 'rmpeople':
    rows = d.row_ids(PEOPLE) if PEOPLE in d.engine.tables else []
    return ['RemoveRecord', PEOPLE, _pick(rows, op.get('a', 0))] if rows else None
  if not src:
    return None
  sref, sid = src
  cols = data_cols(d, sref)
  vals = op.get('vals') or [[0, 1, 'a']]
  if k == 'add':
    n = 1 + int(op.get('n', 0)) % 3
    chosen = _mask(cols, op.get('mask', 63), 6)
    cv = {}
    j = 0
    for c in chosen:
      cv[c['colId']] = []
      for _ in range(n):
        cv[c['colId']].append(gb_value(d, c['type'], vals[j % len(vals)])); j += 1
    if n == 1:
      return ['AddRecord', sid, None, {c: v[0] for c, v in cv.items()}]
    return ['BulkAddRecord', sid, [None] * n, cv]
  if k == 'upd':
    allrows = d.row_ids(sid)
    rows = []
    for s in (op.get('rows') or [0])[:3]:
      if allrows and allrows[int(s) % len(allrows)] not in rows:
        rows.append(allrows[int(s) % len(allrows)])
    if not rows:
      return None
    chosen = _mask(cols, op.get('mask', 1), 3) or cols[:1]
    if not chosen:
      return None
    cv = {}
    j = 0
    for c in chosen:
      cv[c['colId']] = []
      for _ in rows:
        cv[c['colId']].append(gb_value(d, c['type'], vals[j % len(vals)])); j += 1
    if len(rows) == 1:
      return ['UpdateRecord', sid, rows[0], {c: v[0] for c, v in cv.items()}]
    return ['BulkUpdateRecord', sid, rows, cv]
  if k == 'rm':
    allrows = d.row_ids(sid)
    rows = []
    for s in (op.get('rows') or [0])[:3]:
      if allrows and allrows[int(s) % len(allrows)] not in rows:
        rows.append(allrows[int(s) % len(allrows)])
    if not rows:
      return None
    return ['RemoveRecord', sid, rows[0]] if len(rows) == 1 else ['BulkRemoveRecord', sid, rows]
  if k == 'move':
    rep = d.fetch_repr(sid)
    pos = rep[3].get('manualSort')
    if not pos or len(rep[2]) < 2:
      return None
    i = 1 + int(op.get('a', 0)) % (len(rep[2]) - 1)
    nums = [p for p in pos if isinstance(p, (int, float)) and not isinstance(p, bool)]
    if not nums:
      return None
    return ['UpdateRecord', sid, rep[2][i], {'manualSort': min(nums) / 2.0}]   # drag the row to the top
  if k == 'summary':
    chosen = _mask(groupable(cols), op.get('mask', 1))
    return ['CreateViewSection', sref, 0, 'record', [c['id'] for c in chosen], None]
  if k == 'regroup':
    secs = summary_sections(d)
    s = _pick(secs, op.get('a', 0))
    if not s:
      return None
    chosen = _mask(groupable(cols), op.get('mask', 1))
    return ['UpdateSummaryViewSection', s['id'], [c['id'] for c in chosen]]
  if k == 'rmsection':
    secs = summary_sections(d)
    s = _pick(secs, op.get('a', 0))
    return ['RemoveViewSection', s['id']] if s else None
  if k == 'rencol':
    c = _pick(cols, op.get('a', 0))
    if not c:
      return None
    return ['RenameColumn', sid, c['colId'], RENAMES[int(op.get('name', 0)) % len(RENAMES)]]
  if k == 'rentable':
    return ['RenameTable', sid, 'Data' if sid != 'Data' else 'Src']
  if k == 'modtype':
    c = _pick(cols, op.get('a', 0))
    if not c:
      return None
    cur = c['type']
    pref = {'Choice': 'ChoiceList', 'ChoiceList': 'Choice', 'Ref:People': 'RefList:People',
            'RefList:People': 'Ref:People', 'Text': 'Int', 'Int': 'Numeric', 'Numeric': 'Int', 'Bool': 'Int',
            'Date': 'Text'}
    if int(op.get('t', 0)) % 3 == 0 and cur in pref:
      typ = pref[cur]
    else:
      typ = GB_TYPES[int(op.get('t', 0)) % len(GB_TYPES)]
    if typ.endswith(':' + PEOPLE) and PEOPLE not in d.engine.tables:
      typ = 'Text'      # a reference type names an existing table (People may have been removed)
    if typ == cur:
      return None
    if op.get('meta'):
      return ['UpdateRecord', '_grist_Tables_column', c['id'], {'type': typ}]
    return ['ModifyColumn', sid, c['colId'], {'type': typ}]
  if k == 'rmcol':
    gbrefs = set(x[3] for s in summaries(d) for x in s['gb'])
    pref = [c for c in cols if c['id'] in gbrefs] or cols
    c = _pick(pref if int(op.get('b', 0)) % 3 else cols, op.get('a', 0))
    return ['RemoveColumn', sid, c['colId']] if c else None
  if k == 'addcol':
    name = [n for n in COLNAMES + ['F', 'G'] if n not in [c['colId'] for c in d.columns(sref, visible_only=False)]]
    if not name:
      return None
    typ = GB_TYPES[int(op.get('t', 0)) % len(GB_TYPES)]
    if typ.endswith(':' + PEOPLE) and PEOPLE not in d.engine.tables:
      typ = 'Text'
    return ['AddColumn', sid, name[0], {'type': typ, 'isFormula': False}]
  if k == 'addf':
    ss = summaries(d)
    s = _pick(ss, op.get('a', 0))
    if not s:
      return None
    srccols = [c['colId'] for c in d.columns(sref)]
    sc = _pick(srccols, op.get('b', 0)) or 'id'
    f = ['len($group)', 'SUM($group.amount)' if 'amount' in srccols else '$count', '$count * 2',
         '[r.%s for r in $group]' % sc, 'MAX(r.id for r in $group) if $group else 0'][int(op.get('f', 0)) % 5]
    return ['AddColumn', s['tableId'], ['X', 'Y', 'Z'][int(op.get('name', 0)) % 3],
            {'type': 'Any', 'isFormula': True, 'formula': f}]
  return None


def gb_value(d, ctype, spec):
  """Cell value for a source column. Date cells are whole days (what Node stores): a number that is not a
  multiple of 86400 shows as the same date as its midnight but is a different stored value, so 'the key' of
  such a cell is not well defined."""
  v = O.cell_value(d, ctype, spec)
  if ctype.split(':')[0] == 'Date' and isinstance(v, (int, float)):
    v = int(v) * 86400 if abs(v) < 1000 else int(v // 86400) * 86400
  return v


def setup_bundles(d, s):
  npeople = 1 + int(s.get('people', 2)) % 4
  yield [['AddTable', PEOPLE, [{'id': 'Name', 'type': 'Text', 'isFormula': False}]]]
  yield [['BulkAddRecord', PEOPLE, [None] * npeople, {'Name': ['p%d' % i for i in range(npeople)]}]]
  types = [GB_TYPES[int(t) % len(GB_TYPES)] for t in (s.get('types') or [0])[:5]]
  cols = [{'id': COLNAMES[i], 'type': t, 'isFormula': False} for i, t in enumerate(types)]
  cols.append({'id': 'amount', 'type': 'Numeric', 'isFormula': False})
  yield [['AddTable', SRC, cols]]
  rows = (s.get('rows') or [])[:6]
  if rows:
    cv = {c['id']: [] for c in cols}
    for row in rows:
      row = row or [[0, 1, 'a']]
      for j, c in enumerate(cols):
        cv[c['id']].append(gb_value(d, c['type'], row[j % len(row)]))
    yield [['BulkAddRecord', SRC, [None] * len(rows), cv]]
    if s.get('shuffle') and len(rows) > 1:
      # the user drags the last row to the top: row order (manualSort) no longer follows row ids
      yield [['UpdateRecord', SRC, len(rows), {'manualSort': 0.5}]]
  for m in (s.get('summaries') or [1])[:3]:
    src = src_table(d)
    if not src:
      return
    chosen = _mask(groupable(data_cols(d, src[0])), m)
    yield [['CreateViewSection', src[0], 0, 'record', [c['id'] for c in chosen], None]]


# ---------------------------------------------------------------------------
# judging

def row_keys(d):
  """{summary table ref: (gb signature, {source row: canon keys})}"""
  out = {}
  reps = {}
  for s in summaries(d):
    if s['source'] is None or any(x[1] is None for x in s['gb']):
      continue
    if s['source'] not in reps:
      reps[s['source']] = d.fetch_repr(s['source'])
    _, per_row = expected_groups(d, s, reps[s['source']])
    out[s['ref']] = (tuple((x[3], x[2]) for x in s['gb']),
                     {r: eqv.jdump(eqv.canon([list(k) for k in ks])) for r, ks in per_row.items()})
  return out


def bundle_class(uas):
  kinds = set(u[0] for u in uas)
  meta_type = any(u[0] == 'UpdateRecord' and u[1] == '_grist_Tables_column' and 'type' in u[3] for u in uas)
  if 'ApplyUndoActions' in kinds: return 'undo'
  if 'UpdateSummaryViewSection' in kinds: return 'regroup'
  if 'ModifyColumn' in kinds or meta_type: return 'type-change'
  if 'RemoveColumn' in kinds: return 'column-removal'
  if kinds & set(['RenameColumn', 'RenameTable']): return 'rename'
  if kinds & set(['CreateViewSection', 'RemoveViewSection']): return 'section-change'
  if kinds & set(['RemoveRecord', 'BulkRemoveRecord']): return 'row-removal'
  if kinds & set(['AddRecord', 'BulkAddRecord']): return 'row-add'
  if kinds & set(['UpdateRecord', 'BulkUpdateRecord']): return 'cell-update'
  return 'other'


def step(d, out, st_, uas):
  before = st_['keys']
  r = d.apply(uas)
  is_undo = uas[0][0] == 'ApplyUndoActions'
  if not r.ok:
    out.cls('rejected', 'rejected:' + bundle_class(uas))
    if is_undo:
      st_['undo'].pop()
    st_['keys'] = row_keys(d)
    return False
  if is_undo:
    st_['undo'].pop()
  else:
    st_['undo'].append(r.undo)
  for u in uas:
    out.cls('ok:' + u[0] + (':meta' if len(u) > 1 and isinstance(u[1], str) and u[1].startswith('_grist_') else ''))
  ss = summaries(d)
  for s in ss:
    od = outside_domain(d, s)
    if od:
      out.cls('left-domain:' + od)
      return True
  for s in ss:
    out.cls('summary:%d-cols' % len(s['gb']))
    for x in s['gb']:
      out.cls('groupby:' + (x[2] or '?').split(':')[0])
    if any((x[2] or '').split(':')[0] in ('ChoiceList', 'RefList') for x in s['gb']):
      out.cls('summary:list-groupby' + ('+scalar' if any((x[2] or '').split(':')[0] not in ('ChoiceList', 'RefList') for x in s['gb']) else ''))
    bad = check_summary(d, s)
    if bad:
      out.fail('C12:%s:after-%s' % (bad[0], bundle_class(uas)), 'after %r: %s' % (uas, bad[1]), bad[2])
      return True
  after = row_keys(d)
  st_['keys'] = after
  changed = False
  if set(before) != set(after):
    changed = True
    out.cls('nt:summary-table-set-changed')
  for ref in set(before) & set(after):
    if before[ref][0] != after[ref][0]:
      changed = True
      if [x[0] for x in before[ref][0]] == [x[0] for x in after[ref][0]]:
        out.cls('nt:key-type-changed')
      else:
        out.cls('nt:groupby-set-changed')
    kb, ka = before[ref][1], after[ref][1]
    if any(kb[r_] != ka[r_] for r_ in set(kb) & set(ka)):
      changed = True
      out.cls('nt:row-key-changed:' + bundle_class(uas))
    if set(kb) != set(ka):
      out.cls('rows-added-or-removed')
  if changed:
    st_['nontrivial'] = True
  return False


def run_case(case):
  out = Outcome()
  d = Doc()
  st_ = {'undo': [], 'keys': {}, 'nontrivial': False}
  if case.get('concrete') is not None:
    for item in case['concrete']:
      uas = item[1] if (len(item) == 2 and isinstance(item[0], bool)) else item
      if uas and uas[0] and uas[0][0] == 'InitNewDoc':
        continue
      if step(d, out, st_, uas):
        break
  else:
    stop = False
    for uas in setup_bundles(d, case.get('setup') or {}):
      if step(d, out, st_, uas):
        stop = True
        break
    st_['undo'] = []
    st_['nontrivial'] = False
    if not stop:
      for ops in case.get('bundles', []):
        uas = []
        for op in ops[:2]:
          if op.get('k') == 'undo' and uas:
            continue
          ua = resolve(d, op, st_)
          if ua is not None:
            uas.append(ua)
            if ua[0] == 'ApplyUndoActions':
              uas = [ua]
              break
        if uas and step(d, out, st_, uas):
          break
  out['concrete'] = [u for ok, u in d.log[1:]]
  out['key'] = eqv.digest(out['concrete'])
  out['nontrivial'] = st_['nontrivial']
  return out


# ---------------------------------------------------------------------------
# strategy

_sel = st.integers(0, 7)
_mask6 = st.integers(0, 63)

WEIGHTS = {'add': 10, 'upd': 22, 'rm': 8, 'rmpeople': 2, 'summary': 4, 'regroup': 8, 'rmsection': 1, 'rencol': 2,
           'rentable': 1, 'modtype': 8, 'rmcol': 3, 'addcol': 2, 'addf': 3, 'undo': 8, 'move': 4, 'rmpeopletable': 1}


def _op(only=None):
  vals = st.lists(O.valspec(), min_size=1, max_size=5)
  table = {
    'add': st.fixed_dictionaries({'k': st.just('add'), 'n': st.integers(0, 2), 'mask': _mask6, 'vals': vals}),
    'upd': st.fixed_dictionaries({'k': st.just('upd'), 'rows': st.lists(_sel, min_size=1, max_size=3), 'mask': _mask6, 'vals': vals}),
    'rm': st.fixed_dictionaries({'k': st.just('rm'), 'rows': st.lists(_sel, min_size=1, max_size=3)}),
    'rmpeople': st.fixed_dictionaries({'k': st.just('rmpeople'), 'a': _sel}),
    'summary': st.fixed_dictionaries({'k': st.just('summary'), 'mask': _mask6}),
    'regroup': st.fixed_dictionaries({'k': st.just('regroup'), 'a': _sel, 'mask': _mask6}),
    'rmsection': st.fixed_dictionaries({'k': st.just('rmsection'), 'a': _sel}),
    'rencol': st.fixed_dictionaries({'k': st.just('rencol'), 'a': _sel, 'name': st.integers(0, 4)}),
    'rentable': st.fixed_dictionaries({'k': st.just('rentable')}),
    'modtype': st.fixed_dictionaries({'k': st.just('modtype'), 'a': _sel, 't': st.integers(0, 8), 'meta': st.sampled_from([False, False, True])}),
    'rmcol': st.fixed_dictionaries({'k': st.just('rmcol'), 'a': _sel, 'b': st.integers(0, 2)}),
    'addcol': st.fixed_dictionaries({'k': st.just('addcol'), 't': st.integers(0, 8)}),
    'addf': st.fixed_dictionaries({'k': st.just('addf'), 'a': _sel, 'b': _sel, 'f': st.integers(0, 4), 'name': st.integers(0, 2)}),
    'undo': st.fixed_dictionaries({'k': st.just('undo')}),
    'move': st.fixed_dictionaries({'k': st.just('move'), 'a': _sel}),
    'rmpeopletable': st.fixed_dictionaries({'k': st.just('rmpeopletable')}),
  }
  kinds = []
  for k in sorted(WEIGHTS):
    if only is None or k in only:
      kinds.extend([k] * WEIGHTS[k])
  return st.sampled_from(kinds).flatmap(lambda k: table[k])


def strategy(tier):
  big = tier == 'thorough'
  setup = st.fixed_dictionaries({
    'people': st.integers(0, 3),
    'types': st.lists(st.integers(0, len(GB_TYPES) - 1), min_size=2, max_size=5),
    'rows': st.lists(st.lists(O.valspec(), min_size=1, max_size=5), min_size=0, max_size=6),
    'summaries': st.lists(_mask6, min_size=1, max_size=3),
    'shuffle': st.booleans(),
  })
  # A two-op bundle is any op followed by a record op: selectors are resolved against the document as it is
  # before the bundle, so a second schema op would name what the first one just replaced (e.g. RemoveColumn of
  # a group-by column followed by CreateViewSection for the remaining key found the retired summary table).
  record_op = _op(only=('add', 'upd', 'rm', 'rmpeople'))
  bundle = st.one_of(st.lists(_op(), min_size=1, max_size=1),
                     st.tuples(_op(), record_op).map(list))
  return st.fixed_dictionaries({'setup': setup, 'bundles': st.lists(bundle, min_size=1, max_size=14 if big else 10)})
