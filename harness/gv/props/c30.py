"""C30 Outputs are deterministic across processes (PYTHONHASHSEED)."""
import atexit, json, os, subprocess, sys
from hypothesis import strategies as st
from ..runner import Outcome
from .. import ops as O, eqv, env
from ..hist import HistoryRun
from ..replay_worker import run as replay_run

ID = 'C30'
LEVEL = 'exploration'
TECHNIQUE = 'property-based generation of histories; differential oracle across child processes with different PYTHONHASHSEED'
RULE = ('case = concrete history produced in-process from the general/schema profiles with many string-named tables and '
        'columns, summary tables, bulk renames and multi-record auto-removes; it is replayed on a fresh engine in this '
        'process (PYTHONHASHSEED=0) and in persistent child processes started with PYTHONHASHSEED = 1, 2+shard and '
        '1000+VERIF_SEED. Non-trivial = some bundle emitted calc updates for >=2 columns, or removed >=2 metadata '
        'records, or renamed something; distinct by hash of the concrete history.')
ORACLE = ('SHA-256 of every bundle\'s full reply (stored, undo, direct, retValues, calc - order-sensitive) and of the final '
          'snapshot are identical in all processes; a bundle that fails must fail with the same exception class everywhere')
ASSUMPTIONS = ['generated formulas do not iterate over Python sets and use no time/randomness (user-level nondeterminism)',
               'the history is generated against the hash-seed-0 engine; children replay the same concrete user actions']
BUDGET = {'quick': dict(examples=400, shards=16, max_seconds=75),
          'thorough': dict(examples=1000, shards=16, max_seconds=1800)}
SHRINK_BUDGET = {'quick': 30, 'thorough': 200}

_children = {}


def child(hashseed):
  p = _children.get(hashseed)
  if p is None or p.poll() is not None:
    penv = dict(os.environ, PYTHONHASHSEED=str(hashseed), PYTHONDONTWRITEBYTECODE='1')
    p = subprocess.Popen([sys.executable, '-m', 'gv.replay_worker'], cwd=env.HARNESS, env=penv,
                         stdin=subprocess.PIPE, stdout=subprocess.PIPE, stderr=subprocess.DEVNULL, text=True)
    _children[hashseed] = p
  return p


@atexit.register
def _close():
  for p in _children.values():
    try:
      p.stdin.close(); p.wait(timeout=5)
    except Exception:
      p.kill()


def ask(hashseed, history):
  p = child(hashseed)
  p.stdin.write(json.dumps({'history': history}) + '\n')
  p.stdin.flush()
  line = p.stdout.readline()
  if not line:
    raise RuntimeError('replay worker (PYTHONHASHSEED=%s) died' % hashseed)
  return json.loads(line)


def strategy(tier):
  return st.one_of(st.fixed_dictionaries({'h': O.history('general', 2, 10)}),
                   st.fixed_dictionaries({'h': O.history('schema', 2, 10)}))


def run_case(case):
  out = Outcome()
  hr = HistoryRun(case['h'], snapshots=False)
  nt = {'v': False}

  def on_step(s):
    if s.reply.ok:
      calc_cols = set()
      removed_meta = 0
      for a, d in zip(s.reply.stored, s.reply.direct):
        if not d and a[0] in ('UpdateRecord', 'BulkUpdateRecord'):
          calc_cols.update((a[1], c) for c in a[3])
        if a[0] in ('RemoveRecord', 'BulkRemoveRecord') and a[1].startswith('_grist_'):
          removed_meta += 1 if a[0] == 'RemoveRecord' else len(a[2])
      if len(calc_cols) >= 2 or removed_meta >= 2 or any(u[0].startswith('Rename') for u in s.uas):
        nt['v'] = True
    return None
  hr.run(on_step)
  history = [s.uas for s in hr.steps]
  if not history:
    out['skipped'] = True
    return out
  base = replay_run(history)
  vseed = env.seed_from_env()
  shard = int(os.environ.get('GV_SHARD', '0'))
  seeds = [1, 2 + shard, 1000 + vseed]
  for hs in seeds:
    res = ask(hs, history)
    if 'error' in res:
      raise RuntimeError('replay worker error: %s' % res['error'])
    for i, (a, b) in enumerate(zip(base['bundles'], res['bundles'])):
      if a != b:
        kinds = '+'.join(sorted(set(u[0] for u in history[i])))
        out.fail('C30:reply-differs:' + kinds,
                 'bundle #%d %r: reply digest differs between PYTHONHASHSEED=0 and %d (%s vs %s)' % (i, history[i], hs, a, b),
                 {'hashseed': hs, 'bundle_index': i})
        break
    else:
      if base['final'] != res['final']:
        out.fail('C30:final-state-differs', 'final document differs between PYTHONHASHSEED=0 and %d' % hs, {'hashseed': hs})
    if not out['ok']:
      break
    out.cls('hashseed-compared')
  out['concrete'] = [[s.reply.ok, s.uas] for s in hr.steps]
  out['key'] = eqv.digest(history)
  out['nontrivial'] = nt['v']
  out.cls(*sorted(hr.labels))
  return out
