"""C38 Node and the engine agree on metadata schema and type defaults.

Finite domain, enumerated exhaustively (no Hypothesis strategy):
  * one case for the whole file: sandbox/gen_js_schema.py output == app/common/schema.ts byte for byte
    (this is what buildtools/update_schema.sh would write), incl. SCHEMA_VERSION;
  * one case per metadata table: every (table, column, type) triple of schema.schema_create_actions()
    against an independent parse of schema.ts (`schema` object and `SchemaTypes` interface);
  * one case per Grist type: usertypes._type_defaults[type] against `_defaultValues` parsed from
    app/common/gristTypes.ts.
"""
import contextlib, importlib.util, io, math, os, re

from ..runner import Outcome
from .. import env
env.setup()
import schema      # noqa: E402
import usertypes   # noqa: E402

ID = 'C38'
LEVEL = 'exploration'
TECHNIQUE = 'exhaustive enumeration of a finite domain with a differential oracle'
RULE = ('finite domain enumerated completely: 1 whole-file case + one case per metadata table (union of the '
        'tables in schema.py and in schema.ts; weight = number of (table, column, type) triples on either side) '
        '+ one case per Grist type (union of usertypes._type_defaults and gristTypes.ts _defaultValues keys). '
        'Every case is non-trivial (a table case compares >= 1 triple, a type case compares one default); '
        'distinct by table/type name; evaluations = 1 + #triples + #types.')
ORACLE = ('differential: (a) the text printed by sandbox/gen_js_schema.py main() equals app/common/schema.ts '
          'byte for byte and both carry schema.SCHEMA_VERSION; (b) a small independent parser of schema.ts yields, '
          'per table, the same ordered (column, type) list as schema.schema_create_actions() and the SchemaTypes '
          'interface lists the same columns with the TypeScript type the generator maps the Grist type to; '
          '(c) a small parser of `_defaultValues` in gristTypes.ts yields for every type the value of '
          'usertypes._type_defaults (null<->None, false<->False, ""<->\'\', numbers by value, '
          'Number.POSITIVE_INFINITY<->inf), and both sides define the same set of types.')
ASSUMPTIONS = ['schema.ts keeps the generator layout (`"table": {` blocks with one `col: "Type",` line per column)',
               '_defaultValues entries are `Type: [<literal>, "<sql>"],` with literals null/true/false/number/'
               'string/Number.POSITIVE_INFINITY/Number.NEGATIVE_INFINITY/Infinity/NaN',
               'the SQL text in _defaultValues (second tuple element) is outside the statement and not compared']
BUDGET = {'quick': dict(examples=0, shards=4, max_seconds=60),
          'thorough': dict(examples=0, shards=4, max_seconds=1800)}
MIN_NONTRIVIAL = 10


def _read(rel):
  with open(os.path.join(env.REPO, rel), 'rb') as f:
    return f.read().decode('utf8')


_cache = {}


def generator_module():
  if 'gen' not in _cache:
    path = os.path.join(env.REPO, 'sandbox', 'gen_js_schema.py')
    spec = importlib.util.spec_from_file_location('gv_gen_js_schema', path)
    mod = importlib.util.module_from_spec(spec)
    spec.loader.exec_module(mod)
    _cache['gen'] = mod
  return _cache['gen']


def generated_text():
  if 'text' not in _cache:
    buf = io.StringIO()
    with contextlib.redirect_stdout(buf):
      generator_module().main()
    _cache['text'] = buf.getvalue()
  return _cache['text']


# ---------------------------------------------------------------------------
# Independent parsers of the TypeScript side

_TABLE_RE = re.compile(r'^  "([^"]+)": \{\s*$')
_COL_RE = re.compile(r'^    (\w+)\s*: "([^"]*)",\s*$')
_IFACE_COL_RE = re.compile(r'^    (\w+): (.*);\s*$')


def parse_schema_ts(text):
  """-> (version or None, {table: [(col, type)]}, {table: [(col, tstype)]}, table order)."""
  m = re.search(r'^export const SCHEMA_VERSION = (\d+);\s*$', text, re.M)
  version = int(m.group(1)) if m else None
  part = None
  cur = None
  sch, iface, order = {}, {}, []
  for line in text.split('\n'):
    if line.startswith('export const schema = {'):
      part = sch; cur = None; continue
    if line.startswith('export interface SchemaTypes {'):
      part = iface; cur = None; continue
    if part is None:
      continue
    m = _TABLE_RE.match(line)
    if m:
      cur = m.group(1)
      if cur in part:
        part[cur].append(('#duplicate-table', ''))
      else:
        part[cur] = []
        if part is sch:
          order.append(cur)
      continue
    if cur is None:
      continue
    if line.startswith('  }'):
      cur = None; continue
    m = (_COL_RE if part is sch else _IFACE_COL_RE).match(line)
    if m:
      part[cur].append((m.group(1), m.group(2)))
    elif line.strip():
      part[cur].append(('#unparsed', line))
  return version, sch, iface, order


def ts_side():
  if 'ts' not in _cache:
    _cache['ts'] = parse_schema_ts(_read('app/common/schema.ts'))
  return _cache['ts']


def py_side():
  if 'py' not in _cache:
    acts = schema.schema_create_actions()
    _cache['py'] = ([a.table_id for a in acts],
                    {a.table_id: [(c['id'], c['type']) for c in a.columns] for a in acts})
  return _cache['py']


# Reference mapping Grist type -> TypeScript cell type, written from app/plugin/GristData CellValue
# conventions (numbers for numeric/ref/date types, encoded lists for list types).
_REF_TS = {'Bool': 'boolean', 'DateTime': 'number', 'Int': 'number', 'PositionNumber': 'number',
           'Ref': 'number', 'Text': 'string',
           'RefList': '[GristObjCode.List, ...number[]]|null',
           'ChoiceList': '[GristObjCode.List, ...string[]]|null'}


def ts_type_of(col_type):
  return _REF_TS.get(col_type.split(':', 1)[0], 'CellValue')


_ENTRY_RE = re.compile(r'^\s*(\w+)\s*:\s*\[\s*(.*?)\s*,\s*("(?:[^"\\]|\\.)*"|\'(?:[^\'\\]|\\.)*\')\s*\]\s*,?\s*(?://.*)?$')


class Unparsed(Exception):
  pass


def parse_ts_literal(s):
  s = s.strip()
  if s == 'null':
    return None
  if s == 'false':
    return False
  if s == 'true':
    return True
  if s in ('Number.POSITIVE_INFINITY', 'Infinity', '+Infinity'):
    return float('inf')
  if s in ('Number.NEGATIVE_INFINITY', '-Infinity'):
    return float('-inf')
  if s in ('NaN', 'Number.NaN'):
    return float('nan')
  if len(s) >= 2 and s[0] == s[-1] and s[0] in '"\'' and '\\' not in s:
    return s[1:-1]
  if re.match(r'^[-+]?(\d+\.?\d*|\.\d+)([eE][-+]?\d+)?$', s):
    return float(s)
  raise Unparsed(s)


def parse_default_values(text):
  m = re.search(r'^const _defaultValues\b[^\n]*=\s*\{\s*$', text, re.M)
  if not m:
    raise Unparsed('_defaultValues table not found in gristTypes.ts')
  out = {}
  for line in text[m.end():].split('\n'):
    if line.startswith('};'):
      return out
    if not line.strip() or line.strip().startswith('//'):
      continue
    e = _ENTRY_RE.match(line)
    if not e:
      raise Unparsed('line in _defaultValues: %r' % line)
    if e.group(1) in out:
      raise Unparsed('duplicate key %s' % e.group(1))
    out[e.group(1)] = parse_ts_literal(e.group(2))
  raise Unparsed('_defaultValues table not terminated')


def ts_defaults():
  if 'defaults' not in _cache:
    _cache['defaults'] = parse_default_values(_read('app/common/gristTypes.ts'))
  return _cache['defaults']


def same_default(py, ts):
  """Python default vs parsed JS literal, by what JS can observe."""
  if py is None or ts is None:
    return py is None and ts is None
  if isinstance(py, bool) or isinstance(ts, bool):
    return isinstance(py, bool) and isinstance(ts, bool) and py == ts
  if isinstance(py, str) or isinstance(ts, str):
    return isinstance(py, str) and isinstance(ts, str) and py == ts
  if isinstance(py, (int, float)) and isinstance(ts, (int, float)):
    if isinstance(py, float) and math.isnan(py):
      return isinstance(ts, float) and math.isnan(ts)
    return float(py) == float(ts)
  return False


# ---------------------------------------------------------------------------

def first_diff(a, b):
  la, lb = a.split('\n'), b.split('\n')
  for i in range(max(len(la), len(lb))):
    x = la[i] if i < len(la) else None
    y = lb[i] if i < len(lb) else None
    if x != y:
      return {'line': i + 1, 'generated': x, 'schema.ts': y}
  return None


def run_file(out):
  gen = generated_text()
  cur = _read('app/common/schema.ts')
  out.cls('file')
  out['nontrivial'] = True
  out['key'] = 'file'
  out['concrete'] = 'gen_js_schema.main() vs app/common/schema.ts (%d bytes)' % len(cur)
  if gen != cur:
    out.fail('C38:schema-ts-not-regenerated',
             'gen_js_schema.py output differs from app/common/schema.ts', first_diff(gen, cur))
  version = ts_side()[0]
  if version != schema.SCHEMA_VERSION:
    out.fail('C38:schema-version-differs', 'schema.ts SCHEMA_VERSION=%r, schema.py SCHEMA_VERSION=%r' % (
      version, schema.SCHEMA_VERSION))
  py_order = py_side()[0]
  if ts_side()[3] != py_order:
    out.fail('C38:table-set-differs', 'tables in schema.ts %r vs schema.py %r' % (
      [t for t in ts_side()[3] if t not in py_order], [t for t in py_order if t not in ts_side()[3]]))
  return out


def run_table(out, table):
  _, py = py_side()
  _, sch, iface, _ = ts_side()
  p = py.get(table)
  s = sch.get(table)
  i = iface.get(table)
  n = max(len(p or []), len(s or []), 1)
  out['weight'] = n
  out['nt_weight'] = n
  out['nontrivial'] = True
  out['key'] = 'table:' + table
  out['concrete'] = {'table': table, 'python': p, 'schema.ts': s}
  out.cls('table', 'table-cols=%d' % min(len(p or []), 24) if len(p or []) < 10 else 'table-cols>=10')
  for c, t in (p or []):
    out.cls('coltype=' + t.split(':', 1)[0])
  if p is None or s is None or i is None:
    return out.fail('C38:table-set-differs', 'table %s: in schema.py=%s, in schema.ts schema=%s, SchemaTypes=%s' % (
      table, p is not None, s is not None, i is not None))
  if p != s:
    bad = [x for x in zip(p, s) if x[0] != x[1]][:3]
    return out.fail('C38:column-differs',
                    'table %s: (column, type) list differs between schema.py and schema.ts' % table,
                    {'first_differences': bad, 'python_only': [x for x in p if x not in s],
                     'ts_only': [x for x in s if x not in p]})
  exp = [(c, ts_type_of(t)) for c, t in p]
  if exp != i:
    bad = [x for x in zip(exp, i) if x[0] != x[1]][:3]
    out.fail('C38:interface-type-differs',
             'table %s: SchemaTypes interface differs from the types implied by schema.py' % table,
             {'first_differences': bad, 'expected_only': [x for x in exp if x not in i],
              'ts_only': [x for x in i if x not in exp]})
  return out


def run_type(out, name):
  ts = ts_defaults()
  py = usertypes._type_defaults
  out['nontrivial'] = True
  out['key'] = 'type:' + name
  out.cls('type')
  out['concrete'] = {'type': name, 'python': repr(py.get(name, '<missing>')), 'ts': repr(ts.get(name, '<missing>'))}
  if name not in py or name not in ts:
    return out.fail('C38:default-type-set-differs', 'type %s: in usertypes._type_defaults=%s, in gristTypes.ts=%s' % (
      name, name in py, name in ts))
  out.cls('default=' + ('null' if py[name] is None else type(py[name]).__name__))
  if not same_default(py[name], ts[name]):
    out.fail('C38:default-differs', 'type %s: Python default %r, TypeScript default %r' % (name, py[name], ts[name]))
  # the accessor the engine actually uses must agree with the table (incl. 'Ref:X' style full types)
  for full in (name, name + ':Foo'):
    if not same_default(usertypes.get_type_default(full), ts[name]):
      out.fail('C38:default-differs', 'get_type_default(%r) = %r, TypeScript default %r' % (
        full, usertypes.get_type_default(full), ts[name]))
      break
  return out


def run_case(case):
  out = Outcome()
  if not isinstance(case, dict):
    out['skipped'] = True
    return out
  if case.get('file'):
    return run_file(out)
  if isinstance(case.get('table'), str) and case['table']:
    return run_table(out, case['table'])
  if isinstance(case.get('type'), str) and case['type']:
    return run_type(out, case['type'])
  out['skipped'] = True
  return out


def enumerate_cases(tier):
  yield {'file': True}
  py_order, _ = py_side()
  _, sch, iface, order = ts_side()
  tables = list(py_order) + sorted(t for t in set(sch) | set(iface) if t not in py_order)
  for t in tables:
    yield {'table': t}
  for name in sorted(set(usertypes._type_defaults) | set(ts_defaults())):
    yield {'type': name}


SHRINK = False
