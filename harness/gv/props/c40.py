"""C40 Predicate formula parse trees are faithful (sandbox/grist/predicate_formula.py).

Three kinds of cases:
  subset     an expression tree of the supported subset, rendered to source text with varied
             whitespace / parentheses / literal styles / `$x` shorthand / comments; the parsed tree
             must be JSON-serialisable and, interpreted with the documented node semantics, must
             give what Python `eval` gives for the same text (with `$x` read as `rec.x`) on generated
             environments;
  nonsubset  a syntactically valid Python expression containing one construct outside the subset,
             planted somewhere inside a subset expression: must raise SyntaxError;
  fuzz       arbitrary text / token soup: a JSON-serialisable tree or SyntaxError (and when a tree
             comes back for text Python can evaluate, the differential check applies too).
"""
import ast
import json
import re
import warnings
from hypothesis import strategies as st
from ..runner import Outcome
from .. import env
env.setup()
import predicate_formula  # noqa: E402

warnings.simplefilter('ignore', SyntaxWarning)

ID = 'C40'
LEVEL = 'exploration'
RULE = ('case kinds: subset (expression tree over And/Or/Not, + - * / %, the ten comparison operators incl. '
        'is/is not against None/True/False and in/not in, attribute chains on rec/user/newRec/choice, $x, '
        'constants, list literals and tuples after in, calls with positional and keyword args, comments; depth<=5; '
        'rendered with generated whitespace, line breaks inside brackets, redundant parentheses, literal styles) '
        'evaluated on 1-3 generated environments; nonsubset (one of ~45 unsupported constructs planted in a subset '
        'host); fuzz (st.text or token soup). Non-trivial: subset = parsed tree has >= 3 nodes and at least one '
        'environment yields a value (not an exception); nonsubset = the text is valid Python (checked with ast.parse) '
        'so only the converter can reject it; fuzz = a tree with >= 2 nodes came back, or Python accepts the text and '
        'the converter rejected it. Distinct by hash of the case.')
ORACLE = ('differential against CPython: json.dumps(tree) must work; an interpreter for the node list documented in '
          'parse_predicate_formula (And/Or short-circuit values, Add..Mod, Not, Eq..GtE, Is/IsNot/In/NotIn, List, '
          'Const, Name, Attr, Call with trailing [keywords,[k,v]...], Comment = its operand) is run on the parsed '
          'tree and compared with eval() of the same text in which $x is written rec.x, on the same environment: '
          'same canonical value (type-aware; tuple==list as documented) or same exception class. The Comment node '
          'must be present iff the text has a comment and carry the first comment without "#", stripped (it is the '
          'rule memo). Unsupported constructs and arbitrary text: SyntaxError, or a JSON-serialisable tree.')
ASSUMPTIONS = [
  'node semantics are the Python meaning of the ast operator the node is named after (the docstring lists node '
  'names and arities only; PredicateFormula.ts implements JS approximations of them, which is outside this property)',
  '`is`/`is not` are generated only against None/True/False; tuple literals only as right operand of in/not in '
  '("We don\'t distinguish tuples and lists")',
  'no leading whitespace before the expression (ast.parse mode=eval rejects it; eval() strips it - not part of the statement)',
  'unary minus/plus are outside the subset by design (visit_UnaryOp supports only Not), keyword call arguments are '
  'inside it (visit_Call documents them)',
  'strings whose %-formatting or repetition would allocate huge results are skipped (harness resource guard)',
]
TECHNIQUE = 'grammar-based generation + differential evaluation against CPython eval'
BUDGET = {'quick': dict(examples=12000, shards=8, max_seconds=60),
          'thorough': dict(examples=200000, shards=16, max_seconds=1800)}

parse = predicate_formula.parse_predicate_formula

ROOTS = ['rec', 'user', 'newRec', 'choice']
ATTRS = ['a', 'b', 'c', 'n', 's', 't', 'flag', 'items', 'sub', 'Email', 'Name', 'lower', 'upper', 'A_1', '_x', 'é']
DOLLAR_ATTRS = [a for a in ATTRS if re.match(r'^[a-zA-Z_][a-zA-Z_0-9]*$', a)]
FUNCS = ['f', 'g']
VARS = ['x', 'y', 'OWNER', 'undefined_name']
BINOPS = ['+', '-', '*', '/', '%']
CMPOPS = ['==', '!=', '<', '<=', '>', '>=', 'in', 'not in']
ISCONST = [None, True, False]


# ---------------------------------------------------------------------------
# Normalisation of (possibly shrunk) case expressions into well-formed ones

def _s(x, default=''):
  return x if isinstance(x, str) else default

def _i(x, default=0):
  return abs(x) if isinstance(x, int) and not isinstance(x, bool) else default

def _l(x):
  return x if isinstance(x, list) else []

def norm(e, depth=0):
  if not isinstance(e, list) or not e or depth > 7:
    return ['const', 0, 0]
  k = e[0]
  g = lambda i: e[i] if len(e) > i else None    # noqa: E731
  if k in ('and', 'or'):
    vals = [norm(v, depth + 1) for v in _l(g(1))][:4]
    while len(vals) < 2:
      vals.append(['const', True, 0])
    return [k, vals]
  if k == 'not':
    return ['not', norm(g(1), depth + 1)]
  if k == 'bin':
    return ['bin', BINOPS[_i(g(1)) % len(BINOPS)], norm(g(2), depth + 1), norm(g(3), depth + 1)]
  if k == 'cmp':
    op = CMPOPS[_i(g(1)) % len(CMPOPS)]
    right = g(3)
    if isinstance(right, list) and right and right[0] == 'tuple' and op in ('in', 'not in'):
      r = ['tuple', [norm(v, depth + 1) for v in _l(right[1] if len(right) > 1 else [])][:4]]
    else:
      r = norm(right, depth + 1)
    return ['cmp', op, norm(g(2), depth + 1), r]
  if k == 'is':
    left = norm(g(2), depth + 1)
    if left[0] == 'const':
      left = ['name', 0]
    return ['is', bool(g(1)), left, _i(g(3)) % 3]
  if k == 'attr':
    return ['attr', norm(g(1), depth + 1), _i(g(2)) % len(ATTRS)]
  if k == 'root':
    return ['root', _i(g(1)) % len(ROOTS)]
  if k == 'dollar':
    return ['dollar', _i(g(1)) % len(DOLLAR_ATTRS)]
  if k == 'name':
    return ['name', _i(g(1)) % len(VARS)]
  if k == 'const':
    v = g(1)
    if isinstance(v, float):
      if v != v or v in (float('inf'), float('-inf')):
        v = 1.5
      v = abs(v)
    elif isinstance(v, int) and not isinstance(v, bool):
      v = abs(v)
    elif not (v is None or isinstance(v, (bool, str))):
      v = 0
    return ['const', v, _i(g(2))]
  if k == 'list':
    return ['list', [norm(v, depth + 1) for v in _l(g(1))][:4]]
  if k == 'call':
    kws = []
    for kv in _l(g(3))[:3]:
      if isinstance(kv, list) and len(kv) == 2:
        name = 'k%d' % (_i(kv[0]) % 3)
        if name not in [x[0] for x in kws]:
          kws.append([name, norm(kv[1], depth + 1)])
    f = g(1)
    if isinstance(f, list):
      fn = norm(f, depth + 1)       # method call: f is an attr expression
      if fn[0] == 'const':
        fn = ['func', 0]
    else:
      fn = ['func', _i(f) % len(FUNCS)]
    return ['call', fn, [norm(v, depth + 1) for v in _l(g(2))][:3], kws]
  if k == 'func':
    return ['func', _i(g(1)) % len(FUNCS)]
  if k == 'paren':
    return ['paren', norm(g(1), depth + 1)]
  if k == 'hole':
    return ['hole']
  return ['const', 0, 0]


# ---------------------------------------------------------------------------
# Rendering

PREC = {'or': 1, 'and': 2, 'not': 3, 'cmp': 4, 'is': 4, 'add': 5, 'mul': 6, 'atom': 9}


class Renderer(object):
  """Renders a normalised expression to two texts: grist (with $x) and python (with rec.x)."""
  def __init__(self, ws, comments):
    self.ws = [w for w in ws if isinstance(w, int)] or [0]
    self.wi = 0
    self.g = []
    self.p = []
    self.depth = 0            # bracket depth: line breaks are legal when > 0
    self.comments = list(comments)   # comment texts still available for in-bracket line ends
    self.used_comments = []
    self.labels = set()
    self.hole_text = None

  def emit(self, s, ps=None):
    self.g.append(s)
    self.p.append(s if ps is None else ps)

  def gap(self, need_space=False):
    w = abs(self.ws[self.wi % len(self.ws)]); self.wi += 1
    choice = w % 12
    if choice <= 5:
      s = ' ' if (need_space or choice >= 2) else ''
    elif choice == 6:
      s = '  '
    elif choice == 7:
      s = '\t' if True else ''
    elif choice == 8:
      s = ' \\\n '
      self.labels.add('ws:backslash-continuation')
    elif choice in (9, 10):
      if self.depth > 0:
        if w // 12 % 5 == 4:
          s = '\r\n'
          self.labels.add('ws:crlf-in-brackets')
        else:
          s = '\n' + ' ' * (w // 12 % 5)
          self.labels.add('ws:newline-in-brackets')
      else:
        s = ' '
    else:
      if self.depth > 0 and self.comments:
        c = self.comments.pop(0)
        self.used_comments.append(c)
        s = ' #' + c + '\n'
        self.labels.add('comment:inside-brackets')
      else:
        s = ' '
    self.emit(s)

  def open(self, ch):
    self.emit(ch); self.depth += 1

  def close(self, ch):
    self.depth -= 1; self.emit(ch)

  def expr(self, e, min_prec=0):
    k = e[0]
    prec = self.prec(e)
    if prec < min_prec:
      self.open('(')
      self.gap()
      self.expr(e, 0)
      self.gap()
      self.close(')')
      return
    if k in ('and', 'or'):
      for i, v in enumerate(e[1]):
        if i:
          self.gap(True); self.emit(k); self.gap(True)
        self.expr(v, PREC[k] + 1)
    elif k == 'not':
      self.emit('not'); self.gap(True)
      self.expr(e[1], PREC['not'])
    elif k == 'bin':
      p = PREC['add'] if e[1] in '+-' else PREC['mul']
      self.expr(e[2], p)
      self.gap(); self.emit(e[1]); self.gap()
      self.expr(e[3], p + 1)
    elif k == 'cmp':
      self.expr(e[2], PREC['cmp'] + 1)
      self.gap(True)
      if e[1] == 'not in':
        self.emit('not'); self.gap(True); self.emit('in')
      else:
        self.emit(e[1])
      self.gap(True)
      if e[3][0] == 'tuple':
        self.labels.add('shape:tuple-after-in')
        self.seq(e[3][1], '(', ')', tuple_=True)
      else:
        self.expr(e[3], PREC['cmp'] + 1)
    elif k == 'is':
      self.expr(e[2], PREC['cmp'] + 1)
      self.gap(True); self.emit('is'); self.gap(True)
      if e[1]:
        self.emit('not'); self.gap(True)
      self.emit(repr(ISCONST[e[3]]))
    elif k == 'attr':
      self.expr(e[1], PREC['atom'])
      if e[1][0] == 'const' and isinstance(e[1][1], (int, float)) and not isinstance(e[1][1], bool):
        self.emit(' ')          # `1 .real`, not `1.real`
      self.emit('.' + ATTRS[e[2]])
    elif k == 'root':
      self.emit(ROOTS[e[1]])
    elif k == 'dollar':
      self.labels.add('shape:dollar')
      self.emit('$' + DOLLAR_ATTRS[e[1]], 'rec.' + DOLLAR_ATTRS[e[1]])
    elif k == 'name':
      self.emit(VARS[e[1]])
    elif k == 'func':
      self.emit(FUNCS[e[1]])
    elif k == 'const':
      self.emit(self.literal(e[1], e[2]))
    elif k == 'list':
      self.seq(e[1], '[', ']')
    elif k == 'call':
      self.expr(e[1], PREC['atom'])
      self.open('(')
      self.gap()
      n = 0
      for a in e[2]:
        if n:
          self.emit(','); self.gap()
        self.expr(a, 0)
        n += 1
      for name, v in e[3]:
        if n:
          self.emit(','); self.gap()
        self.emit(name); self.gap(); self.emit('='); self.gap()
        self.expr(v, 0)
        n += 1
        self.labels.add('shape:keyword-arg')
      self.gap()
      self.close(')')
    elif k == 'paren':
      self.labels.add('shape:redundant-parens')
      self.open('('); self.gap()
      self.expr(e[1], 0)
      self.gap(); self.close(')')
    elif k == 'hole':
      self.emit(self.hole_text)
    else:
      raise AssertionError('render: unknown node %r' % (e,))

  def seq(self, items, o, c, tuple_=False):
    self.open(o)
    for i, v in enumerate(items):
      if i:
        self.emit(','); self.gap()
      else:
        self.gap()
      self.expr(v, 0)
    if (tuple_ and len(items) == 1) or (items and self.ws[self.wi % len(self.ws)] % 5 == 0):
      self.emit(',')
    self.gap()
    self.close(c)

  def prec(self, e):
    k = e[0]
    if k in ('and', 'or', 'not'):
      return PREC[k]
    if k in ('cmp', 'is'):
      return PREC['cmp']
    if k == 'bin':
      return PREC['add'] if e[1] in '+-' else PREC['mul']
    return PREC['atom']

  def literal(self, v, style):
    if v is None or isinstance(v, bool):
      return repr(v)
    if isinstance(v, int):
      s = style % 4
      if s == 1:
        self.labels.add('const:hex'); return hex(v)
      if s == 2 and v >= 1000:
        self.labels.add('const:underscore'); return '{:_}'.format(v)
      if s == 3:
        self.labels.add('const:octal'); return oct(v)
      return repr(v)
    if isinstance(v, float):
      self.labels.add('const:float')
      r = repr(v)
      if style % 3 == 1 and r.endswith('.0'):
        return r[:-1]               # `2.`
      return r
    self.labels.add('const:str')
    if '$' in v:
      self.labels.add('const:str-with-dollar')
    if '#' in v:
      self.labels.add('const:str-with-hash')
    s = style % 4
    if s == 1:
      return json.dumps(v, ensure_ascii=False)
    if s == 2 and '\\' not in v and "'''" not in v and not v.endswith("'") and '\r' not in v and '\x00' not in v:
      if '\n' in v:
        self.labels.add('const:multiline-triple-quoted')
      return "'''" + v + "'''"
    if s == 3 and '\\' not in v and "'" not in v and '\n' not in v and '\r' not in v and '\x00' not in v:
      self.labels.add('const:raw-or-concat')
      h = len(v) // 2
      return "'" + v[:h] + "' r'" + v[h:] + "'"     # implicit concatenation, raw second half
    return repr(v)


def _clean_comment(c):
  c = _s(c)
  return ''.join(ch for ch in c if ch not in '\n\r\x00\x0c')


def render_case(expr, ws, cm, hole_text=None):
  """-> (grist_text, python_text, expected_comment_or_None, labels)"""
  cm = cm if isinstance(cm, dict) else {}
  lead = [_clean_comment(c) for c in _l(cm.get('lead'))][:2]
  inner = [_clean_comment(c) for c in _l(cm.get('inner'))][:2]
  trail = cm.get('trail')
  r = Renderer(_l(ws), inner)
  r.hole_text = hole_text
  for c in lead:
    r.emit('#' + c + '\n')
    r.labels.add('comment:leading-line')
  r.expr(expr, 0)
  all_comments = lead + r.used_comments
  if isinstance(trail, str):
    t = _clean_comment(trail)
    r.gap()
    r.emit('#' + t)
    all_comments.append(t)
    r.labels.add('comment:trailing')
    if '$' in t:
      r.labels.add('comment:with-dollar')
    if t.startswith('#'):
      r.labels.add('comment:starts-with-hash')
  tail = _i(cm.get('tail')) % 4
  r.emit(['', '\n', ' ', '\n\n'][tail] if not (isinstance(trail, str) and tail == 2) else '')
  if len(all_comments) > 1:
    r.labels.add('comment:several')
  expected = all_comments[0].strip() if all_comments else None
  return ''.join(r.g), ''.join(r.p), expected, r.labels


# ---------------------------------------------------------------------------
# Environments

class Obj(object):
  def __init__(self, name, attrs):
    self._name = name
    for k, v in attrs.items():
      setattr(self, k, v)
  def __repr__(self):
    return '<Obj %s>' % self._name


def _recorder(name):
  def fn(*args, **kwargs):
    return [name, list(args), sorted(kwargs.items())]
  fn.__name__ = name
  return fn


MISSING = object()
OBJ = object()
POOL = [None, True, False, 0, 1, 2, 3, 5, 20, -1, -3, 0.0, 1.0, 2.5, -1.5, 0.1, float('inf'), float('nan'),
        '', 'a', 'b', 'ab', 'A', 'owners', 'X@', 'a b', 'A%sB', '%s', 'é', '$a',
        [], [1], [1, 2], [1, 2, 3], ['a', 'owners'], [None], [0.0, True], [[1], 'a'], MISSING, OBJ, OBJ]


def _pick(g, ri, ai, depth):
  return POOL[(g[(ri * 5 + ai + depth * 11) % len(g)] + ai * 7 + ri * 13 + depth * 3) % len(POOL)]


def _obj(g, name, ri, depth):
  attrs = {}
  for ai, a in enumerate(ATTRS):
    v = _pick(g, ri, ai, depth)
    if v is MISSING:
      continue
    if v is OBJ:
      v = _obj(g, name + '.' + a, ri + ai + 1, depth + 1) if depth < 2 else None
    elif isinstance(v, list):
      v = json.loads(json.dumps(v))     # fresh copy (NaN/Infinity are fine for python json)
    attrs[a] = v
  return Obj(name, attrs)


def build_echo_env(value):
  """Boundary environment: every attribute of every root, and x / y / choice, equal `value` (a constant
  of the expression), so that comparisons against that constant are evaluated at equality."""
  e = {}
  for r in ROOTS[:3]:
    e[r] = Obj(r, {a: value for a in ATTRS if a not in ('lower', 'upper')})
  for name in ('choice', 'x', 'y'):
    e[name] = value
  for f in FUNCS:
    e[f] = _recorder(f)
  e['OWNER'] = 'owners'
  return e


def collect_consts(e, acc):
  if isinstance(e, list):
    if e and e[0] == 'const':
      if not any(type(x) is type(e[1]) and x == e[1] for x in acc):
        acc.append(e[1])
    else:
      for a in e[1:]:
        collect_consts(a, acc)
  return acc


def build_env(desc):
  """Environment from a genome (list of ints): rec/user/newRec objects with attributes of mixed
  types (some missing, some nested objects), optional choice/x/y, recorder functions f and g."""
  if isinstance(desc, dict) and 'echo' in desc:
    return build_echo_env(desc['echo'])
  g = [abs(x) for x in desc if isinstance(x, int) and not isinstance(x, bool)] if isinstance(desc, list) else []
  g = g or [0]
  e = {}
  for ri, r in enumerate(ROOTS[:3]):
    e[r] = _obj(g, r, ri, 0)
  for ri, name in ((3, 'choice'), (5, 'x'), (6, 'y')):
    v = _pick(g, ri, 1, 0)
    if v is MISSING:
      continue
    if v is OBJ:
      v = _obj(g, name, ri, 1)
    elif isinstance(v, list):
      v = json.loads(json.dumps(v))
    e[name] = v
  for f in FUNCS:
    e[f] = _recorder(f)
  e['OWNER'] = 'owners'
  return e


# ---------------------------------------------------------------------------
# Interpreter for the documented node list (Python meaning of each node name)

class Huge(Exception):
  pass


class BadTree(Exception):
  pass


def _guard_mult(a, b):
  for s, n in ((a, b), (b, a)):
    if isinstance(s, (str, list, tuple)) and isinstance(n, int) and not isinstance(n, bool):
      if n > 0 and len(s) * n > 20000:
        raise Huge()


def _has_callable(v, depth=0):
  if callable(v):
    return True
  if isinstance(v, (list, tuple)) and depth < 4:
    return any(_has_callable(x, depth + 1) for x in v)
  return False


def _guard_identity(a, b):
  """Equality of bound methods depends on the identity of the object they are bound to, and CPython
  merges equal constants of one code object: '"a".lower == "a".lower' is a CPython artefact like `is`."""
  if _has_callable(a) or _has_callable(b):
    raise Huge('identity')


def _guard_mod(a):
  if isinstance(a, str) and '%' in a and any(ch.isdigit() or ch == '*' for ch in a):
    raise Huge()


def ev(node, envd):
  if not isinstance(node, list) or not node or not isinstance(node[0], str):
    raise BadTree('not a node: %r' % (node,))
  t = node[0]
  args = node[1:]
  if t == 'And':
    if len(args) < 2:
      raise BadTree('And with %d values' % len(args))
    v = None
    for a in args:
      v = ev(a, envd)
      if not v:
        return v
    return v
  if t == 'Or':
    if len(args) < 2:
      raise BadTree('Or with %d values' % len(args))
    v = None
    for a in args:
      v = ev(a, envd)
      if v:
        return v
    return v
  if t == 'Not':
    if len(args) != 1:
      raise BadTree('Not arity')
    return not ev(args[0], envd)
  if t in ('Add', 'Sub', 'Mult', 'Div', 'Mod', 'Eq', 'NotEq', 'Lt', 'LtE', 'Gt', 'GtE', 'Is', 'IsNot', 'In', 'NotIn'):
    if len(args) != 2:
      raise BadTree('%s arity %d' % (t, len(args)))
    a = ev(args[0], envd)
    b = ev(args[1], envd)
    if t == 'Add': return a + b
    if t == 'Sub': return a - b
    if t == 'Mult':
      _guard_mult(a, b)
      return a * b
    if t == 'Div': return a / b
    if t == 'Mod':
      _guard_mod(a)
      return a % b
    if t in ('Eq', 'NotEq', 'In', 'NotIn'):
      _guard_identity(a, b)
    if t == 'Eq': return a == b
    if t == 'NotEq': return a != b
    if t == 'Lt': return a < b
    if t == 'LtE': return a <= b
    if t == 'Gt': return a > b
    if t == 'GtE': return a >= b
    if t == 'Is': return a is b
    if t == 'IsNot': return a is not b
    if t == 'In': return a in b
    return a not in b
  if t == 'List':
    return [ev(a, envd) for a in args]
  if t == 'Const':
    if len(args) != 1 or isinstance(args[0], (list, dict)):
      raise BadTree('Const %r' % (args,))
    return args[0]
  if t == 'Name':
    if len(args) != 1 or not isinstance(args[0], str):
      raise BadTree('Name %r' % (args,))
    if args[0] not in envd:
      raise NameError(args[0])
    return envd[args[0]]
  if t == 'Attr':
    if len(args) != 2 or not isinstance(args[1], str):
      raise BadTree('Attr %r' % (args,))
    return getattr(ev(args[0], envd), args[1])
  if t == 'Call':
    if not args:
      raise BadTree('Call without function')
    fn = ev(args[0], envd)
    rest = args[1:]
    kw = {}
    kwnode = None
    if rest and isinstance(rest[-1], list) and rest[-1] and rest[-1][0] == 'keywords':
      kwnode = rest[-1]
      rest = rest[:-1]
    pos = [ev(a, envd) for a in rest]
    if kwnode is not None:
      for pair in kwnode[1:]:
        if not (isinstance(pair, list) and len(pair) == 2 and isinstance(pair[0], str)):
          raise BadTree('keywords entry %r' % (pair,))
        kw[pair[0]] = ev(pair[1], envd)
    return fn(*pos, **kw)
  if t == 'Comment':
    if len(args) != 2:
      raise BadTree('Comment arity')
    return ev(args[0], envd)
  raise BadTree('unknown node type %r' % (t,))


def canon(v, depth=0):
  if v is None or isinstance(v, bool):
    return repr(v)
  if isinstance(v, int):
    return 'i:%d' % v
  if isinstance(v, float):
    return 'f:%r' % v
  if isinstance(v, str):
    return 's:' + v
  if isinstance(v, (list, tuple)):
    return [canon(x, depth + 1) for x in v] if depth < 8 else '...'
  if isinstance(v, Obj):
    return repr(v)
  if callable(v):
    return 'callable:%s' % getattr(v, '__name__', '?')
  return 'other:%s' % type(v).__name__


def run_tree(tree, envd):
  try:
    return ('value', canon(ev(tree, envd)))
  except (Huge, BadTree):
    raise
  except Exception as e:    # pylint: disable=broad-except
    return ('raises', type(e).__name__)


def run_python(code, envd):
  try:
    return ('value', canon(eval(code, {'__builtins__': {}}, envd)))   # pylint: disable=eval-used
  except Exception as e:    # pylint: disable=broad-except
    return ('raises', type(e).__name__)


def count_nodes(tree):
  if isinstance(tree, list) and tree and isinstance(tree[0], str) and tree[0][:1].isupper():
    return 1 + sum(count_nodes(a) for a in tree[1:])
  if isinstance(tree, list):
    return sum(count_nodes(a) for a in tree)
  return 0


def node_types(tree, acc):
  if isinstance(tree, list):
    if tree and isinstance(tree[0], str) and tree[0][:1].isupper():
      acc.add(tree[0])
    for a in tree[1:] if tree and isinstance(tree[0], str) else tree:
      node_types(a, acc)
  return acc


# ---------------------------------------------------------------------------
# Checks

def call_parser(text):
  """-> ('tree', tree) | ('syntax', msg) | ('other', 'Class: msg')"""
  try:
    return 'tree', parse(text)
  except SyntaxError as e:
    return 'syntax', str(e)
  except RecursionError:
    return 'recursion', ''
  except Exception as e:    # pylint: disable=broad-except
    return 'other', '%s: %s' % (type(e).__name__, e)


def other_signature(prefix, text, res):
  """Signature for a non-SyntaxError exception from the parser. One known root cause is singled out:
  the comment scan re-tokenises the text with tokenize, which chokes on lone carriage returns that
  ast.parse accepted."""
  cls_name = res.split(':')[0]
  if cls_name in ('TokenError', 'UnicodeDecodeError') and '\r' in text.replace('\r\n', ''):
    return 'C40:comment-scan-raises:lone-carriage-return'
  return '%s-%s' % (prefix, cls_name)


def differential(out, sigp, gtext, ptext, tree, envs, detail):
  """Evaluate tree vs python on each env. -> number of envs giving a value on both sides."""
  try:
    code = compile(ptext, '<c40>', 'eval')
  except SyntaxError as e:
    if sigp == 'subset':
      raise AssertionError('generator produced invalid python %r: %s' % (ptext, e))
    return 0
  except (ValueError, RecursionError, MemoryError):
    return 0
  values = 0
  for ed in envs:
    envd = build_env(ed)
    try:
      got = run_tree(tree, envd)
    except Huge as h:
      out.cls('eval:skipped-identity-dependent' if h.args else 'eval:skipped-huge')
      continue
    except BadTree as e:
      out.fail('C40:%s:malformed-tree' % sigp, 'tree for %r has an undocumented shape: %s' % (gtext, e),
               dict(detail, tree=tree))
      return values
    except RecursionError:
      continue
    want = run_python(code, build_env(ed))
    if got != want:
      ops = sorted(node_types(tree, set()))
      out.fail('C40:%s:evaluates-differently' % sigp,
               '%r: tree evaluates to %r, python to %r' % (gtext, got, want),
               dict(detail, tree=tree, python_text=ptext, env=ed, tree_result=got, python_result=want,
                    node_types=ops))
      return values
    if got[0] == 'value':
      values += 1
      out.cls('eval:value')
      out.cls('eval:truthy' if got[1] not in ('None', 'False', 'i:0', 'f:0.0', 's:', []) else 'eval:falsy')
    else:
      out.cls('eval:raises-' + got[1])
  return values


def run_subset(case):
  out = Outcome()
  expr = norm(case.get('e'))
  gtext, ptext, comment, labels = render_case(expr, case.get('ws'), case.get('cm'))
  out.cls('kind:subset', *sorted(labels))
  out['concrete'] = gtext
  kind, res = call_parser(gtext)
  detail = {'text': gtext}
  if kind != 'tree':
    sig = other_signature('C40:subset:rejected', gtext, res) if kind == 'other' else 'C40:subset:rejected-%s' % kind
    return out.fail(sig, 'subset expression %r was rejected: %s' % (gtext, res), detail)
  tree = res
  try:
    js = json.dumps(tree)
    json.loads(js)
  except Exception as e:    # pylint: disable=broad-except
    return out.fail('C40:subset:not-json', 'tree for %r is not JSON-serialisable: %s' % (gtext, e),
                    dict(detail, tree=repr(tree)))
  try:
    if predicate_formula.parse_predicate_formula_json(gtext) != js:
      out.fail('C40:subset:json-variant-differs', 'parse_predicate_formula_json(%r) != json.dumps(tree)' % gtext, detail)
  except Exception as e:    # pylint: disable=broad-except
    out.fail('C40:subset:json-variant-raised', 'parse_predicate_formula_json(%r) raised %r' % (gtext, e), detail)
  if any(isinstance(x, float) and (x != x or x in (float('inf'), float('-inf'))) for x in _flat(tree)):
    out.cls('obs:non-finite-const-in-json')
  # comment node
  has = isinstance(tree, list) and tree and tree[0] == 'Comment'
  if comment is None and has:
    out.fail('C40:subset:comment-invented', '%r has no comment but tree is %r' % (gtext, tree), detail)
  elif comment is not None and not has:
    out.fail('C40:subset:comment-lost', '%r: comment %r missing from tree %r' % (gtext, comment, tree), detail)
  elif comment is not None and (len(tree) != 3 or tree[2] != comment):
    out.fail('C40:subset:comment-text', '%r: expected comment %r, tree has %r' % (gtext, comment, tree[2:]),
             dict(detail, tree=tree))
  types = node_types(tree, set())
  out.cls(*['node:' + t for t in sorted(types)])
  envs = _l(case.get('envs'))[:3] or [[0]]
  echo = [{'echo': c} for c in collect_consts(expr, [])[:2]]
  if echo:
    out.cls('env:echo-constant')
  values = differential(out, 'subset', gtext, ptext, tree, envs + echo, detail)
  n = count_nodes(tree)
  out.cls('size:%s' % ('1-2' if n < 3 else '3-6' if n < 7 else '7-15' if n < 16 else '16+'))
  out['nontrivial'] = n >= 3 and values > 0
  return out


def _flat(tree):
  if isinstance(tree, list):
    for a in tree:
      for x in _flat(a):
        yield x
  else:
    yield tree


# Unsupported constructs: (id, template, root-cause group). A, B, C are subset sub-expressions.
FRAGMENTS = [
  ('unary-minus', '-A', None), ('unary-minus-const', '-1', None), ('unary-plus', '+A', None), ('invert', '~A', None),
  ('not-unary-minus', 'not -A', None),
  ('pow', 'A ** B', None), ('floordiv', 'A // B', None), ('bitor', 'A | B', None), ('bitand', 'A & B', None),
  ('bitxor', 'A ^ B', None), ('lshift', 'A << B', None), ('rshift', 'A >> B', None), ('matmul', 'A @ B', None),
  ('subscript', 'A[B]', None), ('subscript-const', 'A[0]', None), ('slice', 'A[B:C]', None), ('slice-all', 'A[:]', None),
  ('lambda', 'lambda: A', None), ('lambda-arg', 'lambda q: A', None),
  ('chained-lt', 'A < B < C', None), ('chained-eq', 'A == B == C', None), ('chained-mixed', 'A <= B != C', None),
  ('chained-in', 'A in B in C', None), ('chained-is', 'A is None is B', None),
  ('listcomp', '[A for q in B]', None), ('setcomp', '{A for q in B}', None), ('dictcomp', '{A: B for q in C}', None),
  ('genexp', '(A for q in B)', None), ('genexp-arg', 'f(A for q in B)', None),
  ('dict', '{A: B}', None), ('dict-empty', '{}', None), ('set', '{A, B}', None), ('dict-unpack', '{**A}', None),
  ('ifexp', 'A if B else C', None),
  ('starred-arg', 'f(*A)', None), ('starred-arg-2', 'f(A, *B)', None), ('starred-list', '[*A, B]', None),
  ('fstring', "f'{A}'", None), ('fstring-plain', "f'x'", None), ('fstring-concat', "'a' f'{A}'", None),
  ('walrus', '(q := A)', None), ('await', 'await A', None),
  ('double-star-kwargs', 'f(**A)', 'double-star-kwargs'), ('double-star-kwargs-2', 'f(A, k0=B, **C)', 'double-star-kwargs'),
  ('bytes', "b'x'", 'non-json-constant'), ('bytes-cmp', "A == b''", 'non-json-constant'),
  ('complex', '1j', 'non-json-constant'), ('ellipsis', '...', 'non-json-constant'),
]
NONEXPR = ['return A', 'q = A', 'A; B', 'def f(): pass', 'import os', 'A if B', 'A B', 'A = = B', 'A and', '(A', 'A)',
           'A not B', 'A ! B', '$', 'A $ B', '$1', 'rec.$a', 'A is not', 'not', 'A <> B', 'print A', 'lambda', 'A ? B : C',
           'A && B', 'A || B', '!A', 'A === B', 'null', '']


def plant(expr, path):
  """Replace one node of expr (chosen by path) with ['hole']; returns (expr, depth_of_hole)."""
  def kids(e):
    k = e[0]
    if k in ('and', 'or', 'list'):
      return [(1, i) for i in range(len(e[1]))]
    if k in ('not', 'paren'):
      return [(1, None)]
    if k == 'bin':
      return [(2, None), (3, None)]
    if k == 'cmp':
      return [(2, None)] + ([(3, None)] if e[3][0] != 'tuple' else [(3, ('t', i)) for i in range(len(e[3][1]))])
    if k == 'is':
      return [(2, None)]
    if k == 'attr':
      return [(1, None)]
    if k == 'call':
      r = [(2, i) for i in range(len(e[2]))] + [(3, ('kw', i)) for i in range(len(e[3]))]
      if e[1][0] != 'func':
        r.append((1, None))
      return r
    return []
  def rec(e, path, depth):
    ks = kids(e)
    if not ks or not path or (path[0] % (len(ks) + 1)) == len(ks):
      return ['hole'], depth
    slot, sub = ks[path[0] % (len(ks) + 1)]
    e = list(e)
    if sub is None:
      e[slot], d = rec(e[slot], path[1:], depth + 1)
    elif isinstance(sub, int):
      lst = list(e[slot]); lst[sub], d = rec(lst[sub], path[1:], depth + 1); e[slot] = lst
    elif sub[0] == 't':
      tup = list(e[slot]); lst = list(tup[1]); lst[sub[1]], d = rec(lst[sub[1]], path[1:], depth + 1)
      tup[1] = lst; e[slot] = tup
    else:
      lst = [list(x) for x in e[slot]]; lst[sub[1]][1], d = rec(lst[sub[1]][1], path[1:], depth + 1); e[slot] = lst
    return e, d
  return rec(expr, [p for p in path if isinstance(p, int)], 0)


def _fill(template, subs):
  def one(m):
    e = norm(subs[ord(m.group(0)) - ord('A')] if len(subs) > ord(m.group(0)) - ord('A') else None)
    if Renderer([0], []).prec(e) < PREC['atom']:
      e = ['paren', e]
    g, p, _, _ = render_case(e, [0], None)
    return p            # no `$` inside fragments: write rec.x
  return re.sub(r'\b[ABC]\b', one, template)


def run_nonsubset(case):
  out = Outcome()
  host = norm(case.get('e'))
  subs = _l(case.get('subs'))
  fi = _i(case.get('frag'))
  if case.get('nonexpr'):
    tmpl = NONEXPR[fi % len(NONEXPR)]
    text = _fill(tmpl, subs)
    out.cls('kind:nonexpr')
    out['concrete'] = text
    kind, res = call_parser(text)
    if kind == 'tree':
      # only a violation when Python itself would not evaluate it as an expression
      try:
        ast.parse(re.sub(r'\$(?=[a-zA-Z_])', 'rec.', text), mode='eval')
        out.cls('nonexpr:valid-after-all')
      except SyntaxError:
        out.fail('C40:nonexpr-accepted', '%r is not a Python expression but parsed to %r' % (text, res), {'text': text})
    elif kind != 'syntax':
      out.fail('C40:nonexpr-raises-other', '%r raised %s' % (text, res), {'text': text})
    out['nontrivial'] = False
    return out
  fid, tmpl, group = FRAGMENTS[fi % len(FRAGMENTS)]
  frag = '(' + _fill(tmpl, subs) + ')'
  planted, depth = plant(host, _l(case.get('path')))
  gtext, ptext, _, labels = render_case(planted, case.get('ws'), case.get('cm'), hole_text=frag)
  out.cls('kind:nonsubset', 'frag:' + fid, 'frag-depth:%d' % min(depth, 4))
  out['concrete'] = gtext
  try:
    ast.parse(ptext, mode='eval')
  except SyntaxError as e:
    raise AssertionError('nonsubset generator produced invalid python %r: %s' % (ptext, e))
  kind, res = call_parser(gtext)
  if kind == 'tree':
    try:
      shown = json.dumps(res)
    except Exception:    # pylint: disable=broad-except
      shown = repr(res)
    out.fail('C40:unsupported-accepted:%s' % (group or fid),
             'unsupported construct %s in %r did not raise SyntaxError; tree: %s' % (fid, gtext, shown),
             {'text': gtext, 'fragment': fid, 'tree': shown})
  elif kind != 'syntax':
    out.fail(other_signature('C40:unsupported-raises', gtext, res), '%r raised %s' % (gtext, res), {'text': gtext})
  else:
    out.cls('rejected:syntax-error')
  out['nontrivial'] = True
  return out


SOUP = ['\r', '\r\n', 'rec', 'user', 'newRec', 'choice', 'x', 'f', '$a', '$s', '.a', '.s', '.lower', '.upper', '(', ')', '[', ']', ',',
        'and', 'or', 'not', 'in', 'is', 'None', 'True', 'False', '==', '!=', '<', '<=', '>', '>=', '+', '-', '*', '/',
        '%', '**', '//', '=', ':', '{', '}', 'if', 'else', 'lambda', 'for', '0', '1', '2.5', "'a'", '"b"', "''", '#c',
        '\n', ' ', '$', '.', '~', '|', '&', 'k0=', '*', '@', ';', '\\', "'", '"', 'é', '1e999', "b'x'", '1j', '...']


def run_fuzz(case):
  out = Outcome()
  if isinstance(case.get('soup'), list):
    toks = [SOUP[_i(t) % len(SOUP)] for t in case['soup'][:40]]
    seps = _l(case.get('seps')) or [0]
    text = ''
    for i, t in enumerate(toks):
      text += t + (' ' if _i(seps[i % len(seps)]) % 3 else '')
    out.cls('kind:fuzz-soup')
  else:
    text = _s(case.get('text'))[:200]
    out.cls('kind:fuzz-text')
  out['concrete'] = text
  kind, res = call_parser(text)
  ptext = re.sub(r'\$(?=[a-zA-Z_][a-zA-Z_0-9]*)', 'rec.', text)
  try:
    ast.parse(ptext, mode='eval')
    python_ok = True
  except (SyntaxError, ValueError, RecursionError, MemoryError):
    python_ok = False
  if kind == 'syntax':
    out.cls('fuzz:syntax-error', 'fuzz:python-accepts-converter-rejects' if python_ok else 'fuzz:python-rejects')
    out['nontrivial'] = python_ok
    return out
  if kind == 'recursion':
    out.cls('fuzz:recursion')
    return out
  if kind == 'other':
    out.cls('fuzz:python-accepts' if python_ok else 'fuzz:python-rejects')
    return out.fail(other_signature('C40:fuzz:raises', text, res),
                    '%r raised %s instead of SyntaxError%s' % (text, res, ' (Python accepts this text)' if python_ok else ''),
                    {'text': text, 'python_accepts': python_ok})
  tree = res
  out.cls('fuzz:tree')
  try:
    json.loads(json.dumps(tree))
  except Exception as e:    # pylint: disable=broad-except
    grp = 'non-json-constant' if any(isinstance(x, (bytes, complex, type(Ellipsis))) for x in _flat(tree)) else 'other'
    return out.fail('C40:unsupported-accepted:%s' % grp if grp != 'other' else 'C40:fuzz:not-json',
                    'tree for %r is not JSON-serialisable: %s' % (text, e), {'text': text, 'tree': repr(tree)})
  n = count_nodes(tree)
  out['nontrivial'] = n >= 2
  if any(isinstance(x, float) and (x != x or x in (float('inf'), float('-inf'))) for x in _flat(tree)):
    out.cls('obs:non-finite-const-in-json')
  dollar_in_literal = '$' in text and any(ch in text for ch in '\'"#')
  if python_ok and not dollar_in_literal:
    if any(isinstance(x, list) and len(x) == 2 and x[0] is None for x in _walk_lists(tree)):
      return out.fail('C40:unsupported-accepted:double-star-kwargs', '%r parsed to %s' % (text, json.dumps(tree)),
                      {'text': text})
    differential(out, 'fuzz', text, ptext, tree, _l(case.get('envs'))[:2] or [[0]], {'text': text})
  return out


def _walk_lists(tree):
  if isinstance(tree, list):
    yield tree
    for a in tree:
      for x in _walk_lists(a):
        yield x


def run_case(case):
  if not isinstance(case, dict):
    o = Outcome(); o['skipped'] = True
    return o
  k = case.get('k')
  if k == 'nonsubset':
    return run_nonsubset(case)
  if k == 'fuzz':
    return run_fuzz(case)
  return run_subset(case)


# ---------------------------------------------------------------------------
# Strategies

def weighted(*pairs):
  """one_of with integer weights (one_of itself de-duplicates repeated branches)."""
  table = []
  for w, strat in pairs:
    table.extend([strat] * w)
  return st.integers(0, len(table) - 1).flatmap(lambda i: table[i])


def _expr_strategy(max_depth):
  str_const = st.one_of(st.text(alphabet='ab $#\'"\\\n%sé', max_size=6),
                        st.sampled_from(['owners', 'X@', '$a', '#x', 'a%sb', '']), st.text(max_size=4))
  const = weighted((1, st.none()), (1, st.booleans()), (2, st.integers(0, 20)), (1, st.integers(0, 5000)),
                   (3, st.sampled_from([0, 1, 2, 3, 5, 20, 2.5, 1.0, 0.1, 'a', 'ab', 'owners', 'X@', 'A%sB'])),
                   (1, st.floats(0, 100, allow_nan=False).map(lambda f: round(f, 2))), (3, str_const))
  constn = st.tuples(st.just('const'), const, st.integers(0, 3)).map(list)
  root = st.tuples(st.just('root'), st.integers(0, len(ROOTS) - 1)).map(list)
  dollar = st.tuples(st.just('dollar'), st.integers(0, len(DOLLAR_ATTRS) - 1)).map(list)
  name = st.tuples(st.just('name'), st.integers(0, len(VARS) - 1)).map(list)
  attr1 = st.tuples(st.just('attr'), root, st.integers(0, len(ATTRS) - 1)).map(list)
  ref = weighted((3, attr1), (3, dollar), (1, name))
  leaf = weighted((3, constn), (3, attr1), (3, dollar), (1, name), (1, root))
  # the shapes real access rules are made of: <reference> <op> <constant or reference>
  simple_cmp = st.tuples(st.just('cmp'), st.integers(0, 7), ref, weighted((2, constn), (1, ref))).map(list)
  simple_cmp_rev = st.tuples(st.just('cmp'), st.integers(0, 5), constn, ref).map(list)
  simple_bin = st.tuples(st.just('bin'), st.integers(0, 4), ref, weighted((2, constn), (1, ref))).map(list)

  def level(child):
    boolop = st.tuples(st.sampled_from(['and', 'or']), st.lists(child, min_size=2, max_size=3)).map(list)
    notn = st.tuples(st.just('not'), child).map(list)
    binn = st.tuples(st.just('bin'), st.integers(0, 4), child, child).map(list)
    tup = st.tuples(st.just('tuple'), st.lists(child, max_size=3)).map(list)
    cmpn = st.tuples(st.just('cmp'), st.integers(0, 7), child, child).map(list)
    cmpt = st.tuples(st.just('cmp'), st.integers(6, 7), child, tup).map(list)
    isn = st.tuples(st.just('is'), st.booleans(), child, st.integers(0, 2)).map(list)
    attr = st.tuples(st.just('attr'), child, st.integers(0, len(ATTRS) - 1)).map(list)
    lst = st.tuples(st.just('list'), st.lists(child, max_size=3)).map(list)
    kws = st.lists(st.tuples(st.integers(0, 2), child).map(list), max_size=2)
    call = st.tuples(st.just('call'), st.integers(0, 1), st.lists(child, max_size=2), kws).map(list)
    meth = st.tuples(st.just('call'), attr, st.lists(child, max_size=1), st.just([])).map(list)
    paren = st.tuples(st.just('paren'), child).map(list)
    return weighted((2, leaf), (4, boolop), (2, notn), (2, binn), (2, simple_bin), (2, cmpn), (4, simple_cmp),
                    (1, simple_cmp_rev), (1, cmpt), (1, isn), (1, attr), (1, lst), (1, call), (1, meth), (1, paren))

  s = leaf
  for _ in range(max_depth):
    s = level(s)
  return s


def _env_strategy():
  return st.lists(st.integers(0, 200), min_size=1, max_size=10)


def strategy(tier):
  expr = weighted((1, _expr_strategy(1)), (3, _expr_strategy(2)), (3, _expr_strategy(3)))
  small = _expr_strategy(1)
  leafish = _expr_strategy(0)
  ws = st.lists(st.integers(0, 59), min_size=1, max_size=12)
  ctext = st.one_of(st.text(alphabet=' ab$#\'"\t!é', max_size=10), st.sampled_from([' Allow owners', 'x  ', '# y', '$a']),
                    st.text(max_size=6))
  cm = st.one_of(st.just({}), st.just({}),
                 st.fixed_dictionaries({'tail': st.integers(0, 3)},
                                       optional={'trail': ctext, 'lead': st.lists(ctext, max_size=2),
                                                 'inner': st.lists(ctext, max_size=2)}))
  envs = st.lists(_env_strategy(), min_size=1, max_size=3)
  subset = st.fixed_dictionaries({'k': st.just('subset'), 'e': expr, 'ws': ws, 'cm': cm, 'envs': envs})
  nonsubset = st.fixed_dictionaries({'k': st.just('nonsubset'), 'e': st.one_of(small, expr), 'ws': ws, 'cm': cm,
                                     'frag': st.integers(0, len(FRAGMENTS) - 1),
                                     'subs': st.lists(leafish, min_size=3, max_size=3),
                                     'path': st.lists(st.integers(0, 7), max_size=4)})
  nonexpr = st.fixed_dictionaries({'k': st.just('nonsubset'), 'nonexpr': st.just(True),
                                   'frag': st.integers(0, len(NONEXPR) - 1),
                                   'subs': st.lists(leafish, min_size=3, max_size=3)})
  soup = st.fixed_dictionaries({'k': st.just('fuzz'), 'soup': st.lists(st.integers(0, len(SOUP) - 1), min_size=1, max_size=14),
                                'seps': st.lists(st.integers(0, 2), min_size=1, max_size=5),
                                'envs': st.lists(_env_strategy(), min_size=1, max_size=1)})
  text = st.fixed_dictionaries({'k': st.just('fuzz'), 'text': st.one_of(st.text(max_size=30),
                                                                       st.text(alphabet='rec.a $x()[]\'"#=<>!+-*/%,\n01', max_size=20)),
                                'envs': st.lists(_env_strategy(), min_size=1, max_size=1)})
  return weighted((8, subset), (3, nonsubset), (1, nonexpr), (2, soup), (1, text))
