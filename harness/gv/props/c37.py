"""C37 Text patches map back to the right source positions (sandbox/grist/textbuilder.py).

Case = JSON description of a builder tree (Text leaves, Replacer nodes with generated or
regexp-derived patches, Combiner nodes mixing plain strings and builders, depth <= 4) plus probe
patches on the output text. The oracle is a provenance + relational model written independently of
the offset tables in textbuilder: it never uses bisect/offset arithmetic; it walks the patches and
records which child positions every output position stands for.
"""
import re
from hypothesis import strategies as st
from ..runner import Outcome
from .. import env
env.setup()
import textbuilder  # noqa: E402

ID = 'C37'
LEVEL = 'exploration'
RULE = ('case = builder tree (Text leaves with arbitrary unicode incl. newlines; Replacer over any child '
        'with sorted non-overlapping patches given as (gap,length,new_text) incl. pure insertions, pure '
        'deletions, adjacent patches, patches at 0 and at the end, or patches derived with '
        'make_regexp_patches from a fixed regexp table; Combiner of plain strings and builders; depth<=4) '
        '+ probe patches on the output (generated ones, plus every (start,end) range when the output has '
        '<= EXH characters). Non-trivial = the tree is not a bare Text leaf, the output is non-empty and at '
        'least one probe falls in a class with a single legitimate answer (exact leaf range, or mandatory '
        'refusal); distinct by hash of the case.')
ORACLE = ('reference model written without offset tables/bisect: every node carries (a) its text, obtained by '
          'splicing the patches directly into the child text / concatenating parts, (b) the provenance of every '
          'output character (leaf, source offset) or "inserted", (c) a relational specification spec(s,e) = set of '
          'legitimate answers: Text -> that leaf range; Combiner -> the single part sharing characters with the '
          'patch, else refusal (plain-string part -> refusal); Replacer -> every pair of child positions that '
          'correspond to the two patch ends (a deletion makes both ends of the deleted text correspond to one '
          'output position). Checks: (1) get_text() of every node == directly patched text; (2) map_back_patch '
          'returns (leaf text, leaf value, Patch(a,b,leaf[a:b],new_text)) for an answer in the set, or refuses '
          '(ValueError/None) iff refusal is in the set. When all characters of the patch stem from one leaf at '
          'contiguous offsets (provenance class) that exact range is asserted to be in the set; the set is a '
          'singleton (classes exact-*, must-refuse) unless deleted text / an empty part / inserted text sits '
          'exactly at a patch end or the patch covers no source character (classes ambiguous:*).')
ASSUMPTIONS = [
  'Replacer patches are valid for the child text, non-overlapping, and no two zero-width patches share a position '
  '(order of two insertions at one point is not defined by "applying the patches directly")',
  'Combiner parts are str or Builder (bytes parts are a Python-2 leftover and not generated)',
  'probe patches whose start or end lies strictly inside the new text of a replacement have no defined source '
  'range; they are only counted (class probe:unchecked-inside-replacement)',
  'refusal = ValueError raised or None returned (Combiner documents both); the statement does not distinguish them',
]
TECHNIQUE = 'Hypothesis tree generator + independent provenance model + per-tree exhaustive probe ranges'
BUDGET = {'quick': dict(examples=12000, shards=8, max_seconds=60),
          'thorough': dict(examples=240000, shards=16, max_seconds=1800)}
EXH = 14          # exhaustive (start,end) probing when the output text is at most this long

# (regexp, flags) table for make_regexp_patches-derived Replacers (shapes used by codebuilder:
# indentation insertions at line starts, dedent deletions, token replacement)
REGEXPS = [
  (r'^', re.M),                 # _indent-like: zero-width insertion at every line start
  (r'^(?=.*\S)', re.M),         # codebuilder.indent_line_re
  (r'^[ \t]+', re.M),           # _dedent-like deletions
  (r'\$', 0),                   # dollar replacement
  (r'[ab]+', 0),
  (r'\s+', 0),
  (r'a*', 0),                   # empty and non-empty matches, adjacent
  (r'\w+', re.U),
]


# ---------------------------------------------------------------------------
# Model.  Every node knows its text, the provenance of every output character
# (prov[i] = (leaf, offset) or None for inserted text) and the *set* of legitimate answers for a
# patch [s,e) of its output (spec).  An answer is ('leaf', L, a, b) or 'refuse'; spec() returns None
# when an end of the patch lies strictly inside replacement text (no defined source position).

class MText(object):
  kind = 'text'
  def __init__(self, text, leaf):
    self.text = text
    self.leaf = leaf
    self.prov = [(leaf, i) for i in range(len(text))]

  def spec(self, s, e):
    return {('leaf', self.leaf, s, e)}


class MComb(object):
  kind = 'comb'
  def __init__(self, parts):
    self.parts = parts                 # str or model node
    self.text = ''.join(p if isinstance(p, str) else p.text for p in parts)
    self.prov = []
    self.spans = []                    # (start, end) of each part in the output
    pos = 0
    for p in parts:
      n = len(p) if isinstance(p, str) else len(p.text)
      self.spans.append((pos, pos + n))
      self.prov.extend([None] * n if isinstance(p, str) else p.prov)
      pos += n

  def spec(self, s, e):
    if s < e:
      # parts sharing at least one character with the patch
      hit = [i for i, (a, b) in enumerate(self.spans) if a < e and b > s]
      if len(hit) != 1:
        return {'refuse'}              # spans inputs
      i = hit[0]
      a, b = self.spans[i]
      p = self.parts[i]
      return {'refuse'} if isinstance(p, str) else p.spec(s - a, e - a)
    # zero-width patch: any part that contains or touches the point is a legitimate owner; refusal
    # is legitimate unless the point lies strictly inside exactly one part
    cands = [i for i, (a, b) in enumerate(self.spans) if a <= s <= b]
    acc = set()
    for i in cands:
      a, b = self.spans[i]
      p = self.parts[i]
      if isinstance(p, str):
        acc.add('refuse')
      else:
        r = p.spec(s - a, s - a)
        if r is None:
          return None
        acc |= r
    strictly_inside = len(cands) == 1 and self.spans[cands[0]][0] < s < self.spans[cands[0]][1]
    if not strictly_inside:
      acc.add('refuse')
    return acc


class MRep(object):
  kind = 'rep'
  def __init__(self, child, patches):
    self.child = child
    self.patches = patches             # sorted, non-overlapping (start, end, new_text)
    ctext = child.text
    out = []
    prov = []
    self.cand = {}                     # output position -> set of corresponding child positions
    cpos = 0
    opos = 0
    def stretch(c0, c1, o0):
      for c in range(c0, c1 + 1):
        self.cand.setdefault(o0 + c - c0, set()).add(c)
    for start, end, new in patches:
      stretch(cpos, start, opos)
      out.append(ctext[cpos:start]); prov.extend(child.prov[cpos:start])
      opos += start - cpos
      out.append(new); prov.extend([None] * len(new))
      opos += len(new)
      cpos = end
    stretch(cpos, len(ctext), opos)
    out.append(ctext[cpos:]); prov.extend(child.prov[cpos:])
    self.text = ''.join(out)
    self.prov = prov

  def spec(self, s, e):
    if s not in self.cand or e not in self.cand:
      return None
    acc = set()
    for ps in sorted(self.cand[s]):
      for pe in sorted(self.cand[e]):
        if ps <= pe:
          r = self.child.spec(ps, pe)
          if r is None:
            return None
          acc |= r
    return acc


def resolve_patches(text, raw):
  """(gap, length, new_text) triples -> sorted non-overlapping (start, end, new_text)."""
  n = len(text)
  res = []
  prev_end = 0
  last_zero_at = None
  for item in raw:
    item = list(item) if isinstance(item, (list, tuple)) else []
    gap = abs(int(item[0])) if len(item) > 0 and isinstance(item[0], int) else 0
    length = abs(int(item[1])) if len(item) > 1 and isinstance(item[1], int) else 0
    new = item[2] if len(item) > 2 and isinstance(item[2], str) else ''
    start = min(prev_end + gap, n)
    end = min(start + length, n)
    if start == end:
      if last_zero_at == start:
        continue                 # two zero-width patches at one point: not generated
      last_zero_at = start
    res.append((start, end, new))
    prev_end = end
  return res


def regexp_patches(text, idx, repl):
  rx, flags = REGEXPS[idx % len(REGEXPS)]
  return [(m.start(0), m.end(0), repl) for m in re.compile(rx, flags).finditer(text)]


def apply_direct(text, patches):
  """Text obtained by applying sorted non-overlapping patches directly (oracle 1)."""
  res = text
  for start, end, new in reversed(patches):      # right to left: earlier positions stay valid
    res = res[:start] + new + res[end:]
  return res


# ---------------------------------------------------------------------------
# Build model + real builders together, checking get_text() at every node (oracle 1)

class Mismatch(Exception):
  def __init__(self, sig, msg, detail):
    Exception.__init__(self, msg)
    self.sig = sig; self.msg = msg; self.detail = detail


class Ctx(object):
  def __init__(self):
    self.leaves = []
    self.labels = set()
    self.nodes = 0
    self.depth = 0


def _kind(node):
  if isinstance(node, dict):
    t = node.get('t')
    if t in ('rep', 'rex') and isinstance(node.get('c'), (dict, str)):
      return t
    if t == 'comb' and isinstance(node.get('parts'), list):
      return 'comb'
  return 'text'


def build(node, ctx, depth=1):
  """-> (real builder, model node)"""
  ctx.nodes += 1
  ctx.depth = max(ctx.depth, depth)
  kind = _kind(node) if depth <= 6 else 'text'
  if kind == 'text':
    s = node.get('s') if isinstance(node, dict) else node
    if not isinstance(s, str):
      s = ''
    lid = len(ctx.leaves)
    ctx.leaves.append(s)
    if '\n' in s:
      ctx.labels.add('tree:multiline-leaf')
    if any(ord(c) > 127 for c in s):
      ctx.labels.add('tree:non-ascii-leaf')
    if any(ord(c) > 0xffff for c in s):
      ctx.labels.add('tree:astral-leaf')
    if not s:
      ctx.labels.add('tree:empty-leaf')
    b = textbuilder.Text(s, lid)
    m = MText(s, lid)
    expect = s
  elif kind in ('rep', 'rex'):
    cb, cm = build(node['c'], ctx, depth + 1)
    ctext = cm.text
    if kind == 'rep':
      raw = node.get('p')
      patches = resolve_patches(ctext, raw if isinstance(raw, list) else [])
    else:
      repl = node.get('r') if isinstance(node.get('r'), str) else ''
      idx = node.get('rx') if isinstance(node.get('rx'), int) else 0
      patches = regexp_patches(ctext, idx, repl)
      ctx.labels.add('tree:regexp-replacer')
    n = len(ctext)
    for k, (start, end, new) in enumerate(patches):
      if start == end and new:
        ctx.labels.add('tree:pure-insertion')
      if start < end and not new:
        ctx.labels.add('tree:pure-deletion')
      if start < end and new and len(new) != end - start:
        ctx.labels.add('tree:length-changing-replacement')
      if start < end and len(new) == end - start:
        ctx.labels.add('tree:same-length-replacement')
      if start == 0:
        ctx.labels.add('tree:patch-at-0')
      if end == n:
        ctx.labels.add('tree:patch-at-end')
      if k and patches[k - 1][1] == start:
        ctx.labels.add('tree:adjacent-patches')
      if cm.kind == 'rep' and (start not in cm.cand or end not in cm.cand):
        ctx.labels.add('tree:patch-splits-inner-replacement')
      if cm.kind == 'comb' and len(set(i for i, (a, b) in enumerate(cm.spans) if a < end and b > start)) > 1:
        ctx.labels.add('tree:patch-across-combiner-parts')
    if cm.kind == 'comb':
      ctx.labels.add('tree:replacer-over-combiner')
    elif cm.kind == 'rep':
      ctx.labels.add('tree:replacer-over-replacer')
    expect = apply_direct(ctext, patches)
    m = MRep(cm, patches)
    if kind == 'rep':
      real = [textbuilder.make_patch(ctext, start, end, new) for start, end, new in patches]
      perm = node.get('perm') if isinstance(node.get('perm'), int) else 0
      if perm % 3 == 1:
        real.reverse()
      elif perm % 3 == 2:
        real = real[1::2] + real[0::2]
    else:
      rx, flags = REGEXPS[idx % len(REGEXPS)]
      real = textbuilder.make_regexp_patches(ctext, re.compile(rx, flags), repl)
      got = [(p.start, p.end, p.new_text) for p in real]
      if got != patches or any(p.old_text != ctext[p.start:p.end] for p in real):
        raise Mismatch('C37:make-regexp-patches', 'make_regexp_patches(%r, %r, %r) gave %r' % (ctext, rx, repl, real),
                       {'expected': patches})
    try:
      b = textbuilder.Replacer(cb, real)
    except Exception as e:    # pylint: disable=broad-except
      raise Mismatch('C37:replacer-construct-raised', 'Replacer(%r, %r) raised %s: %s' % (
        ctext, real, type(e).__name__, e), {'patches': [list(p) for p in real]})
  else:
    parts = []
    mparts = []
    nplain = nbuild = 0
    for p in node['parts']:
      if isinstance(p, str):
        parts.append(p); mparts.append(p)
        nplain += 1
        if not p:
          ctx.labels.add('tree:empty-plain-part')
      else:
        pb, pm = build(p, ctx, depth + 1)
        parts.append(pb); mparts.append(pm)
        nbuild += 1
        if not pm.text:
          ctx.labels.add('tree:empty-builder-part')
    if nplain and nbuild:
      ctx.labels.add('tree:combiner-mixes-plain-and-builders')
    if nbuild >= 2:
      ctx.labels.add('tree:combiner-several-builders')
    m = MComb(mparts)
    expect = ''.join(p if isinstance(p, str) else p.text for p in mparts)
    b = textbuilder.Combiner(parts)
  if m.text != expect or len(m.prov) != len(expect):
    raise AssertionError('model: provenance model and direct application disagree')
  got = b.get_text()
  if got != expect:
    raise Mismatch('C37:get-text:%s' % {'rex': 'replacer', 'rep': 'replacer', 'comb': 'combiner'}.get(kind, 'text'),
                   '%s.get_text() = %r, direct application gives %r' % (kind, got, expect),
                   {'node': node, 'got': got, 'expected': expect})
  return b, m


# ---------------------------------------------------------------------------

def tight_answer(prov, s, e):
  """Character-level provenance class: all characters of [s,e) come from one leaf at contiguous
  source offsets -> ('leaf', L, a, b); else None."""
  if s >= e:
    return None
  first = prov[s]
  if first is None:
    return None
  for i in range(s, e):
    p = prov[i]
    if p is None or p[0] != first[0] or p[1] != first[1] + (i - s):
      return None
  return ('leaf', first[0], first[1], first[1] + (e - s))


def classify(acc, s, e, tight):
  if acc == {'refuse'}:
    return 'probe:must-refuse'
  if len(acc) == 1:
    return 'probe:exact-zero-width-inside-leaf' if s == e else 'probe:exact-leaf-range'
  if tight is not None:
    return 'probe:ambiguous:deleted-text-at-patch-end'
  if s == e:
    return 'probe:ambiguous:zero-width-at-source-boundary'
  return 'probe:ambiguous:covers-inserted-text-only-or-with-deletion'


def check_probe(root, model, ctx, s, e, new, out):
  """-> True when the probe has a single legitimate answer (counts for non-triviality)."""
  text = model.text
  acc = model.spec(s, e)
  if acc is None:
    out.cls('probe:unchecked-inside-replacement')
    return False
  tight = tight_answer(model.prov, s, e)
  if tight is not None:
    out.cls('probe:all-chars-from-one-leaf')
    if tight not in acc:
      raise AssertionError('model: provenance answer %r not among %r' % (tight, acc))
  elif s < e:
    leaves = set(p[0] for p in model.prov[s:e] if p is not None)
    ins = any(p is None for p in model.prov[s:e])
    out.cls('probe:spans-%s%s' % ('several-leaves' if len(leaves) > 1 else 'one-leaf' if leaves else 'no-leaf',
                                  '+inserted-text' if ins else '+gap'))
  label = classify(acc, s, e, tight)
  out.cls(label)
  if s == e:
    out.cls('probe:zero-width')
  if s == 0:
    out.cls('probe:at-0')
  if e == len(text):
    out.cls('probe:at-end')
  patch = textbuilder.make_patch(text, s, e, new)
  try:
    res = root.map_back_patch(patch)
  except ValueError:
    got = 'refuse'; shown = 'ValueError'
  except Exception as ex:    # pylint: disable=broad-except
    got = 'crash'; shown = '%s: %s' % (type(ex).__name__, ex)
  else:
    shown = repr(res)
    if res is None:
      got = 'refuse'
    else:
      got = 'malformed'
      if isinstance(res, tuple) and len(res) == 3:
        ltext, lval, lp = res
        if (isinstance(lval, int) and not isinstance(lval, bool) and 0 <= lval < len(ctx.leaves)
            and ltext == ctx.leaves[lval] and isinstance(lp, tuple) and len(lp) == 4
            and isinstance(lp[0], int) and isinstance(lp[1], int)
            and 0 <= lp[0] <= lp[1] <= len(ltext)
            and lp[2] == ltext[lp[0]:lp[1]] and lp[3] == new):
          got = ('leaf', lval, lp[0], lp[1])
  if got in acc:
    if got == 'refuse':
      out.cls('result:refused')
    else:
      out.cls('result:mapped')
      if got[2] != s:
        out.cls('result:mapped-with-offset-shift')
      if tight is not None and got != tight:
        out.cls('result:mapped-range-includes-deleted-text')
    return len(acc) == 1
  expected = sorted(repr(a) for a in acc)
  if got == 'crash':
    sig = 'C37:map-back:unexpected-exception'
  elif got == 'malformed':
    sig = 'C37:map-back:malformed-result'
  elif got == 'refuse':
    sig = 'C37:map-back:refused-single-leaf-patch'
  elif acc == {'refuse'}:
    sig = 'C37:map-back:spanning-patch-not-refused'
  elif any(a != 'refuse' and a[1] == got[1] for a in acc):
    sig = 'C37:map-back:wrong-range'
  else:
    sig = 'C37:map-back:wrong-leaf'
  if label.startswith('probe:ambiguous'):
    sig += ':ambiguous-class'
  out.fail(sig, 'output %r, patch [%d,%d) %r -> %r: map_back_patch gave %s, model allows %s' % (
    text, s, e, text[s:e], new, shown, ', '.join(expected)),
    {'output': text, 'probe': [s, e, new], 'got': shown, 'allowed': expected, 'class': label,
     'leaves': ctx.leaves})
  return False


def run_case(case):
  out = Outcome()
  if not isinstance(case, dict):
    out['skipped'] = True
    return out
  ctx = Ctx()
  try:
    root, model = build(case.get('tree'), ctx)
  except Mismatch as m:
    out.cls(*sorted(ctx.labels))
    return out.fail(m.sig, m.msg, m.detail)
  out.cls(*sorted(ctx.labels))
  out.cls('tree:depth=%d' % min(ctx.depth, 5), 'tree:leaves=%s' % (len(ctx.leaves) if len(ctx.leaves) < 4 else '4+'))
  text = model.text
  n = len(text)
  probes = []
  raw = case.get('probes')
  # positions where inserted text meets source text / a source changes: interesting probe ends
  marks = sorted(set([0, n] + [i for i in range(1, n) if (
    (model.prov[i] is None) != (model.prov[i - 1] is None) or
    (model.prov[i] is not None and model.prov[i - 1] is not None and
     (model.prov[i][0] != model.prov[i - 1][0] or model.prov[i][1] != model.prov[i - 1][1] + 1)))]))
  for pr in (raw if isinstance(raw, list) else []):
    pr = list(pr) if isinstance(pr, (list, tuple)) else []
    mode = abs(pr[0]) if len(pr) > 0 and isinstance(pr[0], int) else 0
    x = abs(pr[1]) if len(pr) > 1 and isinstance(pr[1], int) else 0
    y = abs(pr[2]) if len(pr) > 2 and isinstance(pr[2], int) else 0
    new = pr[3] if len(pr) > 3 and isinstance(pr[3], str) else ''
    if mode % 3 == 0:
      a, b = x % (n + 1), y % (n + 1)
    elif mode % 3 == 1:
      a, b = marks[x % len(marks)], marks[y % len(marks)]
    else:
      a = x % (n + 1); b = min(n, a + y % 4)
    probes.append((min(a, b), max(a, b), new))
  if n <= EXH:
    out.cls('probes:all-ranges')
    fill = probes[0][2] if probes else 'x'
    seen = set((a, b) for a, b, _ in probes)
    for a in range(n + 1):
      for b in range(a, n + 1):
        if (a, b) not in seen:
          probes.append((a, b, fill))
  if not probes:
    out['skipped'] = True
    return out
  exact = 0
  for a, b, new in probes:
    if check_probe(root, model, ctx, a, b, new, out):
      exact += 1
    if len(out['failures']) >= 3:
      break
  out['weight'] = len(probes)
  out['nontrivial'] = bool(ctx.nodes > 1 and n > 0 and exact > 0)
  out['nt_weight'] = exact if out['nontrivial'] else 0
  out['concrete'] = {'output': text, 'leaves': ctx.leaves, 'probes': len(probes)}
  return out


# ---------------------------------------------------------------------------
# Strategy

def strategy(tier):
  small = st.text(alphabet='ab$ \n\t', min_size=1, max_size=10)
  words = st.text(alphabet='abc_ $.\n', min_size=2, max_size=14)
  uni = st.text(max_size=8)
  leaf_text = st.one_of(small, words, words, uni)
  new_text = st.one_of(st.just(''), st.text(alphabet='xy \n', max_size=4), st.text(max_size=3))
  leaf = st.fixed_dictionaries({'t': st.just('text'), 's': leaf_text})
  triple = st.tuples(st.integers(0, 5), st.integers(0, 4), new_text).map(list)

  def level(child):
    rep = st.fixed_dictionaries({'t': st.just('rep'), 'c': child,
                                 'p': st.lists(triple, max_size=5), 'perm': st.integers(0, 2)})
    rex = st.fixed_dictionaries({'t': st.just('rex'), 'c': child, 'rx': st.integers(0, len(REGEXPS) - 1),
                                 'r': new_text})
    comb = st.fixed_dictionaries({'t': st.just('comb'),
                                  'parts': st.lists(st.one_of(st.text(alphabet='[]\n ab', max_size=5), child, child),
                                                    min_size=1, max_size=4)})
    return st.one_of(leaf, rep, rep, rex, comb, comb)

  d1 = level(leaf)
  d2 = level(d1)
  d3 = level(d2)
  tree = st.one_of(d1, d2, d3, d3)
  probe = st.tuples(st.integers(0, 2), st.integers(0, 60), st.integers(0, 60),
                    st.text(alphabet='XY', max_size=2)).map(list)
  return st.fixed_dictionaries({'tree': tree, 'probes': st.lists(probe, min_size=1, max_size=6)})
