"""C18 Circular references terminate and are reported on the cycle.

Every dependency graph over n formula columns C0..C(n-1) of one table (formula of Ci = `1 + $Cj + ...` over
its reference set, same-row references, self references included) is built
  (a) at once   - one bundle `AddTable` (all formulas) + `BulkAddRecord`, and
  (b) by edits  - the table starts with all columns `1`; `ModifyColumn` edits install / replace one
                  formula at a time and the oracle is evaluated after every edit (so each graph is also
                  reached from a neighbouring graph that may itself hold CircularRefError values),
each with the engine's own work-item order and with permuted work-item orders (as in C06).
"""
import hashlib
import itertools
from hypothesis import strategies as st
from ..runner import Outcome
from ..doc import Doc
from .. import env
env.setup()
import engine as _engine   # noqa: E402

ID = 'C18'
LEVEL = 'exploration'
TECHNIQUE = 'exhaustive enumeration of small dependency graphs + property-based sampling; graph-theoretic model oracle'
RULE = ('case = batch of dependency graphs over n columns (adjacency bit masks; bit j of masks[i] = Ci references Cj). '
        'kind "once": each graph is built by AddTable+BulkAddRecord in one bundle (table removed afterwards, engine '
        'reused inside the batch); kind "walk": a list of ModifyColumn edits [column, new mask] applied to a table whose '
        'columns start as `1`, oracle after every edit. Both run on an engine with the stock evaluation order and on '
        'engines whose Engine._make_sorted_work_items is replaced (per instance) by a generated permutation (seed 0 = '
        'exact reverse). enumerate_cases: ALL graphs with n<=3 (2+16+512) in quick, plus ALL 65 536 graphs with n=4 in '
        'thorough, in both kinds (the walk enumeration visits every graph once per column order - 3 rotations for n=3, one '
        'order for n=4 - alternating which column is innermost); the Hypothesis strategy samples sparse and dense graphs with n=5..6, 1-3 rows, generated installation '
        'orders and further edits. Quick-tier enumerated graphs and all sampled graphs are also re-checked after a '
        'Calculate and in a fresh engine loaded from metadata. Non-trivial graph = has a cycle AND a column that lies on no '
        'cycle; distinct by graph (a batch counts its non-trivial graphs).')
ORACLE = ('graph model: reach = transitive closure (>=1 step); column on a cycle (reaches itself: member of a non-trivial '
          'SCC or self loop) -> every cell encodes as [\'E\', \'CircularRefError\', ...]; column that does not reach a cycle '
          '-> every cell == 1 + sum of the model values of its references; column that reaches a cycle but is not on one -> '
          'any error value. apply_user_actions must not raise (no "data engine not making progress", no internal error).')
ASSUMPTIONS = ['references are same-row `$Ck` attribute reads inside one table (the statement\'s "self, mutual, through other '
               'columns of the same row"); cycles through lookups/other rows are not in this property\'s domain',
               'for a column that depends on a cycle without lying on one the statement fixes no value; the check only '
               'requires an error value of any kind',
               'in batch cases the engine is reused between graphs (tables are removed); a failing batch is minimised to '
               'the graphs needed']
BUDGET = {'quick': dict(examples=120, shards=8, max_seconds=50),
          'thorough': dict(examples=1200, shards=16, max_seconds=1800)}
SHRINK_BUDGET = {'quick': 120, 'thorough': 400}

TYPES = ['Any', 'Int', 'Numeric']
MAXN = 6


# ---------------------------------------------------------------------------
# model

def formula(mask, n):
  return ' + '.join(['1'] + ['$C%d' % j for j in range(n) if (mask >> j) & 1])


def analyse(masks):
  """-> (on_cycle[i], reaches_cycle[i], value[i] or None) for the graph given by adjacency masks."""
  n = len(masks)
  reach = list(masks)                     # reach[i] = set of columns reachable from i in >= 1 steps
  changed = True
  while changed:
    changed = False
    for i in range(n):
      r = reach[i]
      for j in range(n):
        if (r >> j) & 1:
          r |= reach[j]
      if r != reach[i]:
        reach[i] = r
        changed = True
  on = [bool((reach[i] >> i) & 1) for i in range(n)]
  dirty = [on[i] or any(on[j] for j in range(n) if (reach[i] >> j) & 1) for i in range(n)]
  value = [None] * n

  def val(i):
    if value[i] is None:
      value[i] = 1 + sum(val(j) for j in range(n) if (masks[i] >> j) & 1)
    return value[i]
  for i in range(n):
    if not dirty[i]:
      val(i)
  return on, dirty, value


def shape_labels(masks):
  n = len(masks)
  on, dirty, value = analyse(masks)
  labels = ['n=%d' % n]
  if not any(on):
    labels.append('acyclic' if any(masks) else 'no-edges')
  if any((masks[i] >> i) & 1 for i in range(n)):
    labels.append('self-loop')
  # non-trivial SCCs
  sizes = []
  seen = set()
  # two columns on cycles share an SCC iff they reach each other
  reach = _reach(masks)
  for i in range(n):
    if on[i] and i not in seen:
      members = [j for j in range(n) if on[j] and ((reach[i] >> j) & 1) and ((reach[j] >> i) & 1)] or [i]
      if i not in members:
        members.append(i)
      seen.update(members)
      sizes.append(len(members))
  if any(s >= 2 for s in sizes):
    labels.append('scc-size>=2')
  if any(s >= 3 for s in sizes):
    labels.append('scc-size>=3')
  if len(sizes) >= 2:
    labels.append('several-cycles-components')
  if any(dirty[i] and not on[i] for i in range(n)):
    labels.append('column-downstream-of-cycle(any error)')
  if any(on) and any(not dirty[i] for i in range(n)):
    labels.append('cycle+clean-column')
  if any(on) and any((not dirty[i]) and masks[i] for i in range(n)):
    labels.append('cycle+clean-chain')
  if any(on[i] and any((masks[i] >> j) & 1 and not dirty[j] for j in range(n)) for i in range(n)):
    labels.append('cycle-reads-clean-column')
  return labels


def _reach(masks):
  n = len(masks)
  reach = list(masks)
  changed = True
  while changed:
    changed = False
    for i in range(n):
      r = reach[i]
      for j in range(n):
        if (r >> j) & 1:
          r |= reach[j]
      if r != reach[i]:
        reach[i] = r; changed = True
  return reach


def nontrivial(masks):
  on, dirty, value = analyse(masks)
  return any(on) and not all(on)


def is_error(v):
  return isinstance(v, list) and len(v) >= 1 and v[0] == 'E'


def is_circular(v):
  return isinstance(v, list) and len(v) >= 2 and v[0] == 'E' and v[1] == 'CircularRefError'


def judge(doc, table_id, masks, nrows):
  """Compare what the engine reports for table_id with the graph model. -> None or (sig, message, detail)."""
  n = len(masks)
  try:
    view = doc.view(table_id)
  except Exception as e:   # table missing etc.
    return 'fetch-raised', 'fetch_table(%s) raised %r' % (table_id, e), None
  rows = view['id']
  if len(rows) != nrows:
    return 'rows-lost', 'table has rows %r, expected %d rows' % (rows, nrows), None
  on, dirty, value = analyse(masks)
  for i in range(n):
    col = view.get('C%d' % i)
    if col is None:
      return 'column-missing', 'column C%d is not reported' % i, None
    for r in rows:
      cell = col.get(r)
      if on[i]:
        if not is_circular(cell):
          kind = 'other-error' if is_error(cell) else 'plain-value'
          return ('on-cycle-not-CircularRefError:' + kind,
                  'C%d[%s] lies on a cycle but holds %r' % (i, r, cell), {'col': i, 'row': r, 'cell': cell})
      elif dirty[i]:
        if not is_error(cell):
          return ('depends-on-cycle-but-plain-value',
                  'C%d[%s] depends on a cycle (not on it) but holds the non-error value %r' % (i, r, cell),
                  {'col': i, 'row': r, 'cell': cell})
      else:
        if isinstance(cell, bool) or not isinstance(cell, (int, float)) or cell != value[i]:
          kind = ('CircularRefError' if is_circular(cell) else 'other-error') if is_error(cell) else 'wrong-number'
          return ('clean-cell-wrong:' + kind,
                  'C%d[%s] neither lies on nor depends on a cycle: expected %r, holds %r' % (i, r, value[i], cell),
                  {'col': i, 'row': r, 'cell': cell, 'expected': value[i]})
  return None


def classify_error(err):
  s = str(err)
  if 'not making progress' in s:
    return 'not-making-progress'
  return type(err).__name__


# ---------------------------------------------------------------------------
# engines

def permuted_factory(seed, stats):
  """Engine whose work-item batches are ordered by a permutation keyed by (seed, node); #lookup nodes stay
  first (the engine's own rule; the list is consumed from the end)."""
  def factory():
    eng = _engine.Engine()
    def make(nodes):
      nodes = list(nodes)
      lk = sorted(x for x in nodes if x.col_id.startswith('#lookup'))
      ot = sorted(x for x in nodes if not x.col_id.startswith('#lookup'))
      if len(ot) >= 2:
        stats['multi'] += 1
      if seed == 0:
        ot.reverse(); lk.reverse()
      else:
        key = lambda x: hashlib.md5(('%d|%s|%s' % (seed, x.table_id, x.col_id)).encode('utf8')).hexdigest()
        ot.sort(key=key); lk.sort(key=key)
      return [_engine.WorkItem(x, None, []) for x in (ot + lk)]
    eng._make_sorted_work_items = make
    return eng
  return factory


def make_docs(perms, stats):
  docs = [('stock-order', None, Doc())]
  for p in perms:
    docs.append(('permuted(%d)' % p, p, Doc(make_engine=permuted_factory(p, stats))))
  return docs


def deep_checks(out, doc, factory, table_id, masks, nrows, where):
  """Calculate, then a fresh engine loaded from metadata + data columns only."""
  r = doc.calculate()
  if not r.ok:
    out.fail('C18:calculate-raised:' + classify_error(r.error), '%s: Calculate raised %r' % (where, r.error),
             {'masks': masks})
    return False
  bad = judge(doc, table_id, masks, nrows)
  if bad:
    out.fail('C18:after-calculate:' + bad[0], '%s, after Calculate: %s' % (where, bad[1]), dict(bad[2] or {}, masks=masks))
    return False
  from .. import fresh
  try:
    d2, calc = fresh.fresh_load(doc, formulas=False, make_engine=factory)
  except Exception as e:
    out.fail('C18:reload-raised:' + classify_error(e), '%s: loading a fresh engine raised %r' % (where, e), {'masks': masks})
    return False
  if not calc.ok:
    out.fail('C18:reload-raised:' + classify_error(calc.error), '%s: Calculate in a fresh engine raised %r' % (
      where, calc.error), {'masks': masks})
    return False
  bad = judge(d2, table_id, masks, nrows)
  if bad:
    out.fail('C18:after-reload:' + bad[0], '%s, in a freshly loaded engine: %s' % (where, bad[1]),
             dict(bad[2] or {}, masks=masks))
    return False
  return True


# ---------------------------------------------------------------------------
# case normalisation (must tolerate shrunk cases)

def _int(x, default=0):
  try:
    return abs(int(x))
  except (TypeError, ValueError):
    return default


def norm_masks(g, n):
  g = list(g) if isinstance(g, list) else []
  g = [_int(m) % (1 << n) for m in g[:n]]
  return g + [0] * (n - len(g))


def norm_common(case):
  n = max(1, min(MAXN, _int(case.get('n', 1)) or 1))
  rows = 1 + (_int(case.get('rows', 1)) - 1) % 3 if _int(case.get('rows', 1)) >= 1 else 1
  typ = TYPES[_int(case.get('type', 0)) % len(TYPES)]
  perms = [_int(p) % 1000003 for p in (case.get('perms') or [])][:4] if isinstance(case.get('perms'), list) else []
  return n, rows, typ, perms


# ---------------------------------------------------------------------------
# kind "once"

def run_once(case):
  out = Outcome()
  n, rows, typ, perms = norm_common(case)
  graphs = [norm_masks(g, n) for g in (case.get('graphs') or []) if isinstance(g, list)]
  if not graphs:
    out['skipped'] = True
    return out
  deep = bool(case.get('deep'))
  stats = {'multi': 0}
  docs = make_docs(perms, stats)
  concrete = []
  nt = 0
  done = 0
  for k, masks in enumerate(graphs):
    tid = 'Cyc%d' % k
    uas = [['AddTable', tid, [{'id': 'C%d' % i, 'type': typ, 'isFormula': True, 'formula': formula(masks[i], n)}
                              for i in range(n)]],
           ['BulkAddRecord', tid, [None] * rows, {}]]
    concrete.append(uas)
    for name, p, doc in docs:
      where = 'graph %r built at once (%s, %d rows)' % ([formula(m, n) for m in masks], name, rows)
      r = doc.apply(uas)
      if not r.ok:
        out.fail('C18:apply-raised:' + classify_error(r.error), '%s: apply_user_actions raised %r' % (where, r.error),
                 {'masks': masks, 'uas': uas})
        break
      bad = judge(doc, tid, masks, rows)
      if bad:
        out.fail('C18:' + bad[0], '%s: %s' % (where, bad[1]), dict(bad[2] or {}, masks=masks, engine=name))
        break
      if deep and not deep_checks(out, doc, permuted_factory(p, stats) if p is not None else None, tid, masks, rows, where):
        break
      r = doc.apply([['RemoveTable', tid]])
      if not r.ok:
        out.fail('C18:remove-raised:' + classify_error(r.error), '%s: RemoveTable raised %r' % (where, r.error),
                 {'masks': masks})
        break
    if not out['ok']:
      break
    done += 1
    if nontrivial(masks):
      nt += 1
    out.cls(*shape_labels(masks))
  out.cls('kind:once', 'rows=%d' % rows, 'type=%s' % typ)
  if perms:
    out.cls('permuted-order')
  if stats['multi']:
    out.cls('permutation-reordered>=2-nodes')
  if deep:
    out.cls('calculate+fresh-reload')
  out['weight'] = max(1, done)
  out['nontrivial'] = nt > 0
  out['nt_weight'] = nt
  out['concrete'] = concrete if len(concrete) <= 4 else concrete[:4] + ['... %d more graphs' % (len(concrete) - 4)]
  return out


# ---------------------------------------------------------------------------
# kind "walk"

def run_walk(case):
  out = Outcome()
  n, rows, typ, perms = norm_common(case)
  steps = []
  for s in (case.get('steps') or []):
    if isinstance(s, list) and len(s) >= 2:
      steps.append((_int(s[0]) % n, _int(s[1]) % (1 << n)))
  if not steps:
    out['skipped'] = True
    return out
  deep_every = _int(case.get('deep_every', 0))
  stats = {'multi': 0}
  docs = make_docs(perms, stats)
  tid = 'Cyc'
  setup = [['AddTable', tid, [{'id': 'C%d' % i, 'type': typ, 'isFormula': True, 'formula': '1'} for i in range(n)]],
           ['BulkAddRecord', tid, [None] * rows, {}]]
  concrete = [setup]
  masks = [0] * n
  for name, p, doc in docs:
    r = doc.apply(setup)
    if not r.ok:
      out.fail('C18:apply-raised:' + classify_error(r.error), 'creating the table raised %r' % (r.error,))
      return out
  nt_keys = set()
  done = 0
  for k, (c, m) in enumerate(steps):
    prev = list(masks)
    masks[c] = m
    uas = [['ModifyColumn', tid, 'C%d' % c, {'formula': formula(m, n)}]]
    if len(concrete) < 40:
      concrete.append(uas)
    for name, p, doc in docs:
      where = 'edit %d: C%d = %r turning graph %r into %r (%s, %d rows)' % (
        k, c, formula(m, n), [formula(x, n) for x in prev], [formula(x, n) for x in masks], name, rows)
      r = doc.apply(uas)
      if not r.ok:
        out.fail('C18:apply-raised:' + classify_error(r.error), '%s: apply_user_actions raised %r' % (where, r.error),
                 {'before': prev, 'masks': list(masks)})
        break
      bad = judge(doc, tid, masks, rows)
      if bad:
        out.fail('C18:' + bad[0], '%s: %s' % (where, bad[1]), dict(bad[2] or {}, before=prev, masks=list(masks), engine=name))
        break
      if deep_every and (k + 1) % deep_every == 0:
        if not deep_checks(out, doc, permuted_factory(p, stats) if p is not None else None, tid, list(masks), rows, where):
          break
    if not out['ok']:
      break
    done += 1
    if nontrivial(masks):
      nt_keys.add(tuple(masks))
    if k < 64 or k % 16 == 0:
      out.cls(*shape_labels(masks))
    pon = analyse(prev)[0]
    non = analyse(masks)[0]
    if any(pon) and not any(non):
      out.cls('edit-breaks-all-cycles')
    if any(pon[i] and not non[i] for i in range(n)) and any(non):
      out.cls('edit-moves-column-off-cycle')
    if any(non[i] and not pon[i] for i in range(n)):
      out.cls('edit-closes-cycle')
  out.cls('kind:walk', 'rows=%d' % rows, 'type=%s' % typ)
  if perms:
    out.cls('permuted-order')
  if stats['multi']:
    out.cls('permutation-reordered>=2-nodes')
  if deep_every:
    out.cls('calculate+fresh-reload')
  out['weight'] = max(1, done)
  out['nontrivial'] = bool(nt_keys)
  out['nt_weight'] = len(nt_keys)
  out['concrete'] = concrete
  return out


def run_case(case):
  if not isinstance(case, dict):
    o = Outcome(); o['skipped'] = True
    return o
  if case.get('kind') == 'walk':
    return run_walk(case)
  return run_once(case)


# ---------------------------------------------------------------------------
# enumeration

def all_graphs(n):
  return itertools.product(range(1 << n), repeat=n)


def once_cases(n, chunk, deep, nperms):
  batch = []
  idx = 0
  for g in all_graphs(n):
    batch.append(list(g))
    if len(batch) == chunk:
      yield _once_case(n, batch, idx, deep, nperms)
      batch = []; idx += 1
  if batch:
    yield _once_case(n, batch, idx, deep, nperms)


def _once_case(n, batch, idx, deep, nperms):
  perms = [0, 1 + idx][:nperms] if idx % 2 == 0 else [1 + idx, 0][:nperms]
  return {'kind': 'once', 'n': n, 'rows': 1 + idx % 3, 'type': idx % 3, 'graphs': batch, 'perms': perms, 'deep': deep}


def walk_cases(n, col_orders, deep_every):
  """Segments that together visit every graph over n columns once per column order: the masks of the first n-2
  columns of the order are fixed per segment (installed first), the last two are enumerated (boustrophedon on
  the last one), so every step is a single ModifyColumn. Which of the two inner columns is innermost, and the
  installation order of the fixed ones, alternates between segments (coverage is unaffected)."""
  size = 1 << n
  idx = 0
  outer = max(0, n - 2)
  for order in col_orders:
    for fi, fixed in enumerate(itertools.product(range(size), repeat=outer)):
      steps = [[order[k], fixed[k]] for k in range(outer)]
      if (fi // 2) % 2:
        steps.reverse()
      inner = list(order[outer:])
      if fi % 2:
        inner.reverse()
      if len(inner) == 1:
        for m in range(size):
          steps.append([inner[0], m])
      else:
        flip = False
        for a in range(size):
          steps.append([inner[0], a])
          for b in (range(size - 1, -1, -1) if flip else range(size)):
            steps.append([inner[1], b])
          flip = not flip
      yield {'kind': 'walk', 'n': n, 'rows': 1 + idx % 3, 'type': (idx // 3) % 3, 'steps': steps,
             'perms': [0 if idx % 2 else 1 + idx], 'deep_every': deep_every}
      idx += 1


def enumerate_cases(tier):
  for n in (1, 2, 3):
    for c in once_cases(n, 8, True, 2):
      yield c
  for c in walk_cases(1, [(0,)], 1):
    yield c
  for c in walk_cases(2, [(0, 1), (1, 0)], 3):
    yield c
  for c in walk_cases(3, [(0, 1, 2), (1, 2, 0), (2, 0, 1)], 9):
    yield c
  if tier != 'quick':
    for c in once_cases(4, 64, False, 1):
      yield c
    for c in walk_cases(4, [(2, 0, 3, 1)], 0):
      yield c


# ---------------------------------------------------------------------------
# sampling n = 5..6

def _graph(n):
  sparse = st.lists(st.tuples(st.integers(0, n - 1), st.integers(0, n - 1)), min_size=0, max_size=2 * n).map(
    lambda es: [sum(1 << j for j in set(b for a, b in es if a == i)) for i in range(n)])
  dense = st.lists(st.integers(0, (1 << n) - 1), min_size=n, max_size=n)
  return st.one_of(sparse, sparse, sparse, dense)


def strategy(tier):
  def for_n(n):
    once = st.fixed_dictionaries({
      'kind': st.just('once'), 'n': st.just(n), 'rows': st.integers(1, 3), 'type': st.integers(0, 2),
      'graphs': st.lists(_graph(n), min_size=1, max_size=3),
      'perms': st.lists(st.integers(0, 10 ** 6), min_size=1, max_size=2), 'deep': st.just(True)})
    def walk_steps(t):
      g, order, edits = t
      steps = []
      seen = []
      for c in order:
        if c not in seen:
          seen.append(c)
      for c in range(n):
        if c not in seen:
          seen.append(c)
      for c in seen:
        steps.append([c, g[c]])
      return steps + [list(e) for e in edits]
    steps = st.tuples(_graph(n), st.lists(st.integers(0, n - 1), max_size=n),
                      st.lists(st.tuples(st.integers(0, n - 1), st.one_of(
                        st.integers(0, (1 << n) - 1), st.sampled_from([0] + [1 << j for j in range(n)]))),
                        max_size=8)).map(walk_steps)
    walk = st.fixed_dictionaries({
      'kind': st.just('walk'), 'n': st.just(n), 'rows': st.integers(1, 3), 'type': st.integers(0, 2),
      'steps': steps, 'perms': st.lists(st.integers(0, 10 ** 6), min_size=1, max_size=2),
      'deep_every': st.integers(0, 4)})
    return st.one_of(once, walk)
  return st.one_of(for_n(5), for_n(6))
