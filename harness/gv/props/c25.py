"""C25 Migrations are total and reach the current schema.

A case is an abstract description of a document (start version v, user tables with columns and rows,
views, sections, fields, filters, pages, ACL rows, comment cells, triggers, ...). `build_doc` turns it
into concrete metadata rows *for the metadata schema as it was at version v* (obtained by replaying
migrations 1..v on the version-0 schema over an empty document - input construction only), shaped as
DocStorage delivers them (marshalled column dict -> main.table_data_from_db; Bool as 0/1; RefList as
JSON text or NULL). The oracle then follows the real flow of ActiveDoc._migrate: create_migrations with
metadata only, retried with all tables when the engine asks for them, action reprs through
get_action_repr, and the actions applied with TableDataSet to the version-v document.
"""
import copy, json, marshal, math, re, sys, traceback

from hypothesis import strategies as st

from ..runner import Outcome
from ..eqv import digest
from .. import env
env.setup()
import actions          # noqa: E402
import migrations       # noqa: E402
import schema           # noqa: E402
import table_data_set   # noqa: E402
import main as grist_main  # noqa: E402  (table_data_from_db: the real entry point for DB data)

ID = 'C25'
LEVEL = 'exploration'
TECHNIQUE = 'property-based testing (Hypothesis) with a validity oracle over generated old-version documents'
DATA_MIGRATIONS = [1, 2, 3, 4, 7, 10, 15, 16, 17, 20, 25, 26, 28, 29, 30, 31, 34, 35, 39, 40, 45]
DESIGN_MIGRATIONS = [7, 10, 15, 16, 20, 25, 26, 29, 30, 31, 34, 35, 40, 45]
RULE = ('case = start version v in 0..SCHEMA_VERSION + abstract document (<=4 user tables incl. old/new style '
        'summary tables, <=5 columns, <=3 rows, views, sections with fields, filters, pages, tab bar, table views, '
        'ACL resources/rules, comment cells, triggers, attachments, shares, deprecated tables); selectors are resolved '
        'modulo what exists so every Ref/RefList cell resolves; client-written Text cells are drawn from {empty, '
        'arbitrary text, arbitrary JSON of any shape, edge literals, field-typical JSON with overrides}; '
        'engine-written cells (aclFormulaParsed) only in the engine shape. Enumerated part: for every v an empty '
        'document and a fixed rich document. Non-trivial = at least one data-dependent migration of '
        '%r newer than v had rows to work on (precondition evaluated on the built document; label mN-data); '
        'distinct by hash of the concrete document.' % (DESIGN_MIGRATIONS,))
ORACLE = ('validity predicate: (1) main.table_data_from_db + migrations.create_migrations (metadata only first, all '
          'tables when "need all tables" is raised, as ActiveDoc._migrate does) + actions.get_action_repr raise '
          'nothing; (2) the action reprs applied with table_data_set.TableDataSet to the version-v document raise '
          'nothing; (3) the resulting schema of the _grist_* tables equals schema.schema_create_actions() (same '
          'tables, columns, column info); (4) _grist_DocInfo.schemaVersion == schema.SCHEMA_VERSION; (5) at v == '
          'current the only action is the schemaVersion update; (6) stored cells and row ids of ordinary (non-'
          'summary) user tables are unchanged, except Image columns before version 17 which must become lists '
          '([n] for a positive int n, else []).')
ASSUMPTIONS = [
  'metadata schema at version v == version-0 schema (historical snapshot copied from test_migrations.py) with '
  'migrations 1..v replayed on an empty document',
  'DocStorage delivers Bool cells as 0/1, RefList/ChoiceList metadata cells as JSON text or NULL, formula columns '
  'of user tables are not stored',
  'Ref/RefList metadata cells resolve (or are 0/NULL); tableId/colId are valid unique identifiers; every '
  '_grist_Tables record owns >= 1 column record (manualSort); old-style summary tables (v<7) are named '
  'Summary_<Src>_<colRefs> with resolving colRefs',
  'aclFormulaParsed is written by the engine only ("" or a JSON parse tree list)',
  'start versions above SCHEMA_VERSION (downgrade) are out of scope of the statement',
]
BUDGET = {'quick': dict(examples=2400, shards=8, max_seconds=50),
          'thorough': dict(examples=48000, shards=16, max_seconds=1800)}
MIN_NONTRIVIAL = 20
SHRINK_BUDGET = {'quick': 250, 'thorough': 800}

# ---------------------------------------------------------------------------
# Version-0 metadata schema: historical snapshot (copied from test_migrations.schema_version0; "should not
# be edited"). (table, [(colId, type[, isFormula, formula])])

V0 = [
  ('_grist_DocInfo', [('docId', 'Text'), ('peers', 'Text'), ('schemaVersion', 'Int')]),
  ('_grist_Tables', [('tableId', 'Text')]),
  ('_grist_Tables_column', [('parentId', 'Ref:_grist_Tables'), ('parentPos', 'PositionNumber'), ('colId', 'Text'),
                            ('type', 'Text'), ('widgetOptions', 'Text'), ('isFormula', 'Bool'), ('formula', 'Text'),
                            ('label', 'Text')]),
  ('_grist_Imports', [('tableRef', 'Ref:_grist_Tables'), ('origFileName', 'Text'),
                      ('parseFormula', 'Text', True, 'grist.parseImport(rec, table._engine)'),
                      ('delimiter', 'Text', False, "','"), ('doublequote', 'Bool', False, 'True'),
                      ('escapechar', 'Text'), ('quotechar', 'Text', False, "'\"'"), ('skipinitialspace', 'Bool'),
                      ('encoding', 'Text', False, "'utf8'"), ('hasHeaders', 'Bool')]),
  ('_grist_External_database', [('host', 'Text'), ('port', 'Int'), ('username', 'Text'), ('dialect', 'Text'),
                                ('database', 'Text'), ('storage', 'Text')]),
  ('_grist_External_table', [('tableRef', 'Ref:_grist_Tables'), ('databaseRef', 'Ref:_grist_External_database'),
                             ('tableName', 'Text')]),
  ('_grist_TabItems', [('tableRef', 'Ref:_grist_Tables'), ('viewRef', 'Ref:_grist_Views')]),
  ('_grist_Views', [('name', 'Text'), ('type', 'Text'), ('layoutSpec', 'Text')]),
  ('_grist_Views_section', [('tableRef', 'Ref:_grist_Tables'), ('parentId', 'Ref:_grist_Views'),
                            ('parentKey', 'Text'), ('title', 'Text'), ('defaultWidth', 'Int', False, '100'),
                            ('borderWidth', 'Int', False, '1'), ('theme', 'Text'), ('chartType', 'Text'),
                            ('layoutSpec', 'Text'), ('filterSpec', 'Text'), ('sortColRefs', 'Text'),
                            ('linkSrcSectionRef', 'Ref:_grist_Views_section'),
                            ('linkSrcColRef', 'Ref:_grist_Tables_column'),
                            ('linkTargetColRef', 'Ref:_grist_Tables_column')]),
  ('_grist_Views_section_field', [('parentId', 'Ref:_grist_Views_section'), ('parentPos', 'PositionNumber'),
                                  ('colRef', 'Ref:_grist_Tables_column'), ('width', 'Int'),
                                  ('widgetOptions', 'Text')]),
  ('_grist_Validations', [('formula', 'Text'), ('name', 'Text'), ('tableRef', 'Int')]),
  ('_grist_REPL_Hist', [('code', 'Text'), ('outputText', 'Text'), ('errorText', 'Text')]),
  ('_grist_Attachments', [('fileIdent', 'Text'), ('fileName', 'Text'), ('fileType', 'Text'), ('fileSize', 'Int'),
                          ('timeUploaded', 'DateTime')]),
]


def _v0_actions():
  acts = []
  for table, cols in V0:
    infos = []
    for c in cols:
      infos.append({'id': c[0], 'type': c[1], 'isFormula': c[2] if len(c) > 2 else False,
                    'formula': c[3] if len(c) > 3 else ''})
    acts.append(actions.AddTable(table, infos))
  acts.append(actions.AddRecord('_grist_DocInfo', 1, {}))
  return acts


class Replay(object):
  def __init__(self):
    self.schemas = []      # schemas[v] = {table: {col: info}}
    self.error = None      # (k, traceback text) if migration k raised on the empty document


_replay = None


def replay():
  """Metadata schema at every version, by replaying migrations on an empty version-0 document."""
  global _replay
  if _replay is not None:
    return _replay
  r = Replay()
  tdset = table_data_set.TableDataSet()
  tdset.apply_doc_actions(_v0_actions())
  r.schemas.append(copy.deepcopy(tdset.get_schema()))
  for k in range(1, schema.SCHEMA_VERSION + 1):
    try:
      migrations.all_migrations.get(k, migrations.noop_migration)(tdset)
    except Exception:
      r.error = (k, traceback.format_exc())
      break
    r.schemas.append(copy.deepcopy(tdset.get_schema()))
  _replay = r
  return r


# ---------------------------------------------------------------------------
# Tolerant accessors (cases may be shrunk arbitrarily)

def I(x, default=0):
  if isinstance(x, bool):
    return int(x)
  if isinstance(x, int):
    return abs(x)
  if isinstance(x, float) and x == x and abs(x) < 1e9:
    return abs(int(x))
  return default


def L(x):
  return x if isinstance(x, list) else []


def D(x):
  return x if isinstance(x, dict) else {}


def pick(seq, sel):
  return seq[I(sel) % len(seq)] if seq else None


NOJSON = object()


def parsed(s):
  if not isinstance(s, str):
    return NOJSON
  try:
    return json.loads(s)
  except ValueError:
    return NOJSON


def jtext(obj):
  return json.dumps(obj, separators=(',', ':'))   # compact, as JS JSON.stringify writes it


BASE = 60
FIELDS = {
  'table': ['name', 'kind', 'nrows', 'src', 'style', 'pv', 'raw', 'card', 'ondemand', 'idgap', 'gb0', 'gb1', 'gb2', 'ngb'],
  'col': ['id', 'type', 'ref', 'isf', 'formula', 'rk', 'display', 'visible', 'reverse', 'recalc', 'untie',
          'r0', 'r1', 'nr', 'd0', 'd1', 'nd'],
  'view': ['type'],
  'section': ['table', 'view', 'key', 'link', 'chart'],
  'field': ['col', 'visible', 'rk', 'width'],
  'filter': ['sec', 'col', 'pinned'],
  'page': ['view', 'indent'],
  'tabbar': ['view'],
  'tableview': ['table', 'view'],
  'aclres': ['table', 'cols'],
  'aclrule': ['res', 'parsed', 'perm', 'ptext'],
  'cell': ['table', 'col', 'row', 'parent', 'resolved'],
  'trigger': ['table', 'events', 'ready', 'enabled', 'watch'],
  'attachment': ['n'],
  'share': ['n'],
  'extra': ['t'],
  'docinfo': ['tz'],
}
DERIVED = {'table': [('gb', ['gb0', 'gb1', 'gb2'], 'ngb')],
           'col': [('rules', ['r0', 'r1'], 'nr'), ('deps', ['d0', 'd1'], 'nd')]}


def digits(n, count=4):
  """A packed selector integer -> list of base-60 digits (a list of ints is accepted as is)."""
  if isinstance(n, list):
    return [I(x) for x in n]
  n = I(n)
  return [(n // BASE ** i) % BASE for i in range(count)]


def unpack(spec, kind):
  """Record spec -> dict with every selector field present. Selectors come packed in spec['n'] (one integer,
  base-60 digits in FIELDS order) unless given explicitly by name."""
  spec = dict(D(spec))
  n = I(spec.get('n'))
  for i, f in enumerate(FIELDS[kind]):
    if f not in spec:
      spec[f] = (n // BASE ** i) % BASE
  for name, parts, count in DERIVED.get(kind, []):
    if name not in spec:
      spec[name] = [spec[x] for x in parts][:I(spec[count]) % (len(parts) + 1)]
  return spec


TABLE_NAMES = ['Table1', 'Table2', 'People', 'Orders', 'A', 'Data_2', 'Proj', 'X9']
COL_NAMES = ['A', 'B', 'C', 'Name', 'Total', 'ref1', 'x_1', 'Date2', 'group', 'count']
COL_TYPES = ['Text', 'Int', 'Numeric', 'Bool', 'Date', 'DateTime:UTC', 'Choice', 'ChoiceList', 'Ref', 'Ref', 'Ref',
             'RefList', 'Attachments', 'Any', 'Image', 'Derived']
SECTION_KEYS = ['record', 'record', 'detail', 'single', 'chart', 'custom', '']
ACL_PARSED = ['', '', '["Const",true]', '["Comment",["Const",true],"memo text"]',
              '["Eq",["Attr",["Name","user"],"Access"],["Const","owners"]]', '["Comment",["Name","rec"],""]',
              '["Comment",["Not",["Attr",["Name","rec"],"A"]],"a, b; \\u00e9"]']
DEPRECATED_TABLES = ['_grist_Imports', '_grist_External_database', '_grist_External_table', '_grist_Validations',
                     '_grist_REPL_Hist', '_grist_ACLMemberships', '_grist_ACLPrincipals']


def typical(kind, a, ctx):
  """Field-typical JSON value of the given kind. `a` = list of ints, ctx = names/ids available."""
  a = (a + [0, 0, 0, 0])[:4]
  if kind == 'wopt':
    o = {'widget': ['TextBox', 'Reference', 'Spinner'][a[1] % 3], 'alignment': 'left'}
    tcols = ctx.get('target_cols') or []
    if a[2] % 4 != 3:
      o['visibleCol'] = (tcols[a[0] % len(tcols)] if tcols and a[2] % 4 != 2 else ['id', 'Nope', ''][a[0] % 3])
    if a[3] % 3 == 1:
      o['rulesOptions'] = [{'fillColor': '#FF0000'}]
    if a[3] % 3 == 2:
      o['choices'] = ['a', 'b']
    return o
  if kind == 'fspec':
    refs = ctx.get('field_colrefs') or []
    o = {}
    for i, r in enumerate(refs):
      if (a[0] >> i) & 1 == 0:
        o[str(r)] = [['a', 1], [], [None]][(a[1] + i) % 3]
    if a[2] % 3 == 0:
      o[str(900 + a[3])] = ['zz']
    return o
  if kind == 'opts':
    o = {'verticalGridlines': True}
    if a[0] % 3:
      o['filterBar'] = bool(a[0] % 3 == 1)
    return o
  if kind == 'content':
    o = {'text': 'hello', 'userName': 'Ann'}
    if a[1] % 4 != 3:
      o['timeCreated'] = 1700000000000 + a[0] * 1000 + a[1]
    if a[1] % 4 in (1, 2):
      o['timeUpdated'] = 1700000360000 + a[0]
    if a[2] % 3:
      o['resolved'] = bool(a[2] % 3 == 1)
    if a[3] % 3 == 1:
      o['timeCreated'] = float(o.get('timeCreated', 5)) + 0.5
    return o
  if kind == 'filter':
    return {['included', 'excluded'][a[0] % 2]: [['x', 2], [], [None, '']][a[1] % 3]}
  if kind == 'layout':
    return {'children': [{'leaf': 1 + a[0] % 5}, {'children': [{'leaf': 1 + a[1] % 5}]}], 'collapsed': []}
  if kind == 'sort':
    return [1 + a[0] % 5, -(1 + a[1] % 5)][:1 + a[2] % 2]
  if kind == 'settings':
    return {'locale': 'en-US', 'currency': 'USD'}
  if kind == 'actions':
    return [{'type': 'webhook', 'id': 'f3b1-%d' % a[0]}]
  if kind == 'share':
    return {'publish': bool(a[0] % 2)}
  return {}


class Builder(object):
  """Turns an abstract case into concrete version-v tables."""

  def __init__(self, case, v, sch, neutral):
    self.case = D(case)
    self.v = v
    self.S = sch
    self.neutral = neutral
    self.rows = {t: [] for t in sch}     # table -> list of row dicts (with 'id')
    self.user = {}                        # tableId -> {'cols': [info], 'ids': [...], 'data': {col: [...]}}
    self.tables = []                      # dicts describing user tables
    self.allcols = []                     # dicts describing all columns (with 'id', 'table')

  def has(self, table, col=None):
    return table in self.S and (col is None or col in self.S[table])

  def text(self, spec, ctx=None):
    if isinstance(spec, str):
      return spec
    if not isinstance(spec, dict):
      return ''
    obj = typical(str(spec.get('t')), digits(spec.get('a')), ctx or {})
    x = spec.get('x')
    if isinstance(x, dict) and isinstance(obj, dict):
      obj = dict(obj)
      obj.update(x)
    w = I(spec.get('w')) % 8
    if w == 6:
      obj = [obj]
    elif w == 7:
      obj = {'v': obj}
    return jtext(obj)

  def add(self, table, spec, explicit, ctx=None):
    """Append a row; returns its id (0 if the table does not exist at this version)."""
    if table not in self.S:
      return 0
    rows = self.rows[table]
    gap = I(D(self.case.get('gaps')).get(table)) % 4
    rid = (rows[-1]['id'] + 1) if rows else 1 + gap
    row = {'id': rid, '_tx': L(D(spec).get('tx')), '_ctx': ctx or {}}
    row.update(explicit)
    rows.append(row)
    return rid

  # -- user tables -----------------------------------------------------------------------------
  def build_tables(self):
    v = self.v
    specs = L(self.case.get('tables'))[:4]
    used = set()
    plain, summ = [], []
    for i, ts in enumerate(specs):
      ts = unpack(ts, 'table')
      (summ if I(ts.get('kind')) % 12 >= 8 and plain else plain).append(ts)
    col_id = [1 + I(D(self.case.get('gaps')).get('_grist_Tables_column')) % 4]
    tab_id = [1 + I(D(self.case.get('gaps')).get('_grist_Tables')) % 4]

    def uniq(name, used_set):
      base = name
      n = 2
      while name.upper() in used_set:
        name = '%s%d' % (base, n)
        n += 1
      used_set.add(name.upper())
      return name

    def new_col(t, col_name, ctype, isf, formula, spec, **extra):
      c = {'id': col_id[0], 'table': t, 'colId': col_name, 'type': ctype, 'isFormula': int(bool(isf)),
           'formula': formula, 'spec': D(spec), 'pos': float(len(t['cols']) + 1)}
      c.update(extra)
      col_id[0] += 1
      t['cols'].append(c)
      self.allcols.append(c)
      return c

    def new_table(name, spec, **extra):
      t = {'id': tab_id[0], 'tableId': name, 'cols': [], 'spec': D(spec), 'summary': False, 'src': None}
      t.update(extra)
      tab_id[0] += 1
      self.tables.append(t)
      return t

    def resolve_type(tsel, refsel, isf, n_tables_hint):
      ty = pick(COL_TYPES, tsel)
      if ty == 'Image' and v >= 17:
        ty = 'Attachments'
      if ty == 'Derived' and v >= 3:
        ty = 'Any'
      return ty

    for ts in plain:
      name = pick(TABLE_NAMES, ts.get('name'))
      if I(ts.get('kind')) % 12 == 7 and self.tables and v < 7 and 'm7' not in self.neutral:
        # a table whose *name* looks like an old-style summary table without group-by columns
        name = 'Summary_' + pick(self.tables, ts.get('src'))['tableId']
      t = new_table(uniq(name, used), ts)
      new_col(t, 'manualSort', 'ManualSortPos', False, '', {})
      cused = {'MANUALSORT', 'ID'}
      for cs in L(ts.get('cols'))[:5]:
        cs = unpack(cs, 'col')
        cname = uniq(pick(COL_NAMES, cs.get('id')), cused)
        ty = resolve_type(cs.get('type'), cs.get('ref'), cs.get('isf'), len(plain))
        isf = bool(I(cs.get('isf')) % 3 == 1) or ty in ('Any', 'Derived')
        formula = ''
        if isf or I(cs.get('isf')) % 3 == 2:
          formula = pick(['$id + 1', 'rec.id', '"x"', '', 'GristSummary_6_Table1.lookupOne(A=$id).count',
                          'len(GristSummary_6_Table1.all) + len(GristSummary_5_Table2.all)',
                          'Table1.lookupOrAddDerived($id, $manualSort)', 'Table1.lookupOrAddDerived(A=$id)',
                          'GristSummary_6_People.lookupRecords(A=1)'], cs.get('formula'))
        new_col(t, cname, ty, isf, formula, cs)
    # second pass: reference types need the final table list
    for c in self.allcols:
      if c['type'] in ('Ref', 'RefList'):
        target = pick(self.tables, c['spec'].get('ref'))
        c['type'] = '%s:%s' % (c['type'], target['tableId'])
        c['target'] = target
    # summary tables
    for ts in summ:
      src = pick([t for t in self.tables if not t['summary']], ts.get('src'))
      srccols = [c for c in src['cols'] if c['colId'] not in ('manualSort', 'group', 'count') and not c['isFormula']]
      gb = []
      for s in L(ts.get('gb'))[:3]:
        c = pick(srccols, s)
        if c is not None and c not in gb:
          gb.append(c)
      style = I(ts.get('style')) % 4
      if v < 7:
        if not gb and 'm7' in self.neutral:
          continue
        name = 'Summary_%s%s' % (src['tableId'], ''.join('_%d' % c['id'] for c in gb))
      elif v < 31 and style != 3:
        name = 'GristSummary_%d_%s' % (len(src['tableId']), src['tableId'])
      else:
        name = src['tableId'] + '_summary' + ''.join('_' + x for x in sorted(c['colId'] for c in gb))
      if v < 7 and name.upper() in used:
        continue     # a suffix would change the column refs encoded in an old-style name
      name = uniq(name, used)
      t = new_table(name, ts, summary=True, src=src)
      if v < 7 or style == 2:
        new_col(t, 'manualSort', 'ManualSortPos', False, '', {})
      for c in gb:
        new_col(t, c['colId'], c['type'], False, '', c['spec'], src_col=c, target=c.get('target'))
      if v < 7:
        gformula = '%s.lookupRecords(%s=$id)' % (src['tableId'], name) if style != 1 else '$id'
        new_col(t, 'group', 'Any', True, gformula, {})
        # helper column in the source table, named after the summary table
        args = ', '.join(('$%s' % c['colId']) if v < 3 else '%s=$%s' % (c['colId'], c['colId']) for c in gb)
        hform = '%s.lookupOrAddDerived(%s)' % (name, args)
        new_col(src, name, 'Derived' if v < 3 else 'Any', True, hform, {})
      else:
        new_col(t, 'group', 'RefList:' + src['tableId'], True, 'table.getSummarySourceGroup(rec)', {})
      new_col(t, 'count', 'Int', True, 'len($group)', unpack(pick(L(ts.get('cols')), 0), 'col'))

  def emit_tables(self):
    v = self.v
    for t in self.tables:
      ts = t['spec']
      self.add('_grist_Tables', ts, {
        'id': t['id'], 'tableId': t['tableId'],
        'summarySourceTable': t['src']['id'] if t['summary'] and v >= 7 else 0,
        'onDemand': I(ts.get('ondemand')) % 2,
        'primaryViewId': t.get('pv', 0), 'rawViewSectionRef': t.get('raw', 0),
        'recordCardViewSectionRef': t.get('card', 0)})
    for c in sorted(self.allcols, key=lambda c: c['id']):
      cs = c['spec']
      t = c['table']
      tcols = [x['colId'] for x in c['target']['cols']] if c.get('target') else []
      wopt = self.text(cs.get('wopt', ''), {'target_cols': tcols})
      same = [x for x in t['cols'] if x is not c]
      rules = None
      rk = I(cs.get('rk')) % 4
      if rk and L(cs.get('rules')):
        pool = same if rk == 1 else self.allcols
        ids = []
        for s in L(cs.get('rules'))[:3]:
          x = pick(pool, s)
          if x is not None and x['id'] not in ids:
            ids.append(x['id'])
        rules = jtext(ids) if ids else None
      deps = None
      if L(cs.get('deps')) and same:
        deps = jtext(sorted(set(pick(same, s)['id'] for s in L(cs.get('deps'))[:2])))
      disp = pick(same, cs.get('display'))['id'] if same and I(cs.get('display')) % 3 == 1 else 0
      vis = 0
      if c.get('target') and I(cs.get('visible')) % 2:
        vis = pick(c['target']['cols'], cs.get('visible'))['id']
      rev = 0
      if c.get('target') and I(cs.get('reverse')) % 5 == 1:
        back = [x for x in c['target']['cols'] if x.get('target') is t and x is not c]
        rev = back[0]['id'] if back else 0
      self.add('_grist_Tables_column', cs, {
        'parentId': t['id'], 'parentPos': c['pos'], 'colId': c['colId'], 'type': c['type'],
        'widgetOptions': wopt, 'isFormula': c['isFormula'], 'formula': c['formula'],
        'label': cs['label'] if isinstance(cs.get('label'), str) else c['colId'],
        'untieColIdFromLabel': I(cs.get('untie')) % 2,
        'summarySourceCol': c['src_col']['id'] if c.get('src_col') and v >= 7 else 0,
        'displayCol': disp, 'visibleCol': vis, 'rules': rules, 'reverseCol': rev,
        'recalcWhen': I(cs.get('recalc')) % 3, 'recalcDeps': deps,
        'description': cs['desc'] if isinstance(cs.get('desc'), str) else ''})

  # -- views, sections, fields -------------------------------------------------------------------
  def build_views(self):
    self.views = []
    for vs in L(self.case.get('views'))[:3]:
      vs = unpack(vs, 'view')
      name = vs['name'] if isinstance(vs.get('name'), str) else (
        pick(self.tables, vs.get('name'))['tableId'] if self.tables else 'View')
      rid = self.add('_grist_Views', vs, {'name': name, 'type': pick(['raw_data', 'empty', ''], vs.get('type')),
                                          'layoutSpec': self.text(vs.get('layout', ''))})
      self.views.append(rid)
    self.sections = []    # (id, table dict, view id, field colrefs)
    if not self.tables:
      return
    for ss in L(self.case.get('sections'))[:5]:
      ss = unpack(ss, 'section')
      t = pick(self.tables, ss.get('table'))
      view = pick(self.views, ss.get('view')) if self.views and I(ss.get('view')) % 5 != 4 else 0
      fcols = []
      for fs in L(ss.get('fields'))[:4]:
        fcols.append(pick(t['cols'], unpack(fs, 'field').get('col')))
      ctx = {'field_colrefs': [c['id'] for c in fcols]}
      link = self.sections[I(ss.get('link')) % len(self.sections)][0] if self.sections and I(ss.get('link')) % 3 == 1 else 0
      sid = self.add('_grist_Views_section', ss, {
        'tableRef': t['id'], 'parentId': view or 0, 'parentKey': pick(SECTION_KEYS, ss.get('key')),
        'title': ss['title'] if isinstance(ss.get('title'), str) else '',
        'defaultWidth': 100, 'borderWidth': 1, 'theme': '', 'chartType': pick(['', 'bar', 'pie'], ss.get('chart')),
        'layoutSpec': self.text(ss.get('layout', '')), 'filterSpec': self.text(ss.get('fs', ''), ctx),
        'sortColRefs': self.text(ss.get('sort', '')), 'options': self.text(ss.get('opt', '')),
        'linkSrcSectionRef': link, 'linkSrcColRef': 0, 'linkTargetColRef': 0, 'embedId': '',
        'rules': None, 'shareOptions': self.text(ss.get('share', '')),
        'description': ss['desc'] if isinstance(ss.get('desc'), str) else ''})
      self.sections.append((sid, t, view or 0, fcols))
      for i, fs in enumerate(L(ss.get('fields'))[:4]):
        fs = unpack(fs, 'field')
        c = fcols[i]
        tcols = [x['colId'] for x in c['target']['cols']] if c.get('target') else []
        vis = pick(c['target']['cols'], fs.get('visible'))['id'] if c.get('target') and I(fs.get('visible')) % 2 else 0
        rules = None
        if I(fs.get('rk')) % 3 == 1:
          rules = jtext([pick(t['cols'], fs.get('rk'))['id']])
        self.add('_grist_Views_section_field', fs, {
          'parentId': sid, 'parentPos': float(i + 1), 'colRef': c['id'], 'width': I(fs.get('width')) % 500,
          'widgetOptions': self.text(fs.get('wopt', ''), {'target_cols': tcols}),
          'displayCol': 0, 'visibleCol': vis, 'filter': self.text(fs.get('filter', '')), 'rules': rules})
    # table -> view / raw section / record card
    for t in self.tables:
      ts = t['spec']
      if self.views and I(ts.get('pv')) % 3 != 2:
        t['pv'] = pick(self.views, ts.get('pv'))
      mine = [s[0] for s in self.sections if s[1] is t]
      if mine and I(ts.get('raw')) % 4 != 3:
        t['raw'] = pick(mine, ts.get('raw'))
      if mine and I(ts.get('card')) % 2 and not t['summary']:
        t['card'] = pick(mine, ts.get('card'))

  # -- everything else ---------------------------------------------------------------------------
  def build_rest(self):
    case = self.case
    v = self.v
    for fs in L(case.get('filters'))[:4]:
      fs = unpack(fs, 'filter')
      if not self.sections:
        break
      sec = pick(self.sections, fs.get('sec'))
      self.add('_grist_Filters', fs, {'viewSectionRef': sec[0], 'colRef': pick(sec[1]['cols'], fs.get('col'))['id'],
                                      'filter': self.text(fs.get('filter', '')), 'pinned': I(fs.get('pinned')) % 2})
    for ps in L(case.get('pages'))[:4]:
      ps = unpack(ps, 'page')
      if self.views:
        n = len(self.rows.get('_grist_Pages', []))
        self.add('_grist_Pages', ps, {'viewRef': pick(self.views, ps.get('view')), 'indentation': I(ps.get('indent')) % 3,
                                      'pagePos': float(n + 1), 'shareRef': 0, 'options': self.text(ps.get('opt', ''))})
    for xs in L(case.get('tabbar'))[:3]:
      xs = unpack(xs, 'tabbar')
      if self.views:
        n = len(self.rows.get('_grist_TabBar', []))
        self.add('_grist_TabBar', xs, {'viewRef': pick(self.views, xs.get('view')), 'tabPos': float(n + 1)})
    for xs in L(case.get('tableviews'))[:3]:
      xs = unpack(xs, 'tableview')
      if self.views:
        tref = pick(self.tables, xs.get('table'))['id'] if self.tables and I(xs.get('table')) % 4 != 3 else 0
        for tab in ('_grist_TableViews', '_grist_TabItems'):
          self.add(tab, xs, {'tableRef': tref, 'viewRef': pick(self.views, xs.get('view'))})
    if self.has('_grist_ACLResources') and I(case.get('acl_defaults', 1)) % 4 != 3:
      # what migration 14 / InitNewDoc wrote
      res1 = self.add('_grist_ACLResources', {}, {'tableId': '', 'colIds': ''})
      self.add('_grist_ACLRules', {}, {'resource': res1, 'permissions': 63, 'principals': '[1]', 'aclFormula': '',
                                       'aclColumn': 0, 'aclFormulaParsed': '', 'permissionsText': '',
                                       'rulePos': None, 'userAttributes': '', 'memo': ''})
      for i, g in enumerate(['Owners', 'Admins', 'Editors', 'Viewers']):
        self.add('_grist_ACLPrincipals', {}, {'type': 'group', 'groupName': g, 'userEmail': '', 'userName': '',
                                              'instanceId': ''})
    res_ids = [r['id'] for r in self.rows.get('_grist_ACLResources', [])]
    for rs in L(case.get('aclres'))[:3]:
      rs = unpack(rs, 'aclres')
      t = pick(self.tables, rs.get('table')) if self.tables and I(rs.get('table')) % 4 != 3 else None
      cols = '*' if not t or I(rs.get('cols')) % 2 == 0 else ','.join(c['colId'] for c in t['cols'][1:3]) or '*'
      rid = self.add('_grist_ACLResources', rs, {'tableId': t['tableId'] if t else '*', 'colIds': cols})
      if rid:
        res_ids.append(rid)
    for rs in L(case.get('aclrules'))[:4]:
      rs = unpack(rs, 'aclrule')
      if not res_ids:
        break
      n = len(self.rows.get('_grist_ACLRules', []))
      self.add('_grist_ACLRules', rs, {
        'resource': pick(res_ids, rs.get('res')), 'permissions': I(rs.get('perm')) % 64, 'principals': '[1]',
        'aclFormula': rs['formula'] if isinstance(rs.get('formula'), str) else 'user.Access == "owners"  # memo',
        'aclColumn': 0, 'aclFormulaParsed': pick(ACL_PARSED, rs.get('parsed')),
        'permissionsText': pick(['all', 'none', '+R', '+CRUD-S', ''], rs.get('ptext')), 'rulePos': float(n + 1),
        'userAttributes': self.text(rs.get('attrs', '')), 'memo': rs['memo'] if isinstance(rs.get('memo'), str) else ''})
    cells = []
    for cs in L(case.get('cells'))[:4]:
      cs = unpack(cs, 'cell')
      if not self.tables:
        break
      t = pick(self.tables, cs.get('table'))
      parent = pick(cells, cs.get('parent')) if cells and I(cs.get('parent')) % 2 else 0
      rid = self.add('_grist_Cells', cs, {
        'tableRef': t['id'], 'colRef': pick(t['cols'], cs.get('col'))['id'], 'rowId': 1 + I(cs.get('row')) % 3,
        'root': 0 if parent else 1, 'parentId': parent or 0, 'type': 1,
        'content': self.text(cs.get('content', '')), 'userRef': cs['user'] if isinstance(cs.get('user'), str) else 'u1',
        'timeCreated': 1700000000 + I(cs.get('row')), 'timeUpdated': None if I(cs.get('row')) % 2 else 1700000100,
        'resolved': I(cs.get('resolved')) % 2})
      if rid:
        cells.append(rid)
    for gs in L(case.get('triggers'))[:3]:
      gs = unpack(gs, 'trigger')
      if not self.tables:
        break
      t = pick(self.tables, gs.get('table'))
      self.add('_grist_Triggers', gs, {
        'tableRef': t['id'], 'eventTypes': pick([None, '["add"]', '["add","update"]', '[]'], gs.get('events')),
        'isReadyColRef': pick(t['cols'], gs.get('ready'))['id'] if I(gs.get('ready')) % 2 else 0,
        'actions': self.text(gs.get('actions', '')), 'label': '', 'memo': gs['memo'] if isinstance(gs.get('memo'), str) else '',
        'enabled': I(gs.get('enabled')) % 2,
        'watchedColRefList': jtext([pick(t['cols'], gs.get('watch'))['id']]) if I(gs.get('watch')) % 2 else None,
        'options': self.text(gs.get('opt', '')), 'condition': ''})
    for xs in L(case.get('attachments'))[:3]:
      xs = unpack(xs, 'attachment')
      self.add('_grist_Attachments', xs, {
        'fileIdent': 'abc%d.png' % I(xs.get('n')), 'fileName': xs['name'] if isinstance(xs.get('name'), str) else 'a.png',
        'fileType': 'image/png', 'fileSize': I(xs.get('n')), 'fileExt': '.png', 'imageHeight': I(xs.get('n')) % 100,
        'imageWidth': 0, 'timeDeleted': None, 'timeUploaded': 1600000000.5})
    for xs in L(case.get('shares'))[:2]:
      xs = unpack(xs, 'share')
      self.add('_grist_Shares', xs, {'linkId': 'link%d' % I(xs.get('n')), 'options': self.text(xs.get('opt', '')),
                                     'label': '', 'description': ''})
    for xs in L(case.get('extra'))[:3]:
      xs = unpack(xs, 'extra')
      self.add(pick(DEPRECATED_TABLES, xs.get('t')), xs, {})
    ds = unpack(case.get('docinfo'), 'docinfo')
    self.add('_grist_DocInfo', ds, {'id': 1, 'schemaVersion': v, 'docId': ds['docId'] if isinstance(ds.get('docId'), str) else '',
                                    'peers': '', 'basketId': '', 'timezone': pick(['UTC', 'America/New_York', ''], ds.get('tz')),
                                    'documentSettings': self.text(ds.get('settings', {'t': 'settings'}))})

  # -- user data -----------------------------------------------------------------------------------
  def build_user_data(self):
    for t in self.tables:
      ts = t['spec']
      n = I(ts.get('nrows')) % 4
      ids = [1 + I(ts.get('idgap')) % 3 + i for i in range(n)]
      data = {}
      infos = []
      for c in t['cols']:
        infos.append({'id': c['colId'], 'type': c['type'], 'isFormula': bool(c['isFormula']), 'formula': c['formula']})
        if c['isFormula']:
          continue
        vals = L(c['spec'].get('vals'))
        col = []
        for i in range(n):
          col.append(self.cell(c, vals[i % len(vals)] if vals else None, i))
        data[c['colId']] = col
      self.user[t['tableId']] = {'cols': infos, 'ids': ids, 'data': data, 'table': t}

  def cell(self, c, raw, i):
    ty = c['type'].split(':')[0]
    if ty == 'ManualSortPos':
      return float(i + 1)
    if isinstance(raw, (list, dict)):
      raw = None
    if ty in ('RefList', 'ChoiceList', 'Attachments'):
      if raw is None:
        return None
      if isinstance(raw, str):
        return jtext([raw]) if ty == 'ChoiceList' else raw
      return jtext([1 + I(raw) % 3]) if ty != 'ChoiceList' else jtext(['a'])
    if ty == 'Image':
      if isinstance(raw, str) or raw is None:
        return raw
      return int(raw) if isinstance(raw, (int, bool)) else raw
    if ty == 'Bool' and isinstance(raw, (int, bool)):
      return I(raw) % 2
    if ty in ('Int', 'Ref') and isinstance(raw, (int, bool)):
      return int(raw) % 4 if ty == 'Ref' else int(raw)
    if ty == 'Text' and raw is None:
      return ''
    return raw

  # -- finish ----------------------------------------------------------------------------------------
  def finish(self):
    meta = {}
    for table in sorted(self.S):
      cols = self.S[table]
      rows = self.rows[table]
      out = {c: [] for c in cols}
      for n, row in enumerate(rows):
        tx = row['_tx']
        k = 0
        for c in sorted(cols):
          if c in row:
            val = row[c]
          else:
            ty = cols[c].get('type', 'Text').split(':')[0]
            if ty == 'Text':
              val = self.text(tx[k % len(tx)], row['_ctx']) if tx else ''
              k += 1
            elif ty in ('Int', 'Ref', 'Bool', 'Id'):
              val = 0
            elif ty == 'PositionNumber':
              val = float(n + 1)
            else:
              val = None
          out[c].append(val)
      meta[table] = {'ids': [r['id'] for r in rows], 'cols': out}
    return meta


def build_doc(case, v, sch, neutral=()):
  b = Builder(case, v, sch, set(neutral))
  b.build_tables()
  b.build_views()
  b.emit_tables()
  b.build_rest()
  b.build_user_data()
  meta = b.finish()
  doc = {'v': v, 'meta': meta, 'user': {t: {'cols': u['cols'], 'ids': u['ids'], 'data': u['data']}
                                          for t, u in b.user.items()}}
  doc['_tables'] = b.tables
  for n in neutral:
    if n in NEUTRALISE:
      NEUTRALISE[n][1](doc)
  return doc


# ---------------------------------------------------------------------------
# Known root causes: predicate on the document (is the offending shape present?) and a neutraliser.

def _col(doc, table, col):
  t = doc['meta'].get(table)
  return t['cols'].get(col) if t else None


def _bad_filterspec(s):
  p = parsed(s)
  return p is not NOJSON and bool(p) and not isinstance(p, dict)


def _sel15(doc):
  vals = _col(doc, '_grist_Views_section', 'filterSpec') or []
  return [('_grist_Views_section', 'filterSpec', i) for i, s in enumerate(vals) if _bad_filterspec(s)]


def _bad_wopt16(s):
  p = parsed(s)
  if p is NOJSON:
    return False
  if not isinstance(p, dict):
    return True
  return isinstance(p.get('visibleCol'), (list, dict))


def _sel16(doc):
  out = []
  tc = doc['meta'].get('_grist_Tables_column')
  if not tc:
    return out
  refcols = set()
  for i, ty in enumerate(tc['cols']['type']):
    if isinstance(ty, str) and ty.startswith('Ref:'):
      refcols.add(tc['ids'][i])
      if _bad_wopt16(tc['cols']['widgetOptions'][i]):
        out.append(('_grist_Tables_column', 'widgetOptions', i))
  f = doc['meta'].get('_grist_Views_section_field')
  if f:
    for i, ref in enumerate(f['cols']['colRef']):
      if ref in refcols and _bad_wopt16(f['cols']['widgetOptions'][i]):
        out.append(('_grist_Views_section_field', 'widgetOptions', i))
  return out


def _sel29(doc):
  out = []
  tc = doc['meta'].get('_grist_Tables_column')
  if not tc or 'rules' not in tc['cols']:
    return out
  for i, rules in enumerate(tc['cols']['rules']):
    w = tc['cols']['widgetOptions'][i]
    p = parsed(w)
    if rules and w and p is not NOJSON and not isinstance(p, dict):
      out.append(('_grist_Tables_column', 'widgetOptions', i))
  return out


def _sel34(doc):
  vals = _col(doc, '_grist_Views_section', 'options') or []
  out = []
  for i, s in enumerate(vals):
    p = parsed(s)
    if p is not NOJSON and not isinstance(p, dict):
      out.append(('_grist_Views_section', 'options', i))
  return out


def _finite_number(x):
  return isinstance(x, (int, float)) and not (isinstance(x, float) and (math.isnan(x) or math.isinf(x)))


def _sel45(doc):
  vals = _col(doc, '_grist_Cells', 'content') or []
  out = []
  for i, s in enumerate(vals):
    p = parsed(s)
    if isinstance(p, dict) and any(p.get(k) is not None and not _finite_number(p.get(k))
                                   for k in ('timeCreated', 'timeUpdated')):
      out.append(('_grist_Cells', 'content', i))
  return out


def _sel7(doc):
  if doc['v'] >= 7:
    return []
  names = _col(doc, '_grist_Tables', 'tableId') or []
  return [('_grist_Tables', 'tableId', i) for i, n in enumerate(names)
          if n.startswith('Summary_') and n[len('Summary_'):] in names]


def _blank(selector):
  def go(doc):
    for table, col, i in selector(doc):
      doc['meta'][table]['cols'][col][i] = ''
  return go


# neutraliser key -> (migration number, signature, selector, neutraliser applied after building (or None when
# the builder itself honours the key))
KNOWN = {
  'm15': (15, 'C25:m15-filterSpec-shape', _sel15),
  'm16': (16, 'C25:m16-widgetOptions-shape', _sel16),
  'm29': (29, 'C25:m29-widgetOptions-shape', _sel29),
  'm34': (34, 'C25:m34-options-shape', _sel34),
  'm45': (45, 'C25:m45-time-field-shape', _sel45),
  'm7': (7, 'C25:m7-summary-name-without-groupby', _sel7),
}
NEUTRALISE = {k: (KNOWN[k][0], _blank(KNOWN[k][2])) for k in ('m15', 'm16', 'm29', 'm34', 'm45')}


# ---------------------------------------------------------------------------
# Which data-dependent migrations have rows to work on (preconditions on the built document)

def data_labels(doc):
  v = doc['v']
  m = doc['meta']
  lab = set()

  def rows(t):
    return len(m[t]['ids']) if t in m else 0

  def col(t, c):
    return (m[t]['cols'].get(c) or []) if t in m else []
  types = col('_grist_Tables_column', 'type')
  formulas = col('_grist_Tables_column', 'formula')
  wopts = col('_grist_Tables_column', 'widgetOptions')
  names = col('_grist_Tables', 'tableId')
  nsec = rows('_grist_Views_section')
  if nsec:
    lab.update([1, 2])
  if any(t == 'Derived' for t in types) or any('lookupOrAddDerived(' in f for f in formulas):
    lab.add(3)
  if rows('_grist_TabBar'):
    lab.add(4)
  old_summary = [n for n in names if re.match(r'^Summary_(\w+?)((?:_\d+)+)$', n)]
  if v < 7 and old_summary:
    lab.update([7, 30, 31])
  for ty, w, d in zip(types, wopts, col('_grist_Tables_column', 'displayCol') or [0] * len(types)):
    p = parsed(w)
    if ty.startswith('Ref:') and isinstance(p, dict) and p.get('visibleCol'):
      if not d:
        lab.add(10)
      lab.add(16)
  fieldrefs = {}
  for sid, ref in zip(col('_grist_Views_section_field', 'parentId'), col('_grist_Views_section_field', 'colRef')):
    fieldrefs.setdefault(sid, []).append(str(ref))
  secids = m['_grist_Views_section']['ids'] if '_grist_Views_section' in m else []
  for sid, fs in zip(secids, col('_grist_Views_section', 'filterSpec')):
    p = parsed(fs)
    if isinstance(p, dict) and any(r in p for r in fieldrefs.get(sid, [])):
      lab.update([15, 25] if v < 15 else [])
  if any(t == 'Image' for t in types):
    lab.add(17)
  if rows('_grist_Views'):
    lab.add(20)
  if any(col('_grist_Views_section_field', 'filter')):
    lab.add(25)
  pvs = col('_grist_Tables', 'primaryViewId')
  if any(pvs) or (v < 2 and 'record' in col('_grist_Views_section', 'parentKey')):
    lab.add(26)
  if any(t == 'Attachments' for t in types):
    lab.add(28)
  colids = m['_grist_Tables_column']['ids'] if '_grist_Tables_column' in m else []
  parent = dict(zip(colids, col('_grist_Tables_column', 'parentId')))
  for cid, rules in zip(colids, col('_grist_Tables_column', 'rules')):
    p = parsed(rules) if rules else None
    if rules and not (isinstance(p, list) and all(parent.get(r) == parent[cid] for r in p)):
      lab.add(29)
  sst = col('_grist_Tables', 'summarySourceTable')
  if any(sst):
    lab.add(30)
    tid = dict(zip(m['_grist_Tables']['ids'], names))
    for n, s in zip(names, sst):
      if s and not n.startswith(tid.get(s, '?') + '_summary'):
        lab.add(31)
  if rows('_grist_Filters') or (v < 25 and 25 in lab):
    if nsec:
      lab.add(34)
  if any(isinstance(parsed(p), list) and parsed(p)[:1] == ['Comment'] for p in col('_grist_ACLRules', 'aclFormulaParsed')):
    lab.add(35)
  if rows('_grist_Triggers'):
    lab.add(39)
  raws = col('_grist_Tables', 'rawViewSectionRef')
  if any(r and not s for r, s in zip(raws, sst or [0] * len(raws))) or (v < 26 and 26 in lab) :
    lab.add(40)
  if rows('_grist_Cells'):
    lab.add(45)
  return sorted(k for k in lab if k > v)


# ---------------------------------------------------------------------------
# Running the migration flow

def to_db(table, ids, cols):
  """What DocStorage.fetchTable hands to the sandbox: a marshalled dict of columns (bytes keys)."""
  d = {b'id': list(ids)}
  for c, vals in cols.items():
    d[c.encode('utf8')] = list(vals)
  return grist_main.table_data_from_db(table, marshal.dumps(d))


def current_schema():
  return {a.table_id: {c['id']: c for c in a.columns} for a in schema.schema_create_actions()}


def migration_of(tb):
  """Outermost migrationN frame of a traceback -> N (or None)."""
  for fr in traceback.extract_tb(tb):
    mm = re.match(r'^migration(\d+)$', fr.name)
    if mm and fr.filename.endswith('migrations.py'):
      return int(mm.group(1))
  return None


def attempt(doc):
  """-> (action reprs, None) or (None, (exc, tb))"""
  meta_tables = {}
  try:
    for t, d in doc['meta'].items():
      meta_tables[t] = to_db(t, d['ids'], d['cols'])
    try:
      acts = migrations.create_migrations(meta_tables, True)
    except Exception as e:
      if 'need all tables' not in str(e):
        raise
      all_tables = dict(meta_tables)
      for t, u in doc['user'].items():
        all_tables[t] = to_db(t, u['ids'], u['data'])
      acts = migrations.create_migrations(all_tables)
    return [actions.get_action_repr(a) for a in acts], None
  except Exception as e:
    return None, (e, sys.exc_info()[2])


def fresh_tdset(doc, sch):
  tdset = table_data_set.TableDataSet()
  for t in sorted(sch):
    tdset.apply_doc_action(actions.AddTable(t, [dict(info) for info in sch[t].values()]))
  for t, u in sorted(doc['user'].items()):
    tdset.apply_doc_action(actions.AddTable(t, [dict(c) for c in u['cols']]))
  for t, d in sorted(doc['meta'].items()):
    tdset.apply_doc_action(actions.BulkAddRecord(t, list(d['ids']), copy.deepcopy(d['cols'])))
  for t, u in sorted(doc['user'].items()):
    tdset.apply_doc_action(actions.BulkAddRecord(t, list(u['ids']), copy.deepcopy(u['data'])))
  return tdset


def concrete_of(doc):
  return {'v': doc['v'],
          'meta': {t: d for t, d in doc['meta'].items() if d['ids']},
          'user': doc['user']}


def image_conv(val):
  return [val] if isinstance(val, int) and not isinstance(val, bool) and val > 0 else []


def check_result(out, doc, sch, reprs):
  v = doc['v']
  cur = schema.SCHEMA_VERSION
  if v == cur:
    exp = [['UpdateRecord', '_grist_DocInfo', 1, {'schemaVersion': cur}]]
    if reprs != exp:
      out.fail('C25:current-doc-rewritten', 'document already at version %d: expected only the schemaVersion '
               'update, got %d actions' % (cur, len(reprs)), {'actions': reprs[:6]})
  tdset = fresh_tdset(doc, sch)
  for r in reprs:
    try:
      tdset.apply_doc_action(actions.action_from_repr(r))
    except Exception as e:
      out.fail('C25:apply-raises:%s' % r[0], 'applying migration action %s on %s to the version-%d document '
               'raised %s: %s' % (r[0], r[1], v, type(e).__name__, e), {'action': r})
      return
  got = {t: s for t, s in tdset.get_schema().items() if t.startswith('_grist_')}
  exp = current_schema()
  if got != exp:
    diff = []
    for t in sorted(set(got) | set(exp)):
      if t not in got or t not in exp:
        diff.append([t, 'missing after migration' if t not in got else 'not in current schema'])
        continue
      for c in sorted(set(got[t]) | set(exp[t])):
        if got[t].get(c) != exp[t].get(c):
          diff.append([t, c, got[t].get(c), exp[t].get(c)])
    out.fail('C25:schema-differs', 'metadata schema after migrating from version %d differs from '
             'schema_create_actions(): %s' % (v, json.dumps(diff[:4], default=repr)), {'diff': diff[:20]})
  info = tdset.all_tables.get('_grist_DocInfo')
  ver = info.columns.get('schemaVersion', [None])[:1] if info else None
  if ver != [cur] or (info and info.row_ids != [1]):
    out.fail('C25:schema-version-not-current', 'schemaVersion after migration is %r, expected [%d]' % (ver, cur))
  # user tables: stored cells of ordinary tables untouched
  new_name = {t['tableId']: t['tableId'] for t in doc['_tables']}
  for r in reprs:
    if r[0] == 'RenameTable':
      for orig, now in list(new_name.items()):
        if now == r[1]:
          new_name[orig] = r[2]
  for t in doc['_tables']:
    if t['summary'] or (v < 7 and re.match(r'^Summary_(\w+?)((?:_\d+)*)$', t['tableId'])):
      continue
    u = doc['user'][t['tableId']]
    after = tdset.all_tables.get(new_name.get(t['tableId'], t['tableId']))
    if after is None:
      out.fail('C25:user-table-lost', 'ordinary user table %s no longer exists after migration' % t['tableId'])
      continue
    if new_name.get(t['tableId'], t['tableId']) != t['tableId']:
      out.fail('C25:user-table-renamed', 'ordinary user table %s renamed to %s' % (
        t['tableId'], new_name[t['tableId']]))
    if list(after.row_ids) != list(u['ids']):
      out.fail('C25:user-rows-changed', 'row ids of user table %s changed: %r -> %r' % (
        t['tableId'], u['ids'], list(after.row_ids)))
      continue
    types = {c['id']: c['type'] for c in u['cols']}
    for c, vals in sorted(u['data'].items()):
      got_vals = after.columns.get(c)
      exp_vals = [image_conv(x) for x in vals] if (types[c] == 'Image' and v < 17) else vals
      if got_vals is None or list(got_vals) != list(exp_vals):
        if got_vals is not None and all(_same_cell(a, b) for a, b in zip(got_vals, exp_vals)):
          continue
        out.fail('C25:user-cells-changed', 'cells of %s.%s (type %s) changed by migration from version %d: '
                 '%r -> %r' % (t['tableId'], c, types[c], v, vals, got_vals))


def _same_cell(a, b):
  if isinstance(a, float) and isinstance(b, float) and a != a and b != b:
    return True
  return type(a) == type(b) and a == b


def run_case(case):
  out = Outcome()
  case = D(case)
  cur = schema.SCHEMA_VERSION
  v = I(case.get('v')) % (cur + 1)
  rp = replay()
  if rp.error:
    k, tb = rp.error
    out.fail('C25:empty-document:m%d-raises' % k, 'migration %d raises on an empty document at version %d' % (k, k - 1),
             {'traceback': tb[-1500:]})
    if v >= k:
      return out
  sch = rp.schemas[v]
  neutral = []
  doc = build_doc(case, v, sch, neutral)
  labels = data_labels(doc)
  out['concrete'] = concrete_of(doc)
  out['key'] = digest(out['concrete'])
  out['nontrivial'] = any(k in DESIGN_MIGRATIONS for k in labels)
  out.cls('v=%02d-%02d' % (v // 8 * 8, min(v // 8 * 8 + 7, cur)), 'v=current' if v == cur else 'v<current')
  for k in labels:
    out.cls('m%d-data' % k)
  out.cls('tables=%d' % len(doc['_tables']))
  if any(t['summary'] for t in doc['_tables']):
    out.cls('summary-table-old-style' if v < 7 else 'summary-table')
  for key, (n, sig, sel) in sorted(KNOWN.items()):
    if n > v and sel(doc):
      out.cls('shape:%s' % sig.split(':')[1])
  reprs = None
  for _ in range(len(KNOWN) + 1):
    reprs, err = attempt(doc)
    if err is None:
      break
    e, tb = err
    n = migration_of(tb)
    key = None
    for kk, (kn, sig, sel) in sorted(KNOWN.items()):
      if kn == n and kk not in neutral and sel(doc):
        key = kk
    where = 'm%d' % n if n else 'create_migrations'
    if key is None:
      out.fail('C25:%s-raises:%s' % (where, type(e).__name__),
               'migrating from version %d: %s raised %s: %s' % (v, where, type(e).__name__, e),
               {'traceback': ''.join(traceback.format_tb(tb))[-1500:]})
      out.cls('raised-unlisted')
      return out
    offending = [[t, c, doc['meta'][t]['cols'][c][i]] for t, c, i in KNOWN[key][2](doc)][:3]
    out.fail(KNOWN[key][1], 'migrating from version %d: migration %d raised %s: %s' % (v, n, type(e).__name__, e),
             {'offending_cells': offending})
    out.cls('neutralised:%s' % key)
    neutral.append(key)
    doc = build_doc(case, v, sch, neutral)
  if reprs is None:
    return out
  out.cls('migrated-ok' if not neutral else 'migrated-after-neutralising')
  check_result(out, doc, sch, reprs)
  return out


# ---------------------------------------------------------------------------
# Generators

EDGE_TEXTS = ['null', '[]', '{}', '0', '5', '"s"', 'true', 'false', '1e999', '-1', '[1,2]', '{"a":1}', 'not json {', ' ',
              '[null]', '""', '[[]]', '{"visibleCol":"A"}', '{"visibleCol":["A"]}', '{"filterBar":true}', '"filterBar"',
              '{"timeCreated":"2024-01-01","text":"x"}', '{"timeCreated":null,"timeUpdated":1e999}',
              '{"timeCreated":true}', '{"rulesOptions":[]}', '﻿{}', '{"1":["a"],"2":[]}']


def json_shape(k, a, b):
  """JSON value of shape number k built around the leaves a and b: every JSON type at top level and nested."""
  key = b if isinstance(b, str) else 'k'
  shapes = [a, a, b, [a], [a, b], [], {}, {key: a}, {'k': a, 'j': b}, [[a]], {'a': {'b': a}}, [{'x': a}],
            {'1': [a, b]}, [None], [a, [b, {}]], {key: [a]}, None, True, False, 0, 1, -1, 0.5, '', 'id',
            {'visibleCol': a}, {'filterBar': a}, {'timeCreated': a}, {'timeUpdated': a, 'resolved': b},
            {'rulesOptions': a}, [a, None, b]]
  return shapes[I(k) % len(shapes)]


def leaves():
  return st.one_of(st.none(), st.booleans(), st.integers(-5, 2 ** 40),
                   st.floats(allow_nan=False, allow_infinity=False, width=32), st.text(max_size=6))


def json_values():
  return st.builds(json_shape, st.integers(0, 59), leaves(), leaves())


def packed(kind):
  return st.integers(0, BASE ** len(FIELDS[kind]) - 1)


OVERRIDE_KEYS = {'wopt': ['visibleCol', 'rulesOptions', 'widget', 'choices'],
                 'opts': ['filterBar', 'verticalGridlines', 'x'],
                 'content': ['timeCreated', 'timeUpdated', 'resolved', 'text'],
                 'fspec': ['1', '2', '3', '4', '5', '6'],
                 'filter': ['included', 'excluded']}


def text_st(kind):
  a = st.integers(0, BASE ** 4 - 1)
  typ = st.fixed_dictionaries({'t': st.just(kind), 'a': a})
  typ_wrapped = st.fixed_dictionaries({'t': st.just(kind), 'a': a, 'w': st.integers(0, 7)})
  typ_over = st.fixed_dictionaries({'t': st.just(kind), 'a': a,
                                    'x': st.dictionaries(st.sampled_from(OVERRIDE_KEYS.get(kind, ['a', 'b'])), json_values(), min_size=1,
                                                         max_size=2)})
  return st.one_of(st.just(''), st.text(max_size=12), json_values().map(jtext), st.sampled_from(EDGE_TEXTS),
                   typ, typ, typ_wrapped, typ_over)


def any_text():
  return st.one_of(st.just(''), st.text(max_size=8), json_values().map(jtext), st.sampled_from(EDGE_TEXTS))


def strategy(tier):
  tx = st.lists(any_text(), max_size=2)
  cell = st.one_of(st.none(), st.integers(-3, 9), st.floats(allow_nan=False, width=32), st.text(max_size=5))
  col = st.fixed_dictionaries({'n': packed('col'), 'wopt': text_st('wopt')},
                              optional={'label': st.text(max_size=6), 'vals': st.lists(cell, max_size=3), 'tx': tx})
  table = st.fixed_dictionaries({'n': packed('table'), 'cols': st.lists(col, max_size=4)})
  view = st.fixed_dictionaries({'name': st.one_of(st.integers(0, 40), st.text(max_size=6))},
                               optional={'layout': text_st('layout'), 'n': packed('view')})
  field = st.fixed_dictionaries({'n': packed('field')},
                                optional={'wopt': text_st('wopt'), 'filter': text_st('filter')})
  section = st.fixed_dictionaries({'n': packed('section'), 'fields': st.lists(field, max_size=3)},
                                  optional={'fs': text_st('fspec'), 'opt': text_st('opts'), 'layout': text_st('layout'),
                                            'sort': text_st('sort'), 'share': text_st('share'),
                                            'title': st.text(max_size=6), 'tx': tx})
  filt = st.fixed_dictionaries({'n': packed('filter'), 'filter': text_st('filter')})
  page = st.fixed_dictionaries({'n': packed('page')}, optional={'opt': any_text()})
  aclrule = st.fixed_dictionaries({'n': packed('aclrule')},
                                  optional={'formula': st.text(max_size=10), 'memo': st.text(max_size=6),
                                            'attrs': any_text()})
  cellmeta = st.fixed_dictionaries({'n': packed('cell'), 'content': text_st('content')},
                                   optional={'user': st.text(max_size=4)})
  trigger = st.fixed_dictionaries({'n': packed('trigger'), 'actions': text_st('actions')},
                                  optional={'opt': any_text(), 'memo': st.text(max_size=5)})
  just_n = lambda kind: st.fixed_dictionaries({'n': packed(kind)})
  cur = schema.SCHEMA_VERSION
  # every version three times; extra weight on the versions where the data-dependent migrations are still ahead
  # (0..16), on the narrow windows of migrations 29 (27..28) and 45 (33..44), and on the current version
  weighted = (list(range(cur + 1)) * 3 + [x for x in range(17) if x <= cur] * 2 +
              [x for x in (27, 28) if x <= cur] * 5 + [x for x in range(33, 45) if x <= cur] + [cur] * 8)
  version = st.sampled_from(weighted)
  return st.fixed_dictionaries({
    'v': version,
    'tables': st.one_of(st.lists(table, min_size=1, max_size=4), st.lists(table, min_size=2, max_size=4),
                        st.lists(table, max_size=1)),
    'views': st.lists(view, max_size=3),
    'sections': st.one_of(st.lists(section, min_size=1, max_size=4), st.lists(section, max_size=4)),
    'filters': st.lists(filt, max_size=3),
    'cells': st.lists(cellmeta, max_size=3),
    'aclrules': st.lists(aclrule, max_size=3),
    'triggers': st.lists(trigger, max_size=2),
    'tableviews': st.lists(just_n('tableview'), max_size=3),
  }, optional={
    'pages': st.lists(page, max_size=3),
    'tabbar': st.lists(just_n('tabbar'), max_size=2),
    'aclres': st.lists(just_n('aclres'), max_size=2),
    'acl_defaults': st.integers(0, 7),
    'attachments': st.lists(just_n('attachment'), max_size=2),
    'shares': st.lists(st.fixed_dictionaries({'n': packed('share'), 'opt': text_st('share')}), max_size=2),
    'extra': st.lists(st.fixed_dictionaries({'n': packed('extra'), 'tx': tx}), max_size=2),
    'docinfo': st.fixed_dictionaries({}, optional={'docId': st.text(max_size=6), 'n': packed('docinfo'),
                                                   'settings': text_st('settings')}),
    'gaps': st.dictionaries(st.sampled_from(['_grist_Tables', '_grist_Tables_column', '_grist_Views',
                                             '_grist_Views_section', '_grist_Views_section_field', '_grist_Filters',
                                             '_grist_Cells', '_grist_Pages']), st.integers(0, 3), max_size=2),
  })


def T(kind, *a, **kw):
  d = {'t': kind, 'a': list(a)}
  d.update(kw)
  return d


RICH = {
  'tables': [
    {'name': 0, 'kind': 0, 'nrows': 2, 'pv': 0, 'raw': 0, 'card': 1, 'cols': [
      {'id': 0, 'type': 0, 'ref': 0, 'isf': 0, 'formula': 0, 'wopt': T('wopt', 0, 0, 3, 1), 'vals': ['a', 'b']},
      {'id': 5, 'type': 8, 'ref': 1, 'isf': 0, 'formula': 0, 'wopt': T('wopt', 1, 1, 0, 0), 'vals': [1, 2],
       'rk': 2, 'rules': [7], 'visible': 1},
      {'id': 4, 'type': 14, 'ref': 0, 'isf': 0, 'formula': 0, 'wopt': '', 'vals': [3, 0]},
      {'id': 3, 'type': 13, 'ref': 0, 'isf': 1, 'formula': 4, 'wopt': ''}]},
    {'name': 2, 'kind': 0, 'nrows': 3, 'pv': 1, 'raw': 1, 'cols': [
      {'id': 3, 'type': 0, 'ref': 0, 'isf': 0, 'formula': 0, 'wopt': '', 'vals': ['x']},
      {'id': 1, 'type': 12, 'ref': 0, 'isf': 0, 'formula': 0, 'wopt': '', 'vals': [1, None]},
      {'id': 2, 'type': 15, 'ref': 0, 'isf': 1, 'formula': 6, 'wopt': ''}]},
    {'name': 0, 'kind': 8, 'src': 0, 'gb': [0, 1], 'style': 0, 'nrows': 1, 'raw': 0, 'cols': []},
  ],
  'views': [{'name': 0, 'layout': T('layout', 1, 2)}, {'name': 1}, {'name': 'Other'}],
  'sections': [
    {'table': 0, 'view': 0, 'key': 0, 'fs': T('fspec', 0, 0, 1, 0), 'opt': T('opts', 1), 'sort': T('sort', 1, 2, 1),
     'fields': [{'col': 1, 'filter': T('filter', 0, 0)}, {'col': 2, 'wopt': T('wopt', 1, 1, 0, 0)}]},
    {'table': 1, 'view': 1, 'key': 2, 'opt': T('opts', 2), 'fields': [{'col': 1}]},
    {'table': 0, 'view': 4, 'key': 0, 'fields': [{'col': 1}]},
  ],
  'filters': [{'sec': 0, 'col': 1, 'filter': T('filter', 1, 0), 'pinned': 1}],
  'pages': [{'view': 0, 'indent': 0}, {'view': 1, 'indent': 1}],
  'tabbar': [{'view': 0}, {'view': 1}],
  'tableviews': [{'table': 0, 'view': 1}, {'table': 3, 'view': 2}],
  'aclres': [{'table': 2, 'cols': 1}],
  'aclrules': [{'res': 1, 'parsed': 3, 'perm': 3, 'ptext': 2}, {'res': 0, 'parsed': 4, 'perm': 1, 'ptext': 0}],
  'cells': [{'table': 0, 'col': 1, 'row': 0, 'content': T('content', 1, 1, 1, 0)},
            {'table': 0, 'col': 1, 'row': 0, 'content': T('content', 2, 3, 0, 0), 'parent': 1}],
  'triggers': [{'table': 0, 'events': 1, 'ready': 0, 'actions': T('actions', 1), 'enabled': 1}],
  'attachments': [{'n': 3}],
  'shares': [{'n': 1, 'opt': T('share', 1)}],
  'extra': [{'t': 0, 'tx': ['x']}, {'t': 3, 'tx': []}],
}


def enumerate_cases(tier):
  for v in range(schema.SCHEMA_VERSION + 1):
    yield {'v': v}
    yield dict(RICH, v=v)
