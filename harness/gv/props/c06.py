"""C06 Formula results do not depend on evaluation order (differential between lock-step engines)."""
import json
from hypothesis import strategies as st
from ..runner import Outcome
from .. import ops as O, eqv
from ..doc import Doc
from ..hist import HistoryRun, bundle_sig, is_cycle_error_pair, formulas_by_col, formula_features, cycle_filter, col_kind, all_formulas
from .. import env
env.setup()
import engine as _engine   # noqa: E402

ID = 'C06'
LEVEL = 'exploration'
TECHNIQUE = 'property-based testing with schedule control (permuted work-item order), lock-step differential oracle'
RULE = ('case = history (formula profile, plus same-row cycle shapes) x P permutation seeds. P extra engines receive '
        'the same concrete user actions in lock step; each replaces Engine._make_sorted_work_items (per instance) by '
        'a function that keeps #lookup nodes first - the engine\'s own rule - and otherwise orders nodes by a '
        'generated permutation (incl. exact reverse). Non-trivial = some bundle had >=2 dirty non-lookup formula '
        'nodes in one call to the work-item builder (so the permutation changed the order); distinct by hash of '
        'concrete user actions + permutation seeds.')
ORACLE = ('after every bundle: both engines agree on success/failure, snapshots are equal, and the multiset of stored '
          'action reprs is equal (stored actions may differ in order only)')
ASSUMPTIONS = ['only the initial order of each work-item batch is permuted (that is what the property quantifies over)',
               'error-kind differences involving CircularRefError on cycles through lookups are not judged (C18 covers '
               'same-row cycles, where they are judged)']
BUDGET = {'quick': dict(examples=640, shards=16, max_seconds=75),
          'thorough': dict(examples=1800, shards=16, max_seconds=1800)}
SHRINK_BUDGET = {'quick': 40, 'thorough': 300}


def strategy(tier):
  P = 2 if tier == 'quick' else 4
  perms = st.lists(st.integers(0, 10**6), min_size=P, max_size=P)
  return st.one_of(st.fixed_dictionaries({'perms': perms, 'h': O.history('formula', 1, 10)}),
                   st.fixed_dictionaries({'perms': perms, 'h': O.history('rowchains', 2, 10, max_ops=3, focus='rowchains')}),
                   st.fixed_dictionaries({'perms': perms, 'h': O.history('triggers', 2, 10, max_ops=3, focus='triggers')}))


def make_permuted_engine(seed, stats):
  def factory():
    eng = _engine.Engine()
    def make(nodes):
      nodes = list(nodes)
      lk = sorted(n for n in nodes if n.col_id.startswith('#lookup'))
      ot = sorted(n for n in nodes if not n.col_id.startswith('#lookup'))
      if len(ot) >= 2:
        stats['multi'] += 1
      if seed == 0:
        ot.reverse(); lk.reverse()
      else:
        # deterministic pseudo-random permutation keyed by (seed, node) - no RNG state
        import hashlib
        key = lambda n: hashlib.md5(('%d|%s|%s' % (seed, n.table_id, n.col_id)).encode('utf8')).hexdigest()
        ot.sort(key=key); lk.sort(key=key)
      # the list is consumed from the end: lookups must come out first
      return [_engine.WorkItem(n, None, []) for n in (ot + lk)]
    eng._make_sorted_work_items = make
    return eng
  return factory


def run_case(case):
  out = Outcome()
  stats = {'multi': 0}
  perms = [int(p) for p in case.get('perms', [0])][:4] or [0]
  hr = HistoryRun(case['h'], snapshots=True)
  twins = [Doc(make_engine=make_permuted_engine(p, stats)) for p in perms]

  def on_step(s):
    sig = bundle_sig(s.uas)
    for p, tw in zip(perms, twins):
      r = tw.apply(s.uas)
      if r.ok != s.reply.ok:
        out.fail('C06:outcome-differs:' + sig, 'bundle %r: baseline %s, permuted(%d) %s (%r / %r)' % (
          s.uas, 'ok' if s.reply.ok else 'failed', p, 'ok' if r.ok else 'failed', s.reply.error, r.error))
        return True
      snap = tw.snapshot()
      structural, cells = eqv.cells_diff(s.after, snap)
      real, dropped = cycle_filter(cells, lambda t, c: col_kind(s.after, t, c), all_formulas(hr.doc))
      if dropped:
        out.cls('cycle-error-kind-differs(not judged)')
      if structural or real:
        fm = formulas_by_col(hr.doc)
        feats = '+'.join(formula_features(fm.get((real[0][0], real[0][1]), ''))) if real else 'structure'
        out.fail('C06:values-differ:%s:%s' % (sig, feats),
                 'after %r the permuted engine (seed %d) differs from the baseline order' % (s.uas, p),
                 structural[:3] + [list(x) for x in real[:5]])
        return True
      if s.reply.ok and not cells:
        a = sorted(eqv.jdump(x) for x in s.reply.stored)
        b = sorted(eqv.jdump(x) for x in r.stored)
        if [eqv.jdump(eqv.canon(x)) for x in s.reply.stored and sorted(s.reply.stored, key=eqv.jdump)] != \
           [eqv.jdump(eqv.canon(x)) for x in r.stored and sorted(r.stored, key=eqv.jdump)]:
          # bulk calc actions may split rows differently: compare per-cell content instead
          if cellset(s.reply.stored) != cellset(r.stored) and not cycle_in_stored_diff(hr.doc, s.reply.stored, r.stored, s.before):
            out.fail('C06:stored-differs:' + sig, 'stored actions differ by more than order for %r' % (s.uas,),
                     {'baseline': s.reply.stored[:6], 'permuted': r.stored[:6]})
            return True
    return None

  hr.run(on_step)
  out['concrete'] = hr.concrete()
  out['key'] = eqv.digest([out['concrete'], perms])
  out['nontrivial'] = stats['multi'] > 0
  out.cls(*sorted(hr.labels))
  return out


def cycle_in_stored_diff(doc, a, b, before=None):
  """The stored actions of the two engines differ only in cells of columns that sit on an order-dependent cycle
  (a real cycle through a lookup index, or a same-row cycle through a formula that swallows exceptions)."""
  from ..hist import lookup_cycle_possible, swallowed_cycle_possible
  cols = set()
  for item in set(cellset(a)) ^ set(cellset(b)):
    try:
      x = json.loads(item)
    except Exception:
      return False
    if not (isinstance(x, list) and len(x) == 5 and x[0] in ('UpdateRecord', 'AddRecord')):
      return False
    cols.add((x[1], x[3]))
  if not cols:
    return False
  # the formulas as they are now, and as they were before the bundle (a bundle that breaks such a cycle still
  # evaluates cells while it exists)
  from ..hist import formulas_of_snapshot
  for fm in (all_formulas(doc), formulas_of_snapshot(before) if before else {}):
    if fm and (swallowed_cycle_possible(fm, sorted(cols)) or lookup_cycle_possible(fm, sorted(cols))):
      return True
  return False


def cellset(stored):
  """Order-insensitive content of a stored list: schema actions as-is, record actions exploded per cell
  (last write wins is irrelevant here: within one reply a cell is written by one calc action)."""
  items = []
  for a in stored:
    if a[0] in ('UpdateRecord', 'AddRecord'):
      for c, v in a[3].items():
        items.append(eqv.jdump([a[0], a[1], a[2], c, eqv.canon(v)]))
      if not a[3]:
        items.append(eqv.jdump([a[0], a[1], a[2]]))
    elif a[0] in ('BulkUpdateRecord', 'BulkAddRecord'):
      kind = a[0][4:]
      for i, r in enumerate(a[2]):
        for c, vals in a[3].items():
          items.append(eqv.jdump([kind, a[1], r, c, eqv.canon(vals[i])]))
        if not a[3]:
          items.append(eqv.jdump([kind, a[1], r]))
    elif a[0] == 'BulkRemoveRecord':
      for r in a[2]:
        items.append(eqv.jdump(['RemoveRecord', a[1], r]))
    else:
      items.append(eqv.jdump(eqv.canon(a)))
  return sorted(items)
