"""C21 Generated identifiers are valid and unique.

Part 1 (pure): identifiers.pick_table_ident / pick_col_ident / pick_col_ident_list over arbitrary
Unicode names (or None) and avoid-sets of already-valid identifiers. Avoid-sets are built from a word
pool and from case/suffix variants of what the function itself answers for the same request with an
empty avoid-set, so that collisions, case-variant collisions and taken numeric suffixes are common.

Part 2 (engine): AddTable / AddEmptyTable / AddColumn / RenameColumn / RenameTable / colId, label and
tableId writes through the metadata tables with such names; the ids are read back from
_grist_Tables and _grist_Tables_column after every bundle.
"""
import keyword, re
from hypothesis import strategies as st
from ..runner import Outcome
from .. import env
env.setup()
import identifiers  # noqa: E402

ID = 'C21'
LEVEL = 'exploration'
TECHNIQUE = 'property-based testing (Hypothesis), validity oracle'
RULE = ('pure case = (requested names, avoid-set spec), evaluated with pick_table_ident and pick_col_ident for every '
        'name and pick_col_ident_list for the list, with an empty and with the derived avoid-set; names are None, "", arbitrary Unicode text, '
        'decorated pool words (keywords, case variants, digits/underscore/accent prefixes, compatibility '
        'characters that NFKD turns into ASCII); avoid-set = valid identifiers from a pool plus case/suffix '
        'variants of the function\'s own answer for an empty avoid-set. Engine case = history of <=12 schema '
        'bundles with such names. Non-trivial = at least one chosen id differs from the requested name '
        '(needed sanitising, keyword escaping, a suffix or a generated default); distinct by the whole case.')
ORACLE = ('validity predicate: every chosen id is a str matching ^[A-Za-z][A-Za-z0-9_]*$, is not a Python '
          'keyword (keyword.iskeyword), table ids start with an uppercase letter, its lower-case form differs '
          'from the lower-case form of every name in the avoid-set and of every other id of the batch; a request '
          'that already satisfies all of this is returned unchanged. Engine: the same predicate over the tableId '
          'and colId cells of the metadata after every bundle (colIds also differ from "id").')
ASSUMPTIONS = [
  'requested names are str or None (what Node sends); no lone surrogates (cannot cross the marshalled pipe)',
  'avoid-sets contain ASCII identifiers only ([A-Za-z_][A-Za-z0-9_]*), as in every caller: existing table ids '
  '(incl. _grist_* tables), existing column ids, "id"',
  'keyword = keyword.iskeyword (hard keywords); soft keywords such as match/case are legal identifiers',
  'engine part: every generated bundle is well-formed apart from the name, so a rejected bundle means no id '
  'could be chosen for the requested name and is reported (C21:engine:rejected-<Exc>)',
]
BUDGET = {'quick': dict(examples=5000, shards=8, max_seconds=60),
          'thorough': dict(examples=100000, shards=16, max_seconds=1800)}

IDENT_RE = re.compile(r'\A[A-Za-z][A-Za-z0-9_]*\Z')     # ($ would accept a trailing newline)
AVOID_RE = re.compile(r'\A[A-Za-z_][A-Za-z0-9_]*\Z')

POOL = ['foo', 'Foo', 'FOO', 'bar', 'a', 'A', 'b', 'B', 'id', 'ID', 'Id', 'class', 'Class', 'None', 'none', 'True',
        'true', 'def', 'if', 'If', 'Table', 'Table1', 'table1', 'TABLE1', 'Table2', 'manualSort', 'MANUALSORT',
        'x1', 'X1', 'A2', 'a2', 'abc_def', 'gristHelper_Display', 'T', 'c', 'cclass', 'TNone', 'Cclass', 'lambda',
        'Lambda', 'AA', 'Z', 'match', 'print', 'e', 'E', 'Fi', 'fi', 'VIII', 'T1', 'c1', 'Name', 'name', 'a_b', 'A_b']
PREFIXES = ['', '', '', ' ', '_', '__', '1', '9', '-', u'é', '$', u'́', '_1', u'Ａ', '\t']
SUFFIXES = ['', '', '', ' ', '_', '2', '_2', '1', '!', u'é', u'́', ' x', u'ß', '-b', '\n']
SPECIAL_CHARS = u'éßıKﬁⅧ½ªſİǅŉ１Ａａͅ١日 _-1aZ'


def _int(v):
  try:
    return abs(int(v))
  except (TypeError, ValueError, OverflowError):
    return 0


def _l(x):
  return x if isinstance(x, list) else []


def _d(x):
  return x if isinstance(x, dict) else {}


def _name(x):
  """JSON scalar -> requested name (str or None)."""
  if x is None or isinstance(x, str):
    return x
  return str(x)


def valid_ident(s, table):
  return (isinstance(s, str) and bool(IDENT_RE.match(s)) and not keyword.iskeyword(s) and
          (not table or s[0].isupper()))


def judge_one(result, request, avoid_lower, table):
  """Validity of one chosen id. Returns a short label or None."""
  if not isinstance(result, str):
    return 'not-a-string'
  if not IDENT_RE.match(result):
    return 'invalid-characters'
  if keyword.iskeyword(result):
    return 'python-keyword'
  if table and not result[0].isupper():
    return 'table-id-not-capitalised'
  if result.lower() in avoid_lower:
    return 'collides-with-existing-name'
  if valid_ident(request, table) and request.lower() not in avoid_lower and result != request:
    return 'valid-unused-name-changed'
  return None


def classify(out, request, result, avoid_lower, table):
  if request is None:
    out.cls('req:None')
  elif request == '':
    out.cls('req:empty')
  elif result == request:
    out.cls('kept-unchanged')
  if isinstance(request, str) and request:
    if any(ord(ch) > 127 for ch in request):
      out.cls('req:non-ascii')
    if keyword.iskeyword(request) or keyword.iskeyword(request[:1].upper() + request[1:]):
      out.cls('req:keyword')
    if not IDENT_RE.match(request):
      out.cls('needs-sanitising')
    if request[0] in '0123456789_':
      out.cls('req:starts-with-digit-or-underscore')
    if request.lower() in avoid_lower:
      out.cls('collision:exact-or-case-variant')
      if True:
        out.cls('needs-suffix')
  if isinstance(result, str):
    if re.search(r'[0-9]$', result) and result != request:
      out.cls('result:numeric-suffix')
    if re.match(r'^(Table[0-9]+|[A-Z]+)$', result) and (not request or not re.search(r'[A-Za-z0-9]', request)):
      out.cls('result:generated-default')


def call(fn, *args):
  try:
    return None, fn(*args)
  except Exception as e:   # pylint: disable=broad-except
    return e, None


# ---------------------------------------------------------------------------
# Part 1

def build_avoid(spec, base_results):
  avoid = []
  for el in _l(spec)[:12]:
    el = _d(el)
    k = _int(el.get('k')) % 2
    if k == 0 or not base_results:
      w = el.get('w')
      w = w if isinstance(w, str) else POOL[_int(w) % len(POOL)]
    else:
      w = base_results[_int(el.get('n')) % len(base_results)]
      if not isinstance(w, str):
        continue
    c = _int(el.get('c')) % 4
    w = [w, w.upper(), w.lower(), w.swapcase()][c]
    sfx = ['', '', '2', '3', '_2', '1', '4', '_3'][_int(el.get('s')) % 8]
    w = w + sfx
    if AVOID_RE.match(w):
      avoid.append(w)
  return sorted(set(avoid))


FUNCS = ['pick_table_ident', 'pick_col_ident', 'pick_col_ident_list']


def run_pure(case):
  """One generated (names, avoid spec) pair is evaluated with all three functions: pick_table_ident and
  pick_col_ident for every name, pick_col_ident_list for the whole list; first with an empty avoid-set, then
  with the avoid-set derived from those answers. out['weight'] counts the calls made."""
  out = Outcome()
  names = [_name(x) for x in _l(case.get('names'))[:8]] or [None]
  calls = [0]
  nontriv = [0]

  def invoke(fn, reqs, avoid):
    calls[0] += 1
    if fn == 2:
      e, r = call(identifiers.pick_col_ident_list, list(reqs), set(avoid))
      return e, (list(r) if e is None and isinstance(r, (list, tuple)) else r)
    e, r = call(getattr(identifiers, FUNCS[fn]), reqs[0], set(avoid))
    return e, [r]

  def run(fn, reqs, avoid):
    """Call + judge. Returns the chosen ids or None after a failure."""
    fname = FUNCS[fn]
    table = fn == 0
    e, results = invoke(fn, reqs, avoid)
    arg = reqs if fn == 2 else reqs[0]
    detail = {'function': fname, 'requested': arg, 'avoid': avoid, 'chosen': results}
    if e is not None:
      out.fail('C21:pure:raised-' + type(e).__name__, '%s(%r, avoid=%r) raised %r' % (fname, arg, avoid, e), detail)
      return None
    if not isinstance(results, list) or len(results) != len(reqs):
      out.fail('C21:pure:wrong-result-shape', '%s returned %r for %d names' % (fname, results, len(reqs)), detail)
      return None
    avoid_lower = set(a.lower() for a in avoid)
    seen = set(avoid_lower)
    for req, res in zip(reqs, results):
      classify(out, req, res, seen, table)
      bad = judge_one(res, req, seen, table)
      if bad == 'collides-with-existing-name':
        if res.lower() not in avoid_lower:
          bad = 'duplicate-within-batch'
        elif res not in avoid:
          bad = 'collides-with-case-variant'
      if bad:
        out.fail('C21:pure:' + bad, '%s(%r, avoid=%r) chose %r for %r: %s' % (fname, arg, avoid, res, req, bad), detail)
        return None
      seen.add(res.lower())
    if any(r != q for r, q in zip(results, reqs)):
      nontriv[0] += 1
    return results

  def sweep(avoid):
    answers = []
    for fn in (0, 1):
      for n in names:
        res = run(fn, [n], avoid)
        if res is None:
          return None
        answers.append(res[0])
    res = run(2, names, avoid)
    if res is None:
      return None
    return answers + res

  out.cls('pure')
  base = sweep([])
  if base is not None:
    avoid = build_avoid(case.get('avoid'), base)
    if avoid:
      out.cls('avoid-set:nonempty')
      if any(a.lower() == r.lower() and a != r for a in avoid for r in base):
        out.cls('avoid-set:case-variant-of-answer')
      if any(a.lower() == r.lower() + '2' for a in avoid for r in base):
        out.cls('avoid-set:suffix-2-taken')
      res = sweep(avoid)
      if res is not None and res != base:
        out.cls('avoid-set:changed-the-answer')
  if len(names) > 1:
    out.cls('batch:%s' % ('has-duplicate-requests' if len(set(names)) < len(names) else 'distinct-requests'))
    low = [n.lower() for n in names if isinstance(n, str)]
    if len(set(low)) < len(low) and len(set(n for n in names if isinstance(n, str))) > len(set(low)):
      out.cls('batch:case-variant-requests')
  out['weight'] = calls[0]
  out['nontrivial'] = nontriv[0] > 0
  out['nt_weight'] = nontriv[0]
  return out


# ---------------------------------------------------------------------------
# Part 2

def check_metadata(d, out, when):
  tables = d.tables_meta()
  tids = [t['tableId'] for t in tables]
  for tid in tids:
    if not valid_ident(tid, True):
      out.fail('C21:engine:invalid-table-id', 'tableId %r after %s' % (tid, when), {'tableIds': tids})
      return False
  low = [t.lower() for t in tids]
  if len(set(low)) != len(low):
    out.fail('C21:engine:duplicate-table-id', 'tableIds %r after %s' % (tids, when), {'tableIds': tids})
    return False
  if sorted(tids) != sorted(t for t in d.engine.tables if not t.startswith('_grist_')):
    out.fail('C21:engine:metadata-differs-from-engine-tables', 'tableIds %r vs engine %r after %s' % (
      tids, sorted(t for t in d.engine.tables if not t.startswith('_grist_')), when))
    return False
  cols = d.columns_meta()
  for t in tables:
    cids = [c['colId'] for c in cols if c['parentId'] == t['id']]
    for cid in cids:
      if not valid_ident(cid, False):
        out.fail('C21:engine:invalid-col-id', 'colId %r in %s after %s' % (cid, t['tableId'], when), {'colIds': cids})
        return False
    low = [c.lower() for c in cids] + ['id']
    if len(set(low)) != len(low):
      out.fail('C21:engine:duplicate-col-id', 'colIds %r (+id) in %s after %s' % (cids, t['tableId'], when),
               {'colIds': cids})
      return False
  return True


def run_engine(case):
  from ..doc import Doc
  out = Outcome()
  out.cls('engine')
  d = Doc()
  r = d.apply([['AddTable', 'Seed', [{'id': 'A', 'type': 'Text', 'isFormula': False},
                                     {'id': 'B', 'type': 'Text', 'isFormula': False}]]])
  if not r.ok:
    return out.fail('C21:engine:setup', 'seed table failed: %r' % r.error)
  nontrivial = False

  def user_tables():
    return [(t['id'], t['tableId']) for t in d.tables_meta()]

  def col_ids(tref, with_hidden=True):
    return [(c['id'], c['colId']) for c in d.columns_meta() if c['parentId'] == tref and
            (with_hidden or c['colId'] != 'manualSort')]

  def expect(chosen, request, used_lower, table, what):
    """valid+unused request must be kept; returns True when the id differs from the request."""
    if chosen is None:
      # the object is gone: e.g. a column renamed to gristHelper_* becomes an unused helper column and is
      # garbage-collected in the same bundle; nothing to say about its id
      out.cls('engine:renamed-object-vanished')
      return False
    classify(out, request, chosen, used_lower, table)
    if valid_ident(request, table) and request.lower() not in used_lower and chosen != request:
      out.fail('C21:engine:valid-unused-name-changed', '%s: requested %r (valid, unused) but got %r' % (
        what, request, chosen), {'existing_lower': sorted(used_lower)})
    return chosen != request

  for op in _l(case.get('ops'))[:12]:
    if not out['ok']:
      break
    op = _d(op)
    o = _int(op.get('o')) % 8
    name = _name(op.get('name'))
    names = [_name(x) for x in _l(op.get('names'))[:6]]
    tabs = user_tables()
    tref, tid = tabs[_int(op.get('t')) % len(tabs)]
    cols = col_ids(tref, with_hidden=False)
    all_tables_lower = set(t.lower() for t in d.engine.tables)
    what = None
    r = None
    if o in (0, 6):
      if o == 0:
        ua = ['AddTable', name, [{'id': n, 'type': 'Text', 'isFormula': False} for n in names]]
      else:
        ua = ['AddEmptyTable', name]
      what = ua[0]
      r = d.apply([ua])
      if r.ok:
        new_tid = r.ret[0]['table_id']
        nontrivial |= expect(new_tid, name, all_tables_lower, True, what)
        if o == 0:
          chosen = list(r.ret[0]['columns'])
          used = set(['id', 'manualsort'])   # the user action puts manualSort first in the same batch
          if len(chosen) != len(names):
            out.fail('C21:engine:wrong-result-shape', 'AddTable returned columns %r for %r' % (chosen, names))
          else:
            for req, ch in zip(names, chosen):
              nontrivial |= expect(ch, req, used, False, 'AddTable column')
              used.add(ch.lower())
    elif o == 1:
      what = 'AddColumn'
      used = set(c.lower() for _, c in col_ids(tref)) | set(['id'])
      r = d.apply([['AddColumn', tid, name, {'type': 'Text', 'isFormula': False}]])
      if r.ok:
        nontrivial |= expect(r.ret[0]['colId'], name, used, False, what)
    elif o in (2, 5):
      if not cols or name is None:
        continue
      cref, cid = cols[_int(op.get('c')) % len(cols)]
      used = set(c.lower() for _, c in col_ids(tref) if c != cid) | set(['id'])
      if o == 2:
        what = 'RenameColumn'
        r = d.apply([['RenameColumn', tid, cid, name]])
      else:
        what = 'label write (colId follows label)'
        r = d.apply([['UpdateRecord', '_grist_Tables_column', cref, {'label': name}]])
      if r.ok:
        now = dict((i, c) for i, c in col_ids(tref))
        if name != cid:
          nontrivial |= expect(now.get(cref), name, used, False, what)
    elif o == 3:
      if name is None:
        continue
      what = 'RenameTable'
      used = all_tables_lower - set([tid.lower()])
      r = d.apply([['RenameTable', tid, name]])
      if r.ok and name != tid:
        now = dict(user_tables())
        nontrivial |= expect(now.get(tref), name, used, True, what)
    elif o == 4:
      pick = cols[:max(1, len(names))]
      reqs = [n for n in names if n is not None][:len(pick)]
      pick = pick[:len(reqs)]
      if not pick:
        continue
      what = 'BulkUpdateRecord colId'
      out.cls('engine:bulk-column-rename')
      before_all = set(c.lower() for _, c in col_ids(tref)) | set(['id'])
      r = d.apply([['BulkUpdateRecord', '_grist_Tables_column', [i for i, _ in pick], {'colId': reqs}]])
      if r.ok:
        now = dict((i, c) for i, c in col_ids(tref))
        for j, ((cref, cid), req) in enumerate(zip(pick, reqs)):
          # "used" = ids of the table before the bundle (except its own), the other requests of the bundle and
          # the ids the other renamed columns ended up with
          others = (before_all - set([cid.lower()])) | set(q.lower() for k, q in enumerate(reqs) if k != j)
          others |= set(now[i].lower() for k, (i, _) in enumerate(pick) if k != j and now.get(i))
          if req != cid:
            nontrivial |= expect(now.get(cref), req, others, False, what)
    else:
      pick = tabs[:max(1, len(names))]
      reqs = [n for n in names if n is not None][:len(pick)]
      pick = pick[:len(reqs)]
      if not pick:
        continue
      what = 'BulkUpdateRecord tableId'
      out.cls('engine:bulk-table-rename')
      r = d.apply([['BulkUpdateRecord', '_grist_Tables', [i for i, _ in pick], {'tableId': reqs}]])
      if r.ok:
        now = dict(user_tables())
        for j, ((ref, old), req) in enumerate(zip(pick, reqs)):
          others = (all_tables_lower - set([old.lower()])) | set(q.lower() for k, q in enumerate(reqs) if k != j)
          others |= set(now[i].lower() for k, (i, _) in enumerate(pick) if k != j and now.get(i))
          if req != old:
            nontrivial |= expect(now.get(ref), req, others, True, what)
    out.cls('engine:' + what.split(' ')[0])
    if r is not None and not r.ok:
      import traceback
      tb = traceback.extract_tb(r.error.__traceback__)
      in_ident = any(f.filename.endswith('identifiers.py') for f in tb)
      name_e = type(r.error).__name__
      if in_ident:
        out.fail('C21:engine:identifiers-raised-' + name_e, '%s raised %r inside identifiers.py' % (what, r.error),
                 {'action': r.uas})
      else:
        # every generated bundle is a well-formed request whose only unusual part is the name, and no id can be
        # chosen for a rejected request; on the unchanged tree no such rejection occurs
        out.cls('engine:rejected:' + name_e)
        out.fail('C21:engine:rejected-' + name_e, '%s with a generated name was rejected: %r' % (what, r.error),
                 {'action': r.uas})
    check_metadata(d, out, what)

  out['concrete'] = d.concrete_history()[1:]
  out['nontrivial'] = nontrivial
  return out


def run_case(case):
  case = _d(case)
  if _int(case.get('kind')) % 2 == 1:
    return run_engine(case)
  return run_pure(case)


# ---------------------------------------------------------------------------
# generation

def name_strategy():
  word = st.sampled_from(POOL)
  decorated = st.builds(lambda p, w, s: p + w + s, st.sampled_from(PREFIXES), word, st.sampled_from(SUFFIXES))
  two = st.builds(lambda a, sep, b: a + sep + b, word, st.sampled_from([' ', '-', '_', '.', u'é', '  ', '']), word)
  return st.one_of(
    st.none(), st.just(''), word, word, decorated, decorated, two,
    st.text(max_size=10),
    st.text(alphabet=SPECIAL_CHARS, max_size=6),
    st.text(alphabet='abAB_1 ', max_size=5),
    st.text(alphabet='_0123456789 -', max_size=4))


COLLIDE = ['foo', 'Foo', 'FOO', ' foo', 'a', 'A', '_a', 'x y', 'x_y', 'X_Y', '', None, 'class', 'Class', 'foo2', 'id']


def parts():
  """(pure-case strategy, engine-case strategy)"""
  name = name_strategy()
  colliding = st.lists(st.sampled_from(COLLIDE), min_size=2, max_size=6)   # small pool: collisions within a batch
  avoid_el = st.fixed_dictionaries({'k': st.sampled_from([0, 1, 1, 1]), 'w': st.integers(0, len(POOL) - 1),
                                    'n': st.integers(0, 7), 'c': st.integers(0, 3), 's': st.integers(0, 7)})
  pure = st.fixed_dictionaries({'kind': st.just(0),
                                'names': st.one_of(st.lists(name, min_size=1, max_size=8),
                                                   st.lists(name, min_size=1, max_size=8), colliding),
                                'avoid': st.lists(avoid_el, max_size=10)})
  op = st.fixed_dictionaries({'o': st.integers(0, 7), 'name': st.one_of(name, name, st.sampled_from(COLLIDE)),
                              'names': st.one_of(st.lists(name, max_size=5), colliding, colliding),
                              't': st.integers(0, 5), 'c': st.integers(0, 8)})
  eng = st.fixed_dictionaries({'kind': st.just(1), 'ops': st.lists(op, min_size=1, max_size=12)})
  return pure, eng


def strategy(tier):
  pure, eng = parts()
  # weights per 1000 (engine case ~100x the cost of a pure one; kept away from the ends of the range)
  table = [(460, pure), (80, eng), (460, pure)]

  def pick(n):
    for w, s in table:
      if n < w:
        return s
      n -= w
    return pure
  return st.integers(0, 999).flatmap(pick)
