"""C05 Incremental recalculation equals recalculation from scratch (differential vs fresh engine)."""
from hypothesis import strategies as st
from ..runner import Outcome
from .. import ops as O, eqv, fresh
from ..hist import HistoryRun, bundle_sig, formula_features, formulas_by_col, CROSS_ROW, is_cycle_error_pair, summary_groupby_record_valued, is_keyerror

ID = 'C05'
LEVEL = 'exploration'
TECHNIQUE = 'stateful property-based testing; differential oracle against a freshly loaded engine'
RULE = ('case = prelude + up to 12 bundles (formula-heavy profile: formula columns from a grammar of refs, '
        'ref lists, lookups with CONTAINS/order_by/sort_by, summary $group, PREVIOUS/NEXT/RANK, find.*, cross-table '
        'chains; edits to their inputs, renames, type changes, formula edits, summary regrouping). After every '
        'successful bundle the document is compared with a fresh engine loaded from metadata + data columns only. '
        'Non-trivial = a formula with a cross-row dependency exists and a later bundle succeeded; '
        'distinct by hash of the concrete user actions.')
ORACLE = ('new Engine; load_meta_tables from the fetched _grist_Tables/_grist_Tables_column; load_table of every '
          'other table with formulas=False (values pass through the marshal/db decoding path); Calculate; every '
          'table, row-id set and cell (formula columns included) must be Node-equal to the incremental engine')
ASSUMPTIONS = ['volatile/side-effecting functions are not in the grammar; trigger-formula columns are loaded as data',
               'a mismatch where both cells are errors and one is CircularRefError is not judged (cycles through '
               'lookups: the error kind shown depends on evaluation order; C18 covers same-row cycles)',
               'Ref/RefList columns are created only towards existing tables']
BUDGET = {'quick': dict(examples=700, shards=16, max_seconds=75),
          'thorough': dict(examples=2000, shards=16, max_seconds=1800)}
SHRINK_BUDGET = {'quick': 100, 'thorough': 500}


def strategy(tier):
  return st.one_of(st.fixed_dictionaries({'h': O.history('formula', 1, 12)}),
                   st.fixed_dictionaries({'h': O.history('refdata', 2, 12, focus='refs')}))


def lookup_key_column_retyped(hr, formulas):
  """True if every given formula does a lookup keyed by a column whose type was changed earlier in the history
  (root cause listed under C13: key-not-reconverted-after-key-column-type-change)."""
  import re
  if not formulas:
    return False
  retyped = set()
  for ok, uas in hr.concrete():
    if not ok:
      continue
    for u in uas:
      if u[0] == 'ModifyColumn' and isinstance(u[3], dict) and 'type' in u[3]:
        retyped.add((u[1], u[2]))
  for f in formulas:
    ms = re.findall(r'(\w+)\.lookup(?:Records|One)\(([^)]*)\)', f or '')
    if not any((tname, key) in retyped for tname, args in ms for key in re.findall(r'([A-Za-z_]\w*)\s*=', args)):
      return False
  return True


def lookup_key_has_error(doc, formulas):
  """True if every given formula is a lookup whose key column (in the looked-up table) currently holds an error."""
  import re
  if not formulas:
    return False
  for f in formulas:
    ms = re.findall(r'(\w+)\.lookup(?:Records|One)\(([^)]*)\)', f or '')
    hit = False
    for tname, args in ms:
      if tname not in doc.engine.tables:
        continue
      rep = doc.fetch_repr(tname)
      for key in re.findall(r'(\w+)=', args):
        if key in ('order_by', 'sort_by'):
          continue
        if any(eqv.is_error_cell(v) for v in rep[3].get(key, [])):
          hit = True
    if not hit:
      return False
  return True


def compare_with_fresh(doc):
  d2, calc = fresh.fresh_load(doc, formulas=False)
  if not calc.ok:
    return 'fresh-calc-raised', repr(calc.error), [], []
  structural, cells = eqv.cells_diff(doc.snapshot(), d2.snapshot())
  return None, None, structural, cells


def run_case(case):
  out = Outcome()
  hr = HistoryRun(case['h'], snapshots=False)
  state = {'cross_since': None, 'later_ok': False}

  def on_step(s):
    if not s.reply.ok:
      return None
    if state['cross_since'] is not None:
      state['later_ok'] = True
    fm = formulas_by_col(hr.doc)
    for (t, c), text in fm.items():
      feats = formula_features(text)
      for f in feats:
        out.cls('formula:' + f)
      if state['cross_since'] is None and CROSS_ROW.intersection(feats):
        state['cross_since'] = s.index
    err, msg, structural, cells = compare_with_fresh(hr.doc)
    sig = bundle_sig(s.uas)
    if err:
      out.fail('C05:%s:%s' % (err, sig), 'fresh load after %r: %s' % (s.uas, msg))
      return True
    if structural and all(e[1] == 'row ids' and summary_groupby_record_valued(hr.doc, e[0]) for e in structural):
      out.fail('C05:reload:summary-groupby-object-valued',
               'summary table grouped by a column holding Record values gets different rows in a fresh engine '
               '(record keys decode to RecordStub on load and no longer match)', structural[:3])
      return True
    if structural:
      out.fail('C05:structure:%s:%s' % (sig, structural[0][1] if isinstance(structural[0][1], str) else 'x'),
               'after %r the incremental engine and a fresh engine disagree on table shape' % (s.uas,), structural[:4])
      return True
    real = [x for x in cells if not is_cycle_error_pair(x[3], x[4])]
    if len(real) < len(cells):
      out.cls('cycle-error-kind-differs(not judged)')
    if real:
      t, c, r, va, vb = real[0]
      feats = formula_features(fm.get((t, c), ''))
      if eqv.is_error_cell(va) and len(va) > 1 and va[1] == 'NameError' and all(
          eqv.is_error_cell(x[3]) and x[3][1] == 'NameError' for x in real):
        out.fail('C05:stale:NameError-not-recomputed-after-table-added',
                 'cell %s.%s[%s] still holds NameError after a table it names was added (fresh engine: %r)' % (
                   t, c, r, vb), [[t2, c2, r2, a2, b2] for (t2, c2, r2, a2, b2) in real[:6]])
        return True
      if all(eqv.is_error_cell(x[3]) and eqv.is_error_cell(x[4]) and x[4][1:2] == ['NameError'] and x[3][1:2] != ['NameError']
             for x in real):
        out.fail('C05:stale:NameError-not-raised-after-table-removed',
                 'cell %s.%s[%s] names a table that was removed: it keeps the error it had (%r) while a fresh engine raises '
                 'NameError (formulas are not re-evaluated when the set of table names changes)' % (t, c, r, va),
                 [[t2, c2, r2, a2, b2] for (t2, c2, r2, a2, b2) in real[:6]])
        return True
      if lookup_key_column_retyped(hr, [fm.get((x[0], x[1]), '') for x in real]):
        out.fail('C05:stale:lookup-key-column-type-changed',
                 'cell %s.%s[%s]: a lookup whose key column changed type keeps waiting on the old-type key and misses later '
                 'changes of the rows it should match (incremental %r, fresh %r; formula %r)' % (t, c, r, va, vb, fm.get((t, c))),
                 [[t2, c2, r2, a2, b2] for (t2, c2, r2, a2, b2) in real[:6]])
        return True
      allfeats = set()
      for x in real:
        allfeats.update(formula_features(fm.get((x[0], x[1]), '')))
      if all(eqv.is_error_cell(x[3]) and eqv.is_error_cell(x[4]) and x[4][1:2] == ['NoneType'] for x in real):
        out.fail('C05:reload:stored-error-reraised-as-NoneType',
                 'cell %s.%s[%s] reads an error value stored in a data cell: the live engine re-raises the original '
                 'exception (%r), a freshly loaded engine raises a wrapper around None (%r)' % (t, c, r, va, vb),
                 [[t2, c2, r2, a2, b2] for (t2, c2, r2, a2, b2) in real[:6]])
        return True
      if all(is_keyerror(x[3]) != is_keyerror(x[4]) for x in real) and \
         allfeats & set(['lookupRecords', 'lookupOne', 'order_by', 'sort_by', 'PREVIOUS', 'NEXT', 'RANK']):
        out.fail('C05:stale:lookup-KeyError-stale',
                 'cell %s.%s[%s]: lookup on a column that was removed/added keeps its old result '
                 '(incremental %r, fresh %r)' % (t, c, r, va, vb),
                 [[t2, c2, r2, a2, b2] for (t2, c2, r2, a2, b2) in real[:6]])
        return True
      if lookup_key_has_error(hr.doc, [fm.get((x[0], x[1]), '') for x in real]):
        out.fail('C05:stale:lookup-key-cell-error',
                 'cell %s.%s[%s]: the lookup index is not updated for rows whose key cell became an error value '
                 '(incremental %r, fresh %r; formula %r)' % (t, c, r, va, vb, fm.get((t, c))),
                 [[t2, c2, r2, a2, b2] for (t2, c2, r2, a2, b2) in real[:6]])
        return True
      out.fail('C05:stale:%s:%s' % (sig, '+'.join(feats)),
               'after %r cell %s.%s[%s] holds %r but a fresh engine computes %r (formula %r)' % (
                 s.uas, t, c, r, va, vb, fm.get((t, c))),
               [[t2, c2, r2, a2, b2] for (t2, c2, r2, a2, b2) in real[:6]])
      return True
    return None

  hr.run(on_step)
  out['concrete'] = hr.concrete()
  out['key'] = eqv.digest(out['concrete'])
  out['nontrivial'] = state['cross_since'] is not None and state['later_ok']
  out.cls(*sorted(hr.labels))
  return out
