"""C24 Everything sent to Node is marshal-safe and round-trips.

Part 1 (values): objtypes.encode_object / decode_object over generated Python values.
Part 2 (programs): formulas returning such values and client-sent encoded cells, driven through the
real transport: sandbox.Sandbox over in-memory pipes with the functions main.run() registers.
"""
import io
import marshal
import sys
import threading

from hypothesis import strategies as st
from ..runner import Outcome
from .. import env
env.setup()
import objtypes     # noqa: E402
import actions      # noqa: E402
import sandbox      # noqa: E402
import main         # noqa: E402
from .. import pyvals  # noqa: E402

ID = 'C24'
LEVEL = 'exploration'
RULE = ('part 1: case = JSON value spec decoded by gv.pyvals.build into a Python value (primitives, bignums, '
        'str/int/float/bytes/list/tuple/dict subclasses, IntEnum, dicts with non-str / str-subclass / tuple / bytes '
        'keys, sets, self-referential and up-to-3000-deep containers, dates, naive / moment-tz / datetime.timezone '
        'datetimes, AltText, RaisedException with user input, stubs and sentinels, Records/RecordSets of a live engine, '
        'objects with hostile __repr__/__str__/__eq__/__bool__, misc non-data objects). '
        'part 2: case = program {data column type + client-sent encoded cells, 1-3 formula columns (type, mode '
        'return/raise/dict-key/trigger, value spec rendered to formula source with helper classes defined inside '
        'the formula), how they are installed (AddTable/AddColumn/ModifyColumn), a later cell edit and its undo}; '
        'every call goes through sandbox.Sandbox.run()/_send_to_js over in-memory pipes. '
        'Besides the Hypothesis-generated cases an enumerated part runs every specimen of a fixed gallery (221 value '
        'specs covering each shape) under 10 wrappers (bare, list, tuple, dict value, dict key, set, exception input, '
        'list subclass, 5-deep dict, shared pair) in part 1, and installs every specimen as a formula (mode and column '
        'type rotating in quick, all 5 modes x 2 column types in thorough) plus a gallery of 63 client-sent cells in part 2. '
        'Non-trivial = the value (part 1) or at least one formula value / client cell (part 2) is not a plain '
        'primitive (None/bool/int32/finite float/str); distinct by case.')
ORACLE = ('part 1: encode_object(v) does not raise; marshal.dumps(encoded, 2) succeeds and marshal.loads gives back a '
          'structurally identical value (exact types, NaN==NaN); decode_object(encoded) does not raise and '
          'encode_object(decode_object(encoded)) is structurally identical to encoded. '
          'part 2: every apply_user_actions / fetch_table call produces exactly one reply message that unmarshals; '
          'a DATA reply equals the value the registered function returned; an EXC reply is accepted only for '
          'apply_user_actions and only if the document (all tables, read from the engine directly) is unchanged; '
          'fetch_table must always give DATA. Undeliverable replies are bucketed by the first unmarshallable node of '
          'the would-be reply.')
ASSUMPTIONS = ['transport = marshal version 2 exactly as sandbox.Sandbox._send_to_js; Node-side decoding is modelled '
               'by marshal.loads',
               'recursion limit during encoding is the interpreter default (1000) as in the production sandbox; each '
               'case runs in a fresh thread so that stack depth is the same for every case',
               'client-sent cells are primitives or typed cell values of the documented shapes '
               '(documentation/grist-data-format.md) plus a labelled class of malformed typed values, which '
               'decode_object documents it tolerates',
               'formulas may define classes and import modules (the sandbox is process-level, not language-level); '
               'they do not return objtypes.ReferenceLookup (input-only instruction object, only constructible by '
               'importing engine internals; it is still sent as a client cell ["l", ...])']
TECHNIQUE = 'round-trip PBT + in-memory transport differential'
BUDGET = {'quick': dict(examples=600, shards=8, max_seconds=60),
          'thorough': dict(examples=9600, shards=16, max_seconds=1800)}
MIN_NONTRIVIAL = 10

PROD_RECURSION_LIMIT = 1000


def in_thread(f):
  """Run f() in a fresh thread under the production recursion limit (deterministic stack depth)."""
  res = {}
  def body():
    old = sys.getrecursionlimit()
    sys.setrecursionlimit(PROD_RECURSION_LIMIT)
    try:
      res['v'] = f()
    except BaseException as e:   # noqa: B036 - re-raised in the caller
      res['e'] = e
    finally:
      sys.setrecursionlimit(old)
  t = threading.Thread(target=body)
  t.start()
  t.join()
  if 'e' in res:
    raise res['e']
  return res['v']


# ---- diagnosis of unmarshallable structures (signature = root cause) ----------------------------
_EXACT = (type(None), bool, int, float, str, bytes)

def find_unmarshallable(x):
  """(label, path) of the first node (depth-first, in order) marshal would reject, or None.
  Iterative: the structures can be ~1000 deep and this may run under the production recursion limit."""
  stack = [(x, '', 0, None)]
  seen = set()
  while stack:
    x, path, depth, parent = stack.pop()
    t = type(x)
    if t in _EXACT:
      continue
    if t in (list, tuple, dict):
      if id(x) in seen:          # cyclic or shared structure: already examined
        continue
      seen.add(id(x))
    if t in (list, tuple):
      kids = []
      for i, y in enumerate(x):
        is_u = (t is list and i == 1 and len(x) == 2 and x[0] == 'U')
        kids.append((y, '%s[%d]' % (path, i) if depth < 6 else path, depth + 1, 'U' if is_u else None))
      stack.extend(reversed(kids))
      continue
    if t is dict:
      kids = []
      bad = None
      for k, y in x.items():
        if type(k) not in _EXACT:
          bad = ('dict-key-str-subclass', path + '{key}') if isinstance(k, str) else \
                ('dict-key-non-str', path + '{key} (%s)' % type(k).__name__)
          break
        kids.append((y, '%s{%s}' % (path, k if isinstance(k, str) and len(k) < 12 else '.') if depth < 6 else path,
                     depth + 1, None))
      if bad:
        # nodes queued before this dict come first in document order only if they precede it; they were
        # already popped, so this is the first offending node on the current path
        return bad
      stack.extend(reversed(kids))
      continue
    if isinstance(x, str) and parent == 'U':
      return ('U-repr-str-subclass', path)
    for base in (str, int, float, bytes, list, tuple, dict):
      if isinstance(x, base):
        return ('value:%s-subclass' % base.__name__, path)
    return ('value:object', '%s (%s)' % (path, t.__name__))
  return None


def first_difference(a, b):
  """Label of the first node where two encodings differ: '<code of a's node>-><code of b's node>'; a decode
  that hit the recursion limit (node re-encoded as ['E', 'RecursionError', ...]) is labelled as such."""
  stack = [(a, b)]
  seen = set()
  while stack:
    x, y = stack.pop()
    if isinstance(x, (list, tuple, dict)):
      if (id(x), id(y)) in seen:
        continue
      seen.add((id(x), id(y)))
    if type(x) is type(y) and isinstance(x, (list, tuple)) and len(x) == len(y) and \
        (not x or pyvals.enc_equal(x[0], y[0]) or not isinstance(x[0], str)):
      stack.extend(reversed(list(zip(x, y))))
      continue
    if type(x) is dict and type(y) is dict and sorted(x) == sorted(y):
      stack.extend(reversed([(x[k], y[k]) for k in sorted(x)]))
      continue
    if pyvals.enc_equal(x, y):
      continue
    code = lambda n: n[0] if isinstance(n, list) and n and isinstance(n[0], str) else type(n).__name__
    if isinstance(y, list) and y[:2] == ['E', 'RecursionError']:
      return 'decode-hit-recursion-limit'
    return '%s->%s' % (code(x), code(y))
  return '?'


def origin_of(exc):
  """'<ExcType>@module.function' of the innermost frame that belongs to the engine sources."""
  where = '?'
  tb = exc.__traceback__
  while tb is not None:
    code = tb.tb_frame.f_code
    if code.co_filename.startswith(env.GRIST):
      where = '%s.%s' % (code.co_filename[len(env.GRIST) + 1:].rsplit('.', 1)[0].replace('/', '.'), getattr(code, 'co_qualname', code.co_name))
    tb = tb.tb_next
  return '%s@%s' % (type(exc).__name__, where)


def is_plain(x):
  return x is None or type(x) in (bool, str) or (type(x) is int and -2 ** 31 <= x < 2 ** 31) or \
    (type(x) is float and x == x and abs(x) != float('inf'))


# =================================================================================================
# Part 1

_state = {}

def fixture():
  if _state:
    return _state
  from ..doc import Doc
  d = Doc()
  r = d.apply(SETUP_ACTIONS('Int', [None, None, None]))
  if not r.ok:
    raise RuntimeError('C24 fixture: %r' % (r.error,))
  fx = pyvals.Fixture()
  fx.tables = [d.engine.tables['Tbl'], d.engine.tables['Other']]
  _state.update(doc=d, fx=fx)
  return _state


def SETUP_ACTIONS(dtype, cells):
  return [
    ['AddTable', 'Other', [{'id': 'A', 'type': 'Int', 'isFormula': False},
                           {'id': 'B', 'type': 'Text', 'isFormula': False}]],
    ['BulkAddRecord', 'Other', [None] * 2, {'A': [5, 6], 'B': ['p', 'q']}],
    ['AddTable', 'Tbl', [{'id': 'A', 'type': 'Int', 'isFormula': False},
                         {'id': 'B', 'type': 'Text', 'isFormula': False},
                         {'id': 'D', 'type': dtype, 'isFormula': False}]],
    ['BulkAddRecord', 'Tbl', [None] * 3, {'A': [3, 1, 2], 'B': ['x', 'y', 'x'], 'D': cells}],
  ]


def run_value(case):
  out = Outcome()
  spec = case.get('v')
  fx = fixture()['fx']
  v = pyvals.build(spec, fx)
  kinds = sorted(pyvals.all_kinds(spec))
  out.cls('value', *['v:' + k for k in kinds])
  out['nontrivial'] = not is_plain(v)

  def body():
    try:
      enc = objtypes.encode_object(v)
    except BaseException as e:   # noqa: B036
      if isinstance(e, (KeyboardInterrupt, SystemExit, MemoryError)):
        raise
      return out.fail('C24:value:encode-raised:%s' % type(e).__name__, 'encode_object(%s) raised %r' % (pyvals.short(v), e))
    try:
      blob = marshal.dumps(enc, 2)
    except Exception as e:
      why = find_unmarshallable(enc) or ('marshal:%s' % type(e).__name__, '')
      return out.fail('C24:unmarshallable:%s' % why[0],
                      'marshal.dumps(encode_object(%s), 2) raised %r; offending node at %s; encoded = %s' % (
                        pyvals.short(v), e, why[1] or '<root>', pyvals.short(enc)),
                      {'value': pyvals.short(v), 'encoded': pyvals.short(enc)})
    try:
      back = marshal.loads(blob)
    except Exception as e:
      return out.fail('C24:value:unmarshal-raised', 'marshal.loads of encode_object(%s) raised %r' % (pyvals.short(v), e))
    if not pyvals.enc_equal(back, enc):
      return out.fail('C24:value:marshal-roundtrip-differs', 'marshal round trip of %s gave %s' % (pyvals.short(enc), pyvals.short(back)))
    try:
      dec = objtypes.decode_object(enc)
      enc2 = objtypes.encode_object(dec)
    except BaseException as e:   # noqa: B036
      if isinstance(e, (KeyboardInterrupt, SystemExit, MemoryError)):
        raise
      return out.fail('C24:value:decode-raised:%s' % type(e).__name__, 'decode/encode of %s raised %r' % (pyvals.short(enc), e))
    if not pyvals.enc_equal(enc, enc2):
      code = first_difference(enc, enc2)
      # causal diagnosis: is the difference an artefact of decoding right at the recursion limit?
      sys.setrecursionlimit(PROD_RECURSION_LIMIT * 4)
      try:
        if pyvals.enc_equal(enc, objtypes.encode_object(objtypes.decode_object(enc))):
          code = 'decode-hit-recursion-limit'
      except Exception:
        pass
      finally:
        sys.setrecursionlimit(PROD_RECURSION_LIMIT)
      return out.fail('C24:value:roundtrip-differs:%s' % code,
                      'encode(decode(e)) != e for e = encode_object(%s) = %s; got %s' % (pyvals.short(v), pyvals.short(enc), pyvals.short(enc2)),
                      {'value': pyvals.short(v), 'encoded': pyvals.short(enc), 'reencoded': pyvals.short(enc2)})
    if isinstance(enc, list) and enc and isinstance(enc[0], str):
      out.cls('enc:' + enc[0])
    else:
      out.cls('enc:primitive')
    out['concrete'] = {'value': pyvals.short(v, 200), 'encoded': pyvals.short(enc, 200)}
    return out
  return in_thread(body)


# =================================================================================================
# Part 2: the transport

_NOTHING = object()


class NodeSide(object):
  """Plays Node's side of sandbox.py: writes CALL messages to the sandbox input pipe, lets
  Sandbox.run() serve them with the functions registered by main.run(), reads reply messages."""

  def __init__(self):
    self.out = io.BytesIO()
    self.sb = sandbox.Sandbox(io.BytesIO(b''), self.out)
    main.run(self.sb)                      # registers the API; run() returns at EOF of the empty input
    self.pos = 0
    self.eng = self.sb._functions['load_empty'].__wrapped__.__self__
    self.captured = _NOTHING
    self.raised_in = None
    for name in ('apply_user_actions', 'fetch_table'):
      self.sb._functions[name] = self._capture(self.sb._functions[name])

  def _capture(self, fn):
    def wrapper(*args):
      self.captured = _NOTHING
      self.raised_in = None
      try:
        ret = fn(*args)
      except Exception as e:
        self.raised_in = origin_of(e)
        raise
      self.captured = ret
      return ret
    return wrapper

  def call(self, name, *args):
    """-> (kind, payload): kind in DATA / EXC / RAISED / NOREPLY / GARBLED / EXTRA"""
    self.captured = _NOTHING
    self.raised_in = None
    msg = marshal.dumps(None, 2) + marshal.dumps([name] + list(args), 2)     # msgCode CALL, then body
    self.sb._external_input = io.BytesIO(msg)
    try:
      self.sb.run()
    except BaseException as e:   # noqa: B036
      if isinstance(e, (KeyboardInterrupt, SystemExit, MemoryError)):
        raise
      return 'RAISED', e
    data = self.out.getvalue()[self.pos:]
    self.pos += len(data)
    if not data:
      return 'NOREPLY', None
    try:
      src = io.BytesIO(data)
      buf = marshal.load(src)
      extra = src.read()
      code, body = marshal.loads(buf)
    except Exception as e:
      return 'GARBLED', e
    if extra:
      return 'EXTRA', None
    if code is sandbox.Sandbox.DATA:
      return 'DATA', body
    if code is sandbox.Sandbox.EXC:
      return 'EXC', body
    return 'GARBLED', code

  def state(self):
    """Whole document as the engine holds it (not through the transport)."""
    snap = {}
    for t in sorted(self.eng.tables):
      try:
        snap[t] = actions.get_action_repr(self.eng.fetch_table(t))
      except Exception as e:
        snap[t] = ['#unfetchable', type(e).__name__]
    return snap


def _state_equal(a, b):
  if sorted(a) != sorted(b):
    return False
  for t in a:
    if not _loose_equal(a[t], b[t]):
      return False
  return True


def _loose_equal(a, b):
  """Equality of two engine-side reprs that may contain unmarshallable nodes (compared with ==, failing that
  by identity). Iterative: reprs can be ~1000 deep."""
  stack = [(a, b)]
  seen = set()
  while stack:
    x, y = stack.pop()
    if isinstance(x, (list, tuple, dict)):
      if (id(x), id(y)) in seen:
        continue
      seen.add((id(x), id(y)))
    if isinstance(x, (list, tuple)) and isinstance(y, (list, tuple)):
      if len(x) != len(y):
        return False
      stack.extend(zip(x, y))
    elif isinstance(x, dict) and isinstance(y, dict):
      if len(x) != len(y):
        return False
      ky = {}
      for k in y:
        ky[pyvals.short(k, 80)] = k
      for k in x:
        r = pyvals.short(k, 80)
        if r not in ky:
          return False
        stack.append((x[k], y[ky[r]]))
    elif isinstance(x, float) and isinstance(y, float):
      if not (x == y or (x != x and y != y)):
        return False
    else:
      try:
        same = type(x) is type(y) and bool(x == y)
      except Exception:
        same = x is y
      if not same:
        return False
  return True


FTYPES = ['Any', 'Any', 'Any', 'Text', 'Numeric', 'Int', 'Bool', 'Date', 'DateTime:UTC', 'Choice', 'ChoiceList',
          'Ref:Tbl', 'RefList:Tbl', 'RefList:Other', 'Attachments']
DTYPES = ['Text', 'Numeric', 'Int', 'Bool', 'Date', 'DateTime:America/New_York', 'Choice', 'ChoiceList',
          'Ref:Other', 'RefList:Other', 'Attachments']
MODES = ['return', 'raise', 'key', 'trigger', 'attr']

_PARTS = None

def prelude_for(expr):
  """Only the helper definitions the expression mentions (keeps formula text short)."""
  global _PARTS
  if _PARTS is None:
    parts = []
    cur = None
    for line in pyvals.PRELUDE.split('\n'):
      if line.startswith(('class ', 'def ', 'import ')):
        cur = [line]
        name = line.split()[1].split('(')[0].split(':')[0] if not line.startswith('import') else None
        parts.append((name, cur))
      elif cur is not None and line.strip():
        cur.append(line)
    _PARTS = parts
  out = []
  need_strsub = 'ReprSub' in expr
  for name, lines in _PARTS:
    if name is None:
      out.extend(lines)
    elif name in expr or (name == 'StrSub' and need_strsub):
      out.extend(lines)
  return '\n'.join(out) + '\n'


def formula_text(mode, spec):
  expr = pyvals.source(spec)
  if mode == 'raise':
    body = 'raise ValueError(%s)' % expr
  elif mode == 'key':
    body = 'return _dictof([(%s, rec.A)], dict)' % expr
    expr += ' _dictof'
  elif mode == 'attr':
    body = 'v = %s\nreturn [v, {"a": v}, (v, rec.A)]' % expr
  else:
    body = 'return %s' % expr
  return prelude_for(expr) + body


def classify_reply_failure(node, kind, payload):
  """(root-cause signature, message) for an undeliverable reply."""
  if kind == 'EXC':
    if node.captured is not _NOTHING:
      why = find_unmarshallable(node.captured)
      if why:
        return ('C24:unmarshallable:%s' % why[0],
                'function returned, transport answered EXC %r; offending node of the reply at %s' % (payload, why[1]))
      return 'C24:reply-lost:exc-after-return', 'function returned, transport answered EXC %r' % (payload,)
    return ('C24:reply-lost:raised-in:%s' % (node.raised_in or '?@?').split('@', 1)[1],
            'call raised %s: %r' % (node.raised_in, payload))
  if kind == 'RAISED':
    return 'C24:reply-lost:transport-raised:%s' % type(payload).__name__, 'Sandbox.run() raised %r' % (payload,)
  return 'C24:reply-lost:%s' % kind.lower(), 'no usable reply (%s %r)' % (kind, payload)


def run_program(case):
  out = Outcome()
  out.cls('program')
  dtype = DTYPES[abs(pyvals._int(case.get('dtype'))) % len(DTYPES)]
  cells = [c for c in pyvals._list(case.get('cells'))][:3]
  cells += [None] * (3 - len(cells))
  cols = []
  for i, f in enumerate(pyvals._list(case.get('formulas'))[:3]):
    if not isinstance(f, dict):
      continue
    mode = f.get('mode') if f.get('mode') in MODES else 'return'
    ftype = FTYPES[abs(pyvals._int(f.get('type'))) % len(FTYPES)]
    fspec = pyvals.for_formula(f.get('v'))
    cols.append(('F%d' % i, ftype, mode, fspec, formula_text(mode, fspec)))
  via = case.get('via') if case.get('via') in ('AddColumn', 'ModifyColumn', 'AddTable') else 'AddColumn'
  edit = case.get('edit', _NOTHING)
  nontrivial = any(not is_plain(c) for c in cells)
  for _, ftype, mode, spec, _ in cols:
    out.cls('f:mode=' + mode, 'f:type=' + ftype.split(':')[0], *['f:' + k for k in sorted(pyvals.all_kinds(spec))])
    if mode != 'return' or not is_plain(spec):
      nontrivial = True
  for c in cells + ([edit] if edit is not _NOTHING else []):
    out.cls('cell:' + cell_kind(c))
  out.cls('d:type=' + dtype.split(':')[0], 'via=' + via)
  out['nontrivial'] = nontrivial

  concrete = []
  node = NodeSide()
  prev_state = [None]

  def do(name, *args):
    """One transport call + oracle. Returns the DATA body or None."""
    concrete.append([name] + list(args))
    kind, payload = node.call(name, *args)
    if kind == 'DATA':
      if node.captured is not _NOTHING and not pyvals.enc_equal(payload, node.captured):
        out.fail('C24:program:reply-differs:%s' % name, '%s: unmarshalled reply differs from the returned value' % name,
                 {'returned': pyvals.short(node.captured), 'received': pyvals.short(payload)})
      if name == 'apply_user_actions' or prev_state[0] is None:
        prev_state[0] = node.state()
      return payload
    label, msg = classify_reply_failure(node, kind, payload)
    if name == 'apply_user_actions':
      now = node.state()
      changed = prev_state[0] is not None and not _state_equal(prev_state[0], now)
      prev_state[0] = now
      if kind == 'EXC' and not changed:
        out.cls('apply:rejected-unchanged')
        return None
      out.fail(label,
               'apply_user_actions%s: %s; document %s' % (pyvals.short(args[0], 400), msg,
                                                          'CHANGED although no reply was delivered' if changed else 'unchanged'),
               {'call': pyvals.short(args, 600), 'changed': changed})
      return None
    out.fail(label, '%s%s: %s' % (name, pyvals.short(args, 200), msg),
             {'call': pyvals.short(args, 300)})
    return None

  def body():
    do('load_empty')
    if do('apply_user_actions', [['InitNewDoc']]) is None:
      out['skipped'] = True
      return out
    setup = SETUP_ACTIONS(dtype, cells)
    if via == 'AddTable':
      for cid, ftype, mode, spec, text in cols:
        if mode == 'trigger':
          setup[2][2].append({'id': cid, 'type': ftype if ftype != 'Any' else 'Text', 'isFormula': False,
                              'formula': text, 'recalcWhen': 2})
        else:
          setup[2][2].append({'id': cid, 'type': ftype, 'isFormula': True, 'formula': text})
    r = do('apply_user_actions', setup)
    if r is None and not any(t == 'Tbl' for t in node.eng.tables):
      # the data cells / formulas were rejected as a whole: still a checked (non-lost) reply
      out.cls('setup-rejected')
      out['concrete'] = concrete
      return out
    if via != 'AddTable':
      for cid, ftype, mode, spec, text in cols:
        if mode == 'trigger':
          info = {'type': ftype if ftype != 'Any' else 'Text', 'isFormula': False, 'formula': text, 'recalcWhen': 2}
        else:
          info = {'type': ftype, 'isFormula': True, 'formula': text}
        if via == 'AddColumn':
          do('apply_user_actions', [['AddColumn', 'Tbl', cid, info]])
        else:
          do('apply_user_actions', [['AddColumn', 'Tbl', cid, {'type': info['type'], 'isFormula': info['isFormula']}]])
          do('apply_user_actions', [['ModifyColumn', 'Tbl', cid, {k: info[k] for k in info if k not in ('type', 'isFormula')}]])
    do('fetch_table', 'Tbl')
    do('fetch_table', 'Tbl', False)
    do('fetch_table', 'Tbl', True, {'A': [1, 2]})
    do('fetch_table', '_grist_Tables_column')
    if edit is not _NOTHING:
      r = do('apply_user_actions', [['UpdateRecord', 'Tbl', 1, {'A': 7, 'D': edit}], ['AddRecord', 'Tbl', None, {'D': edit}]])
      do('fetch_table', 'Tbl')
      if r is not None and case.get('undo'):
        undo = [a for (_env, a) in r['undo']]
        do('apply_user_actions', [['ApplyUndoActions', undo]])
        do('fetch_table', 'Tbl')
    out['concrete'] = concrete
    return out
  return in_thread(body)


def cell_kind(c):
  if isinstance(c, list):
    if c and isinstance(c[0], str) and len(c[0]) == 1:
      return 'typed-' + c[0]
    return 'malformed-list'
  if isinstance(c, dict):
    return 'malformed-dict'
  return pyvals.kind_of(c)


def run_case(case):
  if not isinstance(case, dict):
    o = Outcome(); o['skipped'] = True
    return o
  if case.get('p') == 2:
    return run_program(case)
  return run_value(case)


# ---- enumerated part: every gallery specimen, systematically wrapped / installed ----------------
CELL_GALLERY = [None, True, 0, -5, 2 ** 31 - 1, 1.5, float('nan'), float('inf'), '', 'abc', '12', '2020-01-01', '[1,2]', '\ud800',
                ['L'], ['L', 1, 2], ['L', 'a', 'b'], ['L', ['L', 1], None], ['O', {}], ['O', {'a': 1, 'b': ['d', 86400]}],
                ['D', 1577836800, 'UTC'], ['D', 1577836800.5, 'America/New_York'], ['D', -1e11, 'Asia/Kolkata'], ['d', 86400],
                ['d', -86400.0], ['R', 'Tbl', 1], ['R', 'Other', 2], ['R', 'Nope', 1], ['r', 'Tbl', [1, 2]], ['r', 'Other', []],
                ['E', 'ValueError'], ['E', 'ValueError', 'msg', 'details'], ['E', 'TypeError', None, None, {'u': 5}],
                ['E', 'InvalidTypedValue', 'Int', 'abc'], ['E', 'KeyError', 'm', None, {'u': ['L', ['d', 5]]}], ['P'], ['C'],
                ['U', 'repr'], ['l', 'x', {'column': 'B'}], ['l', [5, 6], {'column': 'A'}], ['l', 'zz', {'column': 'B', 'raw': 'zz'}],
                [], ['D', 'x', 'UTC'], ['D', 1, 'No/Zone'], ['D', 1], ['d', 'x'], ['d'], ['O', [1]], ['O'], ['E'], ['R', 'Tbl'],
                ['r', 'Tbl', 3], ['X', 1], ['l'], [1, 2], ['LL', 1], ['V', {}], ['S'], ['D', float('nan'), 'UTC'],
                ['d', float('inf')], ['D', 1e300, 'UTC'], ['U'], ['L', ['L', ['X']]]]


def enumerate_cases(tier):
  g = pyvals.gallery('encode')
  for spec in g:
    for w in pyvals.WRAPPERS:
      yield {'p': 1, 'v': pyvals.wrap(spec, w)}
  for i, spec in enumerate(g):
    modes = MODES if tier == 'thorough' else [MODES[i % len(MODES)]]
    for j, mode in enumerate(modes):
      ftypes = [0, 3 + (i + j) % (len(FTYPES) - 3)] if tier == 'thorough' else [0 if i % 3 else 3 + i % (len(FTYPES) - 3)]
      for ft in ftypes:
        yield {'p': 2, 'dtype': i % len(DTYPES), 'cells': [], 'formulas': [{'type': ft, 'mode': mode, 'v': spec}],
               'via': ['AddColumn', 'ModifyColumn', 'AddTable'][(i + j) % 3], 'edit': 'x', 'undo': bool(i % 2)}
  for i, cell in enumerate(CELL_GALLERY):
    dts = range(len(DTYPES)) if tier == 'thorough' else [i % len(DTYPES), (i * 7 + 3) % len(DTYPES)]
    for dt in dts:
      yield {'p': 2, 'dtype': dt, 'cells': [cell, None, cell], 'formulas': [{'type': 0, 'mode': 'trigger', 'v': 1}] if i % 2 else [],
             'via': 'AddColumn', 'edit': cell, 'undo': True}


# ---- strategies ---------------------------------------------------------------------------------
def client_cells():
  prim = st.one_of(st.none(), st.booleans(), st.integers(-2 ** 31, 2 ** 31 - 1), st.integers(-5, 5),
                   st.floats(allow_nan=True, allow_infinity=True), st.sampled_from([1e15, 2.0 ** 53, 1577836800.0, -0.0]),
                   st.text(max_size=5), st.sampled_from(['', 'abc', '12', '2020-01-01', '[1,2]', '\ud800', 'x' * 300]))
  def typed(ch):
    return st.one_of(
      st.lists(ch, max_size=3).map(lambda l: ['L'] + l),
      st.dictionaries(st.text(max_size=3), ch, max_size=3).map(lambda d: ['O', d]),
      st.tuples(st.one_of(st.integers(-10 ** 11, 10 ** 11), st.floats(-1e11, 1e11)),
                st.sampled_from(pyvals.ZONES + ['UTC'])).map(lambda t: ['D', t[0], t[1]]),
      st.one_of(st.integers(-10 ** 11, 10 ** 11), st.floats(-1e11, 1e11)).map(lambda t: ['d', t]),
      st.tuples(st.sampled_from(['Tbl', 'Other', 'Nope']), st.integers(0, 5)).map(lambda t: ['R', t[0], t[1]]),
      st.tuples(st.sampled_from(['Tbl', 'Other', 'Nope']), st.lists(st.integers(0, 5), max_size=3)).map(
        lambda t: ['r', t[0], t[1]]),
      st.tuples(st.sampled_from(['ValueError', 'TypeError', 'InvalidTypedValue', '']), st.one_of(st.none(), st.text(max_size=5)),
                st.one_of(st.none(), st.text(max_size=5))).map(lambda t: ['E', t[0], t[1], t[2]]),
      st.tuples(st.sampled_from(['ValueError', 'KeyError']), st.text(max_size=5), ch).map(
        lambda t: ['E', t[0], t[1], None, {'u': t[2]}]),
      st.just(['E', 'ValueError']), st.just(['P']), st.just(['C']),
      st.text(max_size=5).map(lambda s: ['U', s]),
      st.tuples(ch, st.sampled_from([{'column': 'A'}, {'column': 'B'}, {'column': 'B', 'raw': 'q'}, {}])).map(
        lambda t: ['l', t[0], t[1]]))
  wellformed = st.recursive(prim, typed, max_leaves=6)
  malformed = st.sampled_from([[], ['D', 'x', 'UTC'], ['D', 1, 'No/Zone'], ['D', 1], ['d', 'x'], ['d'], ['O', [1]], ['O'],
                               ['E'], ['R', 'Tbl'], ['r', 'Tbl', 3], ['X', 1], ['l'], [1, 2], ['LL', 1], ['V', {}], ['S'],
                               ['D', float('nan'), 'UTC'], ['d', float('inf')], ['D', 1e300, 'UTC'], ['U'], ['L', ['L', ['X']]]])
  return st.one_of(wellformed, wellformed, wellformed, malformed)


def strategy(tier):
  vals = pyvals.values('encode')
  part1 = st.fixed_dictionaries({'p': st.just(1), 'v': vals})
  fcol = st.fixed_dictionaries({'type': st.integers(0, len(FTYPES) - 1), 'mode': st.sampled_from(MODES + ['return', 'return']),
                                'v': pyvals.values('encode', max_leaves=6)})
  cells = client_cells()
  part2 = st.fixed_dictionaries(
    {'p': st.just(2), 'dtype': st.integers(0, len(DTYPES) - 1), 'cells': st.lists(cells, max_size=3),
     'formulas': st.lists(fcol, min_size=0, max_size=3), 'via': st.sampled_from(['AddColumn', 'ModifyColumn', 'AddTable'])},
    optional={'edit': cells, 'undo': st.booleans()})
  return st.one_of(part1, part1, part1, part2)
