"""C04 Failed bundles leave no trace (fault enumeration over doc-action boundaries and usercode rebuilds)."""
from hypothesis import strategies as st
from ..runner import Outcome
from .. import ops as O, eqv, faults
from ..doc import replay_history
from ..hist import HistoryRun, bundle_sig, judge_state_diff, is_cycle_error_pair, col_kind, stale_cells_of, made_formula_with_type_change, is_keyerror
from ..invariants import schema_mismatch

ID = 'C04'
LEVEL = 'fault_enumeration'
TECHNIQUE = 'property-based generation of (history, bundle) + exhaustive enumeration of injected-fault positions in that bundle'
RULE = ('case = prelude + up to 8 history bundles + one target bundle (1-3 ops, optionally ending in a deliberately '
        'invalid request). A twin engine applies the target bundle un-faulted and reports n top-level doc actions and '
        'm usercode rebuilds; the subject engine then suffers an InjectedFault before and after each of the n doc '
        'actions and at each of the m rebuilds (all 2n+m positions when <= 60, an even sample otherwise), one call per '
        'position, plus every natural failure in the history. One evaluation = one failed call. Non-trivial = the '
        'failure happened after >=1 doc action had been applied (a real rollback); distinct by (bundle, position).')
ORACLE = ('after every failed call: snapshot == snapshot before the call; a following Calculate emits no stored actions; '
          'the harness-computed schema invariant of C08 holds; finally the same bundle applied without fault gives '
          'the twin\'s outcome and snapshot (engine still usable)')
ASSUMPTIONS = ['faults are raised at top-level doc-action boundaries and at entry of rebuild_usercode, never inside the '
               'engine\'s own rollback; an exception between an in-memory mutation and the undo.append that follows it '
               'inside one DocActions method is outside the model except for the rebuild sub-step',
               'formula cells that were already stale before the failed call are charged to C05']
BUDGET = {'quick': dict(examples=300, shards=16, max_seconds=75),
          'thorough': dict(examples=900, shards=16, max_seconds=1800)}
SHRINK_BUDGET = {'quick': 40, 'thorough': 300}
MAX_POS = 60


def strategy(tier):
  target = st.tuples(st.lists(O.any_op('schema'), min_size=1, max_size=3),
                     st.one_of(st.none(), O.op_strategy('bad'))).map(lambda t: t[0] + ([t[1]] if t[1] else []))
  return st.fixed_dictionaries({'h': O.history('schema', 0, 8), 'target': target})


def emitted_cells_were_stale(hr, stored, log_pos):
  try:
    stale, _ = stale_cells_of(hr.doc.log, log_pos)
  except Exception:
    return False
  for a in stored:
    rows = a[2] if isinstance(a[2], list) else [a[2]]
    for col in a[3]:
      for r in rows:
        if (a[1], col, r) not in stale:
          return False
  return True


def check_after_failure(hr, out, before, uas, how, log_pos):
  """Returns True if a violation was recorded."""
  sig = bundle_sig(uas)
  now = hr.doc.snapshot()
  bad, labels = judge_state_diff(before, now, hr.doc.log, log_pos)
  out.cls(*labels)
  formula_only = bad is not None and bad[0] in ('cells:usertable.formula', 'cells:usertable.helper')
  if bad and bad[0] == 'cells:usertable.data' and made_formula_with_type_change(uas, bad[1], lambda t, c: col_kind(before, t, c)):
    out.fail('C04:trace-after-failure:data-column-made-formula-with-type-change',
             'bundle %r failed (%s) but the document differs from before the call' % (uas, how), bad[1])
    return True
  if bad and not formula_only:
    out.fail('C04:trace-after-failure:%s:%s' % (how.split('#')[0], bad[0]),
             'bundle %r failed (%s) but the document differs from before the call' % (uas, how), bad[1])
    return True
  c = hr.doc.calculate()
  if not c.ok:
    out.fail('C04:calculate-raised:%s:%s' % (how.split('#')[0], sig), 'Calculate after failed %r (%s) raised %r' % (uas, how, c.error))
    return True
  if c.stored or formula_only:
    now2 = hr.doc.snapshot()
    bad2, labels2 = judge_state_diff(before, now2, hr.doc.log, log_pos)
    only_formula_updates = all(a[0] in ('UpdateRecord', 'BulkUpdateRecord') and not a[1].startswith('_grist_') and
                               all(col_kind(before, a[1], col) in ('formula', 'helper') for col in a[3]) for a in c.stored)
    if bad2 is None and only_formula_updates and not formula_only and emitted_cells_were_stale(hr, c.stored, log_pos):
      # the values were restored by the rollback; what Calculate re-emits are cells that were already stale
      # before the failed call (C05 matter) and got recalculated because the rollback marked them dirty
      out.cls('stale-cells-recalculated-after-rollback(charged to C05)')
    elif bad2 is None and only_formula_updates:
      # one root cause (see known finding): the rollback leaves formula cells dirty; they are only
      # recalculated (and re-emitted) by the next call
      out.fail('C04:formula-cells-dirty-after-rollback',
               'after failed %r (%s) formula cells were left un-recalculated: fetch_table shows %s and the following '
               'Calculate emitted %d updates (document equals the pre-call state only after that)' % (
                 uas, how, 'different values' if formula_only else 'the same values', len(c.stored)),
               {'diff': bad[1] if bad else None, 'calc_stored': c.stored[:4]})
      return True
    else:
      kinds = sorted(set(a[0] for a in c.stored))
      out.fail('C04:calculate-emits-after-failure:%s:%s:%s' % (how.split('#')[0], '+'.join(kinds), sig),
               'Calculate after failed %r (%s) emitted %d stored actions / state differs' % (uas, how, len(c.stored)),
               {'calc_stored': c.stored[:4], 'diff': (bad2 or bad or [None, None])[1]})
      return True
  sm = schema_mismatch(hr.doc)
  if sm:
    out.fail('C04:schema-mismatch:%s:%s:%s' % (how.split('#')[0], sm[0], sig),
             'after failed %r (%s) schema and metadata disagree: %s' % (uas, how, sm[0]), sm[1])
    return True
  return False


def run_case(case):
  out = Outcome()
  hr = HistoryRun(case['h'], snapshots=True, settle=False)
  st8 = {'w': 0, 'nt': 0}

  def on_step(s):
    if s.reply.ok or isinstance(s.reply.error, faults.InjectedFault):
      return None
    st8['w'] += 1
    out.cls('natural-failure')
    if len(s.uas) > 1:
      out.cls('natural-failure-after-earlier-actions')
      st8['nt'] += 1
    if check_after_failure(hr, out, s.before, s.uas, 'natural:%s' % type(s.reply.error).__name__, s.log_pos):
      return True
    s.after = s.before
    return None

  if hr.run(on_step):
    return finish(out, hr, st8, None)
  uas = case.get('target_concrete') or O.resolve_bundle(hr.doc, case.get('target', []))
  if not uas:
    return finish(out, hr, st8, None)
  before = hr.doc.snapshot()
  log_pos = len(hr.doc.log)
  # twin: same concrete history, un-faulted bundle with counting
  twin = replay_history(hr.doc.log)
  with faults.inject(twin.engine, 'count', -1) as cnt:
    tr = twin.apply(uas)
  n, m = cnt.doc_actions_seen, cnt.rebuilds_seen
  if not tr.ok:
    # natural failure of the target itself: judged on the subject below (after the injected ones)
    out.cls('target-fails-naturally')
  twin_snap = twin.snapshot()
  positions = [('before', k) for k in range(n)] + [('after', k) for k in range(n)] + [('rebuild', k) for k in range(m)]
  if len(positions) > MAX_POS:
    step = len(positions) / float(MAX_POS)
    positions = [positions[int(i * step)] for i in range(MAX_POS)]
    out.cls('positions-sampled')
  else:
    out.cls('positions-exhaustive')
  for kind, k in positions:
    with faults.inject(hr.doc.engine, kind, k) as inj:
      r = hr.doc.apply(uas)
    if not inj.fired:
      # the bundle ended (naturally) before reaching this position; state may legitimately have changed if ok
      if r.ok:
        # The subject needed fewer doc actions than the twin (recalculation left dirty by an earlier rolled-back
        # attempt changes how many calc-phase doc actions occur): nothing to judge here; the final un-faulted
        # run below still has to match the twin. Rebuild the subject and go on.
        out.cls('position-not-reached(not judged)')
        hr.doc = replay_history(hr.doc.log[:log_pos])
      continue
    st8['w'] += 1
    if inj.doc_actions_before_fault >= 1:
      st8['nt'] += 1
    out.cls('fault:' + kind)
    if r.ok:
      # The exception was absorbed (doc actions issued from inside a formula, e.g. summary-row creation via
      # lookupOrAddDerived, turn into a cell error). The call did not raise, so C04 says nothing about it;
      # restore the subject by replay and go on.
      out.cls('fault-absorbed-by-formula-evaluation(not judged)')
      hr.doc = replay_history(hr.doc.log[:log_pos])
      continue
    if check_after_failure(hr, out, before, uas, '%s:%s#%d' % (kind, inj.at_action or '-', k), log_pos):
      return finish(out, hr, st8, uas)
  # usable: same bundle without fault behaves like on the twin
  r = hr.doc.apply(uas)
  st8['w'] += 1
  if r.ok != tr.ok:
    out.fail('C04:not-usable:outcome-differs:' + bundle_sig(uas),
             'after %d failed attempts bundle %r %s but on the twin it %s (%r / %r)' % (
               len(positions), uas, 'succeeds' if r.ok else 'fails', 'succeeded' if tr.ok else 'failed', r.error, tr.error))
  elif r.ok:
    structural, cells = eqv.cells_diff(twin_snap, hr.doc.snapshot())
    real = [x for x in cells if not is_cycle_error_pair(x[3], x[4])]
    if real and not structural and all(is_keyerror(x[3]) != is_keyerror(x[4]) and
                                       col_kind(twin_snap, x[0], x[1]) == 'formula' for x in real):
      # a lookup on a column that the bundle removes: whether the formula notices (KeyError) or keeps its old result
      # depends on the state of the lookup index, which the failed attempts rebuilt on the subject but not on the
      # twin - the listed C05 finding lookup-KeyError-stale, not a trace of the failed call
      out.cls('lookup-KeyError-stale-on-one-side(charged to C05)')
      real = []
    if structural or real:
      out.fail('C04:not-usable:result-differs:' + bundle_sig(uas),
               'after failed attempts bundle %r gives a different document than on the twin' % (uas,),
               structural[:3] + [list(x) for x in real[:5]])
    elif eqv.canon(r.ret) != eqv.canon(tr.ret):
      out.fail('C04:not-usable:retvalues-differ:' + bundle_sig(uas), 'return values %r vs twin %r' % (r.ret, tr.ret))
  else:
    if len(uas) > 1:
      st8['nt'] += 1
    check_after_failure(hr, out, before, uas, 'natural:%s' % type(r.error).__name__, log_pos)
  return finish(out, hr, st8, uas)


def finish(out, hr, st8, target):
  out['concrete'] = {'history': hr.concrete(), 'target': target}
  out['key'] = eqv.digest(out['concrete'])
  out['weight'] = max(1, st8['w'])
  out['nt_weight'] = st8['nt']
  out['nontrivial'] = st8['nt'] > 0
  out.cls(*sorted(hr.labels))
  return out
