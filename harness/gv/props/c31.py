"""C31 Actions are marked direct only when the user asked for them.

Documents with formula columns (same-table, Ref-chain and lookup formulas in a second table), summary tables
(CreateViewSection with group-by column refs: scalar keys, two keys, no key, ChoiceList key) and "empty"
columns (AddColumn without a type). Bundles of 1-3 record edits. Every stored action of every reply is put
in one of the classes the statement names (summary-row maintenance, formula results, empty-column
conversion, the user's own record edit) or counted as unclassified; the direct flag must be False for the
first three and True for the last.
"""
import copy
from hypothesis import strategies as st
from ..runner import Outcome
from ..doc import Doc
from .. import eqv

ID = 'C31'
LEVEL = 'exploration'
TECHNIQUE = 'stateful property-based testing; structural classification of every stored action'
RULE = ('case = document (table Src with data columns K, L, T:ChoiceList, N, formula column G; optional table Oth '
        'with Ref:Src, a Ref-chain formula and a lookupRecords formula; summary tables of Src chosen among group-by '
        '[K], [K,L], [], [T], [K,T]; 0-2 empty columns; initial rows) + up to 8 (quick) / 12 (thorough) bundles of '
        '1-3 user actions: AddRecord, BulkAddRecord, UpdateRecord, BulkUpdateRecord (incl. unchanged values), '
        'RemoveRecord, BulkRemoveRecord on Src / Oth, values entered into empty columns (text, numeric text, numbers, '
        'blank), edits of group-by columns (summary rows added / removed / updated), AddColumn of further empty '
        'columns. Non-trivial = a reply containing both direct and non-direct stored actions; distinct by hash of '
        'the concrete user actions.')
ORACLE = ('per reply: len(stored) == len(direct) (the engine\'s own "failed to track origin of actions" assertion '
          'counts as a violation). Per stored action, classified from the document metadata before the bundle and '
          'the stored actions seen so far: record action on a summary table -> must be non-direct; [Bulk]UpdateRecord '
          'on an ordinary table touching only formula columns -> non-direct; ModifyColumn / _grist_Tables_column '
          'update / default-fill update that convert an empty column while data is entered -> non-direct; '
          '[Bulk]AddRecord / [Bulk]RemoveRecord on an ordinary table, and [Bulk]UpdateRecord of data columns whose '
          'rows and columns are among those requested by a user action of the bundle -> direct. Everything else '
          '(schema actions of AddColumn, position adjustments, reference clean-up) is counted, not judged.')
ASSUMPTIONS = [
  'bundles contain record edits (and AddColumn of empty columns) only: undo/redo (ApplyUndoActions replays summary '
  'rows as direct actions) is outside the statement\'s quantifier',
  'no formula adds records (lookupOrAddDerived is only used by the summary machinery), so every [Bulk]AddRecord on an '
  'ordinary table carries user-requested rows',
  'the default-fill of a converted column is recognised by position: an update touching only that column between '
  'ModifyColumn{isFormula:False} and the matching _grist_Tables_column update',
  'rejected bundles (e.g. a value the column cannot accept) are labelled and not judged',
]
BUDGET = {'quick': dict(examples=1600, shards=16, max_seconds=45),
          'thorough': dict(examples=18000, shards=16, max_seconds=1800)}
SHRINK_BUDGET = {'quick': 150, 'thorough': 500}

GROUPBYS = [['K'], ['K', 'L'], [], ['T'], ['K', 'T']]
KV = ['a', 'b', 'c']
LV = ['x', 'y']
TV = [['L', 'p'], ['L', 'p', 'q'], ['L'], None, ['L', 'q']]
EV = ['hello', '5', ' -17.6', '', None, 7, 1.5, 'x y', '0']
RECORD_ADD = ('AddRecord', 'BulkAddRecord')
RECORD_UPD = ('UpdateRecord', 'BulkUpdateRecord')
RECORD_RM = ('RemoveRecord', 'BulkRemoveRecord')
RECORD = RECORD_ADD + RECORD_UPD + RECORD_RM


def ii(x, d=0):
  return abs(int(x)) if isinstance(x, int) and not isinstance(x, bool) else d


def ilist(x, d=(0,)):
  out = [abs(int(v)) for v in x if isinstance(v, int) and not isinstance(v, bool)] if isinstance(x, list) else []
  return out or list(d)


# ---------------------------------------------------------------------------
# Document

def build(doc, setup, log):
  def ap(uas):
    r = doc.apply(uas)
    log.append(uas)
    return r
  r = ap([['AddTable', 'Src', [
    {'id': 'K', 'type': 'Text', 'isFormula': False}, {'id': 'L', 'type': 'Text', 'isFormula': False},
    {'id': 'T', 'type': 'ChoiceList', 'isFormula': False}, {'id': 'N', 'type': 'Int', 'isFormula': False},
    {'id': 'G', 'type': 'Any', 'isFormula': True, 'formula': '$N * 2 + len($K)'}]]])
  if not r.ok:
    return r
  if setup.get('oth', True):
    r = ap([['AddTable', 'Oth', [
      {'id': 'R', 'type': 'Ref:Src', 'isFormula': False}, {'id': 'key', 'type': 'Text', 'isFormula': False},
      {'id': 'V', 'type': 'Any', 'isFormula': True, 'formula': '$R.N + 1'},
      {'id': 'W', 'type': 'Any', 'isFormula': True, 'formula': 'SUM(Src.lookupRecords(K=$key).N)'}]]])
    if not r.ok:
      return r
  rows = ilist(setup.get('rows'), (0, 1, 2))[:5]
  r = ap([['BulkAddRecord', 'Src', [None] * len(rows), {
    'K': [KV[v % 3] for v in rows], 'L': [LV[(v // 3) % 2] for v in rows],
    'T': [TV[v % len(TV)] for v in rows], 'N': [v % 4 for v in rows]}]])
  if not r.ok:
    return r
  if setup.get('oth', True):
    r = ap([['BulkAddRecord', 'Oth', [None, None], {'R': [1, 0], 'key': ['a', 'b']}]])
    if not r.ok:
      return r
  src_ref = [t['id'] for t in doc.tables_meta() if t['tableId'] == 'Src'][0]
  colref = {c['colId']: c['id'] for c in doc.columns_meta() if c['parentId'] == src_ref}
  seen = []
  for s in ilist(setup.get('summaries'), ())[:3]:
    gb = GROUPBYS[s % len(GROUPBYS)]
    if gb in seen:
      continue
    seen.append(gb)
    r = ap([['CreateViewSection', src_ref, 0, 'record', [colref[c] for c in gb], None]])
    if not r.ok:
      return r
  for i in range(ii(setup.get('empties'), 1) % 3):
    r = ap([['AddColumn', 'Src', 'E%d' % (i + 1), {}]])
    if not r.ok:
      return r
  return r


class Meta(object):
  """Schema facts read from the metadata tables (before a bundle)."""
  def __init__(self, doc):
    self.tables = {}      # tableId -> dict(ref, summary)
    self.by_ref = {}
    for t in doc.tables_meta():
      self.tables[t['tableId']] = dict(ref=t['id'], summary=bool(t['summarySourceTable']))
      self.by_ref[t['id']] = t['tableId']
    self.cols = {}        # (tableId, colId) -> dict(ref, kind, type)
    self.col_by_ref = {}
    for c in doc.columns_meta():
      tid = self.by_ref.get(c['parentId'])
      kind = 'data'
      if c['isFormula']:
        kind = 'formula' if c['formula'] else 'empty'
      self.cols[(tid, c['colId'])] = dict(ref=c['id'], kind=kind, type=c['type'])
      self.col_by_ref[c['id']] = (tid, c['colId'])

  def ordinary(self):
    return sorted(t for t, v in self.tables.items() if not v['summary'])

  def enterable(self, tid):
    """Columns of an ordinary table a user may type into (data + empty), in a stable order."""
    out = [(c, v) for (t, c), v in self.cols.items() if t == tid and v['kind'] != 'formula'
           and c != 'manualSort' and not c.startswith('gristHelper_')]
    return sorted(out, key=lambda cv: cv[1]['ref'])


def value_for(col, info, spec, n_src):
  spec = ii(spec)
  t = info['type']
  if col == 'K' or col == 'key':
    return KV[spec % 3]
  if col == 'L':
    return LV[spec % 2]
  if t == 'ChoiceList':
    return TV[spec % len(TV)]
  if t.startswith('Ref:'):
    return spec % (n_src + 1)
  if t == 'Int':
    return spec % 4
  return EV[spec % len(EV)]     # empty (Any) or converted column (Text/Numeric)


def resolve(doc, meta, spec):
  """One abstract action -> concrete user action or None."""
  if not isinstance(spec, list) or not spec or not isinstance(spec[0], str):
    return None
  kind = spec[0]
  arg = spec[1] if len(spec) > 1 and isinstance(spec[1], dict) else {}
  tabs = meta.ordinary()
  tid = tabs[ii(arg.get('t')) % len(tabs)] if kind != 'addcol' else 'Src'
  if arg.get('t') is None:
    tid = 'Src'
  ids = doc.row_ids(tid)
  n_src = len(doc.row_ids('Src'))
  cols = meta.enterable(tid)
  mask = ii(arg.get('mask'), 1)
  chosen = [cv for i, cv in enumerate(cols) if (mask >> i) & 1]
  vals = ilist(arg.get('vals'))
  if kind == 'addcol':
    n = 1
    while ('Src', 'E%d' % n) in meta.cols:
      n += 1
    if n > 4:
      return None
    return ['AddColumn', 'Src', 'E%d' % n, {}]
  if kind in ('add', 'badd'):
    cnt = 1 if kind == 'add' else 1 + ii(arg.get('n'), 1) % 3
    cv = {}
    k = 0
    for c, info in chosen:
      cv[c] = []
      for _ in range(cnt):
        cv[c].append(value_for(c, info, vals[k % len(vals)], n_src)); k += 1
    if kind == 'add':
      return ['AddRecord', tid, None, {c: v[0] for c, v in cv.items()}]
    return ['BulkAddRecord', tid, [None] * cnt, cv]
  rows = []
  for s in ilist(arg.get('rows')):
    if ids and ids[s % len(ids)] not in rows:
      rows.append(ids[s % len(ids)])
  if not rows:
    return None
  if kind == 'rm':
    return ['RemoveRecord', tid, rows[0]]
  if kind == 'brm':
    return ['BulkRemoveRecord', tid, rows[:3]]
  if kind in ('upd', 'bupd'):
    if not chosen:
      chosen = cols[:1]
    if kind == 'upd':
      rows = rows[:1]
    cv = {}
    k = 0
    cur = doc.fetch_repr(tid)
    for c, info in chosen:
      cv[c] = []
      for r in rows:
        s = vals[k % len(vals)]; k += 1
        if s >= 9 and c in cur[3] and info['kind'] == 'data':        # keep the current value (no-op write)
          cv[c].append(cur[3][c][cur[2].index(r)])
        else:
          cv[c].append(value_for(c, info, s, n_src))
    if kind == 'upd':
      return ['UpdateRecord', tid, rows[0], {c: v[0] for c, v in cv.items()}]
    return ['BulkUpdateRecord', tid, rows, cv]
  return None


# ---------------------------------------------------------------------------
# Oracle

def requested(uas):
  """What the user asked for, per ordinary table: list of dict(kind, table, rows, cols)."""
  out = []
  for ua in uas:
    n = ua[0]
    if n == 'AddRecord':
      out.append(dict(kind='add', table=ua[1], rows=None, cols=set(ua[3])))
    elif n == 'BulkAddRecord':
      out.append(dict(kind='add', table=ua[1], rows=None, cols=set(ua[3])))
    elif n == 'UpdateRecord':
      out.append(dict(kind='upd', table=ua[1], rows=set([ua[2]]), cols=set(ua[3])))
    elif n == 'BulkUpdateRecord':
      out.append(dict(kind='upd', table=ua[1], rows=set(ua[2]), cols=set(ua[3])))
    elif n == 'RemoveRecord':
      out.append(dict(kind='rm', table=ua[1], rows=set([ua[2]]), cols=set()))
    elif n == 'BulkRemoveRecord':
      out.append(dict(kind='rm', table=ua[1], rows=set(ua[2]), cols=set()))
  return out


def rows_of(a):
  return set(a[2]) if isinstance(a[2], list) else set([a[2]])


def classify(meta, uas, stored):
  """-> list of class labels parallel to `stored`:
  'summary' | 'calc' | 'conversion' | 'user-edit' | 'unclassified:<what>'"""
  req = requested(uas)
  summary = set(t for t, v in meta.tables.items() if v['summary'])
  ordinary = set(t for t, v in meta.tables.items() if not v['summary'])
  kind = {k: v['kind'] for k, v in meta.cols.items()}        # (table, col) -> data/formula/empty, evolves
  col_by_ref = dict(meta.col_by_ref)
  converting = set()      # (table, col) being converted: after ModifyColumn{isFormula:False}, before the meta update
  was_empty = set(k for k, v in kind.items() if v == 'empty')
  out = []
  for a in stored:
    n, t = a[0], a[1]
    if n == 'AddTable':
      ordinary.add(t)
      out.append('unclassified:schema'); continue
    if n == 'AddColumn':
      ci = a[3]
      k = 'data'
      if ci.get('isFormula'):
        k = 'formula' if ci.get('formula') else 'empty'
      kind[(t, a[2])] = k
      if k == 'empty':
        was_empty.add((t, a[2]))
      out.append('unclassified:schema'); continue
    if n == 'ModifyColumn':
      key = (t, a[2])
      if key in was_empty and t in ordinary and set(a[3]) <= set(['type', 'isFormula', 'widgetOptions']) \
         and kind.get(key) in ('empty', 'data') and req_touches(req, t, a[2]):
        if a[3].get('isFormula') is False:
          kind[key] = 'data'
          converting.add(key)
        out.append('conversion'); continue
      out.append('unclassified:schema'); continue
    if t == '_grist_Tables_column':
      if n == 'AddRecord':
        tid = meta.by_ref.get(a[3].get('parentId'))
        col_by_ref[a[2]] = (tid, a[3].get('colId'))
      if n == 'UpdateRecord' and col_by_ref.get(a[2]) in was_empty \
         and set(a[3]) <= set(['type', 'isFormula', 'widgetOptions']) and req_touches(req, *col_by_ref[a[2]]):
        if a[3].get('isFormula') is False:
          converting.discard(col_by_ref[a[2]])
        out.append('conversion'); continue
      out.append('unclassified:meta'); continue
    if t.startswith('_grist_'):
      out.append('unclassified:meta'); continue
    if n not in RECORD:
      out.append('unclassified:' + n); continue
    if t in summary:
      out.append('summary'); continue
    if t not in ordinary:
      out.append('unclassified:unknown-table'); continue
    if n in RECORD_ADD or n in RECORD_RM:
      out.append('user-edit'); continue
    cols = set(a[3])
    kinds = set(kind.get((t, c), 'data') for c in cols)
    if len(cols) == 1 and (t, list(cols)[0]) in converting:
      out.append('conversion'); continue
    if kinds == set(['formula']):
      out.append('calc'); continue
    if 'formula' not in kinds and any(q['kind'] == 'upd' and q['table'] == t and rows_of(a) <= q['rows']
                                      and cols <= q['cols'] for q in req):
      out.append('user-edit'); continue
    out.append('unclassified:update'); continue
  return out


def req_touches(req, table, col):
  return any(q['table'] == table and col in q['cols'] for q in req)


EXPECT = {'summary': False, 'calc': False, 'conversion': False, 'user-edit': True}
WHY = {'summary': 'a record action on a summary table (summary-row maintenance)',
       'calc': 'an update that only writes formula results',
       'conversion': 'an action converting an empty column while data is entered',
       'user-edit': "the action carrying the user's requested record edit on an ordinary table"}


def run_case(case):
  out = Outcome()
  doc = Doc()
  setup = case.get('setup') if isinstance(case.get('setup'), dict) else {}
  log = []
  concrete_in = case.get('concrete')
  if concrete_in is not None:
    bundles = [b for b in concrete_in if isinstance(b, list)]
  else:
    r = build(doc, setup, log)
    if not r.ok:
      return out.fail('C31:setup:create', 'cannot build the document: %r' % (r.error,), log)
    bundles = case.get('bundles') if isinstance(case.get('bundles'), list) else []
  n_summ = len([t for t in doc.tables_meta() if t['summarySourceTable']])
  out.cls('summaries=%d' % n_summ)
  nt = 0
  for b in bundles:
    meta = Meta(doc)
    if concrete_in is not None:
      uas = copy.deepcopy(b)
    else:
      uas = []
      for spec in (b if isinstance(b, list) else [])[:3]:
        # resolve against the document as it is before the bundle (row ids of rows added earlier in
        # the same bundle are not referenced)
        ua = resolve(doc, meta, spec)
        if ua is not None and not (ua[0] == 'AddColumn' and any(u[0] == 'AddColumn' and u[2] == ua[2] for u in uas)):
          uas.append(ua)
      removed = set()
      keep = []
      for ua in uas:      # do not update/remove a row removed earlier in the same bundle
        if ua[0] in RECORD_UPD + RECORD_RM:
          rs = rows_of(ua)
          if any((ua[1], r) in removed for r in rs):
            continue
          if ua[0] in RECORD_RM:
            removed.update((ua[1], r) for r in rs)
        keep.append(ua)
      uas = keep
    if not uas:
      continue
    r = doc.apply(uas)
    log.append(uas)
    if not r.ok:
      if isinstance(r.error, AssertionError) and 'track origin' in str(r.error):
        out.fail('C31:lengths-differ', 'engine lost track of direct flags (stored and direct differ in length) for %r' % (uas,))
        break
      out.cls('rejected-bundle')
      continue
    is_record_bundle = all(u[0] in RECORD for u in uas)
    stored, direct = r.stored, r.direct
    if len(stored) != len(direct):
      out.fail('C31:lengths-differ', 'reply has %d stored actions but %d direct flags for %r' % (
        len(stored), len(direct), uas))
      break
    labels = classify(meta, uas, stored)
    for u in uas:
      out.cls('ua:' + u[0])
    if len(uas) > 1:
      out.cls('multi-action-bundle')
    bad = False
    for a, f, lab in zip(stored, direct, labels):
      out.cls(lab + (':' + a[0] if lab in EXPECT else ''))
      if lab in EXPECT and f is not EXPECT[lab]:
        out.fail('C31:%s-marked-%s' % (lab, 'direct' if f else 'non-direct'),
                 '%s is marked direct=%r: %r (bundle %r)' % (WHY[lab], f, a, uas),
                 {'stored': stored, 'direct': direct, 'classes': labels})
        bad = True
        break
    if bad:
      break
    if any(lab == 'conversion' for lab in labels):
      out.cls('bundle:enters-data-into-empty-column')
    if any(lab == 'summary' and a[0] in RECORD_ADD for a, lab in zip(stored, labels)):
      out.cls('bundle:summary-row-added')
    if any(lab == 'summary' and a[0] in RECORD_RM for a, lab in zip(stored, labels)):
      out.cls('bundle:summary-row-removed')
    if any(direct) and not all(direct) and is_record_bundle:
      nt += 1
  out['concrete'] = log
  out['key'] = eqv.digest(log)
  out['nontrivial'] = nt > 0
  return out


# ---------------------------------------------------------------------------

def strategy(tier):
  max_b = 8 if tier == 'quick' else 12
  small = st.integers(0, 9)
  arg = st.fixed_dictionaries({'t': st.sampled_from([None, None, 0, 1]), 'mask': st.integers(0, 255),
                               'vals': st.lists(small, min_size=1, max_size=4),
                               'rows': st.lists(st.integers(0, 6), min_size=1, max_size=3),
                               'n': st.integers(0, 2)})
  action = st.one_of(
    st.tuples(st.sampled_from(['add', 'badd', 'upd', 'upd', 'bupd', 'bupd', 'rm', 'brm']), arg),
    st.tuples(st.sampled_from(['upd', 'add']), st.fixed_dictionaries({
      't': st.none(), 'mask': st.sampled_from([16, 32, 48, 17, 33, 64]), 'vals': st.lists(small, min_size=1, max_size=3),
      'rows': st.lists(st.integers(0, 6), min_size=1, max_size=2), 'n': st.integers(0, 2)})),
    st.tuples(st.just('addcol'), st.just({})),
  ).map(list)
  return st.fixed_dictionaries({
    'setup': st.fixed_dictionaries({
      'rows': st.lists(st.integers(0, 11), min_size=1, max_size=5),
      'summaries': st.one_of(st.lists(st.integers(0, 4), min_size=0, max_size=3),
                             st.lists(st.integers(0, 4), min_size=1, max_size=3, unique=True)),
      'empties': st.integers(0, 2), 'oth': st.booleans()}),
    'bundles': st.lists(st.lists(action, min_size=1, max_size=3), min_size=1, max_size=max_b)})
