"""C17 Renames inside access rules and conditions are exact.

A generated document (rule table T with Ref/RefList columns to R, user-attribute table U, names shared across
the tables) carries ACL resources/rules (incl. user-attribute rules), dropdown conditions (column and field
widgetOptions, Ref / RefList / non-Ref columns) and trigger conditions (plain text, JSON text, config mode) whose
predicate formulas come from a grammar over the supported subset, plus unparsable texts stored through
ApplyDocActions. One or two renames (column of T / R / U through several paths, or a table) are applied and every
stored formula is compared with an independent model of "exactly the entitled references renamed".
"""
import ast
import json
import re

from hypothesis import strategies as st

from ..runner import Outcome
from ..doc import Doc
from .. import eqv, env
from .c16 import token_diff
env.setup()
import predicate_formula as _pf    # noqa: E402  (stored parsed form must equal the module's parse of the stored text)

ID = 'C17'
LEVEL = 'exploration'
TECHNIQUE = 'property-based testing; independent ast.NodeTransformer model + token diff + parsed-tree rename model'
RULE = ('case = 3 tables (T with Ref:R, RefList:R and Choice columns; R; U) with column ids drawn from one small pool '
        '(so the same id exists in several tables, incl. ids "rec"/"choice"), 1-2 user-attribute rules, 1-3 ACL '
        'resources with column lists, 1-4 ACL rules, 0-3 dropdown conditions (column or field widgetOptions; Ref, '
        'RefList or Choice column), 0-2 trigger conditions (plain text / JSON text / config customExpression); each '
        'formula is a generated expression tree over the supported subset whose leaves are rec.X / $X / newRec.X / '
        'oldRec.X / choice.X / user.Attr.X in the contexts where they are valid, plus look-alikes (foo.X, rec.Y.X, '
        'user.Unknown.X, "X", # X, rec.X2, bare X) and unparsable texts stored through ApplyDocActions; then 1-2 '
        'renames (RenameColumn, colId record update, tied label, bulk colId of two columns, RenameTable). '
        'Non-trivial = a column id changed and some stored formula holds both a reference that must change and one '
        'that must not; distinct by hash of the concrete user actions.')
ORACLE = ('for every stored formula: ast.dump(parse(new)) == ast.dump(T(parse(old))) with T an independent '
          'ast.NodeTransformer renaming exactly the entitled attribute names (per context: ACL rec/newRec/$ on the '
          "resource's table and user.Attr.X on the attribute's table; dropdown rec/$ on the column's table and "
          'choice.X on the referenced table; trigger rec/oldRec/$ on the trigger table); tokenize diff (only NAME '
          'tokens old->new, identical inter-token text); stored parsed form == old parsed tree with the same renames '
          'applied structurally and == predicate_formula.parse_predicate_formula(new text); resource colIds entries '
          'and userAttributes.lookupColId renamed exactly, every other field of those records equal; unparsable '
          'formulas and their records byte-identical.')
ASSUMPTIONS = [
  'variables are used only in the contexts where Node defines them (app/common/PredicateFormula.ts): newRec only in '
  'ACL rules, oldRec only in trigger conditions, choice only in dropdown conditions; user.Attr.X only in ACL rules',
  'ACL rules on the default resource (*:*) contain no rec/newRec references (no single table to resolve them against)',
  'user attribute names are distinct; userAttributes and widgetOptions are JSON objects',
  'a table rename is only required to leave formulas, parsed forms and column lists untouched (the statement is about '
  'column renames); that it keeps resources/attributes pointing at the table is observed through a following column '
  'rename',
  'unparsable = rejected by Python or using syntax outside the documented node list of parse_predicate_formula; '
  'such texts come from a fixed list and are stored with ApplyDocActions (as in documents written by old versions)',
]
BUDGET = {'quick': dict(examples=1600, shards=16, max_seconds=40),
          'thorough': dict(examples=15000, shards=16, max_seconds=1800)}
SHRINK_BUDGET = {'quick': 60, 'thorough': 300}

TABLE_POOL = ['Students', 'Schools', 'Staff', 'Orders', 'Teams', 'Places']
COL_POOL = ['name', 'city', 'email', 'Email', 'owner', 'status', 'kind', 'code', 'level', 'amount', 'a_b',
            'School', 'choice', 'rec', 'Access']
ATTR_NAMES = ['School', 'Team', 'Office']
PLAIN = ['Zed', 'title2', 'NewName', 'other', 'w']
ODD = ['a b', 'Ünï', '1st', 'class', 'None', 'x-y!', '']

CMP = ['==', '!=', '<', '<=', '>', '>=', 'in', 'not in', 'is', 'is not']
BIN = ['+', '-', '*', '/', '%']
CONSTS = ['1', '0', '2.5', '"x"', "'New'", 'True', 'False', 'None', '""', u'"日本"', '[1, 2]', '("a", "b")', 'OWNER']
# texts outside the supported subset: the first group is valid Python (unsupported node types), the second is
# rejected by the Python parser itself
BAD_UNSUPPORTED = ['rec.{X}[0] == 1', '-rec.{X} < 0', '1 < rec.{X} < 3', 'lambda: rec.{X}', '[c for c in rec.{X}]',
                   '{{rec.{X}: 1}}', 'rec.{X} if ${X} else 0', 'rec.{X} ** 2', 'rec.{X} // 2',
                   'f"{{rec.{X}}}" == "a"', '(rec.{X} := 1)', 'user.{A}.{X}[1:]', '~$' '{X}',
                   '+ "New" in choice.{X} and ${X} == rec.{X}', 'rec.{X} = 1', 'rec.{X} == 1;', 'newRec.{X} @ 2']
BAD_PYTHON = ['+ rec.{X} ==', 'rec.{X} and (', '${X} ${X}', 'rec.{X} == "unterminated', 'not',
              'rec.{X} or choice.{X} +', '$' '{X} == *rec.{X}']
BAD = BAD_UNSUPPORTED + BAD_PYTHON

RECVARS = {'acl': ('rec', 'newRec'), 'dropdown': ('rec',), 'trigger': ('rec', 'oldRec')}

# ---------------------------------------------------------------------------
# independent model

DOLLAR_RE = re.compile(r'\$(?=[A-Za-z_])')
DMARK = 'DOLLAR_'
_OK_NODES = (ast.Expression, ast.BoolOp, ast.And, ast.Or, ast.BinOp, ast.Add, ast.Sub, ast.Mult, ast.Div, ast.Mod,
             ast.UnaryOp, ast.Not, ast.Compare, ast.Eq, ast.NotEq, ast.Lt, ast.LtE, ast.Gt, ast.GtE, ast.Is,
             ast.IsNot, ast.In, ast.NotIn, ast.Name, ast.Constant, ast.Attribute, ast.List, ast.Tuple, ast.Call,
             ast.keyword, ast.Load)


def pre(text):
  return DOLLAR_RE.sub(DMARK, text)


def parse_indep(text):
  """ast of the $-marked text, or None when Python rejects it or it leaves the documented subset."""
  try:
    tree = ast.parse(pre(text), mode='eval')
  except (SyntaxError, ValueError):
    return None
  for node in ast.walk(tree):
    if not isinstance(node, _OK_NODES):
      return None
    if isinstance(node, ast.UnaryOp) and not isinstance(node.op, ast.Not):
      return None
    if isinstance(node, ast.Compare) and len(node.ops) != 1:
      return None
  return tree


class Ctx(object):
  """Where a formula lives: which names are entitled to follow a rename."""
  def __init__(self, kind, self_table, choice_table=None, attr_tables=None):
    self.kind = kind
    self.recvars = RECVARS[kind]
    self.self_table = self_table
    self.choice_table = choice_table
    self.attr_tables = attr_tables or {}


class Renamer(ast.NodeTransformer):
  """The statement, literally: rec.X/$X/newRec.X/oldRec.X -> column of the formula's own table; choice.X -> column
  of the referenced table; user.Attr.X -> column of the attribute's lookup table. Nothing else."""
  def __init__(self, ctx, renames):
    self.ctx, self.renames = ctx, renames
    self.changed = 0
    self.kept = 0

  def visit_Name(self, node):
    if node.id.startswith(DMARK):
      new = self.renames.get((self.ctx.self_table, node.id[len(DMARK):]))
      if new is not None:
        self.changed += 1
        return ast.copy_location(ast.Name(id=DMARK + new, ctx=node.ctx), node)
      self.kept += 1
    return node

  def visit_Attribute(self, node):
    node = self.generic_visit(node)
    v, c = node.value, self.ctx
    table = None
    if isinstance(v, ast.Name) and v.id in c.recvars:
      table = c.self_table
    elif isinstance(v, ast.Name) and v.id == 'choice' and c.kind == 'dropdown':
      table = c.choice_table
    elif isinstance(v, ast.Attribute) and isinstance(v.value, ast.Name) and v.value.id == 'user' and c.kind == 'acl':
      table = c.attr_tables.get(v.attr)
    new = self.renames.get((table, node.attr)) if table else None
    if new is not None:
      self.changed += 1
      node.attr = new
    else:
      self.kept += 1
    return node


class _Probe(dict):
  """A renames map that renames nothing and records which (table, column) keys were looked up."""
  def __init__(self):
    dict.__init__(self)
    self.seen = set()

  def get(self, key, default=None):
    self.seen.add(key)
    return default


def rename_tree(tree, ctx, renames):
  """The same renames applied to a stored parsed tree ([NODE_TYPE, args...])."""
  if not isinstance(tree, list) or not tree:
    return tree
  t = tree[0]
  if t in ('Const', 'Name'):
    return tree
  if t == 'Comment':
    return ['Comment', rename_tree(tree[1], ctx, renames)] + tree[2:]
  if t == 'keywords':
    return ['keywords'] + [[kv[0], rename_tree(kv[1], ctx, renames)] for kv in tree[1:]]
  if t == 'Attr':
    sub = rename_tree(tree[1], ctx, renames)
    name = tree[2]
    table = None
    if sub[0] == 'Name' and sub[1] in ctx.recvars:
      table = ctx.self_table
    elif sub == ['Name', 'choice'] and ctx.kind == 'dropdown':
      table = ctx.choice_table
    elif sub[0] == 'Attr' and sub[1] == ['Name', 'user'] and ctx.kind == 'acl':
      table = ctx.attr_tables.get(sub[2])
    new = renames.get((table, name)) if table else None
    return ['Attr', sub, new if new is not None else name]
  return [t] + [rename_tree(x, ctx, renames) for x in tree[1:]]


def first_name_difference(exp_tree, got_tree):
  """Parallel walk of two ASTs of the same shape: -> (role, expected, got) of the first differing name."""
  def role(node):
    if isinstance(node, ast.Name):
      return 'dollar' if node.id.startswith(DMARK) else 'name'
    v = node.value
    if isinstance(v, ast.Name):
      return v.id + '-attr' if v.id in ('rec', 'newRec', 'oldRec', 'choice', 'user') else 'other-attr'
    if isinstance(v, ast.Attribute) and isinstance(v.value, ast.Name) and v.value.id == 'user':
      return 'user-attr-col'
    return 'nested-attr'
  a, b = list(ast.walk(exp_tree)), list(ast.walk(got_tree))
  if len(a) != len(b):
    return ('shape', None, None)
  for x, y in zip(a, b):
    if type(x) is not type(y):
      return ('shape', None, None)
    if isinstance(x, ast.Name) and x.id != y.id:
      return (role(x), x.id, y.id)
    if isinstance(x, ast.Attribute) and x.attr != y.attr:
      return (role(x), x.attr, y.attr)
  return ('other', None, None)


# every BAD template must be outside the subset according to the independent classifier
for _b in BAD:
  assert parse_indep(_b.format(X='abc', A='School')) is None, _b


# ---------------------------------------------------------------------------
# strategy: expression trees

# column selectors are biased towards the first columns of each table so that renames and references meet
_SEL = st.sampled_from([0, 0, 0, 0, 1, 1, 1, 2, 2, 3, 4, 5, 6, 7])


def expr_strategy():
  ref = st.tuples(st.just('ref'), st.integers(0, 19), _SEL, st.integers(0, 3)).map(list)
  const = st.tuples(st.just('const'), st.integers(0, len(CONSTS) - 1)).map(list)
  leaf = st.one_of(ref, ref, ref, ref, ref, const)
  def ext(ch):
    return st.one_of(
      st.tuples(st.sampled_from(['and', 'or']), st.lists(ch, min_size=2, max_size=3)).map(list),
      st.tuples(st.just('not'), ch).map(list),
      st.tuples(st.just('cmp'), st.integers(0, len(CMP) - 1), ch, ch).map(list),
      st.tuples(st.just('bin'), st.integers(0, len(BIN) - 1), ch, ch).map(list),
      st.tuples(st.just('list'), st.lists(ch, min_size=0, max_size=3)).map(list),
      st.tuples(st.just('call'), st.integers(0, 4), ch).map(list),
      st.tuples(st.just('paren'), ch).map(list))
  tree = st.recursive(leaf, ext, max_leaves=8)
  # badsel: 0..87 -> generated expression; 88..97 -> unsupported-but-valid-Python text; 98..99 -> Python syntax error
  badsel = st.sampled_from(list(range(100)))
  return st.tuples(st.just('top'), tree, st.integers(0, 7), st.integers(0, 4), badsel, _SEL).map(list)


def strategy(tier):
  e = expr_strategy()
  sel = st.integers(0, 99)
  rename = st.fixed_dictionaries({'what': st.integers(0, 19), 'ent': _SEL, 'ent2': _SEL, 'path': st.integers(0, 7),
                                  'tk': st.integers(0, 5), 'ti': st.integers(0, 9)})
  return st.fixed_dictionaries({
    'tn': st.lists(st.integers(0, len(TABLE_POOL) - 1), min_size=3, max_size=3),
    'cn': st.lists(st.integers(0, len(COL_POOL) - 1), min_size=15, max_size=15),
    'attrs': st.lists(st.tuples(st.integers(0, 2), st.integers(0, 5), _SEL).map(list), min_size=1, max_size=2),
    'attrs_last': st.booleans(),
    'resources': st.lists(st.tuples(st.integers(0, 3), st.integers(0, 255)).map(list), min_size=1, max_size=3),
    'rules': st.lists(st.tuples(sel, e).map(list), min_size=1, max_size=4),
    'dropdowns': st.lists(st.tuples(st.integers(0, 5), st.integers(0, 2), e).map(list), min_size=0, max_size=3),
    'triggers': st.lists(st.tuples(st.integers(0, 3), st.integers(0, 2), e).map(list), min_size=0, max_size=2),
    'renames': st.lists(rename, min_size=1, max_size=2),
  })


# ---------------------------------------------------------------------------
# rendering

class RenderCtx(object):
  def __init__(self, kind, self_cols, other_cols, choice_cols, attrs, attr_cols):
    self.kind = kind                 # 'acl' | 'dropdown' | 'trigger'
    self.self_cols = self_cols       # ids of the formula's own table ([] for the default resource)
    self.other_cols = other_cols     # ids of the other tables (look-alike material)
    self.choice_cols = choice_cols   # ids of the referenced table (dropdown on Ref/RefList) or None
    self.attrs = attrs               # user attribute names
    self.attr_cols = attr_cols       # {attr: ids of its lookup table}


def _dot(a, b, style):
  return [a + '.' + b, a + ' .' + b, a + '. ' + b, a + '.' + b][style % 4]


def render_ref(rc, kind, sel, style):
  allc = (rc.self_cols or []) + rc.other_cols
  X = (rc.self_cols or allc)[sel % len(rc.self_cols or allc)]
  O = allc[(sel * 7 + kind) % len(allc)]
  rv = RECVARS[rc.kind][1] if len(RECVARS[rc.kind]) > 1 else 'rec'
  forms = []
  if rc.self_cols:
    forms += [_dot('rec', X, style), '$' + X, _dot(rv, X, style), _dot('rec', X, style) + '.lower()',
              _dot(_dot('rec', X, style), O, style), _dot('rec', X + '2', style), '$' + X + '_x']
  if rc.kind == 'acl':
    A = rc.attrs[sel % len(rc.attrs)] if rc.attrs else 'School'
    ac = rc.attr_cols.get(A) or allc
    forms += [_dot(_dot('user', A, style), ac[sel % len(ac)], style), 'user.Email', 'user.Access', _dot('user', A, style),
              _dot('user.Zzz', O, style), _dot(_dot('user', A, style), ac[(sel + 1) % len(ac)], style) + '.upper()']
  if rc.kind == 'dropdown':
    cc = rc.choice_cols or rc.other_cols
    forms += [_dot('choice', cc[sel % len(cc)], style), 'choice', _dot('choice.rec', O, style),
              _dot('rec.choice', O, style), 'user.Email', _dot('choice', cc[(sel + 1) % len(cc)], style) + '.upper()']
  forms += [_dot('foo', O, style), '"%s"' % O, "'rec.%s'" % O, O, _dot('foo.rec', O, style)]
  return forms[kind % len(forms)]


def _i(x):
  return abs(x) if isinstance(x, int) and not isinstance(x, bool) else 0


def _n(node, k):
  """k-th child of a (possibly shrunk) node, as a node."""
  x = node[k] if isinstance(node, list) and len(node) > k else None
  return x if isinstance(x, list) and x and isinstance(x[0], str) else ['const', 0]


def render(rc, node, ml=False):
  if not isinstance(node, list) or not node or not isinstance(node[0], str):
    return 'True'
  t = node[0]
  node = list(node) + [0, 0, 0, 0]
  if t == 'ref':
    return render_ref(rc, _i(node[1]), _i(node[2]), _i(node[3]))
  if t == 'const':
    return CONSTS[_i(node[1]) % len(CONSTS)]
  if t in ('and', 'or'):
    subs = [render(rc, x) for x in (node[1] if isinstance(node[1], list) else [])] or ['True']
    parts = [('(%s)' % s) for s in subs]
    if ml:
      cm = (rc.self_cols or rc.other_cols)
      return (' %s  # %s $%s\n  ' % (t, cm[0], cm[-1])).join(parts)
    return (' %s ' % t).join(parts)
  if t == 'not':
    return 'not (%s)' % render(rc, _n(node, 1))
  if t == 'cmp':
    return '(%s) %s (%s)' % (render(rc, _n(node, 2)), CMP[_i(node[1]) % len(CMP)], render(rc, _n(node, 3)))
  if t == 'bin':
    return '(%s) %s (%s)' % (render(rc, _n(node, 2)), BIN[_i(node[1]) % len(BIN)], render(rc, _n(node, 3)))
  if t == 'list':
    subs = [render(rc, x) for x in (node[1] if isinstance(node[1], list) else [])]
    return '[' + ', '.join(subs) + ']'
  if t == 'call':
    k = _i(node[1]) % 5
    a = render(rc, _n(node, 2))
    return ['len(%s)', '(%s).lower()', 'foo(%s, k=1)', '(%s).upper()', 'str(%s)'][k] % a
  if t == 'paren':
    return '( %s )' % render(rc, _n(node, 1))
  return 'True'


def render_top(rc, node):
  """-> (text, is_bad)"""
  cols = rc.self_cols or rc.other_cols
  if not isinstance(node, list) or not node or node[0] != 'top':
    return 'True', False
  node = (list(node) + [0, 0, 0, 0, 0])[:6]
  badsel = _i(node[4]) % 100
  if badsel >= 88:
    X = cols[_i(node[5]) % len(cols)]
    A = rc.attrs[0] if rc.attrs else 'School'
    pool = BAD_PYTHON if badsel >= 98 else BAD_UNSUPPORTED
    return pool[(badsel + _i(node[2]) * 7) % len(pool)].format(X=X, A=A), True
  e, ci, layout = _n(node, 1), _i(node[2]), _i(node[3]) % 5
  X = cols[ci % len(cols)]
  comment = ['', '# %s' % X, u'# ünîcødé %s' % X, '# rec.%s must stay' % X, '# $%s' % X, '', '# "', '#'][ci % 8]
  if layout == 0:
    text = render(rc, e)
  elif layout == 1:
    text = '( ' + render(rc, e) + ' )'
  elif layout == 2:
    text = '(' + render(rc, e, ml=True) + '\n)'
  elif layout == 3:
    text = render(rc, e) + ('  ' + comment if comment else '') + '\n'
  else:
    text = '(\n  ' + render(rc, e) + ('  ' + comment if comment else '') + '\n)\n'
  return text, False


# ---------------------------------------------------------------------------
# document construction

def _distinct(pool, picks, n, used=None):
  used = set() if used is None else used
  out = []
  picks = (list(picks) + list(range(n)))[:n]
  for p in picks:
    k = _i(p) % len(pool)
    while pool[k].upper() in used:
      k = (k + 1) % len(pool)
    used.add(pool[k].upper())
    out.append(pool[k])
  return out


def build(case, out):
  tn = _distinct(TABLE_POOL, case.get('tn') or [], 3)
  T, R, U = tn
  cn = (list(case.get('cn') or []) + list(range(15)))[:15]
  tcols = _distinct(COL_POOL, cn[:8], 8)       # 5 text, ref, refs, pick
  rcols = _distinct(COL_POOL, cn[8:12], 4)
  ucols = _distinct(COL_POOL, cn[12:15], 3)
  d = Doc()
  def text(c): return {'id': c, 'type': 'Text', 'isFormula': False}
  r = d.apply([
    ['AddTable', U, [text(c) for c in ucols]],
    ['AddTable', R, [text(c) for c in rcols]],
    ['AddTable', T, [text(c) for c in tcols[:5]] + [
      {'id': tcols[5], 'type': 'Ref:' + R, 'isFormula': False},
      {'id': tcols[6], 'type': 'RefList:' + R, 'isFormula': False},
      {'id': tcols[7], 'type': 'Choice', 'isFormula': False,
       'widgetOptions': json.dumps({'choices': ['a', u'é'], 'alignment': 'left'})}]]])
  if not r.ok:
    out.fail('C17:setup', 'cannot create tables: %r' % (r.error,))
    return None, None
  tables = {'T': T, 'R': R, 'U': U}
  cols = {'T': tcols, 'R': rcols, 'U': ucols}
  tref = {t['tableId']: t['id'] for t in d.tables_meta()}
  cref = {(c['parentId'], c['colId']): c['id'] for c in d.columns_meta()}
  bad_texts = set()

  # user attributes
  attrs = []
  for i, a in enumerate((case.get('attrs') or [[0, 0, 0]])[:2]):
    a = (list(a) + [0, 0, 0])[:3]
    name = ATTR_NAMES[(_i(a[0]) + i) % len(ATTR_NAMES)]
    if name in [x[0] for x in attrs]:
      continue
    role = ['U', 'U', 'R', 'T', 'U', 'R'][_i(a[1]) % 6]
    lc = cols[role][_i(a[2]) % len(cols[role])]
    attrs.append((name, role, lc))
  attr_cols = {a[0]: cols[a[1]] for a in attrs}
  attr_names = [a[0] for a in attrs]

  def rctx(kind, self_role, choice_role=None):
    selfc = cols[self_role] if self_role else []
    other = [c for r_ in ('T', 'R', 'U') if r_ != self_role for c in cols[r_]]
    return RenderCtx(kind, selfc, other, cols[choice_role] if choice_role else None, attr_names, attr_cols)

  # ACL resources and rules (one bundle, negative ids as the client does)
  uas = [['AddRecord', '_grist_ACLResources', -1, {'tableId': '*', 'colIds': '*'}]]
  attr_uas = []
  for name, role, lc in attrs:
    attr_uas.append(['AddRecord', '_grist_ACLRules', None, {
      'resource': -1, 'memo': 'attr-' + name,
      'userAttributes': json.dumps({'name': name, 'tableId': tables[role], 'lookupColId': lc, 'charId': 'Email'})}])
  # a user-attribute rule may have been added after the rules that use it (higher row id): both orders occur
  attrs_last = bool(case.get('attrs_last'))
  out.cls('acl:attr-rules-after-formula-rules' if attrs_last else 'acl:attr-rules-first')
  if not attrs_last:
    uas.extend(attr_uas)
  resources = [(None, '*')]      # index 0 = default
  for i, rs in enumerate((case.get('resources') or [[0, 3]])[:3]):
    rs = (list(rs) + [0, 0])[:2]
    role = ['T', 'T', 'R', 'T'][_i(rs[0]) % 4]
    mask = _i(rs[1])
    picked = [c for j, c in enumerate(cols[role]) if (mask >> j) & 1]
    colids = ','.join(picked) if picked else '*'
    uas.append(['AddRecord', '_grist_ACLResources', -(i + 2), {'tableId': tables[role], 'colIds': colids}])
    resources.append((role, colids))
  rule_plan = []
  for i, ru in enumerate((case.get('rules') or [])[:4]):
    ru = (list(ru) + [0, None])[:2]
    ri = _i(ru[0]) % len(resources)
    role = resources[ri][0]
    txt, is_bad = render_top(rctx('acl', role), ru[1])
    rule_plan.append((i, ri, txt, is_bad))
    uas.append(['AddRecord', '_grist_ACLRules', None, {
      'resource': -(ri + 1), 'memo': 'rule-%d' % i, 'permissionsText': ['all', 'none', '+R', '-U'][i % 4],
      'aclFormula': '' if is_bad else txt}])
    if is_bad:
      bad_texts.add(txt)
  if attrs_last:
    uas.extend(attr_uas)
  r = d.apply(uas)
  if not r.ok:
    out.fail('C17:setup', 'cannot add ACL records: %r' % (r.error,), uas)
    return None, None
  bad_updates = []
  rules_by_memo = {x['memo']: x['id'] for x in d.meta('_grist_ACLRules')}
  for i, ri, txt, is_bad in rule_plan:
    if is_bad:
      bad_updates.append(['UpdateRecord', '_grist_ACLRules', rules_by_memo['rule-%d' % i], {'aclFormula': txt}])
    out.cls('acl-rule:' + ('unparsable' if is_bad else 'on-default-resource' if resources[ri][0] is None
                           else 'on-table-' + resources[ri][0]))

  # dropdown conditions
  uas = []
  fields = d.meta('_grist_Views_section_field')
  used_cols = set()
  for i, dd in enumerate((case.get('dropdowns') or [])[:3]):
    dd = (list(dd) + [0, 0, None])[:3]
    which = ['ref', 'refs', 'pick', 'ref', 'refs', 'text'][_i(dd[0]) % 6]
    cid = {'ref': tcols[5], 'refs': tcols[6], 'pick': tcols[7], 'text': tcols[0]}[which]
    where = ['column', 'field', 'column'][_i(dd[1]) % 3]
    if (cid, where) in used_cols:
      continue
    used_cols.add((cid, where))
    txt, is_bad = render_top(rctx('dropdown', 'T', 'R' if which in ('ref', 'refs') else None), dd[2])
    wo = {'alignment': 'left', 'dropdownCondition': {'text': txt}}
    if which == 'pick':
      wo['choices'] = ['a', u'é']
    ref = cref[(tref[T], cid)]
    if where == 'column':
      if is_bad:
        bad_updates.append(['UpdateRecord', '_grist_Tables_column', ref, {'widgetOptions': json.dumps(wo)}])
      else:
        uas.append(['ModifyColumn', T, cid, {'widgetOptions': json.dumps(wo)}])
    else:
      fs = [f['id'] for f in fields if f['colRef'] == ref]
      if not fs:
        continue
      if is_bad:
        bad_updates.append(['UpdateRecord', '_grist_Views_section_field', fs[0], {'widgetOptions': json.dumps(wo)}])
      else:
        uas.append(['UpdateRecord', '_grist_Views_section_field', fs[0], {'widgetOptions': json.dumps(wo)}])
    if is_bad:
      bad_texts.add(txt)
    out.cls('dropdown:%s:%s%s' % (where, which, ':unparsable' if is_bad else ''))

  # triggers
  trig_bad = []
  for i, tg in enumerate((case.get('triggers') or [])[:2]):
    tg = (list(tg) + [0, 0, None])[:3]
    role = ['T', 'T', 'R', 'T'][_i(tg[0]) % 4]
    mode = _i(tg[1]) % 3
    txt, is_bad = render_top(rctx('trigger', role), tg[2])
    if mode == 0:
      cond = txt
    elif mode == 1:
      cond = json.dumps({'text': txt})
    else:
      cond = json.dumps({'config': {'columnFilters': [{'colRef': cref[(tref[tables[role]], cols[role][0])],
                                                       'filter': '{"included": ["x"]}'}],
                                    'customExpression': txt}})
    if is_bad:
      bad_texts.add(txt)
      if mode == 0:
        cond = json.dumps({'text': txt})
      uas.append(['AddRecord', '_grist_Triggers', None, {'tableRef': tref[tables[role]], 'memo': 'trig-%d' % i}])
      trig_bad.append(('trig-%d' % i, cond))
    else:
      uas.append(['AddRecord', '_grist_Triggers', None, {'tableRef': tref[tables[role]], 'memo': 'trig-%d' % i,
                                                         'condition': cond}])
    out.cls('trigger:%s:on-%s%s' % (['plain-text', 'json-text', 'config'][mode], role, ':unparsable' if is_bad else ''))
  if uas:
    r = d.apply(uas)
    if not r.ok:
      out.fail('C17:setup', 'cannot store conditions: %r' % (r.error,), uas)
      return None, None
  trig_by_memo = {x['memo']: x['id'] for x in d.meta('_grist_Triggers')}
  for memo, cond in trig_bad:
    bad_updates.append(['UpdateRecord', '_grist_Triggers', trig_by_memo[memo], {'condition': cond}])
  if bad_updates:
    r = d.apply([['ApplyDocActions', bad_updates]])
    if not r.ok:
      out.fail('C17:setup', 'cannot store unparsable texts: %r' % (r.error,), bad_updates)
      return None, None
  stt = {'tables': tables, 'cols': cols, 'tref': {k: tref[v] for k, v in tables.items()},
         'cref': {(k, c): cref[(tref[tables[k]], c)] for k in cols for c in cols[k]}, 'bad': bad_texts}
  return d, stt


# ---------------------------------------------------------------------------
# observation

def _loads(s):
  try:
    return json.loads(s) if isinstance(s, str) and s else None
  except ValueError:
    return None


def observe(d):
  o = {}
  o['tables'] = {t['id']: t['tableId'] for t in d.tables_meta()}
  o['cols'] = {c['id']: c for c in d.columns_meta()}
  o['fields'] = {f['id']: f for f in d.meta('_grist_Views_section_field')}
  o['resources'] = {r['id']: r for r in d.meta('_grist_ACLResources')}
  o['rules'] = {r['id']: r for r in d.meta('_grist_ACLRules')}
  o['triggers'] = {r['id']: r for r in d.meta('_grist_Triggers')}
  return o


def formulas_of(o):
  """Every stored predicate formula: key -> dict(where, text, parsed (decoded), ctx_info, container)."""
  out = {}
  attr_tables = {}
  for rid, r in sorted(o['rules'].items()):
    ua = _loads(r['userAttributes'])
    if isinstance(ua, dict):
      attr_tables[ua.get('name')] = ua.get('tableId')
  for rid, r in sorted(o['rules'].items()):
    if r['aclFormula']:
      res = o['resources'].get(r['resource'])
      tid = res['tableId'] if res and res['tableId'] != '*' else None
      out[('acl', rid, '')] = {'where': 'acl', 'text': r['aclFormula'], 'parsed': _loads(r['aclFormulaParsed']),
                               'has_parsed': bool(r['aclFormulaParsed']),
                               'ctx': Ctx('acl', tid, None, dict(attr_tables))}
  def dropdown(kind, key, wo_text, colrec):
    wo = _loads(wo_text)
    if isinstance(wo, dict) and isinstance(wo.get('dropdownCondition'), dict) and \
       isinstance(wo['dropdownCondition'].get('text'), str):
      dc = wo['dropdownCondition']
      typ = colrec['type']
      choice = typ.split(':', 1)[1] if typ.startswith('Ref:') or typ.startswith('RefList:') else None
      out[(kind, key, '')] = {'where': kind, 'text': dc['text'], 'parsed': _loads(dc.get('parsed')),
                              'has_parsed': 'parsed' in dc,
                              'ctx': Ctx('dropdown', o['tables'].get(colrec['parentId']), choice),
                              'rest': dict((k, v) for k, v in wo.items() if k != 'dropdownCondition')}
  for cid, c in sorted(o['cols'].items()):
    dropdown('dropdown-col', cid, c['widgetOptions'], c)
  for fid, f in sorted(o['fields'].items()):
    if f['colRef'] in o['cols']:
      dropdown('dropdown-field', fid, f['widgetOptions'], o['cols'][f['colRef']])
  for tid_, t in sorted(o['triggers'].items()):
    cd = _loads(t['condition'])
    if not isinstance(cd, dict):
      continue
    ctx = Ctx('trigger', o['tables'].get(t['tableRef']))
    if isinstance(cd.get('text'), str) and cd['text']:
      out[('trigger-text', tid_, '')] = {'where': 'trigger-text', 'text': cd['text'], 'parsed': cd.get('parsed'),
                                         'has_parsed': 'parsed' in cd, 'ctx': ctx,
                                         'rest': dict((k, v) for k, v in cd.items() if k not in ('text', 'parsed'))}
    cfg = cd.get('config')
    if isinstance(cfg, dict) and isinstance(cfg.get('customExpression'), str) and cfg['customExpression']:
      out[('trigger-config', tid_, '')] = {
        'where': 'trigger-config', 'text': cfg['customExpression'], 'parsed': cfg.get('customExpressionParsed'),
        'has_parsed': 'customExpressionParsed' in cfg, 'ctx': ctx,
        'rest': dict((k, v) for k, v in cfg.items() if k not in ('customExpression', 'customExpressionParsed'))}
  return out


# ---------------------------------------------------------------------------
# renames

COL_PATHS = ['RenameColumn', 'RenameColumn', 'meta-colId', 'meta-colId', 'label-tied', 'bulk2-colId', 'RenameColumn',
             'meta-colId']


def resolve_rename(stt, obs, spec):
  what = _i(spec.get('what') or 0) % 20
  roles = ['T', 'R', 'U']
  labels = []
  if what == 19 or what == 18:
    role = roles[_i(spec.get('ent') or 0) % 3]
    cur = obs['tables'][stt['tref'][role]]
    name = (PLAIN + ODD)[_i(spec.get('ti') or 0) % len(PLAIN + ODD)] or 'Tbl'
    path = _i(spec.get('path') or 0) % 2
    uas = [['RenameTable', cur, name]] if path == 0 else \
          [['UpdateRecord', '_grist_Tables', stt['tref'][role], {'tableId': name}]]
    return uas, ['rename:table-' + role, 'path:' + ['RenameTable', 'meta-tableId'][path]]
  role = ['T', 'T', 'T', 'R', 'R', 'U'][what % 6]
  ents = [(role, c) for c in stt['cols'][role]]
  allents = [(r_, c) for r_ in roles for c in stt['cols'][r_]]
  if what % 4:
    # prefer a column that some stored formula refers to through an entitled form (so that the rename meets a
    # reference): collect the (table id, column id) keys the reference model looks up
    probe = _Probe()
    for f in formulas_of(obs).values():
      tree = parse_indep(f['text'])
      if tree is not None:
        Renamer(f['ctx'], probe).visit(tree)
    hot = [(r_, c) for r_ in roles for c in stt['cols'][r_]
           if (obs['tables'][stt['tref'][r_]], obs['cols'][stt['cref'][(r_, c)]]['colId']) in probe.seen]
    if hot:
      ents = hot
      role = ents[_i(spec.get('ent') or 0) % len(ents)][0]
  ent = ents[_i(spec.get('ent') or 0) % len(ents)]
  ref = stt['cref'][ent]
  cur = obs['cols'][ref]['colId']
  tname = obs['tables'][stt['tref'][role]]
  tk, ti = _i(spec.get('tk') or 0) % 6, _i(spec.get('ti') or 0)
  others = [c['colId'] for r_, c in sorted(obs['cols'].items())
            if c['parentId'] == stt['tref'][role] and c['colId'] != cur and not c['colId'].startswith('gristHelper')
            and c['colId'] != 'manualSort']
  everywhere = sorted(set(c['colId'] for c in obs['cols'].values() if c['parentId'] in stt['tref'].values()
                          and c['colId'] != cur and c['colId'] != 'manualSort'))
  if tk in (0, 1):
    name, kind = PLAIN[ti % len(PLAIN)], 'plain'
  elif tk == 2:
    name, kind = ODD[ti % len(ODD)], 'needs-sanitising-or-keyword'
  elif tk == 3 and others:
    name, kind = others[ti % len(others)], 'collides-in-table'
  elif tk == 4 and everywhere:
    name, kind = everywhere[ti % len(everywhere)], 'id-used-in-another-table'
  else:
    name, kind = cur + '2', 'old-id-plus-suffix'
  path = COL_PATHS[_i(spec.get('path') or 0) % len(COL_PATHS)]
  labels += ['rename:column-of-' + role, 'path:' + path, 'target:' + kind]
  if path == 'RenameColumn':
    uas = [['RenameColumn', tname, cur, name]]
  elif path == 'meta-colId':
    uas = [['UpdateRecord', '_grist_Tables_column', ref, {'colId': name}]]
  elif path == 'label-tied':
    uas = [['UpdateRecord', '_grist_Tables_column', ref, {'label': name}]]
  else:
    ent2 = allents[_i(spec.get('ent2') or 0) % len(allents)]
    if ent2 == ent:
      uas = [['UpdateRecord', '_grist_Tables_column', ref, {'colId': name}]]
    else:
      uas = [['BulkUpdateRecord', '_grist_Tables_column', [ref, stt['cref'][ent2]],
              {'colId': [name, PLAIN[(ti + 1) % len(PLAIN)]]}]]
  return uas, labels


# ---------------------------------------------------------------------------
# judgement

def judge(stt, before, after, reply, out, uas):
  """Returns True when some formula had both a changed and an unchanged reference."""
  fb, fa = formulas_of(before), formulas_of(after)
  if not reply.ok:
    out.cls('rejected')
    if isinstance(reply.error, SyntaxError) and any(parse_indep(f['text']) is None for f in fb.values()):
      # process_renames() calls get_dollar_replacer() outside its try block
      out.fail('C17:rename-raises-SyntaxError-on-unparsable-formula',
               'rename %r raised %r: a stored formula that Python cannot parse (%r) makes every column rename fail '
               'instead of being left untouched' % (uas, reply.error,
                                                    [f['text'] for f in fb.values() if parse_indep(f['text']) is None][:2]))
      return False
    if fb != fa and any(fb[k]['text'] != fa.get(k, {}).get('text') for k in fb):
      out.fail('C17:rejected-rename-left-changes', 'rename %r was rejected (%r) but stored formulas changed' % (
        uas, reply.error))
    return False
  # renames that actually happened: {(tableId before, colId before): colId after}
  renames = {}
  for cr, c in before['cols'].items():
    if cr in after['cols'] and after['cols'][cr]['colId'] != c['colId']:
      renames[(before['tables'][c['parentId']], c['colId'])] = after['cols'][cr]['colId']
  table_renames = {before['tables'][t]: after['tables'][t] for t in before['tables']
                   if t in after['tables'] and before['tables'][t] != after['tables'][t]}
  name_pairs = set((k[1], v) for k, v in renames.items())
  if not renames and not table_renames:
    out.cls('noop-rename')
  nontrivial = False

  if set(fb) != set(fa):
    out.fail('C17:formula-set-changed', 'after %r the set of stored formulas changed: %r' % (
      uas, sorted(set(fb) ^ set(fa))))
    return False
  for key in sorted(fb, key=repr):
    b, a = fb[key], fa[key]
    where = b['where']
    old, new = b['text'], a['text']
    loc = '%s %r' % (where, key[1])
    if b.get('rest') != a.get('rest'):
      out.fail('C17:%s:other-options-changed' % where, 'after %r the options next to %s changed from %r to %r' % (
        uas, loc, b.get('rest'), a.get('rest')))
    if old in stt['bad'] or parse_indep(old) is None:
      out.cls('judged:unparsable:' + where)
      if new != old or a['parsed'] != b['parsed'] or a['has_parsed'] != b['has_parsed']:
        out.fail('C17:%s:unparsable-changed' % where,
                 'after %r the unparsable %s changed from %r to %r (parsed %r -> %r)' % (
                   uas, loc, old, new, b['parsed'], a['parsed']))
      continue
    ctx = b['ctx']
    tr = Renamer(ctx, renames)
    exp_tree = tr.visit(parse_indep(old))
    got_tree = parse_indep(new)
    out.cls('judged:' + where)
    if tr.changed:
      out.cls('must-change:' + where)
      if tr.kept:
        nontrivial = True
      if re.search(r'(?<![A-Za-z0-9_])(%s)(?![A-Za-z0-9_])' % '|'.join(re.escape(k[1]) for k in renames), new):
        out.cls('lookalike-with-same-id-kept:' + where)
    if got_tree is None:
      out.fail('C17:%s:became-unparsable' % where, 'after %r the %s %r became %r which does not parse' % (
        uas, loc, old, new))
      continue
    if ast.dump(exp_tree) != ast.dump(got_tree):
      role, e, g = first_name_difference(exp_tree, got_tree)
      direction = 'not-renamed' if (e is not None and (g, e) in name_pairs or
                                    (e or '').startswith(DMARK) and (g[len(DMARK):], e[len(DMARK):]) in name_pairs) \
          else 'wrongly-renamed' if e is not None else 'changed'
      sig = 'C17:%s:%s:%s' % (where, direction, role)
      if where == 'dropdown-field' and direction == 'not-renamed' and new == old:
        sig = 'C17:dropdown-field:not-renamed'     # perform_dropdown_condition_renames only visits columns
      out.fail(sig,
               'after %r the %s reads %r (was %r): %s reference %r should be %r' % (uas, loc, new, old, role, g, e),
               {'old': old, 'new': new, 'renames': sorted([list(k), v] for k, v in renames.items()),
                'self_table': ctx.self_table, 'choice_table': ctx.choice_table, 'attr_tables': ctx.attr_tables})
      continue
    td = token_diff(old, new, name_pairs, set())
    if td:
      out.fail('C17:%s:text:%s' % (where, td[0]), 'after %r the %s changed from %r to %r: %s %r' % (
        uas, loc, old, new, td[0], td[1]))
      continue
    # stored parsed form
    if b['has_parsed'] and b['parsed'] is not None:
      exp_parsed = rename_tree(b['parsed'], ctx, renames)
      if eqv.canon(a['parsed']) != eqv.canon(exp_parsed):
        out.fail('C17:%s:parsed-form-stale' % where,
                 'after %r the parsed form of %s is %r; the old tree with the renames applied is %r (text %r)' % (
                   uas, loc, a['parsed'], exp_parsed, new))
        continue
    try:
      ref_parsed = _pf.parse_predicate_formula(new)
    except Exception as e:     # pragma: no cover  (text is inside the subset by construction)
      ref_parsed = ['#error', repr(e)]
    if b['has_parsed'] and eqv.canon(a['parsed']) != eqv.canon(json.loads(json.dumps(ref_parsed))):
      out.fail('C17:%s:parsed-form-inconsistent' % where,
               'after %r the parsed form of %s is %r but its text %r parses to %r' % (
                 uas, loc, a['parsed'], new, ref_parsed))

  # ACL resources: colIds
  for rid, rb in sorted(before['resources'].items()):
    ra = after['resources'].get(rid)
    if ra is None:
      out.fail('C17:resource-removed', 'resource %r disappeared after %r' % (rid, uas)); continue
    exp = rb['colIds']
    if rb['colIds'] and rb['colIds'] != '*':
      exp = ','.join(renames.get((rb['tableId'], c), c) for c in rb['colIds'].split(','))
      if exp != rb['colIds']:
        out.cls('must-change:resource-colIds')
    if ra['colIds'] != exp:
      out.fail('C17:resource-colIds', 'after %r resource %r (%s) has colIds %r, expected %r' % (
        uas, rid, rb['tableId'], ra['colIds'], exp))
    if not table_renames and ra['tableId'] != rb['tableId']:
      out.fail('C17:resource-tableId', 'after %r resource %r has tableId %r (was %r)' % (
        uas, rid, ra['tableId'], rb['tableId']))
  # ACL rules: userAttributes and every other field
  for rid, rb in sorted(before['rules'].items()):
    ra = after['rules'].get(rid)
    if ra is None:
      out.fail('C17:rule-removed', 'rule %r disappeared after %r' % (rid, uas)); continue
    ub, ua_ = _loads(rb['userAttributes']), _loads(ra['userAttributes'])
    if isinstance(ub, dict):
      exp = dict(ub)
      new = renames.get((ub.get('tableId'), ub.get('lookupColId')))
      if new is not None:
        exp['lookupColId'] = new
        out.cls('must-change:lookupColId')
      if ub.get('tableId') in table_renames:
        exp['tableId'] = (ua_ or {}).get('tableId')       # not judged here (see ASSUMPTIONS)
      if ua_ != exp:
        out.fail('C17:userattr-lookupColId', 'after %r rule %r has userAttributes %r, expected %r' % (
          uas, rid, ua_, exp))
    elif rb['userAttributes'] != ra['userAttributes']:
      out.fail('C17:userattr-changed', 'after %r rule %r userAttributes %r -> %r' % (
        uas, rid, rb['userAttributes'], ra['userAttributes']))
    for k in sorted(rb):
      if k not in ('aclFormula', 'aclFormulaParsed', 'userAttributes') and eqv.canon(rb[k]) != eqv.canon(ra.get(k)):
        out.fail('C17:rule-field-changed:' + k, 'after %r rule %r field %s changed %r -> %r' % (
          uas, rid, k, rb[k], ra.get(k)))
  for tid_, tb in sorted(before['triggers'].items()):
    ta = after['triggers'].get(tid_)
    if ta is None:
      out.fail('C17:trigger-removed', 'trigger %r disappeared after %r' % (tid_, uas)); continue
    for k in sorted(tb):
      if k != 'condition' and eqv.canon(tb[k]) != eqv.canon(ta.get(k)):
        out.fail('C17:trigger-field-changed:' + k, 'after %r trigger %r field %s changed %r -> %r' % (
          uas, tid_, k, tb[k], ta.get(k)))
  return nontrivial and bool(renames)


def run_case(case):
  out = Outcome()
  if case.get('concrete') is not None:
    return run_concrete(case, out)
  d, stt = build(case, out)
  if d is None:
    return out
  specs = list(case.get('renames') or [])[:2]
  if not specs:
    out['skipped'] = True
    return out
  before = observe(d)
  nontrivial = False
  for i, spec in enumerate(specs):
    uas, labels = resolve_rename(stt, before, spec)
    r = d.apply(uas)
    after = observe(d)
    out.cls(*labels)
    if i:
      out.cls('second-rename')
    if judge(stt, before, after, r, out, uas):
      nontrivial = True
    before = after
  out['concrete'] = d.concrete_history()[1:]
  out['key'] = eqv.digest(out['concrete'])
  out['nontrivial'] = nontrivial
  return out


def run_concrete(case, out):
  """{'concrete': [bundle...], 'n_renames': k, 'bad': [texts]}: exact user actions; last k bundles are renames."""
  d = Doc()
  bundles = [(b[1] if (len(b) == 2 and isinstance(b[0], bool)) else b) for b in case['concrete']]
  n_ren = max(1, int(case.get('n_renames', 1)))
  for uas in bundles[:len(bundles) - n_ren]:
    r = d.apply(uas)
    if not r.ok:
      return out.fail('C17:setup', 'concrete setup bundle rejected: %r' % (r.error,), uas)
  stt = {'bad': set(case.get('bad') or [])}
  before = observe(d)
  for uas in bundles[len(bundles) - n_ren:]:
    r = d.apply(uas)
    after = observe(d)
    judge(stt, before, after, r, out, uas)
    before = after
  out['concrete'] = d.concrete_history()[1:]
  out['nontrivial'] = True
  return out
