"""C23 Changing a column's type converts each stored value.

Table Src with data column X of type T1 (generated contents: right-type values, alt text, None, '',
other-typed primitives), sibling data columns, formula columns that do / do not read X, a second table
Other (reference target, with a formula reading Src.X through a lookup), optionally a summary table
grouped by X or by a sibling, removed rows, a two-way reference. X's type is changed T1 -> T2 for every
ordered pair of the 11 data types (enumerated) and for generated pairs/contents, through ModifyColumn
or through the _grist_Tables_column record.
"""
import json
from hypothesis import strategies as st
from ..runner import Outcome
from .. import env
env.setup()
import objtypes   # noqa: E402
from .. import ops as O, eqv  # noqa: E402
from ..doc import Doc  # noqa: E402

ID = 'C23'
LEVEL = 'exploration'
TECHNIQUE = 'enumeration of all type pairs + PBT over contents; conversion oracle + frame check on the whole document'
RULE = ('case = (T1, T2, contents of X, sibling contents, route, extras). Enumerated part: every ordered pair of '
        '{Text, Int, Numeric, Bool, Date, DateTime:<zone>, Choice, ChoiceList, Ref:Other, RefList:Other, Any} plus '
        'DateTime zone changes, each with 2 (quick) / 4 (thorough) fixed content galleries of 8 cells (right-type, None, "", '
        'alt text that parses as number / bool / ISO date / JSON list / RecordList repr, other-typed primitives) and alternating route '
        '(ModifyColumn / UpdateRecord / BulkUpdateRecord on _grist_Tables_column; generated part also one BulkUpdateRecord changing X and the Int sibling K -> Text together). Generated part: random pair, 0-8 cells from '
        'value specs, route, optional summary table grouped by X or by sibling S, removed rows, two-way reference '
        '(Ref/RefList only), widgetOptions sent along, an earlier unjudged type change T0 -> T1 (contents left behind by a conversion). Non-trivial = the change succeeded and at least one cell of X '
        'changed its Node-visible value or became alt text; distinct by hash of the concrete user actions.')
ORACLE = ('for every row, encode_object(new stored X) must be Node-equal to encode_object(C(old stored X)) where old stored values '
          'are read (raw_get) before the change and C is the conversion of the NEW type: the usertypes type object of T2 taken '
          'from a separate fixture engine, preceded by the documented column-level adaptation for references (list -> first '
          'element or 0 for Ref; a single non-zero id -> one-element list for RefList); convert() itself yields alt text '
          'where conversion fails. Frame: every other cell of every table (user and metadata) is unchanged except: formula '
          'columns that read X (by construction: Src.F, Src.H, Other.L), summary tables grouped by X, the reverse column of a '
          'two-way reference and its display helper, and the bookkeeping of X itself (type/displayCol/visibleCol of X\'s column '
          'record and of group-by columns derived from X, displayCol/visibleCol of X\'s view fields, widgetOptions when the '
          'request sets them). A type change of a plain column must not raise.')
ASSUMPTIONS = ['the expected value uses usertypes.<T2>.convert (C22 judges that function on its own)',
               'incompatible type changes of a two-way reference column are documented to be rejected (ValueError) and are not judged',
               'Ref/RefList columns point to an existing table; no display columns / trigger formulas on X',
               'dependent formula results and summary tables keyed on X are exempt per the statement (not judged here)']
BUDGET = {'quick': dict(examples=600, shards=12, max_seconds=50),
          'thorough': dict(examples=9000, shards=16, max_seconds=1800)}

ZONES = ['UTC', 'America/New_York', 'Asia/Tokyo']
BASES = ['Text', 'Int', 'Numeric', 'Bool', 'Date', 'DateTime', 'Choice', 'ChoiceList', 'Ref', 'RefList', 'Any']
ALT = ['', 'a', 'foo', '12', '1.5', '-3', 'true', 'No', '0', '2020-01-02', '2020-01-02T03:04:05', '2020-01-02 03:04:05+01:00',
       'a,b', '["a", "b"]', '[1, 2]', '[2]', '[1, -2]', '[]', '[1', 'Other[[1, 2]]', 'é x', '1e3', ' 7 ', 'nan', '1' * 12]

# fixed galleries for the enumerated part: [mode, n, s] specs for ops.cell_value
GALLERIES = [
  [[0, 1, 'a'], [1, 2, '12'], [6, 0, ''], [7, 3, '1.5'], [9, 0, ''], [8, 5, 'true'], [10, 2, 'x'], [11, 1, '2020-01-02']],
  [[2, 0, 'foo'], [3, -1, '-3'], [7, 0, '2020-01-02T03:04:05'], [7, 0, '["a", "b"]'], [4, 9, 'b'], [5, 7, 'a,b'], [7, 1, 'No'], [7, 2, '[1, 2]']],
  [[0, 3, '0'], [1, 0, '[2]'], [7, 0, 'Other[[1, 2]]'], [7, 0, '[]'], [8, 0, '[1'], [10, -1, 'é x'], [7, 0, '1e3'], [7, 0, ' 7 ']],
  [[2, 2, '1.5'], [5, 1, 'true'], [7, 0, '[1, -2]'], [7, 0, 'nan'], [11, 0, '0'], [7, 0, '1' * 12], [4, 4, '12'], [7, 0, '2020-01-02 03:04:05+01:00']],
]


def type_name(base_idx, zone_idx=0):
  b = BASES[int(base_idx) % len(BASES)]
  if b == 'DateTime':
    return 'DateTime:' + ZONES[int(zone_idx) % len(ZONES)]
  if b in ('Ref', 'RefList'):
    return b + ':Other'
  return b


def enumerate_cases(tier):
  n_gal = 2 if tier == 'quick' else 4
  k = 0
  pairs = [(a, b, 0, 0) for a in range(len(BASES)) for b in range(len(BASES)) if a != b]
  dt = BASES.index('DateTime')
  pairs += [(dt, dt, 0, 1), (dt, dt, 1, 2)]
  for g in range(n_gal):
    for (a, b, za, zb) in pairs:
      k += 1
      yield {'from': a, 'to': b, 'zf': (za + g) % 3 if a != b else za, 'zt': (zb + 2 * g) % 3 if a != b else zb,
             'cells': GALLERIES[g], 'sib': [[0, g, 'a'], [7, 1, '12']], 'via': k % 3, 'summary': 0, 'removed': [],
             'twoway': False, 'wopt': False, 'w0': bool(k % 2), 'enum': True}


def strategy(tier):
  spec = st.tuples(st.integers(0, 11), st.integers(-2, 9), st.sampled_from(ALT)).map(list)
  bi = st.sampled_from(list(range(len(BASES))))
  return st.fixed_dictionaries({
    'from': bi, 'to': bi, 'zf': st.integers(0, 2), 'zt': st.integers(0, 2),
    'cells': st.lists(spec, min_size=0, max_size=8),
    'sib': st.lists(spec, min_size=1, max_size=3),
    'via': st.integers(0, 3),
    'summary': st.sampled_from([0, 0, 0, 1, 2, 2]),
    'removed': st.lists(st.integers(0, 7), max_size=2),
    'twoway': st.sampled_from([False, False, False, True]),
    'wopt': st.sampled_from([False, False, True]),
    'w0': st.booleans(),
    'pre': st.one_of(st.none(), st.none(), bi),
  })


def _pad(x, default):
  x = list(x) if isinstance(x, (list, tuple)) else []
  return x + default[len(x):]


# ---------------------------------------------------------------------------
# conversion oracle: type objects from a fixture engine (one per process)

_fx = {}


def type_object(tname):
  if not _fx:
    d = Doc()
    names = [type_name(i, z) for i in range(len(BASES)) for z in (range(3) if BASES[i] == 'DateTime' else [0])]
    cols = [{'id': 'c%d' % i, 'type': t, 'isFormula': False} for i, t in enumerate(names)]
    r = d.apply([['AddTable', 'Other', [{'id': 'A', 'type': 'Text', 'isFormula': False}]],
                 ['AddTable', 'Tt', cols]])
    if not r.ok:
      raise RuntimeError('C23 fixture failed: %r' % (r.error,))
    for i, t in enumerate(names):
      _fx[t] = d.engine.tables['Tt'].get_column('c%d' % i).type_obj
    _fx['#doc'] = d
  return _fx[tname]


def convert_to(tname, raw):
  """The new type's conversion of a stored value."""
  base = tname.split(':')[0]
  v = raw
  if base == 'Ref' and isinstance(v, list):
    v = v[0] if v else 0
  elif base == 'RefList' and v and isinstance(v, int):
    v = [v]
  return type_object(tname).convert(v)


def enc(v):
  return eqv.canon(objtypes.encode_object(v))


# ---------------------------------------------------------------------------

def build(case, out):
  d = Doc()
  fi, ti = int(case.get('from', 0)) % len(BASES), int(case.get('to', 1)) % len(BASES)
  t1 = type_name(fi, case.get('zf', 0))
  t2 = type_name(ti, case.get('zt', 0))
  if case.get('twoway'):
    # two-way references exist only between Ref/RefList columns; mostly switch to the compatible sibling type
    fi = BASES.index('Ref') if fi % 2 == 0 else BASES.index('RefList')
    t1 = type_name(fi)
    if ti % 4:
      t2 = type_name(BASES.index('RefList') if fi == BASES.index('Ref') else BASES.index('Ref'))
  if t1 == t2:
    t2 = type_name(ti + 1, case.get('zt', 0))
  t0 = t1
  if isinstance(case.get('pre'), int) and not case.get('twoway'):
    t0 = type_name(case['pre'], case.get('zt', 0))
  r = d.apply([['AddTable', 'Other', [{'id': 'A', 'type': 'Text', 'isFormula': False},
                                      {'id': 'N', 'type': 'Int', 'isFormula': False}]],
               ['BulkAddRecord', 'Other', [None] * 3, {'A': ['a', 'b', 'c'], 'N': [1, 2, 3]}],
               ['AddTable', 'Src', [{'id': 'X', 'type': t0, 'isFormula': False,
                                     'widgetOptions': '{"alignment":"right"}' if case.get('w0') else ''},
                                    {'id': 'S', 'type': 'Text', 'isFormula': False},
                                    {'id': 'K', 'type': 'Int', 'isFormula': False},
                                    {'id': 'R', 'type': 'Ref:Other', 'isFormula': False},
                                    {'id': 'F', 'type': 'Any', 'isFormula': True, 'formula': '$X'},
                                    {'id': 'G', 'type': 'Any', 'isFormula': True, 'formula': '($S, $K, $R.A)'},
                                    {'id': 'H', 'type': 'Text', 'isFormula': True, 'formula': 'repr($F)'}]],
               ['AddColumn', 'Other', 'L', {'type': 'Any', 'isFormula': True,
                                            'formula': '[r.X for r in Src.lookupRecords(R=$id)]'}],
               ['AddColumn', 'Other', 'M', {'type': 'Any', 'isFormula': True,
                                            'formula': '[r.S for r in Src.lookupRecords(R=$id)]'}]])
  if not r.ok:
    raise RuntimeError('C23 setup failed: %r' % (r.error,))
  cells = [_pad(c, [0, 0, 'a']) for c in (case.get('cells') or [])[:8]]
  sib = [_pad(c, [0, 0, 'a']) for c in (case.get('sib') or [])[:3]] or [[0, 1, 'a']]
  n = len(cells)
  if n:
    cv = {'X': [O.cell_value(d, t0, c) for c in cells],
          'S': [O.cell_value(d, 'Text', sib[i % len(sib)]) for i in range(n)],
          'K': [O.cell_value(d, 'Int', sib[(i + 1) % len(sib)]) for i in range(n)],
          'R': [(i % 4) for i in range(n)]}
    r = d.apply([['BulkAddRecord', 'Src', [None] * n, cv]])
    if not r.ok:
      raise RuntimeError('C23 setup (rows) failed: %r' % (r.error,))
  if t0 != t1:
    # an earlier type change (setup, not judged): X now holds what T0 -> T1 left behind
    r = d.apply([['ModifyColumn', 'Src', 'X', {'type': t1}]])
    if not r.ok:
      raise RuntimeError('C23 setup (earlier type change %s -> %s) failed: %r' % (t0, t1, r.error))
    out.cls('doc:after-earlier-type-change')
  rm = sorted(set(1 + int(i) % n for i in (case.get('removed') or [])[:2])) if n else []
  if rm:
    d.apply([['BulkRemoveRecord', 'Src', rm]])
    out.cls('doc:removed-rows')
  src_ref = [t for t in d.tables_meta() if t['tableId'] == 'Src'][0]['id']
  colref = {c['colId']: c['id'] for c in d.columns_meta() if c['parentId'] == src_ref}
  summ = int(case.get('summary', 0)) % 3
  if summ == 1 or (summ == 2 and t1.split(':')[0] in O.GROUPABLE):
    r = d.apply([['CreateViewSection', src_ref, 0, 'record', [colref['S' if summ == 1 else 'X']], None]])
    if not r.ok:
      raise RuntimeError('C23 setup (summary) failed: %r' % (r.error,))
    out.cls('doc:summary-by-' + ('sibling' if summ == 1 else 'X'))
  twoway = bool(case.get('twoway')) and t1.split(':')[0] in ('Ref', 'RefList')
  if twoway:
    r = d.apply([['AddReverseColumn', 'Src', 'X']])
    if not r.ok:
      raise RuntimeError('C23 setup (reverse column) failed: %r' % (r.error,))
    out.cls('doc:two-way-reference')
  return d, t1, t2, colref, twoway


def is_alt(tname, v):
  base = tname.split(':')[0]
  return isinstance(v, str) and base not in ('Text', 'Choice', 'Any')


def run_case(case):
  out = Outcome()
  d, t1, t2, colref, twoway = build(case, out)
  b1, b2 = t1.split(':')[0], t2.split(':')[0]
  if t1 == t2:
    out['skipped'] = True
    return out
  xref = colref['X']
  via = int(case.get('via', 0)) % 4
  both = via == 3 and not case.get('wopt')     # X and the sibling K (Int -> Text) change type in one metadata action
  info = {'type': t2}
  wopt = None
  if case.get('wopt'):
    wopt = json.dumps({'alignment': 'left', 'choices': ['a', 'b']})
    info['widgetOptions'] = wopt
  if via == 0:
    ua = ['ModifyColumn', 'Src', 'X', info]
  elif via == 1:
    ua = ['UpdateRecord', '_grist_Tables_column', xref, info]
  elif both:
    ua = ['BulkUpdateRecord', '_grist_Tables_column', [colref['K'], xref], {'type': ['Text', t2]}]
  else:
    ua = ['BulkUpdateRecord', '_grist_Tables_column', [xref], {k: [v] for k, v in info.items()}]
  judged = [('X', t2)] + ([('K', 'Text')] if both else [])
  # observe before
  rows = list(d.engine.tables['Src'].row_ids)
  old_raws = {cid: {r: d.engine.tables['Src'].get_column(cid).raw_get(r) for r in rows} for cid, _ in judged}
  before = d.snapshot()
  meta_before = {c['id']: c for c in d.columns_meta()}
  rev_ref = meta_before[xref]['reverseCol']
  r = d.apply([ua])
  out['concrete'] = d.concrete_history()[1:]
  out['key'] = eqv.digest(out['concrete'])
  pair = '%s->%s' % (b1 if b1 != b2 else t1, b2 if b1 != b2 else t2)
  out.cls('pair:' + pair, 'via:' + ua[0] + (':_grist_Tables_column' if via else '') + (':two-columns-at-once' if both else ''))
  if wopt:
    out.cls('request:with-widgetOptions')
  if case.get('w0'):
    out.cls('doc:X-has-widgetOptions')
  if not r.ok:
    if twoway and not (b1 in ('Ref', 'RefList') and b2 in ('Ref', 'RefList')):
      out.cls('rejected:two-way-incompatible-type(not judged)')
      return out
    if twoway:
      out.cls('rejected:two-way(not judged): %s' % type(r.error).__name__)
      return out
    out.fail('C23:type-change-raised:%s' % type(r.error).__name__,
             'changing Src.X from %s to %s raised %r' % (t1, t2, r.error), {'action': ua})
    return out
  after = d.snapshot()
  new_rows = list(d.engine.tables['Src'].row_ids)
  if new_rows != rows:
    out.fail('C23:row-ids-changed', 'rows of Src changed from %r to %r' % (rows, new_rows))
    return out
  changed = alt = 0
  for cid, tnew in judged:
    col2 = d.engine.tables['Src'].get_column(cid)
    bnew = tnew.split(':')[0]
    for row in rows:
      old = old_raws[cid][row]
      exp = convert_to(tnew, old)
      got = col2.raw_get(row)
      e_old, e_exp, e_got = enc(old), enc(exp), enc(got)
      view_got = after['Src'][cid].get(row)
      if view_got != e_got:
        out.fail('C23:fetch-differs-from-stored', '%s[%s]: fetch_table reports %r but the column stores %r' % (
          cid, row, view_got, e_got))
        return out
      if e_got != e_exp:
        if e_got == e_old:
          kind = 'value-not-converted'
        elif is_alt(tnew, exp) and not isinstance(got, str):
          kind = 'converted-where-alt-text-expected'
        elif isinstance(got, str) and not isinstance(exp, str):
          kind = 'alt-text-where-conversion-expected'
        else:
          kind = 'wrong-converted-value'
        out.fail('C23:%s:%s' % (kind, bnew), 'Src.%s %s -> %s: row %s stored %r became %r, but %s.convert gives %r' % (
          cid, t1 if cid == 'X' else 'Int', tnew, row, objtypes.encode_object(old), objtypes.encode_object(got), tnew,
          objtypes.encode_object(exp)),
          {'row': row, 'old': objtypes.encode_object(old), 'got': objtypes.encode_object(got),
           'expected': objtypes.encode_object(exp), 'from': t1 if cid == 'X' else 'Int', 'to': tnew, 'column': cid})
        return out
      if e_exp != e_old:
        changed += 1
      if is_alt(tnew, exp):
        alt += 1
  # frame
  tmeta = {t['id']: t for t in d.tables_meta()}
  meta_after = {c['id']: c for c in d.columns_meta()}
  derived = set(cid for cid, c in meta_after.items() if c['summarySourceCol'] == xref)
  exempt_tables = set(tmeta[meta_after[cid]['parentId']]['tableId'] for cid in derived)
  own_cols = set([xref]) | derived
  if both:
    own_cols.add(colref['K'])
  own_fields = set(f['id'] for f in d.meta('_grist_Views_section_field') if f['colRef'] in own_cols)
  exempt_cells = set([('Src', 'X'), ('Src', 'F'), ('Src', 'H'), ('Other', 'L')])
  if both:
    exempt_cells.update([('Src', 'K'), ('Src', 'G')])      # G reads K
  if rev_ref:
    rc = meta_before[rev_ref]
    exempt_cells.add((tmeta[rc['parentId']]['tableId'], rc['colId']))
    if rc['displayCol'] and rc['displayCol'] in meta_before:
      exempt_cells.add((tmeta[rc['parentId']]['tableId'], meta_before[rc['displayCol']]['colId']))
  for cid, c in meta_after.items():
    # summary tables of Src get a same-named formula column SUM($group.X) when X is numeric: it reads X
    if c['colId'] in [j[0] for j in judged] and c['isFormula'] and tmeta[c['parentId']]['summarySourceTable']:
      exempt_cells.add((tmeta[c['parentId']]['tableId'], c['colId']))
      if c['colId'] == 'X':
        out.cls('doc:summary-with-SUM(X)-column')
  structural, cells = eqv.cells_diff(before, after)
  structural = [s for s in structural if s[0] not in exempt_tables]
  if structural:
    out.fail('C23:frame:structure-changed', 'type change %s -> %s changed table shapes: %r' % (t1, t2, structural[:3]),
             {'action': ua})
    return out
  for (t, c, row, va, vb) in cells:
    if t in exempt_tables or (t, c) in exempt_cells:
      continue
    if t == '_grist_Tables_column' and row in own_cols:
      if c in ('type', 'displayCol', 'visibleCol'):
        continue
      if c == 'widgetOptions' and wopt is not None:
        continue
    if t == '_grist_Views_section_field' and row in own_fields and c in ('displayCol', 'visibleCol'):
      continue
    if t.startswith('_grist_'):
      where = 'metadata:%s.%s' % (t, c)
    elif any(x['tableId'] == t and x['summarySourceTable'] for x in tmeta.values()):
      where = 'summary-table-not-keyed-on-X'
    elif (t, c) in (('Src', 'G'), ('Other', 'M')):
      where = 'independent-formula'
    else:
      where = 'other-data-cell'
    out.fail('C23:frame:%s' % where, 'type change %s -> %s changed %s.%s[%s]: %r -> %r' % (t1, t2, t, c, row, va, vb),
             {'action': ua, 'all': [list(x) for x in cells[:8]]})
    return out
  # X's own record
  xa = meta_after[xref]
  if xa['type'] != t2:
    out.fail('C23:type-not-recorded', 'column record of X has type %r after changing to %r' % (xa['type'], t2))
    return out
  if wopt is not None and xa['widgetOptions'] != wopt:
    out.fail('C23:widget-options-not-recorded', 'widgetOptions %r' % (xa['widgetOptions'],))
    return out
  if changed:
    out.cls('effect:value-changed')
  if alt:
    out.cls('effect:alt-text')
  if not changed and not alt:
    out.cls('effect:none')
  out['nontrivial'] = bool(changed or alt)
  return out
