"""C01 Undo restores the exact prior document (history invariant)."""
from hypothesis import strategies as st
from ..runner import Outcome
from .. import ops as O, eqv
from ..hist import HistoryRun, bundle_sig, diff_locus

ID = 'C01'
LEVEL = 'exploration'
TECHNIQUE = 'stateful property-based testing (generated user-action histories), history invariant oracle'
RULE = ('case = prelude (2 typed tables, rows, ref, formulas) + up to 12 bundles of 1-2 abstract ops from the '
        'full user-action vocabulary (profile general/schema), resolved against the live document; every '
        'successful bundle is undone (mode 0: whole history in reverse; mode 1: immediately, then re-applied; '
        'mode 2: both). Non-trivial = history with >=1 successful schema action, >=1 successful record action '
        'and a formula column alive; distinct by hash of the concrete user actions.')
ORACLE = ('snapshot (all tables incl. metadata, formulas included, Node-observable equality) after '
          'ApplyUndoActions(undo_i) must equal the snapshot stored before bundle i; the last comparison is '
          'against the post-InitNewDoc state; a raising undo is a violation')
ASSUMPTIONS = ['only bundles that succeeded are undone, in strict reverse order (test_undo.py: out-of-order undo may be refused)',
               'undo lists are sent back verbatim as reprs via ApplyUndoActions (as Node does)',
               'generators follow DESIGN.md 2.7 (tables/columns added through user actions; no Any data columns are '
               'excluded here since AddTable accepts them; table ids avoid names of imported functions)']
BUDGET = {'quick': dict(examples=320, shards=16, max_seconds=55),
          'thorough': dict(examples=12000, shards=16, max_seconds=900)}
SHRINK_BUDGET = {'quick': 120, 'thorough': 500}


def strategy(tier):
  big = tier == 'thorough'
  return st.one_of(
    st.fixed_dictionaries({'mode': st.integers(0, 2), 'h': O.history('general', 1, 14 if big else 10)}),
    st.fixed_dictionaries({'mode': st.integers(0, 2), 'h': O.history('schema', 1, 14 if big else 10)}),
  )


def run_case(case):
  out = Outcome()
  mode = int(case.get('mode', 0)) % 3
  hr = HistoryRun(case['h'])
  stack = []   # (before_snapshot, undo, uas)

  def on_step(s):
    if not s.reply.ok:
      return None
    undo = s.reply.undo
    if mode in (1, 2):
      r = hr.doc.apply([['ApplyUndoActions', undo]])
      sig = bundle_sig(s.uas)
      if not r.ok:
        out.fail('C01:undo-raised:' + sig, 'immediate undo of %r raised %r' % (s.uas, r.error))
        return True
      now = hr.doc.snapshot()
      d = eqv.diff(s.before, now)
      if d:
        out.fail('C01:undo-mismatch:%s:%s' % (sig, diff_locus(d)),
                 'state after immediate undo of %r differs from state before it' % (s.uas,), d)
        return True
      r2 = hr.doc.apply(s.uas)
      if not r2.ok:
        out.fail('C01:reapply-raised:' + sig, 're-applying %r after its undo raised %r' % (s.uas, r2.error))
        return True
      s.after = hr.doc.snapshot()
      undo = r2.undo
      out.cls('immediate-undo')
    stack.append((s.before, undo, s.uas))
    return None

  hr.run(on_step)
  nontrivial = hr.n_schema_ok >= 1 and hr.n_record_ok >= 1 and hr.has_formula_columns()
  if out['ok'] and mode in (0, 2):
    for before, undo, uas in reversed(stack):
      r = hr.doc.apply([['ApplyUndoActions', undo]])
      sig = bundle_sig(uas)
      if not r.ok:
        out.fail('C01:undo-raised:' + sig, 'undo of %r raised %r' % (uas, r.error))
        break
      now = hr.doc.snapshot()
      d = eqv.diff(before, now)
      if d:
        out.fail('C01:undo-mismatch:%s:%s' % (sig, diff_locus(d)),
                 'state after undo of %r differs from the state before it' % (uas,), d)
        break
    out.cls('reverse-undo')
  out['concrete'] = hr.concrete()
  out['key'] = eqv.digest(out['concrete'])
  out['nontrivial'] = nontrivial
  out.cls(*sorted(hr.labels))
  out.cls('bundles_ok>=5' if hr.n_ok >= 5 else 'bundles_ok<5')
  return out
