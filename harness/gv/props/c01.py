"""C01 Undo restores the exact prior document (history invariant)."""
from hypothesis import strategies as st
from ..runner import Outcome
from .. import ops as O, eqv
from ..hist import HistoryRun, bundle_sig, judge_state_diff, undo_raised_sig, made_formula_then_removed, made_formula_with_type_change, col_kind

ID = 'C01'
LEVEL = 'exploration'
TECHNIQUE = 'stateful property-based testing (generated user-action histories), history invariant oracle'
RULE = ('case = prelude (2 typed tables, rows, ref, formulas) + up to 10-14 bundles of 1-2 abstract ops from the '
        'full user-action vocabulary (profile general/schema), resolved against the live document; every '
        'successful bundle is undone (mode 0: whole history in reverse; mode 1: immediately, then re-applied; '
        'mode 2: both). Non-trivial = history with >=1 successful schema action, >=1 successful record action '
        'and a formula column alive; distinct by hash of the concrete user actions.')
ORACLE = ('snapshot (all tables incl. metadata, formulas included, Node-observable equality) after '
          'ApplyUndoActions(undo_i) must equal the snapshot stored before bundle i; the last comparison is '
          'against the post-InitNewDoc state; a raising undo is a violation')
ASSUMPTIONS = ['only bundles that succeeded are undone, in strict reverse order (test_undo.py: out-of-order undo may be refused)',
               'undo lists are sent back verbatim as reprs via ApplyUndoActions (as Node does)',
               'a formula cell that differs after undo is charged to C01 only if its value before the bundle was what a '
               'fresh engine computes (otherwise the stale prior value is a C05 matter); error-kind differences '
               'involving CircularRefError (cycles through lookups) are not judged',
               'generators follow DESIGN.md 2.7; summary group-by columns have a concrete (non-Any) type']
BUDGET = {'quick': dict(examples=800, shards=16, max_seconds=75),
          'thorough': dict(examples=2400, shards=16, max_seconds=1800)}
SHRINK_BUDGET = {'quick': 60, 'thorough': 400}


# suffixes from hist.judge_state_diff that already name one root cause (no bundle kinds appended)
ROOT_CAUSE_SUFFIXES = ('cells:lookup-KeyError-stale', 'summary-rows-renumbered', 'cells:lookup-key-column-type-changed',
                       'cells:NameError-stale-after-table-restored')


def strategy(tier):
  big = tier == 'thorough'
  return st.one_of(
    st.fixed_dictionaries({'mode': st.integers(0, 2), 'h': O.history('general', 1, 14 if big else 10)}),
    st.fixed_dictionaries({'mode': st.integers(0, 2), 'h': O.history('schema', 1, 14 if big else 10, max_ops=3)}),
    st.fixed_dictionaries({'mode': st.integers(0, 2), 'h': O.history('typechange', 1, 14 if big else 10)}),
    st.fixed_dictionaries({'mode': st.integers(0, 2), 'h': O.history('combo', 1, 8, max_ops=4)}),
    st.fixed_dictionaries({'mode': st.integers(0, 2), 'h': O.history('triggers', 2, 10, max_ops=3, focus='triggers')}),
    st.fixed_dictionaries({'mode': st.integers(0, 2), 'h': O.history('widgets', 1, 8, focus='widgets')}),
  )


def run_case(case):
  out = Outcome()
  mode = int(case.get('mode', 0)) % 3
  hr = HistoryRun(case['h'])
  stack = []   # (before_snapshot, undo, uas, log_pos)

  def check_undo(before, undo, uas, log_pos, how):
    r = hr.doc.apply([['ApplyUndoActions', undo]])
    sig = bundle_sig(uas)
    if not r.ok:
      out.fail('C01:undo-raised:' + undo_raised_sig(hr.doc, uas, r.error, undo), '%s undo of %r raised %r' % (how, uas, r.error))
      return None
    now = hr.doc.snapshot()
    bad, labels = judge_state_diff(before, now, hr.doc.log, log_pos)
    out.cls(*labels)
    if bad and bad[0] == 'cells:usertable.data' and made_formula_then_removed(uas, bad[1], lambda t, c: col_kind(before, t, c)):
      out.fail('C01:undo-mismatch:data-column-made-formula-then-rows-removed-in-same-bundle',
               'state after %s undo of %r differs from the state before it' % (how, uas), bad[1])
      return None
    if bad and bad[0] == 'cells:usertable.data' and made_formula_with_type_change(uas, bad[1], lambda t, c: col_kind(before, t, c)):
      out.fail('C01:undo-mismatch:data-column-made-formula-with-type-change',
               'state after %s undo of %r differs from the state before it' % (how, uas), bad[1])
      return None
    if bad:
      out.fail('C01:undo-mismatch:%s' % (bad[0] if bad[0] in ROOT_CAUSE_SUFFIXES else '%s:%s' % (sig, bad[0])),
               'state after %s undo of %r differs from the state before it' % (how, uas), bad[1])
      return None
    return now

  def on_step(s):
    if not s.reply.ok:
      # A failed bundle must leave no trace (C04). Where it does (listed C04 findings), the stored data differs from
      # every snapshot taken earlier and the rest of this history says nothing about undo: stop here.
      structural, cells = eqv.cells_diff(s.before, hr.doc.snapshot())
      if structural or [x for x in cells if col_kind(s.before, x[0], x[1]) not in ('formula', 'helper')]:
        out.cls('failed-bundle-left-a-trace(C04 matter; history ends)')
        stack[:] = []
        return True
      return None
    if s.uas == [['Calculate']]:     # (the settling Calculate after a failed bundle is not undone)
      return None
    undo = s.reply.undo
    log_pos = s.log_pos
    before = s.before
    if mode in (1, 2):
      before = check_undo(s.before, undo, s.uas, s.log_pos, 'immediate')
      if before is None:
        return True
      log_pos = len(hr.doc.log)
      r2 = hr.doc.apply(s.uas)
      if not r2.ok:
        out.fail('C01:reapply-raised:' + bundle_sig(s.uas),
                 're-applying %r after its undo raised %r' % (s.uas, r2.error))
        return True
      s.after = hr.doc.snapshot()
      undo = r2.undo
      out.cls('immediate-undo')
    stack.append((before, undo, s.uas, log_pos))
    return None

  hr.run(on_step)
  nontrivial = hr.n_schema_ok >= 1 and hr.n_record_ok >= 1 and hr.has_formula_columns()
  if out['ok'] and mode in (0, 2):
    for before, undo, uas, log_pos in reversed(stack):
      if check_undo(before, undo, uas, log_pos, 'reverse-order') is None:
        break
    out.cls('reverse-undo')
  out['concrete'] = hr.concrete()
  out['key'] = eqv.digest(out['concrete'])
  out['nontrivial'] = nontrivial
  out.cls(*sorted(hr.labels))
  out.cls('bundles_ok>=5' if hr.n_ok >= 5 else 'bundles_ok<5')
  return out
