"""C36 Page-tree indentation fixes always yield a valid tree.

Part 1 (pure): treeview.fix_indents over all indentation lists / removal subsets.
Part 2 (engine): _grist_Pages rows with generated indentation, removed through the
user-action path; remaining pages must form a valid tree.
"""
import itertools
from hypothesis import strategies as st
from ..runner import Outcome
from .. import env
env.setup()
import treeview  # noqa: E402

ID = 'C36'
LEVEL = 'exploration'
RULE = ('case = (indentation list, removal subset); part 1 enumerates every list of length<=L over '
        'indent 0..4 with every removal subset (L=5 quick, 7 thorough) plus Hypothesis-generated longer '
        'lists (len<=40, indent 0..12); part 2 drives _grist_Pages through user actions. '
        'Non-trivial = at least one page removed and at least one adjustment returned; '
        'distinct by (indents, removed).')
ORACLE = ('validity predicate + reference: remaining pages after fixes form a valid tree '
          '(first 0, each <= previous+1), new <= old, only non-removed ids adjusted, each once, and '
          'new value == min(old, bound) with bound from an independently written recursive reference')
ASSUMPTIONS = ['indentations are non-negative integers (column type Int, written by the client tree widget)',
               'items are given in display order with distinct ids']
BUDGET = {'quick': dict(examples=1500, shards=8, max_seconds=60),
          'thorough': dict(examples=40000, shards=16, max_seconds=1800)}


class Item(object):
  def __init__(self, id, indentation):
    self.id = id; self.indentation = indentation


def reference(indents, removed):
  """Independent statement of the intended result: walking in order, a kept page may be at most
  one deeper than the previous kept-or-removed page's *effective* level; a removed page passes its
  own effective level on as the cap (its children take its place)."""
  new = []
  cap = 0
  for i, ind in enumerate(indents):
    eff = ind if ind < cap else cap
    new.append(eff)
    cap = eff if i in removed else eff + 1
  return new


def check(indents, removed):
  items = [Item(i + 1, ind) for i, ind in enumerate(indents)]
  deleted_ids = set(i + 1 for i in removed)
  adj = treeview.fix_indents(items, deleted_ids)
  ids = [a[0] for a in adj]
  if len(set(ids)) != len(ids):
    return 'duplicate-adjustment', adj
  if any(a in deleted_ids for a in ids):
    return 'adjusts-removed-page', adj
  if any(a < 1 or a > len(indents) for a in ids):
    return 'adjusts-unknown-page', adj
  final = list(indents)
  for rid, ind in adj:
    if ind == final[rid - 1]:
      return 'noop-adjustment', adj
    final[rid - 1] = ind
  kept = [final[i] for i in range(len(indents)) if i not in removed]
  prev = -1
  for k in kept:
    if k < 0 or k > prev + 1:
      return 'invalid-tree', {'adjustments': adj, 'kept': kept}
    prev = k
  if any(final[i] > indents[i] for i in range(len(indents))):
    return 'page-made-deeper', adj
  ref = reference(indents, removed)
  for i in range(len(indents)):
    if i not in removed and final[i] != ref[i]:
      return 'differs-from-reference', {'adjustments': adj, 'expected': ref, 'got': final}
  return None, adj


def run_pure(case):
  indents = [abs(int(x)) for x in case['indents']]
  n = len(indents)
  out = Outcome()
  if case.get('all_subsets'):
    subsets = itertools.chain.from_iterable(itertools.combinations(range(n), k) for k in range(n + 1))
  else:
    subsets = [tuple(sorted(set(int(i) % n for i in case['removed'])))] if n else [()]
  w = 0
  nt = 0
  for sub in subsets:
    w += 1
    bad, adj = check(indents, set(sub))
    if bad:
      out.fail('C36:pure:' + bad, 'fix_indents(%r, removed=%r): %s' % (indents, list(sub), bad),
               {'indents': indents, 'removed': list(sub), 'info': adj})
      break
    if sub and adj:
      nt += 1
  out['weight'] = w
  out['nontrivial'] = nt > 0
  out['nt_weight'] = nt
  out.cls('pure', 'len=%d' % min(n, 8))
  return out


def run_engine(case):
  from ..doc import Doc
  out = Outcome()
  d = Doc()
  n = max(1, min(len(case['indents']), 8))
  indents = [abs(int(x)) % 6 for x in case['indents'][:n]]
  d.apply([['AddEmptyTable', None]])
  for i in range(n - 1):
    d.apply([['AddView', 'Table1', 'raw_data', 'V%d' % i]])
  pages = sorted(d.meta('_grist_Pages'), key=lambda p: p['pagePos'])
  if len(pages) != n:
    return out.fail('C36:engine:setup', 'expected %d pages got %d' % (n, len(pages)))
  # optionally move pages around first, so that display order (pagePos) differs from row-id order
  order = [int(x) for x in case.get('order') or []]
  if order:
    keyed = sorted(range(n), key=lambda i: (order[i % len(order)], i))
    newpos = [0.0] * n
    for rank, i in enumerate(keyed):
      newpos[i] = float(rank + 1)
    r = d.apply([['BulkUpdateRecord', '_grist_Pages', [p['id'] for p in pages], {'pagePos': newpos}]])
    if not r.ok:
      return out.fail('C36:engine:setup', 'cannot move pages: %r' % r.error)
    pages = sorted(d.meta('_grist_Pages'), key=lambda p: p['pagePos'])
    if [p['id'] for p in pages] != sorted(p['id'] for p in pages):
      out.cls('engine:pages-moved')
  ids = [p['id'] for p in pages]
  r = d.apply([['BulkUpdateRecord', '_grist_Pages', ids, {'indentation': indents}]])
  if not r.ok:
    return out.fail('C36:engine:setup', 'cannot set indentation: %r' % r.error)
  removed = sorted(set(int(i) % n for i in case['removed']))
  rm_ids = [ids[i] for i in removed]
  if not rm_ids:
    out['skipped'] = True
    return out
  r = d.apply([['BulkRemoveRecord', '_grist_Pages', rm_ids]])
  out['concrete'] = d.concrete_history()[2:]
  out['concrete'] = [c for c in out['concrete'] if c[1][0][0] != 'AddView']
  if not r.ok:
    return out.fail('C36:engine:remove-raised', 'removing pages raised %r' % r.error)
  pages2 = sorted(d.meta('_grist_Pages'), key=lambda p: p['pagePos'])
  if [p['id'] for p in pages2] != [i for i in ids if i not in rm_ids]:
    return out.fail('C36:engine:wrong-pages', 'remaining pages %r' % [p['id'] for p in pages2])
  kept = [p['indentation'] for p in pages2]
  ref = reference(indents, set(removed))
  exp = [ref[i] for i in range(n) if i not in removed]
  prev = -1
  for k in kept:
    if k < 0 or k > prev + 1:
      return out.fail('C36:engine:invalid-tree', 'remaining indentation %r is not a valid tree' % kept,
                      {'indents': indents, 'removed': removed, 'kept': kept})
    prev = k
  if kept != exp:
    return out.fail('C36:engine:differs-from-reference', 'remaining %r expected %r' % (kept, exp),
                    {'indents': indents, 'removed': removed})
  out['nontrivial'] = any(ref[i] != indents[i] for i in range(n) if i not in removed)
  out.cls('engine')
  return out


def run_case(case):
  if case.get('engine'):
    return run_engine(case)
  return run_pure(case)


def enumerate_cases(tier):
  L = 5 if tier == 'quick' else 7
  for n in range(0, L + 1):
    for indents in itertools.product(range(5), repeat=n):
      yield {'indents': list(indents), 'all_subsets': True}


def strategy(tier):
  pure = st.fixed_dictionaries({
    'indents': st.lists(st.integers(0, 12), min_size=1, max_size=40),
    'removed': st.lists(st.integers(0, 39), max_size=12)})
  eng = st.fixed_dictionaries({
    'engine': st.just(True),
    'order': st.lists(st.integers(0, 7), max_size=8),
    'indents': st.lists(st.integers(0, 5), min_size=1, max_size=8),
    'removed': st.lists(st.integers(0, 7), min_size=1, max_size=5)})
  return st.one_of(pure, pure, pure, eng)
