"""C27 Row id allocation never collides or creates ghost rows.

A table is driven through a short sequence of steps (auto adds, removals, AddRecord / BulkAddRecord /
ReplaceTableData requests with generated row id lists); every request is judged against the row set
read just before it, using only the rules of the property statement.
"""
from hypothesis import strategies as st
from ..runner import Outcome
from ..doc import Doc
from .. import eqv
from ..wchoice import weighted

ID = 'C27'
LEVEL = 'exploration'
TECHNIQUE = 'property-based testing; validity predicate + set model of row ids taken from the statement'
RULE = ('case = initial row count 0..6 + 1..6 steps over one table (Text + Int column); a step removes selected rows '
        'or is a request AddRecord / BulkAddRecord / ReplaceTableData whose id list (0..6 entries) is drawn from '
        '{None, negative (also repeated), existing id, fresh id above the maximum, id of a removed row below the maximum, '
        'repeat of an earlier entry, 0, > 1,000,000, large gap, exactly 1,000,000}; selectors are resolved against the live '
        'table, so table states have gaps, are empty, or follow a ReplaceTableData. Every request in the sequence is judged. '
        'Non-trivial = some request mixes at least two kinds of ids; distinct by hash of the concrete user actions.')
ORACLE = ('from the statement only. Request invalid (explicit id 0, explicit id > 1,000,000, explicit id repeated in the '
          'request, or - for adds - an id that exists) => must raise and the whole-document snapshot must be unchanged. '
          'Otherwise it must succeed and: returned ids (retValues) have the length of the request, keep explicit ids in '
          'place, are pairwise distinct, disjoint from the rows that existed, automatic ones (None/negative) exceed every '
          'existing id; rows afterwards == rows before + returned ids; each returned row holds the values sent for it; '
          'old rows keep their cells. ReplaceTableData (returns nothing): rows afterwards are len(request) distinct '
          'positive ids containing every explicit id, explicit ids hold their values, the multiset of row values is the '
          'one sent.')
ASSUMPTIONS = ['row ids are int or None (DESIGN 2.7)',
               'a negative id repeated inside one request is treated as two placeholders (valid request)',
               '"existing" means existing at the time of the request: the id of a removed row may be handed out again',
               'automatic ids above 1,000,000 (table already holds row 1,000,000) are not judged against the limit, which '
               'the statement states for requested ids only',
               'for ReplaceTableData automatic ids are only required to be positive, distinct and not to collide with '
               'explicit ids of the request (no row exists any more once the table is replaced)']
BUDGET = {'quick': dict(examples=4000, shards=12, max_seconds=32),
          'thorough': dict(examples=45000, shards=16, max_seconds=1800)}
SHRINK_BUDGET = {'quick': 120, 'thorough': 400}

TABLE = 'Tab1'
LIMIT = 1000000
KINDS = ('none', 'neg', 'existing', 'fresh', 'hole', 'repeat', 'zero', 'over', 'gap', 'million')


# ---------------------------------------------------------------------------
# generator

def _idspec():
  sel = st.integers(0, 9)
  pair = lambda kind, arg: st.tuples(st.just(kind), arg).map(list)
  return weighted(
    (3, st.just(['none'])), (2, pair('neg', st.integers(1, 3))), (2, pair('existing', sel)),
    (2, pair('fresh', st.integers(0, 3))), (1, pair('hole', sel)), (1, pair('repeat', sel)), (1, st.just(['zero'])),
    (1, pair('over', st.integers(0, 5))), (1, pair('gap', st.integers(0, 3000))))


def _ids(tier):
  pair = lambda kind, arg: st.tuples(st.just(kind), arg).map(list)
  common = st.lists(_idspec(), min_size=0, max_size=6)
  # mostly-valid lists so that the valid part of the space is explored in depth behind the shallow rejections
  calm = st.lists(weighted((3, st.just(['none'])), (2, pair('neg', st.integers(1, 3))), (3, pair('fresh', st.integers(0, 6))),
                           (2, pair('hole', st.integers(0, 9))), (1, pair('gap', st.integers(0, 3000)))),
                  min_size=1, max_size=6)
  # exactly 1,000,000 (the largest valid id) makes every later fetch walk a million slots: keep it rare
  rare = st.lists(weighted((2, _idspec()), (1, st.just(['million']))), min_size=1, max_size=3)
  return weighted((50, common), (99, calm), (1, rare))


def strategy(tier):
  remove = st.fixed_dictionaries({'k': st.just('remove'), 'sel': st.lists(st.integers(0, 9), min_size=1, max_size=4)})
  req = st.fixed_dictionaries({'k': st.sampled_from(['add', 'bulk', 'bulk', 'bulk', 'replace']), 'ids': _ids(tier)})
  return st.fixed_dictionaries({'n0': st.integers(0, 6),
                                'steps': st.lists(weighted((1, remove), (3, req)), min_size=1, max_size=6)})


# ---------------------------------------------------------------------------
# case -> concrete user actions (resolved against the live row set)

def _as_int(x, default=0):
  return x if isinstance(x, int) and not isinstance(x, bool) else default


def resolve_ids(specs, rows):
  """Concrete id list for a request given the sorted list of existing row ids."""
  rows = sorted(rows)
  top = rows[-1] if rows else 0
  holes = [i for i in range(1, top) if i not in set(rows)]
  out = []
  for spec in specs:
    if not isinstance(spec, list) or not spec or spec[0] not in KINDS:
      out.append(None); continue
    kind = spec[0]
    arg = abs(_as_int(spec[1])) if len(spec) > 1 else 0
    if kind == 'none':
      v = None
    elif kind == 'neg':
      v = -(arg % 3 + 1)
    elif kind == 'existing':
      v = rows[arg % len(rows)] if rows else top + 1
    elif kind == 'fresh':
      v = top + 1 + arg % 7
    elif kind == 'hole':
      v = holes[arg % len(holes)] if holes else top + 2
    elif kind == 'repeat':
      v = out[arg % len(out)] if out else top + 1
    elif kind == 'zero':
      v = 0
    elif kind == 'over':
      v = LIMIT + 1 + arg % 6
    elif kind == 'gap':
      v = min(LIMIT, top + 50 + arg % 3001)
    else:
      v = LIMIT
    out.append(v)
  return out


def classify(ids, rows, replace):
  """Kind of every entry of a concrete request, judged against the statement."""
  rows = set(rows)
  kinds = []
  seen = set()
  for v in ids:
    if v is None:
      k = 'none'
    elif v < 0:
      k = 'neg'
    elif v == 0:
      k = 'zero'
    elif v > LIMIT:
      k = 'over'
    elif v in seen:
      k = 'repeat'
    elif v in rows and not replace:
      k = 'existing'
    else:
      k = 'fresh'
    if v is not None and v > 0:
      seen.add(v)
    kinds.append(k)
  return kinds


INVALID = {'zero': 'C27:explicit-zero-id-accepted', 'repeat': 'C27:repeated-explicit-id-accepted',
           'existing': 'C27:existing-id-accepted', 'over': 'C27:id-over-limit-accepted'}


def table_rows(view):
  return {r: {c: view[c][r] for c in view if c not in ('id', 'manualSort')} for r in view['id']}


# ---------------------------------------------------------------------------
# oracle

def judge_request(out, ua, ids, values, pre, reply, post, unchanged):
  """pre/post: {row: {col: canon value}}; values: list of {col: value} per request entry."""
  replace = ua[0] == 'ReplaceTableData'
  kinds = classify(ids, pre, replace)
  bad = [k for k in kinds if k in INVALID]
  det = {'request': ua, 'rows_before': sorted(pre), 'rows_after': sorted(post),
         'returned': reply.ret[0] if reply.ok else None, 'error': None if reply.ok else repr(reply.error)}
  if bad:
    out.cls('invalid')
    if reply.ok:
      for k in sorted(set(bad)):
        out.fail(INVALID[k], '%s with ids %r (rows before %r) contains an id of kind %r and must be rejected; it was accepted, '
                 'returned %r and the table now has rows %r' % (ua[0], ids, sorted(pre), k, det['returned'], sorted(post)), det)
      return
    out.cls('invalid-rejected')
    if not unchanged:
      out.fail('C27:rejected-request-left-trace', 'rejected %s %r changed the document' % (ua[0], ids), det)
    return
  out.cls('valid')
  if not reply.ok:
    out.fail('C27:valid-request-rejected', '%s with ids %r (rows before %r) was rejected: %r' % (
      ua[0], ids, sorted(pre), reply.error), det)
    return
  want = [eqv.canon(v) for v in values]
  if replace:
    auto = [i for i, k in enumerate(kinds) if k in ('none', 'neg')]
    expl = [i for i, k in enumerate(kinds) if k == 'fresh']
    if len(post) != len(ids):
      # ReplaceTableData returns no ids: the only way a valid request loses rows is two entries sharing an id
      sig = 'C27:replace-row-count-differs'
      if len(post) < len(ids) and auto and expl:
        # label only: which side of the automatic entry the explicit ids sit on
        sig = 'C27:auto-id-collides-with-later-explicit-id' if any(a < e for a in auto for e in expl) \
          else 'C27:auto-id-collides-with-earlier-explicit-id'
      out.fail(sig, 'ReplaceTableData with %d ids %r left %d rows %r' % (len(ids), ids, len(post), sorted(post)), det)
      return
    if any(r <= 0 for r in post):
      out.fail('C27:non-positive-row-id', 'rows after ReplaceTableData: %r' % sorted(post), det)
      return
    for i in expl:
      if ids[i] not in post:
        out.fail('C27:explicit-id-not-honoured', 'ReplaceTableData %r: no row %r afterwards (%r)' % (ids, ids[i], sorted(post)), det)
        return
      if post[ids[i]] != want[i]:
        out.fail('C27:new-row-has-wrong-values', 'row %r holds %r, sent %r' % (ids[i], post[ids[i]], want[i]), det)
        return
    if sorted(eqv.jdump(v) for v in post.values()) != sorted(eqv.jdump(v) for v in want):
      out.fail('C27:new-row-has-wrong-values', 'rows after ReplaceTableData %r do not hold the values sent' % (ids,), det)
    return
  ret = reply.ret[0]
  if ua[0] == 'AddRecord':
    ret = [ret]
  if not isinstance(ret, list) or len(ret) != len(ids) or any(not isinstance(r, int) or isinstance(r, bool) for r in ret):
    out.fail('C27:returned-ids-malformed', '%s %r returned %r' % (ua[0], ids, reply.ret[0]), det)
    return
  top = max(pre) if pre else 0
  for i, k in enumerate(kinds):
    if k == 'fresh' and ret[i] != ids[i]:
      out.fail('C27:explicit-id-not-honoured', 'entry %d asked for id %r, got %r' % (i, ids[i], ret[i]), det)
      return
  if len(set(ret)) != len(ret):
    dup = sorted(r for r in set(ret) if ret.count(r) > 1)
    sig = 'C27:returned-ids-not-distinct'
    for r in dup:
      autos = [i for i in range(len(ret)) if ret[i] == r and kinds[i] in ('none', 'neg')]
      expl = [i for i in range(len(ret)) if ret[i] == r and kinds[i] == 'fresh']
      if autos and expl:
        # root cause label: the automatic id was handed out before / after the explicit entry was seen
        sig = 'C27:auto-id-collides-with-later-explicit-id' if min(autos) < min(expl) and len(autos) == 1 \
          else 'C27:auto-id-collides-with-earlier-explicit-id'
    out.fail(sig,
             '%s with ids %r (rows before %r) returned %r: id(s) %r handed out twice; rows after %r' % (
               ua[0], ids, sorted(pre), ret, dup, sorted(post)), det)
    return
  for i, k in enumerate(kinds):
    if k in ('none', 'neg') and not ret[i] > top:
      out.fail('C27:auto-id-not-above-existing', 'automatic id %r for entry %d is not above the largest existing id %r' % (
        ret[i], i, top), det)
      return
  if set(ret) & set(pre):
    out.fail('C27:collides-with-existing-row', 'returned ids %r include existing rows %r' % (ret, sorted(set(ret) & set(pre))), det)
    return
  if set(post) != set(pre) | set(ret):
    out.fail('C27:returned-ids-differ-from-new-rows', '%s %r returned %r but new rows are %r' % (
      ua[0], ids, ret, sorted(set(post) - set(pre))), det)
    return
  for i, r in enumerate(ret):
    if post[r] != want[i]:
      out.fail('C27:new-row-has-wrong-values', 'row %r holds %r, sent %r' % (r, post[r], want[i]), det)
      return
  for r in pre:
    if post[r] != pre[r]:
      out.fail('C27:existing-rows-changed', 'row %r changed from %r to %r' % (r, pre[r], post[r]), det)
      return


def step_to_ua(step, idx, rows):
  """-> (user action, concrete ids or None, values)"""
  k = step.get('k')
  if k == 'remove':
    rows = sorted(rows)
    if not rows:
      return None, None, None
    sel = sorted(set(rows[abs(_as_int(s)) % len(rows)] for s in (step.get('sel') or [0])[:6]))
    return ['BulkRemoveRecord', TABLE, sel], None, None
  ids = resolve_ids((step.get('ids') or [])[:8], rows)
  if k == 'add':
    ids = ids[:1] or [None]
  values = [{'A': 's%d_%d' % (idx, i), 'B': idx * 10 + i} for i in range(len(ids))]
  if k == 'add':
    return ['AddRecord', TABLE, ids[0], values[0]], ids, values
  cols = {'A': [v['A'] for v in values], 'B': [v['B'] for v in values]}
  return ['ReplaceTableData' if k == 'replace' else 'BulkAddRecord', TABLE, ids, cols], ids, values


def run_case(case):
  out = Outcome()
  d = Doc()
  r = d.apply([['AddTable', TABLE, [{'id': 'A', 'type': 'Text', 'isFormula': False},
                                    {'id': 'B', 'type': 'Int', 'isFormula': False}]]])
  if not r.ok:
    # AddTable on a new document only adds metadata records with automatic ids: a valid request by the statement
    return out.fail('C27:valid-request-rejected', 'AddTable on a new document (automatic metadata row ids) raised %r' % (r.error,))
  skip = len(d.log)
  if 'concrete' in case:
    plan = [('ua', ua) for ua in case['concrete']]
  else:
    n0 = abs(_as_int(case.get('n0'))) % 7
    plan = []
    if n0:
      plan.append(('ua', ['BulkAddRecord', TABLE, [None] * n0, {'A': ['i%d' % i for i in range(n0)], 'B': list(range(n0))}]))
    plan += [('step', s) for s in (case.get('steps') or [])[:8] if isinstance(s, dict)]
  mixes = False
  replaced = False
  for idx, (how, item) in enumerate(plan):
    pre = table_rows(d.view(TABLE))
    if how == 'ua':
      ua = item
      ids = values = None
      if ua[0] in ('AddRecord', 'BulkAddRecord', 'ReplaceTableData') and ua[1] == TABLE:
        if ua[0] == 'AddRecord':
          ids, values = [ua[2]], [ua[3]]
        else:
          ids = list(ua[2])
          values = [{c: ua[3][c][i] for c in ua[3]} for i in range(len(ids))]
    else:
      ua, ids, values = step_to_ua(item, idx, pre)
      if ua is None:
        continue
    before = d.snapshot()
    reply = d.apply([ua])
    after = d.snapshot()
    if ids is None:
      if not reply.ok:
        raise RuntimeError('setup step %r failed: %r' % (ua, reply.error))
      continue
    post = table_rows(after[TABLE])
    replace = ua[0] == 'ReplaceTableData'
    kinds = classify(ids, pre, replace)
    holes = bool(pre) and len(pre) < max(pre)
    if how == 'step':
      out.cls('req:' + ua[0], 'state:' + ('empty' if not pre else 'gaps' if holes else 'dense'))
    if replaced:
      out.cls('state:after-replace')
    if pre and max(pre) >= LIMIT:
      out.cls('state:holds-row-1000000')
    for k, v in sorted(set(zip(kinds, ids)), key=repr):
      out.cls('id:' + ('hole' if k == 'fresh' and pre and v < max(pre) else k))
    if ids.count(None) < len(ids) and len([v for v in ids if v is not None and v < 0]) != len(set(v for v in ids if v is not None and v < 0)):
      out.cls('id:repeated-negative')
    if LIMIT in ids:
      out.cls('id:exactly-1000000')
    if len(set(kinds)) >= 2:
      mixes = True
    judge_request(out, ua, ids, values, pre, reply, post, before == after)
    if replace and reply.ok:
      replaced = True
  out['concrete'] = [uas[0] for ok, uas in d.log[skip:]]
  out['key'] = eqv.digest(out['concrete'])
  out['nontrivial'] = mixes
  return out
