"""C14 Sorted searches (find.lt/le/gt/ge/eq) and PREVIOUS/NEXT/RANK agree with a linear scan.

A small table Src (<= 8 rows, duplicate sort keys; in a separate class mixed-type sort keys) with formula
columns calling PREVIOUS/NEXT/RANK, and a table Probe whose formula columns search sorted lookups of Src
with per-row probe values. Both are compared with a linear scan over the reference-ordered rows, after the
build and after every edit bundle.
"""
from hypothesis import strategies as st
from ..runner import Outcome
from ..doc import Doc
from .. import lkref as R

ID = 'C14'
LEVEL = 'exploration'
TECHNIQUE = 'property-based testing against a linear-scan reference over a comparator-sorted list'
RULE = ('case = <=8 rows of Src (group columns G Text / H Int, sort columns A Numeric, B Text, X Numeric, M = Any '
        'formula of X; values from 3-element pools so sort keys repeat; class "mixed" adds None and alt-text so that '
        'X holds numbers/None/AltText and M numbers/None/strings) + 1-4 PREVIOUS/NEXT/RANK formula columns (group_by '
        'absent/str/tuple of 1-2, order_by None/str/-str/tuple/with id/with manualSort, RANK order asc/desc/absent) + '
        '1-4 Probe rows with probe values equal to existing keys / between / outside the range + 1-5 find.<op> columns '
        '(lookupRecords with optional key filter, order_by/sort_by over 1-2 columns incl. "-", 1..n probe values, '
        'find/_find, searched directly or through a record set stored in an Any / RefList column) + up to 5 edit bundles (rows added/removed/changed/moved, probe values changed). The oracle runs '
        'after the build and after every bundle. Non-trivial = a judged search/neighbour whose ordered set has a '
        'duplicate sort key, or whose probe equals an existing key or lies outside the range; distinct by case hash.')
ORACLE = ('rows of fetch_table(Src) are filtered by the key / group_by values and ordered with the comparator of '
          'gv/lkref.py (order_by columns with sign, manualSort unless id was given, row id; mixed types by the rule '
          'commented in sort_key.py: None first, numbers before other types, other types by type name, incomparable '
          'values of one type tie). find.lt/le = last row before / not after the probe values on the first len(values) '
          'sort columns, gt/ge = first row after / not before, eq = first row neither before nor after, else the empty '
          'record; PREVIOUS/NEXT = neighbours of the record in its group, RANK = 1-based position (desc: from the end).')
ASSUMPTIONS = ['no NaN; Date/Ref/list columns are not used as sort or group columns here (C13 covers key types)',
               'the number of probe values never exceeds the number of columns the caller named in order_by/sort_by',
               'find.* is only called on lookups with at least one named sort column (find on an unsorted lookup raises '
               'a documented ValueError)',
               'a bundle that the engine rejects ends the case',
               'order_by="id" alone is generated as a rare labelled class (order:id-only) for PREVIOUS/NEXT/RANK; it '
               'raises ValueError and is listed in known_findings.d/C14.json']
BUDGET = {'quick': dict(examples=2400, shards=16, max_seconds=50),
          'thorough': dict(examples=39000, shards=16, max_seconds=1800)}
SHRINK_BUDGET = {'quick': 120, 'thorough': 400}

SRC_DATA = [('G', 'Text'), ('H', 'Int'), ('A', 'Numeric'), ('B', 'Text'), ('X', 'Numeric')]
SRC_TYPES = dict(SRC_DATA + [('M', 'Any'), ('manualSort', 'ManualSortPos')])
PROBE_DATA = [('V1', 'Numeric'), ('V2', 'Text'), ('VM', 'Numeric'), ('PG', 'Text')]
PROBE_TYPES = dict(PROBE_DATA + [('VA', 'Any')])
SORTCOLS = ['A', 'B', 'X', 'M']
VALUE_OF = {'A': 'V1', 'B': 'V2', 'X': 'VM', 'M': 'VA'}

POOL = {
  'dup': {'G': ['g', 'h', ''], 'H': [1, 2, 0], 'A': [2.0, 1.0, 3.0], 'B': ['b', 'a', 'c'], 'X': [1.0, 0.5, 2.0]},
  'mixed': {'G': ['g', 'h', '', None], 'H': [1, 2, 0, None, 'x'], 'A': [2.0, 1.0, 3.0, None], 'B': ['b', 'a', 'c', None, ''],
            'X': [1.0, 0.5, 'zz', None, 2.0, 'aa']},
}
PPOOL = {
  'dup': {'V1': [2.0, 1.0, 0.0, 1.5, 3.0, 4.0, 2.5], 'V2': ['b', 'a', '', 'ab', 'c', 'd', 'bb'], 'VM': [1.0, 0.5, 0.0, 0.75, 2.0, 9.0],
          'PG': ['g', 'h', '', 'zz']},
  'mixed': {'V1': [2.0, 1.0, 0.0, 1.5, 3.0, 4.0, None], 'V2': ['b', 'a', '', 'ab', 'c', 'd', None],
            'VM': [1.0, 0.5, 'zz', None, 'b', 0.75, 9.0, 'aa'], 'PG': ['g', 'h', '', 'zz', None]},
}
CONST_PROBE = {'A': [2, 1.5, 0, 4], 'B': ['b', 'ab', '', 'd'], 'X': [1, 0.75, 9], 'M': [1, 0.75, 'zz', None]}
MS_POOL = [1.0, 2.0, 3.0, 4.0, 5.0, 6.0, 7.0, 8.0, 0.5, 2.5]
OPS = ['lt', 'le', 'gt', 'ge', 'eq']
GROUPS = [None, 'G', ['G'], ['G', 'H'], 'H', ['H', 'G']]


def g(lst, i, default=0):
  try:
    return lst[i]
  except (IndexError, TypeError, KeyError):
    return default


def gi(lst, i):
  v = g(lst, i)
  return abs(int(v)) if isinstance(v, (int, float)) and not isinstance(v, bool) and v == v and abs(v) < 1e9 else 0


def pick(pool, sel):
  return pool[sel % len(pool)]


# ---------------------------------------------------------------------------

def strategy(tier):
  sel = st.integers(0, 11)
  ocol = st.tuples(st.integers(0, 3), st.booleans()).map(list)
  order = st.tuples(st.sampled_from([0, 1, 1, 2, 2, 3, 4, 5, 6]), st.lists(ocol, min_size=1, max_size=2)).map(list)
  pn = st.tuples(st.integers(0, 2), st.sampled_from([0, 0, 1, 2, 3, 4, 5]), order, st.integers(0, 2)).map(list)
  fd = st.tuples(st.sampled_from([0, 1, 2, 3, 4]), st.sampled_from([0, 1, 2, 3]), order, st.integers(0, 1), sel, st.booleans(),
                 st.sampled_from([0, 0, 0, 1]), st.sampled_from([0, 0, 0, 1, 2])).map(list)
  op = st.tuples(st.sampled_from(list(range(9))), sel, sel, sel, st.lists(sel, min_size=0, max_size=6)).map(list)
  return st.fixed_dictionaries({
    'mixed': st.sampled_from([0, 0, 1]),
    'rows': st.lists(st.lists(sel, min_size=6, max_size=6), min_size=0, max_size=8),
    'prows': st.lists(st.lists(sel, min_size=4, max_size=4), min_size=1, max_size=4),
    'pn': st.lists(pn, min_size=1, max_size=4),
    'find': st.lists(fd, min_size=1, max_size=5),
    'edits': st.lists(st.lists(op, min_size=1, max_size=2), min_size=0, max_size=5),
    'rare': st.integers(0, 39),
  })


def order_of(spec, mixed, for_find, rare_id=False):
  """-> (reference order form, argument text, named sort columns with sign prefix, label)"""
  kind = gi(spec, 0) % 7
  allowed = SORTCOLS if mixed else SORTCOLS    # all four columns exist in both classes
  cols, seen = [], set()
  for c in (g(spec, 1, []) or [[0, False]])[:2]:
    name = allowed[gi(c, 0) % len(allowed)]
    if name in seen:
      continue
    seen.add(name)
    cols.append(('-' if g(c, 1, False) is True else '') + name)
  if rare_id and not for_find:
    return ['order_by', 'id'], "order_by='id'", [], 'order:id-only'
  if kind == 0 and not for_find:
    return ['order_by', None], 'order_by=None', [], 'order:None'
  if kind in (0, 1):
    return ['order_by', cols[0]], 'order_by=%r' % cols[0], cols[:1], 'order:str' + ('-desc' if cols[0][0] == '-' else '')
  if kind == 2:
    return ['order_by', list(cols)], 'order_by=%r' % (tuple(cols),), cols, 'order:tuple%d' % len(cols)
  if kind == 3:
    return ['order_by', cols + ['id']], 'order_by=%r' % (tuple(cols + ['id']),), cols, 'order:tuple+id'
  if kind == 4:
    return ['order_by', cols + ['-manualSort']], 'order_by=%r' % (tuple(cols + ['-manualSort']),), cols, 'order:tuple+-manualSort'
  if kind == 5 and for_find:
    return ['sort_by', cols[0]], 'sort_by=%r' % cols[0], cols[:1], 'order:sort_by'
  return ['order_by', cols[0]], 'order_by=%r' % cols[0], cols[:1], 'order:str' + ('-desc' if cols[0][0] == '-' else '')


def build_pn(spec, mixed, rare_id):
  fn = ['PREVIOUS', 'NEXT', 'RANK'][gi(spec, 0) % 3]
  group = GROUPS[gi(spec, 1) % len(GROUPS)]
  order, otext, _cols, olabel = order_of(g(spec, 2, [0]), mixed, False, rare_id)
  args = ['rec']
  if group is not None:
    args.append('group_by=%r' % (tuple(group) if isinstance(group, list) else group,))
  args.append(otext)
  rank_order = None
  labels = ['fn:' + fn, olabel, 'group_by:%d' % (0 if group is None else (1 if isinstance(group, str) else len(group)))]
  if fn == 'RANK':
    rank_order = [None, 'asc', 'desc'][gi(spec, 3) % 3]
    if rank_order:
      args.append('order=%r' % rank_order)
    labels.append('rank:' + (rank_order or 'default'))
  gcols = [] if group is None else ([group] if isinstance(group, str) else list(group))
  return dict(formula='%s(%s)' % (fn, ', '.join(args)), fn=fn, group=gcols, order=order, rank_order=rank_order or 'asc',
              labels=labels)


def build_find(spec, mixed):
  op = OPS[gi(spec, 0) % 5]
  keymode = gi(spec, 1) % 4           # 0,1: no key; 2: G=$PG; 3: G='g'
  order, otext, cols, olabel = order_of(g(spec, 2, [1]), mixed, True)
  nvals = 1 + (gi(spec, 3) % len(cols))
  const = gi(spec, 6) % 2 == 1
  vals, texts = [], []
  for i, c in enumerate(cols[:nvals]):
    name = c.lstrip('-')
    if const:
      v = pick(CONST_PROBE[name], gi(spec, 4) + i)
      if v is None and not mixed:
        v = 1
      if isinstance(v, str) and name == 'M' and not mixed:
        v = 1
      vals.append(['const', v]); texts.append(repr(v))
    else:
      vals.append(['col', VALUE_OF[name]]); texts.append('$' + VALUE_OF[name])
  args = []
  key = None
  if keymode == 2:
    args.append('G=$PG'); key = ['col', 'PG']
  elif keymode == 3:
    args.append("G='g'"); key = ['const', 'g']
  args.append(otext)
  attr = '_find' if g(spec, 5, False) is True else 'find'
  via = [None, 'Any', 'RefList:Src'][gi(spec, 7) % 3]      # search a record set stored in another column
  labels = ['find:' + op, olabel, 'find-values:%d/%d' % (nvals, len(cols)), 'find-key:' + ('none' if key is None else key[0]),
            'probe-src:' + ('const' if const else 'per-row'), 'find-on:' + (via or 'lookup-expression')]
  lookup = 'Src.lookupRecords(%s)' % ', '.join(args)
  return dict(formula='%s.%s.%s(%s)' % ('$S' if via else lookup, attr, op, ', '.join(texts)),
              via=via, lookup=lookup, op=op, key=key, order=order, vals=vals, labels=labels)


def row_values(cls, x):
  p = POOL[cls]
  return {c: pick(p[c], gi(x, i)) for i, (c, _t) in enumerate(SRC_DATA)}


def resolve_edits(d, bundle, cls):
  uas, kinds = [], []
  live = d.row_ids('Src')
  prows = d.row_ids('Probe')
  for op in bundle[:2]:
    k = gi(op, 0) % 9
    a, b, c, vals = gi(op, 1), gi(op, 2), gi(op, 3), g(op, 4, []) or []
    if k in (0, 1) and live:
      col = SRC_DATA[b % len(SRC_DATA)][0]
      uas.append(['UpdateRecord', 'Src', live[a % len(live)], {col: pick(POOL[cls][col], c)}])
      kinds.append('change')
    elif k == 2 and live:
      n = 1 + a % len(live)
      ids = sorted(set(live[(c + i) % len(live)] for i in range(n)))
      col = ['A', 'B', 'X', 'G'][b % 4]
      uas.append(['BulkUpdateRecord', 'Src', ids, {col: [pick(POOL[cls][col], gi(vals, i)) for i in range(len(ids))]}])
      kinds.append('bulk-change')
    elif k in (3, 4) and len(live) < 8:
      values = row_values(cls, vals)
      if a % 2:
        values['manualSort'] = pick(MS_POOL, b)
      uas.append(['AddRecord', 'Src', None, values])
      kinds.append('add')
      break
    elif k == 5 and live:
      rid = live[a % len(live)]
      uas.append(['RemoveRecord', 'Src', rid])
      live = [x for x in live if x != rid]
      kinds.append('remove')
    elif k == 6 and live:
      uas.append(['UpdateRecord', 'Src', live[a % len(live)], {'manualSort': pick(MS_POOL, b)}])
      kinds.append('move')
    elif k in (7, 8) and prows:
      col = PROBE_DATA[b % len(PROBE_DATA)][0]
      uas.append(['UpdateRecord', 'Probe', prows[a % len(prows)], {col: pick(PPOOL[cls][col], c)}])
      kinds.append('probe-change')
  return uas, kinds


# ---------------------------------------------------------------------------

class Checker(object):
  def __init__(self, d, pns, finds, out):
    self.d = d; self.pns = pns; self.finds = finds; self.out = out
    self.nontrivial = False
    self.last_edit = None

  def check(self, stage):
    out = self.out
    srep = self.d.fetch_repr('Src')
    prep = self.d.fetch_repr('Probe')
    rows, bad = R.table_rows(srep, SRC_TYPES)
    prows, pbad = R.table_rows(prep, PROBE_TYPES)
    if bad or pbad:
      out.cls('unjudged:cell-out-of-model')
      return False
    for col in SORTCOLS:
      cl = R.classify_values([r[col] for r in rows])
      if cl == 'mixed' or cl.endswith('+none'):
        out.cls('sort-values:%s:%s' % (col, cl))
    # PREVIOUS / NEXT / RANK: one cell per Src row
    for i, pn in enumerate(self.pns):
      cells = srep[3].get('Q%d' % i)
      spec = R.sort_spec(pn['order'], True)
      for ri, rec in enumerate(rows):
        try:
          keys = [(c, R.convert_key(SRC_TYPES[c], rec[c])) for c in pn['group']]
        except R.OutOfModel:
          out.cls('unjudged:group-key-out-of-model')
          continue
        group = [r for r in rows if all(R.eq_rich(k, r[c]) for c, k in keys)]
        ordered = R.ordered(group, spec)
        nb = R.neighbours(ordered, rec['id'])
        if nb is None:
          out.cls('unjudged:record-not-in-its-group')
          continue
        prev_id, next_id, pos, size = nb
        if pn['fn'] == 'PREVIOUS':
          exp = ['R', 'Src', prev_id]
        elif pn['fn'] == 'NEXT':
          exp = ['R', 'Src', next_id]
        else:
          exp = pos if pn['rank_order'] == 'asc' else size - pos + 1
        dup = self.has_dup(ordered, spec)
        if dup:
          out.cls('ordered-set:duplicate-sort-key')
          self.nontrivial = True
        if size >= 2 and (prev_id == 0 or next_id == 0):
          out.cls('record-at-end-of-group')
        got = cells[ri]
        if got != exp:
          self.report_pn(pn, rec, got, exp, stage, [r['id'] for r in ordered])
          return True
    # find.*: one cell per Probe row
    for i, fd in enumerate(self.finds):
      cells = prep[3].get('F%d' % i)
      spec = R.sort_spec(fd['order'], True)
      for pi, prow in enumerate(prows):
        try:
          if fd['key'] is None:
            matched = rows
          else:
            k = R.literal(fd['key'][1]) if fd['key'][0] == 'const' else prow[fd['key'][1]]
            k = R.convert_key('Text', k)
            matched = [r for r in rows if R.eq_rich(k, r['G'])]
          values = [R.literal(v[1]) if v[0] == 'const' else prow[v[1]] for v in fd['vals']]
        except R.OutOfModel:
          out.cls('unjudged:probe-out-of-model')
          continue
        ordered = R.ordered(matched, spec)
        exp_id = R.find_scan(fd['op'], ordered, spec, values)
        exp = ['R', 'Src', exp_id]
        self.classify_probe(ordered, spec, values)
        got = cells[pi]
        if got != exp:
          self.report_find(fd, pi, got, exp, stage, [r['id'] for r in ordered], values)
          return True
    return False

  def has_dup(self, ordered, spec):
    named = [(c, s) for c, s in spec if c != 'manualSort']
    for x, y in zip(ordered, ordered[1:]):
      if all(R.cmp_rich(R.row_value(x, c), R.row_value(y, c)) == 0 for c, _ in named):
        return True
    return False

  def classify_probe(self, ordered, spec, values):
    out = self.out
    if not ordered:
      out.cls('probe:empty-set')
      return
    rel = [R.cmp_row_to_values(spec, r, values) for r in ordered]
    if 0 in rel:
      out.cls('probe:equals-existing-key')
      if rel.count(0) >= 2:
        out.cls('probe:equals-duplicated-key')
      self.nontrivial = True
    elif all(x < 0 for x in rel) or all(x > 0 for x in rel):
      out.cls('probe:outside-range')
      self.nontrivial = True
    else:
      out.cls('probe:between-keys')
    if self.has_dup(ordered, spec):
      out.cls('ordered-set:duplicate-sort-key')
      self.nontrivial = True
    tags = set(v[0] for v in values)
    for r in ordered:
      for (c, _s), v in zip(spec, values):
        t = R.row_value(r, c)[0]
        if t != v[0] and not (t in R.NUMERIC_TAGS and v[0] in R.NUMERIC_TAGS):
          out.cls('probe:type-differs-from-cell')
          return

  def stage_txt(self, stage):
    return stage if stage == 'initial' else 'after ' + str(self.last_edit)

  def report_pn(self, pn, rec, got, exp, stage, ordered_ids):
    detail = {'formula': pn['formula'], 'row': rec['id'], 'got': got, 'expected': exp, 'ordered_group': ordered_ids,
              'stage': stage, 'last_bundle': self.last_edit}
    if isinstance(got, list) and got and got[0] == 'E':
      if pn['order'] == ['order_by', 'id']:
        sig = 'C14:order-by-id-only-raises:%s' % (got[1] if len(got) > 1 else '?')
      else:
        sig = 'C14:%s-raised:%s:%s' % (pn['fn'], got[1] if len(got) > 1 else '?', stage)
      self.out.fail(sig, '%s on row %d raised %r, linear scan gives %r (ordered group %r; %s)' % (
        pn['formula'], rec['id'], got, exp, ordered_ids, self.stage_txt(stage)), detail)
      return
    sig = 'C14:%s:%s:%s' % (pn['fn'] if pn['fn'] != 'RANK' else 'RANK-' + pn['rank_order'],
                            'grouped' if pn['group'] else 'whole-table', stage)
    self.out.fail(sig, '%s on row %d = %r, linear scan of the ordered group %r gives %r (%s)' % (
      pn['formula'], rec['id'], got, ordered_ids, exp, self.stage_txt(stage)), detail)

  def report_find(self, fd, pi, got, exp, stage, ordered_ids, values):
    detail = {'formula': fd['formula'], 'probe_row': pi + 1, 'probe_values': [list(v) for v in values], 'got': got,
              'expected': exp, 'ordered': ordered_ids, 'stage': stage, 'last_bundle': self.last_edit}
    if isinstance(got, list) and got and got[0] == 'E':
      self.out.fail('C14:find-%s-raised:%s:%s' % (fd['op'], got[1] if len(got) > 1 else '?', stage),
                    '%s (probe row %d, values %r) raised %r, linear scan gives %r (%s)' % (
                      fd['formula'], pi + 1, values, got, exp, self.stage_txt(stage)), detail)
      return
    self.out.fail('C14:find-%s:%s' % (fd['op'], stage),
                  '%s (probe row %d, values %r) = %r, linear scan over %r gives %r (%s)' % (
                    fd['formula'], pi + 1, values, got, ordered_ids, exp, self.stage_txt(stage)), detail)


def run_case(case):
  out = Outcome()
  ex = case.get('explicit') if isinstance(case, dict) else None
  if isinstance(ex, dict):
    # stable witness form: formulas + their reference description + concrete data and user actions
    out.cls('explicit-case')
    pns = [dict(p, labels=[]) for p in ex.get('pn', [])]
    finds = [dict(f, labels=[]) for f in ex.get('find', [])]
    src_vals, probe_vals = ex.get('src', {}), ex.get('probe', {})
    n_src = max([len(v) for v in src_vals.values()] + [0])
    n_probe = max([len(v) for v in probe_vals.values()] + [0])
    cls = None
  else:
    mixed = gi([g(case, 'mixed', 0)], 0) % 2 == 1
    cls = 'mixed' if mixed else 'dup'
    out.cls('class:' + ('mixed-type-sort-keys' if mixed else 'duplicate-sort-keys'))
    rare_id = gi([g(case, 'rare', 1)], 0) % 40 == 39
    pns = [build_pn(s, mixed, rare_id and i == 0) for i, s in enumerate((g(case, 'pn', []) or [])[:4]) if isinstance(s, list)]
    finds = [build_find(s, mixed) for s in (g(case, 'find', []) or [])[:5] if isinstance(s, list)]
    rows = [x for x in (g(case, 'rows', []) or [])[:8] if isinstance(x, list)]
    src_vals = {c: [] for c, _ in SRC_DATA}
    for x in rows:
      rv = row_values(cls, x)
      for c in src_vals:
        src_vals[c].append(rv[c])
    src_vals['manualSort'] = [pick(MS_POOL, gi(x, 5)) for x in rows]
    n_src = len(rows)
    prows = [x for x in (g(case, 'prows', []) or [])[:4] if isinstance(x, list)] or [[0, 0, 0, 0]]
    probe_vals = {c: [pick(PPOOL[cls][c], gi(x, i)) for x in prows] for i, (c, _t) in enumerate(PROBE_DATA)}
    n_probe = len(prows)
  if not pns and not finds:
    out['skipped'] = True
    return out
  d = Doc()
  r = d.apply([['AddTable', 'Src', [{'id': c, 'type': t, 'isFormula': False} for c, t in SRC_DATA] +
                [{'id': 'M', 'type': 'Any', 'isFormula': True, 'formula': '$X'}] +
                [{'id': 'Q%d' % i, 'type': 'Any', 'isFormula': True, 'formula': pn['formula']} for i, pn in enumerate(pns)]]])
  if not r.ok:
    raise RuntimeError('setup failed: %r' % (r.error,))
  if n_src:
    r = d.apply([['BulkAddRecord', 'Src', [None] * n_src, src_vals]])
    if not r.ok:
      raise RuntimeError('adding rows failed: %r' % (r.error,))
  acts = [['AddTable', 'Probe', [{'id': c, 'type': t, 'isFormula': False} for c, t in PROBE_DATA] +
           [{'id': 'VA', 'type': 'Any', 'isFormula': True, 'formula': '$VM'}] +
           [{'id': 'S%d' % i, 'type': fd['via'], 'isFormula': True, 'formula': fd['lookup']}
            for i, fd in enumerate(finds) if fd.get('via')] +
           [{'id': 'F%d' % i, 'type': 'Any', 'isFormula': True, 'formula': fd['formula'].replace('$S.', '$S%d.' % i)}
            for i, fd in enumerate(finds)]]]
  if n_probe:
    acts.append(['BulkAddRecord', 'Probe', [None] * n_probe, probe_vals])
  r = d.apply(acts)
  if not r.ok:
    raise RuntimeError('probe table failed: %r' % (r.error,))
  for x in pns + finds:
    out.cls(*x['labels'])
  ck = Checker(d, pns, finds, out)
  failed = ck.check('initial')
  bundles = ex.get('edits', []) if isinstance(ex, dict) else (g(case, 'edits', []) or [])[:5]
  for bundle in bundles:
    if failed:
      break
    if not isinstance(bundle, list):
      continue
    if isinstance(ex, dict):
      uas, kinds = bundle, ['explicit']
    else:
      uas, kinds = resolve_edits(d, [op for op in bundle if isinstance(op, list)], cls)
    if not uas:
      continue
    r = d.apply(uas)
    if not r.ok:
      out.cls('rejected-bundle:' + '+'.join(sorted(set(kinds))))
      break
    for k in kinds:
      out.cls('edit:' + k)
    ck.last_edit = '+'.join(sorted(set(kinds)))
    out.cls('judged-after-edit')
    failed = ck.check('after-edit')
  out['concrete'] = d.concrete_history()[1:]
  out['nontrivial'] = ck.nontrivial
  return out
