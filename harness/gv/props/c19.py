"""C19 Invalid formulas are isolated and valid ones mean what they say.

A formula text is installed on column F (type Any) of table Tab (data column A:Int, witness formula G = `$A * 2`)
through AddColumn, then an input cell is edited, F is replaced by a known-good formula and the text is installed
again through ModifyColumn. A second table Oth (X:Int, Y = `$X + 1`, Z = `Tab.lookupOne(A=$X).G`) shares the generated
module. Texts: (a) arbitrary unicode text, python-looking character soup and damaged grammar output; (b) a grammar of
Python fragments. For (b) an independent translation (own dedent, tokenize-based `$name` -> `rec.name`, ast-based
"return the last expression statement", compiled as a function without any re-indentation) is executed against a plain
record object and compared with the engine's cells.
"""
import ast
import builtins
import io
import os
import re
import tokenize
from hypothesis import strategies as st
from ..runner import Outcome
from ..doc import Doc
from .. import eqv

ID = 'C19'
LEVEL = 'exploration'
TECHNIQUE = ('property-based testing: arbitrary text + grammar-based formula generation; differential oracle against an '
             'independent tokenize/ast translation executed with exec, plus isolation invariants')
RULE = ('case = {kind, formulas[1..8], avals, a2}; kind "text": st.text() (NUL, CR, tabs, any unicode), very long lines, '
        'python-looking character soup, and grammar output damaged by one random edit; kind "py": grammar of Python '
        'fragments (expressions, multi-statement bodies, def/return, try/except, comprehensions, lambdas, decorators, '
        'global, import, yield, class, multi-line/triple-quoted and f-strings, `$name` inside strings and comments, odd '
        '`$` forms, missing return, assignment to rec / rec.x / $x, common and ragged leading indentation, trailing '
        'backslashes, blank/comment-only lines). Each formula goes through AddColumn, an input edit, a known-good '
        'ModifyColumn and ModifyColumn back to the text. Non-trivial = (valid by the documented rules AND a `$` occurs '
        'inside a string or comment) OR (invalid AND the text has >= 2 lines); distinct by formula text.')
ORACLE = ('ALWAYS (both kinds): every user action succeeds; Tab.A, Tab.G (= 2*A), Tab row ids and every cell of Oth keep '
          'their model values; a following Calculate succeeds and stores nothing; after the edit of A the witnesses follow. '
          'Kind py (and kind text when the text cannot be parsed): the independent translation decides: blank -> nothing '
          'more; invalid (does not tokenize/parse after dedent and `$name`->`rec.name`, or no `return` anywhere and the '
          'last statement is not an expression, or binds `rec` / assigns `rec.<attr>`, or not compilable as a function body) '
          '-> every F cell is an error value; valid -> each F cell equals the encoded result of exec()-ing the translated '
          'body as `def f(rec, table)` for that row (value, or [\'E\', <exception class name>, ...]).')
ASSUMPTIONS = ['documented validity rules followed (codebuilder.py comments): common leading whitespace is removed first; '
               'empty body -> None; last expression statement returned; no `return` at all + non-expression last statement '
               'is an error; assignment to `rec` or `rec.<attr>` is an error; text that stops parsing after `$`->`rec.` is an error',
               '`$name` means `$` directly followed by an ASCII identifier at a token boundary; a `$` glued to a preceding '
               'name/number, `$` + non-ASCII identifier, and a last statement that is a bare `yield` are "odd": only an error '
               'value or the ALWAYS rules are required (the statement does not fix their meaning)',
               'texts containing NUL, lone CR or form feed are only subject to the ALWAYS rules (Python\'s own reading of '
               'those characters is not part of the statement)',
               'results that are not plain data (generators, classes, functions, sets, huge ints) are not compared',
               'grammar identifiers are limited to rec/$A/$G/$id, literals, builtins and locally imported names so the exec '
               'environment (builtins only) matches the formula environment; LAZY functions (IF, ISERR, PEEK) are not generated']
BUDGET = {'quick': dict(examples=900, shards=8, max_seconds=45),
          'thorough': dict(examples=11000, shards=16, max_seconds=1800)}
SHRINK_BUDGET = {'quick': 150, 'thorough': 500}

GOOD = '$A + 1000'


# ---------------------------------------------------------------------------
# independent translation

_ASCII_IDENT = re.compile(r'[A-Za-z_][A-Za-z_0-9]*\Z')
# after these tokens Python wants a bare identifier: `x.$A`, `def $A()`, `import $A` have no `rec.name` reading
_NAME_ONLY_CONTEXT = ('.', 'import', 'from', 'as', 'global', 'nonlocal', 'def', 'class')
_BLANK_LINE_WS = re.compile(r'(?m)^[ \t]+$')


def _strip_blank_line_ws(v):
  if isinstance(v, str):
    return _BLANK_LINE_WS.sub('', v)
  if isinstance(v, list):
    return [_strip_blank_line_ws(x) for x in v]
  if isinstance(v, dict):
    return {_strip_blank_line_ws(k): _strip_blank_line_ws(x) for k, x in v.items()}
  return v


def dedent(text):
  """Remove the whitespace prefix shared by all lines that have content (lines end at '\\n')."""
  lines = text.split('\n')
  margins = []
  for ln in lines:
    body = ln.lstrip(' \t')
    if body:
      margins.append(ln[:len(ln) - len(body)])
  margin = os.path.commonprefix(margins) if margins else ''
  if not margin:
    return text
  return '\n'.join(ln[len(margin):] if ln.startswith(margin) else ln for ln in lines)


class Spec(object):
  """status: blank | exotic | invalid | odd | valid ; code (valid only); features (labels)"""
  def __init__(self, status, reason='', code=None, features=()):
    self.status = status; self.reason = reason; self.code = code; self.features = list(features)


def _binds_rec(tree):
  for node in ast.walk(tree):
    if isinstance(node, ast.Name) and node.id == 'rec' and isinstance(node.ctx, ast.Store):
      return 'assigns-rec'
    if isinstance(node, ast.Attribute) and isinstance(node.ctx, ast.Store) and \
       isinstance(node.value, ast.Name) and node.value.id == 'rec':
      return 'assigns-rec-attr'
    if isinstance(node, ast.ExceptHandler) and node.name == 'rec':
      return 'assigns-rec'
  return None


def _odd_bindings(tree):
  """Bindings of `rec` that are not assignments in the documented sense (parameters, imports, del, global)."""
  for node in ast.walk(tree):
    if isinstance(node, ast.arg) and node.arg == 'rec':
      return True
    if isinstance(node, ast.alias) and (node.asname or node.name.split('.')[0]) == 'rec':
      return True
    if isinstance(node, (ast.Global, ast.Nonlocal)) and 'rec' in node.names:
      return True
    if isinstance(node, (ast.Name, ast.Attribute)) and isinstance(node.ctx, ast.Del):
      if isinstance(node, ast.Name) and node.id == 'rec':
        return True
      if isinstance(node, ast.Attribute) and isinstance(node.value, ast.Name) and node.value.id == 'rec':
        return True
    if isinstance(node, (ast.FunctionDef, ast.ClassDef, ast.AsyncFunctionDef)) and node.name == 'rec':
      return True
    if isinstance(node, (ast.MatchAs, ast.MatchStar)) and node.name == 'rec':
      return True
  return False


def translate(formula):
  feats = []
  if '\x00' in formula or '\x0c' in formula or re.search(r'\r(?!\n)', formula):
    return Spec('exotic', 'NUL / lone CR / form feed', features=['control-char'])
  if not formula.strip():
    return Spec('blank')
  text = dedent(formula)
  if text != formula:
    feats.append('common-indentation-removed')
  lines = text.split('\n')
  starts = [0]
  for ln in lines:
    starts.append(starts[-1] + len(ln) + 1)
  try:
    toks = list(tokenize.generate_tokens(io.StringIO(text).readline))
  except (tokenize.TokenError, SyntaxError) as e:
    return Spec('invalid', 'tokenize: %s' % type(e).__name__, features=feats)
  except (RecursionError, MemoryError, ValueError) as e:
    return Spec('exotic', 'reference translation cannot tokenize: %s' % type(e).__name__, features=feats + ['too-deep'])
  odd = None
  edits = []
  for i, t in enumerate(toks):
    if t.type in (tokenize.STRING, tokenize.FSTRING_MIDDLE) and '$' in t.string:
      feats.append('dollar-in-string')
    if t.type == tokenize.COMMENT and '$' in t.string:
      feats.append('dollar-in-comment')
    if t.type == tokenize.STRING and '\n' in t.string or t.type == tokenize.FSTRING_MIDDLE and '\n' in t.string:
      feats.append('multi-line-string')
    if t.type == tokenize.FSTRING_START:
      feats.append('f-string')
    if t.type == tokenize.ERRORTOKEN:
      return Spec('invalid', 'error token', features=feats)
    if t.type == tokenize.OP and '$' in t.string:
      if t.string != '$':
        return Spec('exotic', 'odd token %r' % t.string, features=feats)
      nxt = toks[i + 1] if i + 1 < len(toks) else None
      prev = toks[i - 1] if i else None
      if nxt is None or nxt.type != tokenize.NAME or nxt.start != t.end:
        return Spec('invalid', 'dollar without name', features=feats + ['odd-dollar'])
      if not _ASCII_IDENT.match(nxt.string):
        odd = 'dollar + non-ascii name'
      if prev is not None and prev.end == t.start and prev.type in (tokenize.NAME, tokenize.NUMBER):
        odd = 'dollar glued to previous token'
      if prev is not None and prev.string in _NAME_ONLY_CONTEXT:
        odd = 'dollar name where python wants a plain name'
      edits.append(starts[t.start[0] - 1] + t.start[1])
      feats.append('dollar-name')
  if odd:
    return Spec('odd', odd, features=feats + ['odd-dollar'])
  out = []
  pos = 0
  for e in edits:
    if text[e] != '$':
      return Spec('exotic', 'position mismatch', features=feats)
    out.append(text[pos:e]); out.append('rec.')
    pos = e + 1
  out.append(text[pos:])
  py = ''.join(out)
  try:
    tree = ast.parse(py)
  except SyntaxError as e:
    return Spec('invalid', 'parse: %s' % type(e).__name__, features=feats)
  except (RecursionError, MemoryError, ValueError) as e:
    return Spec('exotic', 'reference translation cannot parse: %s' % type(e).__name__, features=feats + ['too-deep'])
  body = list(tree.body)
  has_return = any(isinstance(n, ast.Return) for n in ast.walk(tree))
  if body and isinstance(body[-1], ast.Expr):
    if isinstance(body[-1].value, (ast.Yield, ast.YieldFrom)):
      return Spec('odd', 'last statement is a yield', features=feats)
    ret = ast.Return(value=body[-1].value)
    ast.copy_location(ret, body[-1])
    body[-1] = ret
    feats.append('last-expression-returned')
  elif not body:
    body = [ast.Pass()]
    feats.append('empty-body')
  elif not has_return:
    return Spec('invalid', 'no return and last statement not an expression', features=feats + ['missing-return'])
  else:
    feats.append('explicit-return')
  why = _binds_rec(tree)
  if why:
    return Spec('invalid', why, features=feats + [why])
  fn = ast.FunctionDef(name='_formula', args=ast.arguments(
    posonlyargs=[], args=[ast.arg(arg='rec'), ast.arg(arg='table')], vararg=None, kwonlyargs=[], kw_defaults=[],
    kwarg=None, defaults=[]), body=body, decorator_list=[], returns=None, type_comment=None, type_params=[])
  mod = ast.Module(body=[fn], type_ignores=[])
  try:
    ast.fix_missing_locations(mod)
    code = compile(mod, '<c19-spec>', 'exec')
  except SyntaxError as e:
    return Spec('invalid', 'compile: %s' % (e.msg,), features=feats + ['rejected-by-compile-only'])
  except (RecursionError, MemoryError, ValueError) as e:
    return Spec('exotic', 'reference translation cannot compile: %s' % type(e).__name__, features=feats + ['too-deep'])
  if _odd_bindings(tree):
    return Spec('odd', 'rec bound by parameter/import/del/global', features=feats)
  return Spec('valid', code=code, features=feats)


_BLANK_LINE_4 = re.compile(r'\n {4}(?=[^\S\n]*\n)')


def with_blank_string_lines_unindented(formula):
  """The formula text as the known engine defect reads it: inside multi-line string literals every
  whitespace-only line that starts with 4 spaces loses them. Returns None when nothing changes."""
  text = dedent(formula)
  lines = text.split('\n')
  starts = [0]
  for ln in lines:
    starts.append(starts[-1] + len(ln) + 1)
  try:
    toks = list(tokenize.generate_tokens(io.StringIO(text).readline))
  except Exception:
    return None
  ranges = []
  depth = 0
  begin = None
  for t in toks:
    if t.type == tokenize.STRING and depth == 0:
      ranges.append((starts[t.start[0] - 1] + t.start[1], starts[t.end[0] - 1] + t.end[1]))
    elif t.type == tokenize.FSTRING_START:
      if depth == 0:
        begin = starts[t.start[0] - 1] + t.start[1]
      depth += 1
    elif t.type == tokenize.FSTRING_END:
      depth -= 1
      if depth == 0 and begin is not None:
        ranges.append((begin, starts[t.end[0] - 1] + t.end[1]))
  out = []
  pos = 0
  for a, b in ranges:
    out.append(text[pos:a])
    out.append(_BLANK_LINE_4.sub('\n', text[a:b]))
    pos = b
  out.append(text[pos:])
  res = ''.join(out)
  return res if res != text else None


class Rec(object):
  __slots__ = ('A', 'G', 'id')
  def __init__(self, id, A):
    self.id = id; self.A = A; self.G = A * 2


class NotComparable(Exception):
  pass


def encode(v, depth=0):
  if v is None or type(v) in (str, bool, float):
    return v
  if type(v) is int:
    if abs(v) >= 2 ** 53:
      raise NotComparable()
    return v
  if type(v) in (list, tuple):
    if depth > 20:
      raise NotComparable()
    return ['L'] + [encode(x, depth + 1) for x in v]
  if type(v) is dict:
    if not all(type(k) is str for k in v):
      raise NotComparable()
    return ['O', {k: encode(x, depth + 1) for k, x in v.items()}]
  raise NotComparable()


def evaluate(spec, row_id, a):
  """-> ('value', canon) | ('raise', class name) | ('skip',)"""
  g = {'__builtins__': builtins, '__name__': 'usercode'}
  exec(spec.code, g)
  try:
    res = g['_formula'](Rec(row_id, a), None)
  except RecursionError:
    return ('skip',)
  except Exception as e:     # the formula's own exception
    return ('raise', type(e).__name__)
  try:
    return ('value', eqv.canon(encode(res)))
  except NotComparable:
    return ('skip',)
  except RecursionError:
    return ('skip',)


# ---------------------------------------------------------------------------
# running one formula

SETUP = [
  ['AddTable', 'Tab', [{'id': 'A', 'type': 'Int', 'isFormula': False},
                       {'id': 'G', 'type': 'Any', 'isFormula': True, 'formula': '$A * 2'}]],
  ['AddTable', 'Oth', [{'id': 'X', 'type': 'Int', 'isFormula': False},
                       {'id': 'Y', 'type': 'Any', 'isFormula': True, 'formula': '$X + 1'},
                       {'id': 'Z', 'type': 'Any', 'isFormula': True, 'formula': 'Tab.lookupOne(A=$X).G'}]],
]
XVALS = [3, 4, 0]


def new_doc(avals):
  d = Doc()
  r = d.apply(SETUP + [['BulkAddRecord', 'Tab', [None] * len(avals), {'A': list(avals)}],
                       ['BulkAddRecord', 'Oth', [None] * len(XVALS), {'X': list(XVALS)}]])
  if not r.ok:
    raise RuntimeError('C19 setup failed: %r' % (r.error,))
  return d


def raise_signature(formula, err):
  """Root-cause bucket for a user action that raised."""
  if '\x00' in formula:
    return 'nul-char'
  if isinstance(err, RecursionError):
    return 'RecursionError-deeply-nested-text'
  if isinstance(err, MemoryError):
    return 'MemoryError'
  if isinstance(err, IndexError) and dedent(formula) != formula:
    return 'IndexError-syntax-error-position-vs-dedented-text'
  if isinstance(err, SyntaxError):
    if re.search(r'\r(?!\n)', formula):
      return 'lone-CR-ends-line-for-python-only'
    if '\x0c' in formula:
      return 'form-feed-resets-indentation-for-python-only'
    sp = translate(formula)
    if 'rejected-by-compile-only' in sp.features:
      return 'syntax-error-found-only-by-compile'
    return 'SyntaxError:%s' % sp.status
  return type(err).__name__


def witnesses(doc, avals):
  """None or (sig, msg, detail): Tab.A/G/rows and the whole of Oth against their model."""
  try:
    tab = doc.view('Tab'); oth = doc.view('Oth')
  except Exception as e:
    return 'fetch-raised', 'fetch_table raised %r' % (e,), None
  n = len(avals)
  if tab['id'] != list(range(1, n + 1)):
    return 'tab-rows-changed', 'Tab row ids %r' % (tab['id'],), None
  for i, a in enumerate(avals):
    if tab.get('A', {}).get(i + 1) != float(a):
      return 'data-column-changed', 'Tab.A[%d] = %r, expected %r' % (i + 1, tab.get('A', {}).get(i + 1), a), None
    if tab.get('G', {}).get(i + 1) != float(2 * a):
      return 'witness-formula-changed', 'Tab.G[%d] = %r, expected %r (= $A * 2)' % (
        i + 1, tab.get('G', {}).get(i + 1), 2 * a), None
  if oth['id'] != [1, 2, 3]:
    return 'other-table-changed', 'Oth row ids %r' % (oth['id'],), None
  for i, x in enumerate(XVALS):
    z = float(2 * x) if x in avals else None
    got = (oth.get('X', {}).get(i + 1), oth.get('Y', {}).get(i + 1), oth.get('Z', {}).get(i + 1))
    if got != (float(x), float(x + 1), z):
      return 'other-table-changed', 'Oth row %d = %r, expected %r' % (i + 1, got, (x, x + 1, z)), None
  return None


def check_f(doc, spec, avals, kind, formula):
  """None or (sig, msg, detail) for column F against the independent translation."""
  tab = doc.view('Tab')
  col = tab.get('F')
  if col is None:
    return 'column-missing', 'column F is not reported', None
  cells = [col.get(i + 1) for i in range(len(avals))]
  if spec.status in ('blank', 'exotic'):
    return None
  if spec.status in ('invalid', 'odd'):
    if spec.status == 'odd' and spec.reason.startswith('last statement is a yield'):
      return None
    if spec.status == 'odd' and spec.reason.startswith('rec bound'):
      return None
    bad = [c for c in cells if not eqv.is_error_cell(c)]
    if bad:
      return ('invalid-formula-yields-value', 'formula is invalid (%s) but F holds %r' % (spec.reason, cells),
              {'cells': cells, 'reason': spec.reason})
    return None
  if kind != 'py':
    return None
  bad = compare_cells(spec, cells, avals)
  if bad and 'multi-line-string' in spec.features:
    alt_text = with_blank_string_lines_unindented(formula)
    if alt_text is not None:
      alt = translate(alt_text)
      if alt.status == 'valid' and compare_cells(alt, cells, avals) is None:
        return ('valid-formula:multi-line-string-whitespace-only-line-altered',
                bad[1] + ' (the cells match the text with whitespace-only string lines stripped of 4 spaces)', bad[2])
  return bad


def compare_cells(spec, cells, avals):
  for i, a in enumerate(avals):
    exp = evaluate(spec, i + 1, a)
    cell = cells[i]
    if exp[0] == 'skip':
      continue
    if exp[0] == 'raise':
      if not (eqv.is_error_cell(cell) and len(cell) >= 2 and cell[1] == exp[1]):
        kindsig = 'error-class-differs' if eqv.is_error_cell(cell) else 'value-instead-of-exception'
        return ('valid-formula:' + kindsig, 'F[%d] (A=%r) holds %r; the text raises %s' % (i + 1, a, cell, exp[1]),
                {'cell': cell, 'expected': ['E', exp[1]], 'A': a})
    else:
      if cell != exp[1]:
        if eqv.is_error_cell(cell):
          kindsig = 'engine-error:%s' % (cell[1] if len(cell) > 1 else '?')
        else:
          kindsig = 'value-differs'
        return ('valid-formula:' + kindsig, 'F[%d] (A=%r) holds %r; the text evaluates to %r' % (i + 1, a, cell, exp[1]),
                {'cell': cell, 'expected': exp[1], 'A': a})
  return None


def run_formula(out, doc, formula, avals, a2, kind, spec):
  """Returns True when the document can be reused for the next formula."""
  steps = [
    ('AddColumn', [['AddColumn', 'Tab', 'F', {'type': 'Any', 'isFormula': True, 'formula': formula}]], spec),
    ('edit-input', [['UpdateRecord', 'Tab', 1, {'A': a2}]], spec),
    ('known-good', [['ModifyColumn', 'Tab', 'F', {'formula': GOOD}]], None),
    ('ModifyColumn', [['ModifyColumn', 'Tab', 'F', {'formula': formula}]], spec),
  ]
  cur = list(avals)
  for name, uas, sp in steps:
    if name == 'edit-input':
      cur = [a2] + cur[1:]
    r = doc.apply(uas)
    if not r.ok:
      if name in ('AddColumn', 'ModifyColumn'):
        out.fail('C19:action-raised:' + raise_signature(formula, r.error),
                 '%s with formula %r raised %r' % (name, formula, r.error), {'formula': formula, 'step': name})
      else:
        out.fail('C19:later-action-raised:' + type(r.error).__name__,
                 'after installing formula %r, %r raised %r' % (formula, uas, r.error), {'formula': formula, 'step': name})
      w = witnesses(doc, cur if name != 'edit-input' else list(avals))
      if w:
        out.fail('C19:after-failed-action:' + w[0], 'after the failed %s of %r: %s' % (name, formula, w[1]),
                 {'formula': formula})
      return False
    w = witnesses(doc, cur)
    if w:
      out.fail('C19:isolation:' + w[0], 'after %s with formula %r: %s' % (name, formula, w[1]),
               {'formula': formula, 'step': name})
      return False
    if sp is None:
      tab = doc.view('Tab')
      got = [tab.get('F', {}).get(i + 1) for i in range(len(cur))]
      if got != [float(a + 1000) for a in cur]:
        out.fail('C19:isolation:column-does-not-recover', 'after replacing %r by %r F holds %r' % (formula, GOOD, got),
                 {'formula': formula})
        return False
    else:
      f = check_f(doc, sp, cur, kind, formula)
      if f:
        out.fail('C19:' + f[0], 'after %s with formula %r: %s' % (name, formula, f[1]),
                 dict(f[2] or {}, formula=formula, step=name, status=sp.status))
        return False
    c = doc.calculate()
    if not c.ok:
      out.fail('C19:calculate-raised:' + type(c.error).__name__,
               'Calculate after %s with formula %r raised %r' % (name, formula, c.error), {'formula': formula})
      return False
    if c.stored or c.calc:
      out.fail('C19:calculate-emits-actions', 'Calculate after %s with formula %r emitted %r' % (
        name, formula, (c.stored + c.calc)[:3]), {'formula': formula})
      return False
  r = doc.apply([['RemoveColumn', 'Tab', 'F']])
  r2 = doc.apply([['UpdateRecord', 'Tab', 1, {'A': avals[0]}]])
  return r.ok and r2.ok and witnesses(doc, avals) is None


def run_case(case):
  out = Outcome()
  if not isinstance(case, dict):
    out['skipped'] = True
    return out
  kind = 'py' if case.get('kind') == 'py' else 'text'
  formulas = case.get('formulas')
  if not isinstance(formulas, list):
    formulas = []
  formulas = [f for f in formulas if isinstance(f, str)][:8]
  if not formulas:
    out['skipped'] = True
    return out
  av = case.get('avals') if isinstance(case.get('avals'), list) else []
  avals = []
  for a in av[:3]:
    try:
      avals.append(max(-9, min(9, int(a))))
    except (TypeError, ValueError):
      avals.append(0)
  while len(avals) < 2:
    avals.append(len(avals) + 3)
  try:
    a2 = max(-9, min(9, int(case.get('a2', 1))))
  except (TypeError, ValueError):
    a2 = 1
  doc = None
  nt = 0
  keys = []
  for formula in formulas:
    spec = translate(formula)
    if doc is None:
      doc = new_doc(avals)
    before = len(out['failures'])
    reusable = run_formula(out, doc, formula, avals, a2, kind, spec)
    if not reusable:
      doc = None
    out.cls('kind:' + kind, 'status:' + spec.status)
    out.cls(*['feat:' + f for f in sorted(set(spec.features))])
    nlines = len(formula.split('\n'))
    if nlines >= 2:
      out.cls('multi-line')
    if len(formula) > 1000:
      out.cls('very-long')
    if '\r\n' in formula:
      out.cls('CRLF')
    if any(ord(ch) > 127 for ch in formula):
      out.cls('non-ascii')
    in_str = 'dollar-in-string' in spec.features or 'dollar-in-comment' in spec.features
    if spec.status == 'valid' and in_str:
      nt += 1; out.cls('NT:valid+dollar-in-string-or-comment')
    elif spec.status == 'invalid' and nlines >= 2:
      nt += 1; out.cls('NT:invalid+multi-line')
    if spec.status == 'valid' and kind == 'py':
      r0 = evaluate(spec, 1, avals[0])
      out.cls('expect:' + (r0[0] if r0[0] != 'raise' else 'raise'))
      if r0[0] == 'raise':
        out.cls('expect-raise:' + r0[1])
  out['weight'] = len(formulas)
  out['nontrivial'] = nt > 0
  out['nt_weight'] = nt
  out['key'] = eqv.digest([kind, formulas])
  out['concrete'] = {'formulas': formulas, 'avals': avals, 'a2': a2}
  return out


# ---------------------------------------------------------------------------
# generators

def _join(*parts):
  return st.tuples(*parts).map(lambda t: ''.join(t))


def string_literals():
  piece = st.sampled_from(['$A', '$G', '$id', '$', ' ', '#', '# $A', 'x', 'rec.A', '{', '}', '\\n', '\\\\', '\\t', 'é', '%s',
                           ' $A ', 'return', '=', ':', '(', "\\'", '\\"', '0', 'λ$A', '😀', '日本'])
  content = st.lists(piece, max_size=5).map(''.join)
  single = st.tuples(st.sampled_from(['', '', 'r', 'u', 'b']), st.sampled_from(["'", '"']), content).map(
    lambda t: _quote(t[0], t[1], t[2]))
  ml_piece = st.sampled_from(['$A', '$G', ' ', '\n', '\n  ', '\n    ', '\n\t', '#', '# $A', 'x', "'", '"', 'rec.A', 'é',
                              '\n\n', 'return $A', '\\\n', ':', '$'])
  ml_content = st.lists(ml_piece, min_size=1, max_size=7).map(''.join)
  triple = st.tuples(st.sampled_from(['', '', 'r']), st.sampled_from(["'''", '"""']), ml_content).map(
    lambda t: _quote(t[0], t[1], t[2]))
  f_expr = st.sampled_from(['$A', 'rec.G + 1', '$A!r', '$A:>4', '$G * 2', '"q"', "'$A'", '$A:{$id}', 'len(str($G))',
                            '$A if $A else "z"', '{"k": $A}["k"]', ' $A ', '$A=', 'f"{$G}"', '$id + \n  $A'])
  f_piece = st.one_of(st.sampled_from(['$A', '$G ', ' ', '{{', '}}', '#', 'x', '$', 'é', '{{$A}}', ': ']),
                      f_expr.map(lambda e: '{' + e + '}'))
  f_single = st.tuples(st.sampled_from(['f', 'F', 'rf']), st.sampled_from(["'", '"']),
                       st.lists(f_piece, min_size=1, max_size=4).map(''.join)).map(
    lambda t: t[0] + t[1] + t[2].replace('\n', ' ') + t[1])
  f_triple = st.tuples(st.sampled_from(["'''", '"""']),
                       st.lists(st.one_of(f_piece, st.sampled_from(['\n', '\n  ', '\n    # $A'])), min_size=1,
                                max_size=6).map(''.join)).map(lambda t: 'f' + t[0] + t[1] + t[0])
  return st.one_of(single, single, triple, triple, f_single, f_triple)


def _quote(prefix, q, content):
  if prefix == 'b':
    content = content.replace('é', 'e').replace('λ', 'l')
  if prefix == 'r':
    content = content.replace('\\', '')
  if len(q) == 1:
    content = content.replace('\n', ' ')
    if q == "'":
      content = content.replace("\\'", '<q>').replace("'", '').replace('<q>', "\\'")
    else:
      content = content.replace('\\"', '<q>').replace('"', '').replace('<q>', '\\"')
    if prefix == 'r':
      content = content.replace("'", '').replace('"', '')
  else:
    content = content.replace(q, '').rstrip(q[0]).rstrip('\\')
  return prefix + q + content + q


ATOMS = ['$A', '$A', '$G', '$id', 'rec.A', 'rec.G', '0', '1', '2', '7', '-3', '0.5', '2.0', 'True', 'False', 'None',
         '"$A"', "'$G is $A'", '[]', '""', '$A ', ' $G', '"é€😀"', "'日本 $A'", '"😀" * $A', 'len("é😀") + $A']
ERR_ATOMS = ['undefined_qq', '[][1]', '{}["k"]', 'int("x")', 'None + 1', '$A.nope', '$nosuch', 'rec.nosuch', '1 / 0',
             '"a" + 1', 'x', 'y', 'acc', 'gq_v', 'fn(2)', 'K.z', 'floor(2.5)', 'string.digits[:3]', 'list(chain([1], [$A]))']


def expressions():
  atom = st.one_of(st.sampled_from(ATOMS), st.sampled_from(ATOMS), st.sampled_from(ERR_ATOMS), string_literals())

  def extend(inner):
    two = st.tuples(inner, inner)
    three = st.tuples(inner, inner, inner)
    return st.one_of(
      st.tuples(inner, st.sampled_from(['+', '-', '*', '//', '%', '/', '==', '!=', '<', '>=', 'and', 'or', 'in', 'not in']),
                inner).map(lambda t: '%s %s %s' % t),
      inner.map(lambda a: '(%s)' % a),
      inner.map(lambda a: 'not %s' % a),
      inner.map(lambda a: '-%s' % a),
      two.map(lambda t: '(\n  %s +\n  %s\n)' % t),
      two.map(lambda t: '(%s, # first $A\n %s)' % t),
      three.map(lambda t: '%s if %s else %s' % t),
      inner.map(lambda a: 'len(str(%s))' % a),
      inner.map(lambda a: 'str(%s)' % a),
      inner.map(lambda a: 'int(%s)' % a),
      inner.map(lambda a: 'abs(%s)' % a),
      inner.map(lambda a: 'repr(%s)' % a),
      inner.map(lambda a: 'bool(%s)' % a),
      two.map(lambda t: 'max(%s, %s)' % t),
      two.map(lambda t: 'sum([%s, %s])' % t),
      two.map(lambda t: 'sorted([%s, %s, 1])' % t),
      two.map(lambda t: '[v * 2 for v in [%s, %s] if v]' % t),
      inner.map(lambda a: '[v + %s for v in range(3)]' % a),
      inner.map(lambda a: '{str(k): k + %s for k in range(2)}' % a),
      inner.map(lambda a: 'sum(v for v in [%s, 1])' % a),
      two.map(lambda t: '(lambda v: v + %s)(%s)' % t),
      two.map(lambda t: '(lambda v, w=%s: (v, w))(%s)' % t),
      three.map(lambda t: '[%s, %s][%s %% 2]' % t),
      two.map(lambda t: '(%s, %s)' % t),
      two.map(lambda t: '[%s, %s]' % t),
      inner.map(lambda a: '{"k $A": %s}' % a),
      inner.map(lambda a: '{"k": %s}["k"]' % a),
      inner.map(lambda a: 'str(%s).zfill(4)' % a),
      two.map(lambda t: '"%%s-$A-%%s" %% (%s, %s)' % t),
      two.map(lambda t: '"{}|{}".format(%s, %s)' % t),
      inner.map(lambda a: '(w := %s)' % a),
      inner.map(lambda a: '1 / %s' % a),
      inner.map(lambda a: '%s  # trailing $A comment' % a),
      inner.map(lambda a: 'f"{%s} $A"' % a.replace('\n', ' ')),
      inner.map(lambda a: "f'''{%s}\n  $G'''" % a),
      two.map(lambda t: '%s \\\n  + %s' % t),
    )
  return st.recursive(atom, extend, max_leaves=6)


INVALID_LINES = ['rec = 5', 'rec.A = 5', '$A = 5', '$G += 1', 'rec.A, x = 1, 2', 'for rec in [1]:\n  pass', '$A == 1 = 2',
                 'x = (', 'x = = 1', 'return return', '1 +', 'if $A:', 'else:', '"unterminated $A', "'''unterminated\n$A",
                 'foo($A=1)', 'def $A():\n  pass', '$ A', '$1', '$$A', 'x$A', '$A$G', '$', '1 $A', ')', 'x = 1 \\',
                 '  unexpected_indent = 1', '\tx = 1', 'with 1 as rec:\n  pass', '[rec for rec in [1]]', '(rec := 1)',
                 'try:\n  pass\nexcept Exception as rec:\n  pass', 'x = 1 $A', 'class', 'lambda: (yield)', '$é', 'é$A',
                 'f"{$A"', 'f"{}"', '"a" $A', 'print $A', 'x = 08', '$A.$G', 'return $', 'del $A', 'x = [\n1,\n', '$A +* 2',
                 'break', 'continue', 'yield $A', 'x = yield', 'nonlocal_q = 1\n  y = 2', '$if', '$None + 1', '$return',
                 'x = "😀" $A', '# é\n"😀" + = $A', 'match $A:\n  case 3:\n    x = 1', 'x: int', 'async def af():\n  return 1']


def statements(expr):
  e = expr
  return st.one_of(
    e.map(lambda a: 'x = %s' % a),
    e.map(lambda a: 'y = %s' % a),
    st.just('x, y = $A, $G'),
    e.map(lambda a: 'x += %s' % a),
    e.map(lambda a: 'acc = 0\nfor i in range(3):\n  acc += i + %s' % a.replace('\n', ' ')),
    st.tuples(e, e, e).map(lambda t: 'if %s:\n  x = %s\nelse:\n  x = %s' % tuple(s.replace('\n', ' ') for s in t)),
    st.tuples(e, e).map(lambda t: 'if %s:\n  return %s' % (t[0].replace('\n', ' '), t[1].replace('\n', ' '))),
    st.tuples(e, e).map(lambda t: 'if %s:\n    # deep $A\n    return %s\n# back $G' % (t[0].replace('\n', ' '), t[1].replace('\n', ' '))),
    e.map(lambda a: 'try:\n  x = %s\nexcept (ZeroDivisionError, TypeError, ValueError):\n  x = -1' % a.replace('\n', ' ')),
    e.map(lambda a: 'try:\n  x = %s\nexcept Exception as e:\n  return "err: $A %%s" %% type(e).__name__\nfinally:\n  y = 0' % a.replace('\n', ' ')),
    e.map(lambda a: 'def fn(v, w=2):\n  """doc $A\n  second line"""\n  # comment $G\n  return v * w + %s' % a.replace('\n', ' ')),
    e.map(lambda a: 'def fn(v):\n  def inner(u):\n    return u + %s\n  return inner(v)' % a.replace('\n', ' ')),
    e.map(lambda a: 'def deco(f):\n  return lambda v: f(v) + 1\n@deco\ndef fn(v):\n  return v + %s' % a.replace('\n', ' ')),
    e.map(lambda a: 'fn = lambda v=1: v + %s' % a.replace('\n', ' ')),
    st.just('from math import floor'),
    st.just('import string'),
    st.just('from itertools import chain'),
    e.map(lambda a: 'global gq_v\ngq_v = %s' % a),
    e.map(lambda a: 'class K:\n  z = %s' % a.replace('\n', ' ')),
    e.map(lambda a: 'assert %s, "msg $A"' % a.replace('\n', ' ')),
    st.just('raise ValueError("bad $A")'),
    st.just('i = 0\nwhile i < 3:\n  i += 1\n  if i == 2:\n    continue  # $A\n  acc = i'),
    e.map(lambda a: 'match %s:\n  case 3:\n    x = "three $A"\n  case str() as s:\n    x = s\n  case _:\n    x = "other"' % a.replace('\n', ' ')),
    e.map(lambda a: 'x: int = %s' % a),
    e.map(lambda a: 'fn = lambda *p, **q: (p, sorted(q))\ny = fn(*[%s], k=$A)' % a.replace('\n', ' ')),
    e.map(lambda a: 'try:\n  y = 1\nfinally:\n  x = %s' % a.replace('\n', ' ')),
    e.map(lambda a: 'async def af():\n  return %s' % a.replace('\n', ' ')),
    e.map(lambda a: '"é😀"; x = %s' % a.replace('\n', ' ')),
    st.sampled_from(['# plain comment $A', '  # indented comment $G', '', '   ', 'pass', 'return', '\t', '#']),
    e.map(lambda a: 'yield %s' % a),
    string_literals().map(lambda s: 'x = %s' % s),
    string_literals(),
    e.map(lambda a: 'return %s' % a),
    e.map(lambda a: 'x = 1; y = %s' % a.replace('\n', ' ')),
    e,
  )


def py_formulas():
  e = expressions()
  stmt = statements(e)
  last = st.one_of(e, e, e, e.map(lambda a: 'return %s' % a), st.sampled_from(['x', 'y', 'x, y', 'fn(3)', 'acc', 'K.z', 'gq_v']),
                   stmt, e.map(lambda a: '%s\n# the end $A' % a), e.map(lambda a: '%s\n\n  ' % a),
                   st.tuples(e, e, e).map(lambda t: 'if %s:\n  return %s\nelse:\n  return %s' % tuple(s.replace('\n', ' ') for s in t)))
  body = st.tuples(st.lists(stmt, max_size=4), last).map(lambda t: '\n'.join(t[0] + [t[1]]))
  with_invalid = st.tuples(st.lists(stmt, max_size=3), st.sampled_from(INVALID_LINES), st.lists(stmt, max_size=2), last,
                           st.booleans()).map(
    lambda t: '\n'.join(t[0] + [t[1]] + t[2] + ([t[3]] if t[4] else [])))
  base = st.one_of(e, e, body, body, body, with_invalid, st.sampled_from(INVALID_LINES), string_literals())

  def shape(t):
    text, how, margin, tail, head = t
    lines = text.split('\n')
    if how == 1:       # common indentation on every line (also inside multi-line strings)
      lines = [margin + ln for ln in lines]
    elif how == 2:     # common indentation, blank lines left blank
      lines = [(margin + ln) if ln.strip() else ln for ln in lines]
    elif how == 3:     # first line only
      lines = [margin + lines[0]] + lines[1:]
    elif how == 4:     # all but the first
      lines = [lines[0]] + [margin + ln for ln in lines[1:]]
    text = head + '\n'.join(lines) + tail
    if how == 5:       # pasted with Windows line ends
      text = text.replace('\n', '\r\n')
    return text
  return st.tuples(base, st.sampled_from([0, 0, 0, 0, 1, 1, 2, 3, 4, 5]), st.sampled_from([' ', '  ', '    ', '\t', '  \t']),
                   st.sampled_from(['', '', '', '\n', '\n\n', '  ', ' \\', '\n  ', ' # $A', '\n# $G']),
                   st.sampled_from(['', '', '', '\n', '# c $A\n', '  \n', '\n\n'])).map(shape)


def text_formulas():
  soup = st.text(alphabet='$AGrecid. ()[]{}"\'#\n\t =+:\\,f1x-', min_size=1, max_size=40)
  long_line = st.tuples(st.sampled_from(['a', '$A + ', '(', '"x" ', '1 +', '# ', '$', 'é', '[', '-', 'not ', ' ', '\t']),
                        st.integers(300, 3000), st.sampled_from(['', '1', ')', '"', '\n$A'])).map(
    lambda t: t[0] * t[1] + t[2])

  def damage(t):
    text, pos, ch, mode = t
    if not text:
      return ch
    p = pos % (len(text) + 1)
    if mode == 0:
      return text[:p] + ch + text[p:]
    if mode == 1:
      return text[:p] + text[p + 1:]
    return text[:p] + ch + text[p + 1:]
  damaged = st.tuples(py_formulas(), st.integers(0, 10 ** 6),
                      st.one_of(st.characters(), st.sampled_from(['\x00', '\r', '\r\n', '\t', '$', '"', "'", '\\', '\n', '\x0c',
                                                                   '#', '(', ' ', '\u2028', '\ufeff', '\x85', '\x0b'])),
                      st.integers(0, 2)).map(damage)
  return st.one_of(st.text(max_size=60), st.text(max_size=60), st.text(min_size=20, max_size=400), soup, soup, long_line,
                   damaged, damaged)


def strategy(tier):
  common = {'avals': st.lists(st.integers(-3, 9), min_size=2, max_size=3), 'a2': st.integers(-3, 9)}
  py = st.fixed_dictionaries(dict(common, kind=st.just('py'), formulas=st.lists(py_formulas(), min_size=1, max_size=8)))
  tx = st.fixed_dictionaries(dict(common, kind=st.just('text'), formulas=st.lists(text_formulas(), min_size=1, max_size=8)))
  return st.integers(0, 9).flatmap(lambda k: tx if k < 2 else py)
