"""C15 Trigger formulas recalculate exactly when configured.

One table Tab1 with data inputs A, B, a plain formula column F = f($A, $B) and a trigger column C
(data column with a formula whose text result names the inputs it saw). A history of single-user-action
bundles is applied; for every bundle a reference model written from the property statement says, per
row, whether C MUST be recalculated, MUST NOT be recalculated, or whether the statement leaves it open.
Observation: `engine.formula_tracer` (which (column,row) formulas were evaluated in the bundle) plus the
stored text of C (which shows the inputs of its last evaluation).
"""
import copy
from hypothesis import strategies as st
from ..runner import Outcome
from ..doc import Doc
from .. import eqv

ID = 'C15'
LEVEL = 'exploration'
TECHNIQUE = 'stateful property-based testing; reference model of when recalculation fires; formula tracer'
RULE = ('case = trigger configuration (recalcWhen in {DEFAULT, NEVER, MANUAL_UPDATES}, recalcDeps = any subset of '
        '{A, B, F, C} as column refs, one of 3 trigger formulas (with/without `value`), one of 3 formulas for F) + '
        'initial rows + up to 10 (quick) / 16 (thorough) single-user-action bundles: AddRecord/BulkAddRecord with or '
        'without a value for C, UpdateRecord/BulkUpdateRecord of any subset of {A, B, C} incl. values equal to the '
        'current ones, RemoveRecord, ApplyDocActions([Bulk]UpdateRecord) (not user-requested), RenameColumn of '
        'A/B/F/C, type changes of A/B (Int/Numeric/Text), formula changes of F, changes of C\'s recalcWhen / '
        'recalcDeps / formula. Every bundle is judged. Non-trivial = a bundle whose must-fire or must-not-fire '
        'set for an EXISTING row is non-empty; distinct by hash of (setup, concrete user actions).')
ORACLE = ('reference model taken sentence by sentence from the statement: new row -> formula value unless NEVER or a '
          'value was supplied; DEFAULT -> existing row recalculated when a recalcDeps cell of that row changed value, '
          'never when none of them was written or recomputed (F: per tracer) in that row; MANUAL_UPDATES -> recalculated '
          'when a user-requested [Bulk]UpdateRecord changed that row, never otherwise (ApplyDocActions, adds/removes of '
          'other rows, schema/config changes); explicit value kept unless the column depends on itself (then it is '
          're-evaluated with `value` = the explicit input); schema changes (rename, type, formula of F) and '
          'configuration changes fire nothing. Observed: set of (C,row) evaluations from engine.formula_tracer and '
          'the stored text of C, which must equal the formula applied to the row\'s A, B, F after the bundle and '
          '`value` (= explicit input or previous text) when it fired, and the previous/explicit value when it did not.')
ASSUMPTIONS = [
  'recalcDeps / recalcWhen are configured the way the client and test_trigger_formulas do: UpdateRecord on '
  '_grist_Tables_column (ModifyColumn cannot carry a list-valued recalcDeps)',
  'a dependency written with an unchanged value, or F re-evaluated to the same value, is the gap the statement '
  'leaves open: either behaviour is accepted (class gap:*)',
  'recalcWhen=NEVER on existing rows: the statement only speaks of new records; "recalculate exactly when configured" '
  '(title) + RecalcWhen.NEVER "don\'t calculate automatically" is read as must-not-fire',
  'C in recalcDeps with a value for C supplied by ApplyDocActions (not user-requested; this is the undo path), or '
  'with recalcWhen != DEFAULT, or on a new record: the sentences "explicit value is kept unless the column depends on '
  'itself" and "recalculated whenever a recalcDeps cell changes" do not settle it - not judged (class ambiguous:*); '
  'the value check still applies',
  'when F holds an error the text of C is not predicted (only firing is judged)',
  'all generated actions are valid; a rejected bundle is reported as C15:setup:bundle-rejected',
]
BUDGET = {'quick': dict(examples=2400, shards=16, max_seconds=45),
          'thorough': dict(examples=40000, shards=16, max_seconds=1800)}
SHRINK_BUDGET = {'quick': 150, 'thorough': 500}

TABLE = 'Tab1'
LOGICAL = ['A', 'B', 'F', 'C']
TYPES = ['Int', 'Numeric', 'Text']
DEFAULT, NEVER, MANUAL = 0, 1, 2
WHEN_NAME = {0: 'DEFAULT', 1: 'NEVER', 2: 'MANUAL_UPDATES'}

# trigger formulas: (text with logical names, python reference)
CFORMS = [
  ('"%s|%s|%s" % ($A, $B, $F)', lambda a, b, f, v: "%s|%s|%s" % (a, b, f)),
  ('"%s|%s|%s|%s" % ($A, $B, $F, value)', lambda a, b, f, v: "%s|%s|%s|%s" % (a, b, f, v)),
  ('"%s;%s;%s" % ($B, $A, str(value)[-3:])', lambda a, b, f, v: "%s;%s;%s" % (b, a, str(v)[-3:])),
]
FFORMS = ['$A * 10', '$A + $B', '$B * 2 + 1']
CVALS = ['x', 'y', 'zz', '']


def subst(text, names):
  for l in ('A', 'B', 'F', 'C'):
    text = text.replace('$' + l, '$' + names[l])
  return text


def is_err(v):
  return isinstance(v, list)


def same(a, b):
  """Equality of two fetched cell values (bool never generated; lists = encoded errors)."""
  if isinstance(a, list) or isinstance(b, list):
    return eqv.canon(a) == eqv.canon(b)
  return a == b and (isinstance(a, str) == isinstance(b, str))


# ---------------------------------------------------------------------------
# Document under test

class Sut(object):
  def __init__(self, setup):
    self.doc = Doc()
    self.names = {l: l for l in LOGICAL}       # logical -> current col id
    self.cform = int(setup.get('cform', 0)) % len(CFORMS)
    self.events = []
    d = self.doc
    fform = int(setup.get('fform', 0)) % len(FFORMS)
    self.setup_uas = [['AddTable', TABLE, [
      {'id': 'A', 'type': 'Int', 'isFormula': False},
      {'id': 'B', 'type': 'Int', 'isFormula': False},
      {'id': 'F', 'type': 'Any', 'isFormula': True, 'formula': FFORMS[fform]},
      {'id': 'C', 'type': 'Text', 'isFormula': False, 'formula': CFORMS[self.cform][0]}]]]
    r = d.apply(self.setup_uas)
    self.ok = r.ok
    self.error = r.error
    if not r.ok:
      return
    self.tref = [t['id'] for t in d.tables_meta() if t['tableId'] == TABLE][0]
    self.refs = {c['colId']: c['id'] for c in d.columns_meta() if c['parentId'] == self.tref
                 and c['colId'] in LOGICAL}
    when = int(setup.get('when', 0)) % 3
    deps = norm_deps(setup.get('deps'))
    ua = ['UpdateRecord', '_grist_Tables_column', self.refs['C'],
          {'recalcWhen': when, 'recalcDeps': self.deps_value(deps)}]
    r = d.apply([ua])
    self.setup_uas.append(ua)
    if not r.ok:
      self.ok = False; self.error = r.error
      return
    d.engine.formula_tracer = lambda col, rec: self.events.append((col.col_id, rec._row_id))

  def deps_value(self, deps):
    if deps is None:
      return None
    return ['L'] + [self.refs[l] for l in deps]

  def config(self):
    """(recalcWhen, set of logical dep names) as configured in the metadata right now."""
    row = [c for c in self.doc.columns_meta() if c['id'] == self.refs['C']][0]
    rd = row['recalcDeps']
    refs = rd[1:] if isinstance(rd, list) else []
    back = {v: k for k, v in self.refs.items()}
    return row['recalcWhen'], set(back[x] for x in refs if x in back)

  def col_types(self):
    back = {v: k for k, v in self.refs.items()}
    return {back[c['id']]: c['type'] for c in self.doc.columns_meta() if c['id'] in back}

  def state(self):
    """{row: {'A':..,'B':..,'F':..,'C':..}} raw encoded values, logical names."""
    rep = self.doc.fetch_repr(TABLE)
    ids, cols = rep[2], rep[3]
    out = {}
    for i, r in enumerate(ids):
      out[r] = {l: cols[self.names[l]][i] for l in LOGICAL}
    return out


def norm_deps(deps):
  if deps is None:
    return None
  if isinstance(deps, int) and not isinstance(deps, bool):     # bit mask over A, B, F, C
    return [l for i, l in enumerate(LOGICAL) if (abs(deps) >> i) & 1]
  if not isinstance(deps, list):
    return []
  out = []
  for x in deps:
    l = LOGICAL[int(x) % 4] if isinstance(x, int) else None
    if l and l not in out:
      out.append(l)
  return out


def typed(k, ctype):
  k = abs(int(k)) % 4
  if ctype == 'Numeric':
    return float(k)
  if ctype == 'Text':
    return str(k)
  return k


# ---------------------------------------------------------------------------
# Abstract step -> concrete user action (resolved against the live document)

def pick_rows(sels, ids):
  out = []
  for s in sels:
    if not ids:
      break
    r = ids[abs(int(s)) % len(ids)]
    if r not in out:
      out.append(r)
  return out


def cell_spec(sut, state, row, col, spec, types, doc_action):
  """spec: int. For A/B: 0..3 literal, >=4 'same as current'. For C: index into CVALS, >=4 'same as current'."""
  spec = abs(int(spec)) if isinstance(spec, int) and not isinstance(spec, bool) else 0
  if col == 'C':
    if spec >= len(CVALS):
      cur = state.get(row, {}).get('C', '')
      return cur if isinstance(cur, str) else 'x'
    return CVALS[spec]
  if spec >= 4 and row in state and not is_err(state[row][col]):
    return state[row][col]
  # user actions are converted by the column; doc actions must already carry the column's type
  return typed(spec, types[col]) if doc_action else (spec % 4)


def resolve(sut, step):
  """Returns one concrete user action (list) or None if the step does not apply."""
  if not isinstance(step, list) or not step or not isinstance(step[0], str):
    return None
  kind = step[0]
  arg = step[1] if len(step) > 1 and isinstance(step[1], dict) else {}
  n = sut.names
  state = sut.state()
  ids = sorted(state)
  types = sut.col_types()
  g = lambda k, d=0: arg.get(k, d)
  if kind == 'add':
    vals = {}
    mask = int(g('mask', 3)) % 8
    if mask & 1: vals[n['A']] = cell_spec(sut, state, None, 'A', g('a'), types, False)
    if mask & 2: vals[n['B']] = cell_spec(sut, state, None, 'B', g('b'), types, False)
    if mask & 4: vals[n['C']] = CVALS[abs(int(g('c'))) % len(CVALS)]
    return ['AddRecord', TABLE, None, vals]
  if kind == 'badd':
    cnt = 1 + abs(int(g('n', 1))) % 3
    mask = int(g('mask', 3)) % 8
    vs = g('vals', [])
    vs = [abs(int(x)) for x in vs if isinstance(x, int)] or [0]
    vals = {}
    if mask & 1: vals[n['A']] = [vs[i % len(vs)] % 4 for i in range(cnt)]
    if mask & 2: vals[n['B']] = [vs[(i + 1) % len(vs)] % 4 for i in range(cnt)]
    if mask & 4: vals[n['C']] = [CVALS[vs[(i + 2) % len(vs)] % len(CVALS)] for i in range(cnt)]
    return ['BulkAddRecord', TABLE, [None] * cnt, vals]
  if kind in ('upd', 'bupd', 'doc'):
    sels = g('rows', [0])
    sels = [x for x in sels if isinstance(x, int)] if isinstance(sels, list) else [0]
    rows = pick_rows(sels or [0], ids)
    if kind == 'upd':
      rows = rows[:1]
    if not rows:
      return None
    mask = int(g('mask', 1)) % 8 or 1
    specs = g('vals', [])
    specs = [x for x in specs if isinstance(x, int)] if isinstance(specs, list) else []
    specs = specs or [0]
    cols = {}
    k = 0
    for bit, l in ((1, 'A'), (2, 'B'), (4, 'C')):
      if mask & bit:
        col_vals = []
        for r in rows:
          col_vals.append(cell_spec(sut, state, r, l, specs[k % len(specs)], types, kind == 'doc'))
          k += 1
        cols[n[l]] = col_vals
    if kind == 'upd':
      return ['UpdateRecord', TABLE, rows[0], {c: v[0] for c, v in cols.items()}]
    if kind == 'bupd':
      return ['BulkUpdateRecord', TABLE, rows, cols]
    if len(rows) == 1 and g('single', True):
      da = ['UpdateRecord', TABLE, rows[0], {c: v[0] for c, v in cols.items()}]
    else:
      da = ['BulkUpdateRecord', TABLE, rows, cols]
    return ['ApplyDocActions', [da]]
  if kind == 'rm':
    rows = pick_rows([g('row', 0)], ids)
    if not rows:
      return None
    return ['RemoveRecord', TABLE, rows[0]]
  if kind == 'ren':
    l = LOGICAL[abs(int(g('col', 0))) % 4]
    cur = n[l]
    new = l + '2' if cur == l else l        # toggles A <-> A2: always valid and distinct
    return ['RenameColumn', TABLE, cur, new]
  if kind == 'type':
    l = ['A', 'B'][abs(int(g('col', 0))) % 2]
    cands = [t for t in TYPES if t != types[l]]
    return ['ModifyColumn', TABLE, n[l], {'type': cands[abs(int(g('to', 0))) % len(cands)]}]
  if kind == 'fform':
    return ['ModifyColumn', TABLE, n['F'], {'formula': subst(FFORMS[abs(int(g('f', 0))) % len(FFORMS)], n)}]
  if kind == 'cform':
    return ['ModifyColumn', TABLE, n['C'], {'formula': subst(CFORMS[abs(int(g('f', 0))) % len(CFORMS)][0], n)}]
  if kind == 'cfg':
    vals = {}
    what = abs(int(g('what', 3))) % 3 + 1
    if what & 1:
      vals['recalcWhen'] = abs(int(g('when', 0))) % 3
    if what & 2:
      vals['recalcDeps'] = sut.deps_value(norm_deps(g('deps', [])))
    return ['UpdateRecord', '_grist_Tables_column', sut.refs['C'], vals]
  return None


# ---------------------------------------------------------------------------
# Reference model: what a concrete user action means for each row

def interpret(sut, ua):
  """-> dict(kind=..., written={row: {logical: value}}, addcols={logical: [values]}, label=...).
  Works from the concrete action only (so {'concrete': [...]} cases need no generator state)."""
  back = {v: k for k, v in sut.names.items()}
  name = ua[0]
  if name in ('AddRecord', 'BulkAddRecord') and ua[1] == TABLE:
    if name == 'AddRecord':
      cols = {back[c]: [v] for c, v in ua[3].items()}
      cnt = 1
    else:
      cols = {back[c]: list(v) for c, v in ua[3].items()}
      cnt = len(ua[2])
    return dict(kind='add', addcols=cols, count=cnt, written={})
  if name in ('UpdateRecord', 'BulkUpdateRecord') and ua[1] == TABLE:
    return dict(kind='update', written=written_of([ua], back))
  if name == 'ApplyDocActions':
    return dict(kind='docupdate', written=written_of(ua[1], back))
  if name == 'RemoveRecord' and ua[1] == TABLE:
    return dict(kind='remove', written={})
  if name == 'RenameColumn':
    return dict(kind='schema', sub='rename:' + back.get(ua[2], '?'), written={}, rename=(back.get(ua[2]), ua[3]))
  if name == 'ModifyColumn':
    l = back.get(ua[2], '?')
    if 'type' in ua[3]:
      return dict(kind='schema', sub='type:' + l, written={})
    if l == 'C':
      return dict(kind='config', sub='trigger-formula', written={})
    return dict(kind='schema', sub='formula:' + l, written={})
  if name == 'UpdateRecord' and ua[1] == '_grist_Tables_column':
    return dict(kind='config', sub='+'.join(sorted(ua[3])), written={})
  return dict(kind='other', written={})


def written_of(das, back):
  w = {}
  for da in das:
    if da[0] == 'UpdateRecord':
      for c, v in da[3].items():
        w.setdefault(da[2], {})[back[c]] = v
    elif da[0] == 'BulkUpdateRecord':
      for c, vs in da[3].items():
        for r, v in zip(da[2], vs):
          w.setdefault(r, {})[back[c]] = v
  return w


def expected_text(sut, cform, row_after, value_in):
  """Text the trigger formula must produce, or None when not predictable (error inputs)."""
  a, b, f = row_after['A'], row_after['B'], row_after['F']
  if is_err(a) or is_err(b) or is_err(f) or is_err(value_in):
    return None
  return CFORMS[cform][1](a, b, f, value_in)


def judge(sut, out, ua, info, cfg, cform, before, after, events, stats):
  """Compare observation with the model for one bundle. Returns True when a failure was recorded."""
  when, deps = cfg
  kind = info['kind']
  cnames = set([sut.names['C']])
  if info.get('rename') and info['rename'][0] == 'C':
    cnames.add(info['rename'][1])
  fnames = set([sut.names['F']])
  if info.get('rename') and info['rename'][0] == 'F':
    fnames.add(info['rename'][1])
  fired = set(r for (c, r) in events if c in cnames)
  f_evald = set(r for (c, r) in events if c in fnames)
  selfdep = (when == DEFAULT and 'C' in deps)
  wname = WHEN_NAME[when]

  def fail(sig, msg, row):
    out.fail('C15:' + sig, '%s (recalcWhen=%s recalcDeps=%s, action %r, row %s)' % (
      msg, wname, sorted(deps), ua, row),
      {'row': row, 'before': before.get(row), 'after': after.get(row), 'evaluated': sorted(events),
       'trigger_formula': CFORMS[cform][0]})
    return True

  def check(row, verdict, reason, value_in, if_not_fired, is_new=False):
    """verdict: 'must' | 'mustnot' | 'either'."""
    did = row in fired
    if not is_new and verdict != 'either':
      stats['nt'] = True
    out.cls('%s:%s' % (verdict, reason))
    if verdict == 'must' and not did:
      return fail('missed:' + reason, 'trigger formula was not recalculated though the statement requires it', row)
    if verdict == 'mustnot' and did:
      return fail('spurious:' + reason, 'trigger formula was recalculated though the statement forbids it', row)
    got = after[row]['C']
    if did:
      exp = expected_text(sut, cform, after[row], value_in)
      if exp is None:
        out.cls('value-not-predicted(error input)')
      elif not same(got, exp):
        return fail('value:' + reason, 'recalculated trigger cell holds %r, formula on the row gives %r' % (got, exp), row)
    else:
      if not same(got, if_not_fired):
        return fail('value-changed-without-recalc:' + reason,
                    'trigger cell changed to %r without evaluating its formula (expected %r)' % (got, if_not_fired), row)
    return False

  new_rows = sorted(r for r in after if r not in before)
  existing = sorted(r for r in after if r in before)

  # ---- new records
  if kind == 'add':
    if len(new_rows) != info['count']:
      return fail('setup:add-row-count', 'expected %d new rows, got %r' % (info['count'], new_rows), None)
    for i, r in enumerate(new_rows):
      supplied = 'C' in info['addcols']
      if supplied:
        v = info['addcols']['C'][i]
        out.cls('add:explicit-value:' + wname)
        if 'C' in deps:
          if check(r, 'either', 'ambiguous:new-row-explicit-self-dep', v, v, True): return True
        else:
          # "a new record gets the formula's value unless ... the action supplied a value";
          # "A value set explicitly in the same user action is kept"
          reason = 'new-row:explicit-value'
          if r in fired and when == DEFAULT and deps:
            reason = 'new-row:explicit-value:default-with-recalcDeps'
          if check(r, 'mustnot', reason, v, v, True): return True
      else:
        out.cls('add:no-value:' + wname)
        if when == NEVER:
          if check(r, 'mustnot', 'new-row:never', '', '', True): return True
        else:
          if check(r, 'must', 'new-row:formula-value', '', '', True): return True
  elif new_rows:
    return fail('setup:unexpected-new-rows', 'rows %r appeared' % (new_rows,), None)

  # ---- existing rows
  for r in existing:
    b, a = before[r], after[r]
    w = info['written'].get(r) if kind in ('update', 'docupdate') else None
    if kind in ('add', 'remove'):
      bad = check(r, 'mustnot', 'other-row-added-or-removed', b['C'], b['C'])
    elif kind == 'schema':
      out.cls('schema:' + info['sub'] + (':dep' if info['sub'].split(':')[1] in deps and when == DEFAULT else ''))
      bad = check(r, 'mustnot', 'schema-change:' + info['sub'].split(':')[0], b['C'], b['C'])
    elif kind == 'config':
      out.cls('config:' + info['sub'])
      bad = check(r, 'mustnot', 'config-change', b['C'], b['C'])
    elif kind == 'other':
      bad = False
    elif w is None:
      bad = check(r, 'mustnot', 'row-not-in-action', b['C'], b['C'])
    else:
      user = (kind == 'update')
      changed = [l for l in ('A', 'B', 'F') if not same(b[l], a[l])]
      if 'C' in w:
        v = w['C']
        c_changed = not same(v, b['C'])
        out.cls('%s:explicit-C:%s%s' % (kind, wname, '' if c_changed else ':same-value'))
        if selfdep and user:
          out.cls('self-dep:user-writes-C')
          if c_changed or any(l in deps for l in changed):
            bad = check(r, 'must', 'self-dep:changed', v, v)
          else:
            bad = check(r, 'either', 'gap:self-dep-written-unchanged', v, v)
        elif 'C' in deps:
          bad = check(r, 'either', 'ambiguous:self-dep-' + ('docaction' if not user else 'non-default'), v, v)
        else:
          reason = 'explicit-value-kept' + ('' if user else ':docaction')
          if not c_changed and user and r in fired:
            reason = 'explicit-value-kept:unchanged-value-trimmed'
          bad = check(r, 'mustnot', reason, v, v)
      elif when == NEVER:
        bad = check(r, 'mustnot', 'never-mode', b['C'], b['C'])
      elif when == MANUAL:
        row_changed = any(not same(b[l], a[l]) for l in w if l in ('A', 'B'))
        if user and row_changed:
          bad = check(r, 'must', 'manual:row-changed', b['C'], b['C'])
        elif user:
          out.cls('update:no-op-row')
          bad = check(r, 'mustnot', 'manual:row-unchanged', b['C'], b['C'])
        else:
          bad = check(r, 'mustnot', 'manual:not-user-requested', b['C'], b['C'])
      else:
        dep_changed = [l for l in changed if l in deps]
        touched = [l for l in w if l in deps] + (['F'] if ('F' in deps and r in f_evald) else [])
        tag = '' if user else ':docaction'
        if dep_changed:
          bad = check(r, 'must', 'default:dep-changed' + tag, b['C'], b['C'])
        elif not touched:
          bad = check(r, 'mustnot', 'default:no-dep-touched' + tag, b['C'], b['C'])
        else:
          if any(l in w for l in touched):
            out.cls('update:no-op-dep-write')
          bad = check(r, 'either', 'gap:dep-written-or-recomputed-unchanged' + tag, b['C'], b['C'])
    if bad:
      return True
  return False


# ---------------------------------------------------------------------------

def run_case(case):
  out = Outcome()
  setup = case.get('setup') if isinstance(case.get('setup'), dict) else {}
  sut = Sut(setup)
  if not sut.ok:
    return out.fail('C15:setup:create', 'cannot build the document: %r' % (sut.error,))
  cfg0 = sut.config()
  out.cls('cfg:' + WHEN_NAME[cfg0[0]], 'cfg:deps=%d' % len(cfg0[1]), 'cform=%d' % sut.cform)
  if 'C' in cfg0[1] and cfg0[0] == DEFAULT:
    out.cls('cfg:self-dependency')
  concrete_in = case.get('concrete')
  steps = []
  if concrete_in is None:
    rows = case.get('rows') if isinstance(case.get('rows'), list) else []
    rows = [abs(int(x)) for x in rows if isinstance(x, int)][:4]
    if rows:
      steps.append(['badd', {'n': len(rows) - 1, 'mask': 3, 'vals': rows}])
    steps.extend(case.get('steps') if isinstance(case.get('steps'), list) else [])
  else:
    steps = list(concrete_in)
  stats = {'nt': False}
  concrete = []
  nt_bundles = 0
  for step in steps:
    ua = step if concrete_in is not None else resolve(sut, step)
    if ua is None:
      continue
    ua = copy.deepcopy(ua)
    cfg = sut.config()
    cform = sut.cform
    before = sut.state()
    info = interpret(sut, ua)
    del sut.events[:]
    r = sut.doc.apply([ua])
    events = list(sut.events)
    concrete.append(ua)
    if not r.ok:
      out['concrete'] = {'setup': sut.setup_uas, 'actions': concrete}
      return out.fail('C15:setup:bundle-rejected', 'valid action %r was rejected: %r' % (ua, r.error))
    # bookkeeping that follows the action
    if info.get('rename') and info['rename'][0]:
      sut.names[info['rename'][0]] = info['rename'][1]
    if info['kind'] == 'config' and info.get('sub') == 'trigger-formula':
      text = ua[3]['formula']
      for i, (t, _) in enumerate(CFORMS):
        if subst(t, sut.names) == text:
          sut.cform = i
    after = sut.state()
    out.cls('ua:' + ua[0] + (':meta' if len(ua) > 1 and ua[1] == '_grist_Tables_column' else ''))
    if ua[0] == 'ApplyDocActions':
      out.cls('docaction:' + WHEN_NAME[cfg[0]])
    stats['nt'] = False
    bad = judge(sut, out, ua, info, cfg, cform, before, after, events, stats)
    if stats['nt']:
      nt_bundles += 1
    if bad and len(out['failures']) >= 3:
      break     # later bundles are judged independently (state is re-read), but cap the noise
  out['concrete'] = {'setup': sut.setup_uas, 'actions': concrete}
  out['key'] = eqv.digest(out['concrete'])
  out['nontrivial'] = nt_bundles > 0
  return out


# ---------------------------------------------------------------------------
# Generator

def strategy(tier):
  max_steps = 10 if tier == 'quick' else 16
  small = st.integers(0, 5)
  rowsel = st.integers(0, 5)
  mask = st.integers(1, 7)
  upd_arg = st.fixed_dictionaries({'rows': st.lists(rowsel, min_size=1, max_size=3), 'mask': mask,
                                   'vals': st.lists(small, min_size=1, max_size=4)})
  step = st.one_of(
    st.tuples(st.just('add'), st.fixed_dictionaries({'mask': st.integers(0, 7), 'a': small, 'b': small, 'c': small})),
    st.tuples(st.just('badd'), st.fixed_dictionaries({'n': st.integers(0, 2), 'mask': st.integers(0, 7),
                                                      'vals': st.lists(small, min_size=1, max_size=3)})),
    st.tuples(st.just('upd'), upd_arg), st.tuples(st.just('upd'), upd_arg),
    st.tuples(st.just('bupd'), upd_arg), st.tuples(st.just('bupd'), upd_arg),
    st.tuples(st.just('doc'), st.fixed_dictionaries({'rows': st.lists(rowsel, min_size=1, max_size=3), 'mask': mask,
                                                     'vals': st.lists(small, min_size=1, max_size=4),
                                                     'single': st.booleans()})),
    st.tuples(st.just('doc'), st.fixed_dictionaries({'rows': st.lists(rowsel, min_size=1, max_size=3), 'mask': mask,
                                                     'vals': st.lists(small, min_size=1, max_size=4),
                                                     'single': st.booleans()})),
    st.tuples(st.just('rm'), st.fixed_dictionaries({'row': rowsel})),
    st.tuples(st.just('ren'), st.fixed_dictionaries({'col': st.integers(0, 3)})),
    st.tuples(st.just('type'), st.fixed_dictionaries({'col': st.integers(0, 1), 'to': st.integers(0, 1)})),
    st.tuples(st.just('fform'), st.fixed_dictionaries({'f': st.integers(0, 2)})),
    st.tuples(st.just('cform'), st.fixed_dictionaries({'f': st.integers(0, 2)})),
    st.tuples(st.just('cfg'), st.fixed_dictionaries({'what': st.integers(0, 2), 'when': st.integers(0, 2),
                                                     'deps': st.integers(0, 15)})),
  ).map(list)
  return st.fixed_dictionaries({
    'setup': st.fixed_dictionaries({
      'when': st.sampled_from([0, 0, 0, 1, 2, 2]),
      'deps': st.one_of(st.none(), st.integers(0, 15), st.integers(1, 15), st.sampled_from([1, 2, 4, 5, 8, 9])),
      'cform': st.integers(0, 2), 'fform': st.integers(0, 2)}),
    'rows': st.lists(st.integers(0, 3), min_size=1, max_size=4),
    'steps': st.lists(step, min_size=1, max_size=max_steps)})
