"""C03 Redo after undo reproduces the post-bundle state (round trip)."""
from hypothesis import strategies as st
from ..runner import Outcome
from .. import ops as O, eqv
from ..hist import HistoryRun, bundle_sig, judge_state_diff, undo_raised_sig

ID = 'C03'
LEVEL = 'exploration'
TECHNIQUE = 'stateful property-based testing; round-trip oracle (undo then ApplyDocActions(stored))'
RULE = ('case = prelude + up to 10-14 bundles (general/schema profiles); every successful bundle is undone '
        '(ApplyUndoActions) and redone with ApplyDocActions(stored reprs) - the call Node uses - before the history '
        'continues from the redone state. Non-trivial = a redone bundle contained a schema action or touched a '
        'document with a summary table / two-way pair / trigger column; distinct by hash of concrete user actions.')
ORACLE = 'snapshot after redo == snapshot right after the original bundle (all tables, formulas, metadata; Node equality)'
ASSUMPTIONS = ['stored actions are sent back verbatim as reprs',
               'formula cells whose post-bundle value was already stale w.r.t. a fresh engine are charged to C05; '
               'CircularRefError-kind differences are not judged']
BUDGET = {'quick': dict(examples=800, shards=16, max_seconds=75),
          'thorough': dict(examples=2400, shards=16, max_seconds=1800)}
SHRINK_BUDGET = {'quick': 60, 'thorough': 400}
ROOT_CAUSE_SUFFIXES = ('cells:lookup-KeyError-stale', 'summary-rows-renumbered', 'cells:lookup-key-column-type-changed',
                       'cells:NameError-stale-after-table-restored')


def strategy(tier):
  n = 14 if tier == 'thorough' else 10
  return st.one_of(st.fixed_dictionaries({'h': O.history('general', 1, n)}),
                   st.fixed_dictionaries({'h': O.history('schema', 1, n)}),
                   st.fixed_dictionaries({'h': O.history('typechange', 1, n)}),
                   st.fixed_dictionaries({'h': O.history('triggers', 2, n, max_ops=3, focus='triggers')}))


def run_case(case):
  out = Outcome()
  hr = HistoryRun(case['h'])
  st8 = {'nt': False}

  def special_doc():
    cm = hr.doc.columns_meta()
    return bool(hr.doc.summary_tables()) or any(c['reverseCol'] or (c['formula'] and not c['isFormula']) for c in cm)

  def on_step(s):
    if not s.reply.ok or s.uas == [['Calculate']]:     # (the settling Calculate after a failed bundle is not undone)
      return None
    sig = bundle_sig(s.uas)
    after_pos = len(hr.doc.log)       # log[:after_pos] rebuilds the post-bundle state
    r = hr.doc.apply([['ApplyUndoActions', s.reply.undo]])
    if not r.ok:
      out.fail('C03:undo-raised:' + undo_raised_sig(hr.doc, s.uas, r.error, s.reply.undo), 'undo of %r raised %r' % (s.uas, r.error))
      return True
    r2 = hr.doc.apply([['ApplyDocActions', s.reply.stored]])
    if not r2.ok:
      out.fail('C03:redo-raised:' + sig, 'ApplyDocActions(stored) of %r raised %r' % (s.uas, r2.error))
      return True
    now = hr.doc.snapshot()
    bad, labels = judge_state_diff(s.after, now, hr.doc.log, after_pos)
    out.cls(*labels)
    if bad:
      out.fail('C03:redo-mismatch:%s' % (bad[0] if bad[0] in ROOT_CAUSE_SUFFIXES else '%s:%s' % (sig, bad[0])),
               'state after undo+redo of %r differs from the state the bundle produced' % (s.uas,), bad[1])
      return True
    s.after = now
    if any(O.is_schema_action(u) for u in s.uas) or special_doc():
      st8['nt'] = True
    return None

  hr.run(on_step)
  out['concrete'] = hr.concrete()
  out['key'] = eqv.digest(out['concrete'])
  out['nontrivial'] = st8['nt']
  out.cls(*sorted(hr.labels))
  return out
