"""C07 Reopening a saved document changes nothing (round trip through the storage decoding path)."""
from hypothesis import strategies as st
from ..runner import Outcome
from .. import ops as O, eqv, fresh
from ..hist import HistoryRun, bundle_sig, is_cycle_error_pair, stale_cells_of, summary_groupby_record_valued

ID = 'C07'
LEVEL = 'exploration'
TECHNIQUE = 'stateful property-based testing; round-trip oracle (report -> marshal -> load_table -> Calculate)'
RULE = ('case = prelude + up to 12 bundles (formula profile, formulas also return lists, records, record sets, errors, '
        'dates); at generated checkpoints and at the end the document is reloaded into a new engine from what the '
        'engine reported (metadata first, all tables with stored formula values, encoded objects as marshalled blobs, '
        'decoded by main.table_data_from_db) and Calculate is applied. Non-trivial = a formula column stores an '
        'encoded object ([\'L\'..], [\'E\'..], [\'R\'..], [\'d\'..] ...); distinct by hash of concrete user actions.')
ORACLE = 'Calculate after reload emits no stored actions and snapshot(reloaded) == snapshot(original)'
ASSUMPTIONS = ['volatile formulas are not generated; Node-side number typing is outside the check (values keep their '
               'Python type through marshal)',
               'cells that were already stale in the original engine (fresh recalculation disagrees) are charged to C05',
               'summary group-by columns have a concrete (non-Any) type']
BUDGET = {'quick': dict(examples=900, shards=16, max_seconds=75),
          'thorough': dict(examples=2600, shards=16, max_seconds=1800)}
SHRINK_BUDGET = {'quick': 60, 'thorough': 400}


def strategy(tier):
  return st.one_of(st.fixed_dictionaries({'every': st.integers(1, 4), 'h': O.history('formula', 1, 12)}),
                   st.fixed_dictionaries({'every': st.integers(1, 4), 'h': O.history('triggers', 2, 10, max_ops=2, focus='triggers')}),
                   st.fixed_dictionaries({'every': st.integers(1, 2), 'h': O.history('widgets', 2, 10, focus='widgets')}))


def has_encoded_formula_value(doc):
  tmap = {t['id']: t['tableId'] for t in doc.tables_meta()}
  for c in doc.columns_meta():
    if c['isFormula'] and c['formula'] and not tmap.get(c['parentId'], '').startswith('_grist'):
      try:
        vals = doc.fetch_repr(tmap[c['parentId']])[3].get(c['colId'], [])
      except Exception:
        continue
      if any(isinstance(v, list) for v in vals):
        return True
  return False


def run_case(case):
  out = Outcome()
  every = max(1, int(case.get('every', 1)) % 5 or 1)
  hr = HistoryRun(case['h'], snapshots=False)
  st8 = {'nt': False, 'n': 0}

  def check(s):
    sig = bundle_sig(s.uas)
    try:
      d2, calc = fresh.fresh_load(hr.doc, formulas=True)
    except Exception as e:
      out.fail('C07:load-raised:%s:%s' % (type(e).__name__, sig), 'reloading after %r raised %r' % (s.uas, e))
      return True
    if not calc.ok:
      out.fail('C07:calculate-raised:' + sig, 'Calculate after reload raised %r' % (calc.error,))
      return True
    a, b = hr.doc.snapshot(), d2.snapshot()
    structural, cells = eqv.cells_diff(a, b)
    if structural and all(e[1] == 'row ids' and summary_groupby_record_valued(hr.doc, e[0]) for e in structural):
      out.fail('C07:reload:summary-groupby-object-valued', 'summary rows differ after reload', structural[:3])
      return True
    real = [x for x in cells if not is_cycle_error_pair(x[3], x[4])]
    if real or calc.stored or structural:
      # charge stale originals to C05
      stale, _ = stale_cells_of(hr.doc.log, len(hr.doc.log))
      kept = [x for x in real if (x[0], x[1], x[2]) not in stale]
      if len(kept) < len(real):
        out.cls('original-was-stale(charged to C05)')
      emitted = []
      for act in calc.stored:
        if act[0] in ('UpdateRecord', 'BulkUpdateRecord'):
          rows = [act[2]] if act[0] == 'UpdateRecord' else act[2]
          for col in act[3]:
            for r in rows:
              if (act[1], col, r) not in stale:
                emitted.append([act[1], col, r])
        else:
          emitted.append(act[:3])
      if structural:
        out.fail('C07:structure:%s' % sig, 'reloaded document has a different shape', structural[:4])
        return True
      if kept:
        t, c, r, va, vb = kept[0]
        out.fail('C07:cells-differ:%s' % sig, 'cell %s.%s[%s] is %r in the original and %r after reload' % (t, c, r, va, vb),
                 [list(x) for x in kept[:6]])
        return True
      cyc = set((x[0], x[1], x[2]) for x in cells if is_cycle_error_pair(x[3], x[4]))
      emitted = [e for e in emitted if tuple(e) not in cyc]
      if emitted:
        out.fail('C07:calculate-emits:%s' % sig, 'Calculate after reload emitted %d changes, e.g. %r' % (len(emitted), emitted[:3]),
                 calc.stored[:4])
        return True
    return None

  def on_step(s):
    if not s.reply.ok:
      return None
    st8['n'] += 1
    if has_encoded_formula_value(hr.doc):
      st8['nt'] = True
    if st8['n'] % every == 0:
      return check(s)
    return None

  stop = hr.run(on_step)
  if not stop and out['ok'] and hr.steps and st8['n'] % every != 0:
    last_ok = [s for s in hr.steps if s.reply.ok]
    if last_ok:
      check(last_ok[-1])
  out['concrete'] = hr.concrete()
  out['key'] = eqv.digest(out['concrete'])
  out['nontrivial'] = st8['nt']
  out.cls(*sorted(hr.labels))
  return out
