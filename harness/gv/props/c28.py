"""C28 Upserts follow their specification.

A table with Text / Int / Ref / ChoiceList columns holding duplicates, and one BulkAddOrUpdateRecord or
AddOrUpdateRecord request; retValues and the final table are compared with a reference implementation of the
docstring of BulkAddOrUpdateRecord.
"""
import copy
from hypothesis import strategies as st
from ..runner import Outcome
from ..doc import Doc
from .. import eqv
from ..wchoice import weighted

ID = 'C28'
LEVEL = 'exploration'
TECHNIQUE = 'property-based testing against a reference implementation of the documented upsert'
RULE = ('case = table Tab1 (A Text, B Int, R Ref:Src, CL ChoiceList, C Text, D Int) with 0..10 rows drawn from small value '
        'pools, some repeated with another payload (so that several records match), one request in bulk (0..4 input rows) or single form with `require` over a '
        'subset of {A, B, R} (classes: also id, also the ChoiceList column, empty), `col_values` over a subset of all columns '
        '(may overlap require), options on_many in {first, none, all, absent, bad values} / update / add / allow_empty_require, '
        'and argument shapes that are invalid (a list of different length, repeated require rows, empty require without '
        'permission, bad on_many). Classes: right-typed require values (main) vs values needing conversion ("1", 1.0 for Int; '
        '1 for Text). Non-trivial = at least one input row matched several records or was added; distinct by hash of the '
        'concrete user actions.')
ORACLE = ('reference implementation of the docstring: arguments invalid (on_many not first/none/all; require empty without '
          'allow_empty_require; value lists of different lengths; two input rows with the same require values) => raises and '
          'the whole-document snapshot is unchanged. Otherwise, per input row, records of the PRE-request table whose cells equal '
          'the require values (converted by the column type, ascending row id) are looked up; matches and update allowed: the '
          'first / all / none (when several) receive col_values; no match and add allowed: a record {**require, **col_values} is '
          'added. retValues must list exactly those ids (recordIds per row, addRecordIds, updateRecordIds; single form: recordIds '
          '+ action ADD/UPDATE/NONE); new ids must be new and distinct; final table == model.')
ASSUMPTIONS = ['all lookups see the table as it was before the request (the docstring does not define an order between input rows; '
               'requests where a sequential reading could differ are labelled order-sensitive)',
               'when several input rows deliver values to the same record (possible only with empty require or with require '
               'values that differ before conversion) each cell must end as one of the delivered values (no order demanded)',
               'require never contains formula columns; `id` appears in require only as a labelled class with distinct ids in '
               '1..40, never 0; when such an id exists but the row does not match, the add is impossible: rejection must leave '
               'no trace, acceptance is not judged',
               'values are right-typed for their column except in the labelled conversion class']
BUDGET = {'quick': dict(examples=3600, shards=12, max_seconds=32),
          'thorough': dict(examples=52000, shards=16, max_seconds=1800)}
SHRINK_BUDGET = {'quick': 120, 'thorough': 400}

TABLE = 'Tab1'
COLS = [('A', 'Text'), ('B', 'Int'), ('R', 'Ref:Src'), ('CL', 'ChoiceList'), ('C', 'Text'), ('D', 'Int')]
TYPES = dict(COLS)
DEFAULTS = {'A': '', 'B': 0, 'R': 0, 'CL': None, 'C': '', 'D': 0}
POOL = {'A': ['a', 'b', '', '1', '2'], 'B': [0, 1, 2, 3], 'R': [0, 1, 2, 3],
        'CL': [None, ['L', 'p'], ['L', 'p', 'q'], ['L', 'q']], 'C': ['x', 'y', 'z', ''], 'D': [0, 5, 6, 7]}
ON_MANY = ['first', 'none', 'all']


# ---------------------------------------------------------------------------
# generator

def strategy(tier):
  sel = st.integers(0, 7)
  row = st.fixed_dictionaries({c: sel for c, _ in COLS})
  rows = weighted((4, st.lists(row, min_size=3, max_size=7)), (1, st.lists(row, min_size=0, max_size=2)))
  req_cols = weighted((7, st.lists(st.sampled_from(['A', 'B', 'R']), min_size=1, max_size=3, unique=True)),
                      (2, st.lists(st.sampled_from(['A', 'B', 'R', 'id', 'CL']), min_size=1, max_size=3, unique=True)),
                      (1, st.just([])))
  val_cols = st.lists(st.sampled_from(['A', 'B', 'R', 'CL', 'C', 'C', 'D']), min_size=0, max_size=3, unique=True)
  # '~' = key absent (default behaviour)
  options = st.fixed_dictionaries({
    'on_many': st.sampled_from(['~', 'first', 'none', 'all', '~', 'none', 'all', 'all', 'none', 'any', 'First', '', 1]),
    'update': st.sampled_from(['~', True, True, False, '~']), 'add': st.sampled_from(['~', True, True, False, '~']),
    'allow_empty_require': st.sampled_from(['~', True, False, True])})
  inp = st.fixed_dictionaries({'req': st.fixed_dictionaries({c: sel for c in ['A', 'B', 'R', 'CL', 'id']}),
                               'val': st.fixed_dictionaries({c: sel for c, _ in COLS}),
                               'conv': st.integers(0, 2)})
  return st.fixed_dictionaries({
    # rows repeated with another payload: records that agree on every require column
    'dup': st.lists(st.integers(0, 6), min_size=0, max_size=3),
    'rows': rows, 'form': st.sampled_from(['bulk', 'single', 'bulk']), 'req_cols': req_cols, 'val_cols': val_cols,
    'inputs': weighted((9, st.lists(inp, min_size=1, max_size=4)), (1, st.just([]))), 'options': options,
    # index of a value list to cut short (mismatched lengths); mostly absent
    'cut': weighted((5, st.none()), (1, st.integers(0, 5))),
    # conversion class switch: require values are sent in a representation that needs conversion
    'conv': st.sampled_from([False, False, False, True]),
    # aim require values at existing rows (more matches) instead of independent pool draws
    'aim': st.sampled_from([True, True, False]),
  })


# ---------------------------------------------------------------------------
# helpers

def _int(x, d=0):
  return x if isinstance(x, int) and not isinstance(x, bool) else d


def pool(col, sel):
  p = POOL[col]
  return copy.deepcopy(p[abs(_int(sel)) % len(p)])


def convert(col, v):
  """Column-type conversion of the (restricted) value shapes the generator emits."""
  typ = TYPES.get(col, 'Int')
  if typ == 'Text':
    if isinstance(v, float) and v == int(v):
      return str(int(v))
    return v if isinstance(v, str) or v is None else str(v)
  if typ in ('Int',) or typ.startswith('Ref:') or col == 'id':
    if isinstance(v, str):
      return int(float(v))
    if isinstance(v, float):
      return int(v)
    return v
  if typ == 'ChoiceList':
    return v
  return v


def same(a, b):
  return eqv.canon(a) == eqv.canon(b)


def unconvert(col, v, mode):
  """A representation of v that the column type converts back to v (conversion class)."""
  typ = TYPES.get(col)
  if typ == 'Int' and isinstance(v, int):
    return str(v) if mode % 3 == 1 else float(v) if mode % 3 == 2 else v
  if typ == 'Text' and v in ('1', '2'):
    return int(v) if mode % 3 == 1 else float(v) if mode % 3 == 2 else v
  return v


def build_request(case, table_rows):
  """-> (user action, require dict of lists, col_values dict of lists, options, form, labels)"""
  labels = set()
  form = 'single' if case.get('form') == 'single' else 'bulk'
  req_cols = [c for c in (case.get('req_cols') or []) if c in ('A', 'B', 'R', 'CL', 'id')]
  req_cols = sorted(set(req_cols), key=['A', 'B', 'R', 'CL', 'id'].index)
  val_cols = sorted(set(c for c in (case.get('val_cols') or []) if c in TYPES), key=[c for c, _ in COLS].index)
  inputs = [i for i in (case.get('inputs') or []) if isinstance(i, dict)][:5]
  if form == 'single':
    inputs = (inputs or [{}])[:1]
  options = {k: v for k, v in (case.get('options') or {}).items()
             if k in ('on_many', 'update', 'add', 'allow_empty_require') and v != '~'} \
    if isinstance(case.get('options'), dict) else {}
  conv = bool(case.get('conv'))
  aim = bool(case.get('aim'))
  ids_used = []
  require = {c: [] for c in req_cols}
  col_values = {c: [] for c in val_cols}
  existing = sorted(table_rows)
  for n, inp in enumerate(inputs):
    rq = inp.get('req') if isinstance(inp.get('req'), dict) else {}
    vl = inp.get('val') if isinstance(inp.get('val'), dict) else {}
    mode = abs(_int(inp.get('conv')))
    target = None
    if aim and existing:
      target = table_rows[existing[abs(_int(rq.get('A'))) % len(existing)]]
    for ci, c in enumerate(req_cols):
      if c == 'id':
        v = abs(_int(rq.get('id'))) % 9 + 1
        if v in ids_used or abs(_int(rq.get('id'))) % 4 == 3:
          v = 20 + len(ids_used) * 3 + abs(_int(rq.get('id'))) % 3     # a fresh id
        ids_used.append(v)
      elif target is not None and (ci == 0 or abs(_int(rq.get(c))) % 4 != 3):
        v = copy.deepcopy(target[c])
      else:
        v = pool(c, rq.get(c))
      if conv:
        v2 = unconvert(c, v, mode)
        if type(v2) is not type(v):
          labels.add('conversion:require-%s-as-%s' % (TYPES.get(c), type(v2).__name__))
        v = v2
      require[c].append(v)
    for c in val_cols:
      col_values[c].append(pool(c, vl.get(c)))
  cut = case.get('cut')
  if form == 'bulk' and cut is not None and inputs:
    lists = [require[c] for c in req_cols] + [col_values[c] for c in val_cols]
    if lists:
      lists[abs(_int(cut)) % len(lists)].pop()
  if form == 'single':
    ua = ['AddOrUpdateRecord', TABLE, {c: v[0] for c, v in require.items()}, {c: v[0] for c, v in col_values.items()}, options]
  else:
    ua = ['BulkAddOrUpdateRecord', TABLE, require, col_values, options]
  return ua, require, col_values, options, form, labels


# ---------------------------------------------------------------------------
# reference implementation of the docstring

class Invalid(Exception):
  pass


def reference(rows, require, col_values, options, labels):
  """rows: {id: {col: value}} (pre-state). Returns dict(per_row=[('add', rec)|('update', ids)|('none', [])], ...).
  Raises Invalid(reason) for arguments the statement lists as invalid."""
  on_many = options.get('on_many', 'first')
  if not (isinstance(on_many, str) and on_many in ON_MANY):
    raise Invalid('bad-on_many')
  if not require and not options.get('allow_empty_require', False):
    raise Invalid('empty-require-not-allowed')
  if not require and not col_values:
    return {'per_row': [], 'empty': True}
  lengths = set(len(v) for v in list(require.values()) + list(col_values.values()))
  if len(lengths) != 1:
    raise Invalid('mismatched-lengths')
  n = lengths.pop()
  keys = [eqv.jdump([eqv.canon(require[c][i]) for c in sorted(require)]) for i in range(n)]
  if require and len(set(keys)) < n:
    raise Invalid('duplicate-require')
  update = options.get('update', True)
  add = options.get('add', True)
  per_row = []
  for i in range(n):
    want = {c: convert(c, require[c][i]) for c in require}
    matches = [r for r in sorted(rows) if all(same(r if c == 'id' else rows[r][c], want[c]) for c in want)]
    if len(matches) > 1:
      labels.add('matched-several')
    if not matches:
      if add:
        rec = dict(DEFAULTS)
        rec.update({c: convert(c, require[c][i]) for c in require})
        rec.update({c: convert(c, col_values[c][i]) for c in col_values})
        per_row.append(('add', rec))
        labels.add('input-row:added')
      else:
        labels.add('no-match:add-disabled')
        per_row.append(('none', []))
    elif update:
      if len(matches) > 1 and on_many == 'first':
        matches = matches[:1]
        labels.add('on_many:first-of-several')
      elif len(matches) > 1 and on_many == 'none':
        labels.add('on_many:none-of-several')
        per_row.append(('none', []))
        continue
      elif len(matches) > 1:
        labels.add('on_many:all-of-several')
      per_row.append(('update', matches))
      labels.add('input-row:updated')
    else:
      labels.add('match:update-disabled')
      per_row.append(('none', []))
  return {'per_row': per_row, 'empty': False}


def order_sensitive(rows, require, col_values, per_row):
  """Could a sequential reading (each input row sees the effects of the previous ones) look up differently?"""
  n = len(per_row)
  written = []    # records (as dicts) as they would look after earlier input rows
  for i in range(n):
    want = {c: convert(c, require[c][i]) for c in require if c != 'id'}
    for rec in written:
      if want and all(same(rec.get(c), want[c]) for c in want):
        return True
    kind, what = per_row[i]
    delivered = {c: convert(c, col_values[c][i]) for c in col_values}
    if kind == 'add':
      written.append(dict(what))
    elif kind == 'update':
      for r in what:
        written.append(dict(rows[r], **delivered))
        # a record that stops matching a later row's require is also an order effect
        for j in range(i + 1, n):
          wj = {c: convert(c, require[c][j]) for c in require if c != 'id'}
          if wj and all(same(rows[r][c], wj[c]) for c in wj) and any(c in delivered and not same(delivered[c], wj[c]) for c in wj):
            return True
  return False


# ---------------------------------------------------------------------------

def make_doc(case):
  d = Doc()
  r = d.apply([['AddTable', 'Src', [{'id': 'N', 'type': 'Text', 'isFormula': False}]],
               ['BulkAddRecord', 'Src', [None] * 3, {'N': ['s1', 's2', 's3']}],
               ['AddTable', TABLE, [{'id': c, 'type': t, 'isFormula': False} for c, t in COLS]]])
  if not r.ok:
    raise RuntimeError('setup failed: %r' % (r.error,))
  return d


def table_rows(view):
  return {r: {c: view[c][r] for c, _ in COLS} for r in view['id']}


def run_case(case):
  out = Outcome()
  d = make_doc(case)
  skip = len(d.log)
  if 'concrete' in case:
    for uas in case['concrete'].get('setup') or []:
      r = d.apply(uas)
      if not r.ok:
        raise RuntimeError('setup failed: %r' % (r.error,))
    ua = copy.deepcopy(case['concrete']['request'])
    labels = set(['concrete'])
    form = 'single' if ua[0] == 'AddOrUpdateRecord' else 'bulk'
    if form == 'single':
      require = {c: [v] for c, v in ua[2].items()}
      col_values = {c: [v] for c, v in ua[3].items()}
    else:
      require, col_values = ua[2], ua[3]
    options = ua[4]
  else:
    rows = [r for r in (case.get('rows') or []) if isinstance(r, dict)][:8]
    for k in (case.get('dup') or [])[:3]:
      if rows:
        twin = dict(rows[abs(_int(k)) % len(rows)])
        twin['C'] = abs(_int(twin.get('C'))) + 1
        rows.append(twin)
    if rows:
      cv = {c: [pool(c, r.get(c)) for r in rows] for c, _ in COLS}
      r = d.apply([['BulkAddRecord', TABLE, [None] * len(rows), cv]])
      if not r.ok:
        raise RuntimeError('setup failed: %r' % (r.error,))
    raw_rows = {r['id']: r for r in d.meta(TABLE)}
    ua, require, col_values, options, form, labels = build_request(case, raw_rows)
  pre_raw = {r['id']: {c: r[c] for c, _ in COLS} for r in d.meta(TABLE)}
  before = d.snapshot()
  reply = d.apply([ua])
  after = d.snapshot()
  out['concrete'] = {'setup': [uas for ok, uas in d.log[skip:-1]], 'request': ua}
  out['key'] = eqv.digest(out['concrete'])
  detail = {'request': ua, 'table_before': pre_raw, 'error': None if reply.ok else repr(reply.error),
            'retValues': reply.ret if reply.ok else None}
  labels.add('form:' + form)
  labels.add('require:' + ('+'.join(sorted(require)) if require else 'empty'))
  if set(require) & set(col_values):
    labels.add('col_values-overrides-require')
  for k in sorted(options):
    labels.add('option:%s=%r' % (k, options[k]) if k != 'on_many' or options[k] in ON_MANY else 'option:on_many=bad')

  # ---- expected outcome
  try:
    ref = reference(pre_raw, require, col_values, options, labels)
    invalid = None
  except Invalid as e:
    invalid = e.args[0]
  out.cls(*sorted(labels))
  if invalid:
    out.cls('invalid:' + invalid)
    if reply.ok:
      if form == 'single' and not require and not col_values:
        return out.fail('C28:single-form-empty-request-skips-validation',
                        'AddOrUpdateRecord with empty require and empty col_values returns %r although the arguments are '
                        'invalid (%s); the bulk form rejects the same arguments' % (reply.ret[0], invalid), detail)
      return out.fail('C28:invalid-arguments-accepted:' + invalid, 'request %r is invalid (%s) but was accepted, returning %r' % (
        ua, invalid, reply.ret[0]), detail)
    if before != after:
      return out.fail('C28:rejected-request-left-trace', 'request rejected (%r) but the document changed' % (reply.error,),
                      dict(detail, diff=eqv.diff(before, after)))
    return out
  out.cls('valid')
  per_row = ref['per_row']
  adds = [i for i, (k, _) in enumerate(per_row) if k == 'add']
  if 'id' in require and any(convert('id', require['id'][i]) in pre_raw for i in adds):
    # the record to add carries an id that is taken: outside the statement
    out.cls('require-id:add-with-taken-id(not judged)')
    if not reply.ok and before != after:
      return out.fail('C28:rejected-request-left-trace', 'request rejected (%r) but the document changed' % (reply.error,), detail)
    return out
  if 'CL' in require and not reply.ok and isinstance(reply.error, TypeError) and 'unhashable' in str(reply.error):
    return out.fail('C28:list-valued-require-raises-TypeError',
                    'require on a ChoiceList column (cell value %r) raises %r instead of looking the records up' % (
                      require['CL'][:1], reply.error), detail)
  if not reply.ok:
    return out.fail('C28:valid-request-rejected', 'request %r is valid by the docstring but raised %r' % (ua, reply.error), detail)

  sensitive = not ref['empty'] and order_sensitive(pre_raw, require, col_values, per_row)
  if sensitive:
    out.cls('order-sensitive')
  # ---- retValues
  ret = reply.ret[0]
  new_ids = {}
  exp_record_ids = []
  problems = []
  got_rec = None
  if form == 'bulk':
    if not (isinstance(ret, dict) and sorted(ret) == ['addRecordIds', 'recordIds', 'updateRecordIds']):
      return out.fail('C28:retvalues-malformed', 'BulkAddOrUpdateRecord returned %r' % (ret,), detail)
    got_rec = ret['recordIds']
    if not isinstance(got_rec, list) or len(got_rec) != len(per_row):
      return out.fail('C28:retvalues-wrong-ids', 'recordIds %r has not one entry per input row (%d)' % (got_rec, len(per_row)), detail)
  else:
    if not (isinstance(ret, dict) and sorted(ret) == ['action', 'recordIds']):
      return out.fail('C28:retvalues-malformed', 'AddOrUpdateRecord returned %r' % (ret,), detail)
    got_rec = [ret['recordIds']] if per_row else []
  for i, (kind, what) in enumerate(per_row):
    g = got_rec[i]
    if kind == 'add':
      ok = isinstance(g, list) and len(g) == 1 and isinstance(g[0], int) and not isinstance(g[0], bool) and \
           g[0] not in pre_raw and g[0] not in new_ids.values() and g[0] > 0
      if ok and 'id' in require:
        ok = g[0] == convert('id', require['id'][i])
      if not ok:
        problems.append('input row %d should have been added (one new id), recordIds gives %r' % (i, g))
      else:
        new_ids[i] = g[0]
    elif g != what:
      problems.append('input row %d: expected ids %r, recordIds gives %r' % (i, what, g))
  if not problems and form == 'bulk':
    exp_add = [new_ids[i] for i in adds]
    exp_upd = [what for (kind, what) in per_row if kind == 'update']
    if ret['addRecordIds'] != exp_add:
      problems.append('addRecordIds %r, expected %r' % (ret['addRecordIds'], exp_add))
    if ret['updateRecordIds'] != exp_upd:
      problems.append('updateRecordIds %r, expected %r' % (ret['updateRecordIds'], exp_upd))
  if not problems and form == 'single':
    exp_action = 'NONE' if not per_row else {'add': 'ADD', 'update': 'UPDATE', 'none': 'NONE'}[per_row[0][0]]
    if ret['action'] != exp_action:
      problems.append('action %r, expected %r' % (ret['action'], exp_action))
    if not per_row and ret['recordIds'] != []:
      problems.append('recordIds %r, expected []' % (ret['recordIds'],))
  nontrivial = bool(adds) or 'matched-several' in labels
  out['nontrivial'] = nontrivial
  if problems:
    detail['expected_per_input_row'] = [[k, w] for k, w in per_row]
    if sensitive:
      out.cls('order-sensitive:differs(not judged)')
      return out
    kinds = set(k for k, _ in per_row)
    return out.fail('C28:retvalues-wrong-ids', '%s; request %r' % (problems[0], ua), detail)

  # ---- final table
  model = {r: [dict(v)] for r, v in pre_raw.items()}      # id -> list of admissible records (usually one)
  exact = {r: dict(v) for r, v in pre_raw.items()}
  deliveries = {}
  for i, (kind, what) in enumerate(per_row):
    if kind == 'add':
      exact[new_ids[i]] = {c: v for c, v in what.items() if c != 'id'}
    elif kind == 'update':
      for r in what:
        deliveries.setdefault(r, []).append({c: convert(c, col_values[c][i]) for c in col_values})
  multi = False
  post = table_rows(after[TABLE])
  diffs = []
  if sorted(post) != sorted(exact):
    diffs.append(['row ids', sorted(exact), sorted(post)])
  else:
    for r in sorted(exact):
      dl = deliveries.get(r, [])
      for c, _ in COLS:
        if dl and c in dl[0]:
          allowed = [eqv.canon(x[c]) for x in dl]
          if len(dl) > 1:
            multi = True
        else:
          allowed = [eqv.canon(exact[r][c])]
        if post[r][c] not in allowed:
          diffs.append([r, c, {'expected': allowed if len(allowed) > 1 else allowed[0], 'engine': post[r][c]}])
  if multi:
    out.cls('several-input-rows-deliver-to-one-record')
  others = {t: v for t, v in before.items() if t != TABLE} != {t: v for t, v in after.items() if t != TABLE}
  if diffs:
    detail['diffs'] = diffs[:6]
    detail['expected_per_input_row'] = [[k, w] for k, w in per_row]
    if sensitive:
      out.cls('order-sensitive:differs(not judged)')
      return out
    what = diffs[0]
    sig = 'C28:final-table:row-set-differs' if what[0] == 'row ids' else \
      'C28:final-table:added-record-differs' if what[0] in new_ids.values() else \
      'C28:final-table:unmatched-record-changed' if what[0] not in deliveries else 'C28:final-table:updated-record-differs'
    return out.fail(sig, 'after %r the table differs from the reference: %s' % (ua, eqv.jdump(what)), detail)
  if others:
    return out.fail('C28:other-tables-changed', 'tables other than %s changed' % TABLE, dict(detail, diff=eqv.diff(before, after)))
  return out
