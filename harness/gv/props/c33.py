"""C33 JSON import reconstructs the input.

A case is a JSON value plus an import name and include/exclude options. The value is serialised,
imported with import_json (dumps, or parse_file on a real file), and the returned tables are walked
together with the input: main-table row i <-> top-level item i, nested object <-> row referenced from
the parent's cell, array element <-> sub-table row whose back-reference names the parent row.
"""
import atexit, json, os, shutil, tempfile
from hypothesis import strategies as st
from ..runner import Outcome
from .. import env
env.setup()
from imports import import_json  # noqa: E402

ID = 'C33'
LEVEL = 'exploration'
RULE = ('case = recursive JSON value (objects/arrays/scalars, containers nested at most 6 deep, keys from a small '
        'alphabet so that the same key recurs with different value kinds, incl. empty, unicode, "_"-containing '
        'and import-name-like keys) + import name + include/exclude lists built from the table/property paths '
        'that occur in the value (plus occasional unrelated or partial prefixes); imported through dumps() or through parse_file() on a '
        'file. Non-trivial = the value yields at least two tables (some nested object or array) or an '
        'include/exclude option is set; distinct by hash of the case. Cases where two different key paths give '
        'the same table name ("collision") or where an option is a string prefix but not a path prefix of some '
        'name ("prefix-ambiguous") are only checked for totality and equal column lengths.')
ORACLE = ('guided structural walk written from the module docstring and import_json_test: every table has as '
          'many column_metadata entries as columns and all columns equally long; top-level item i is row i of '
          'the table named after the import; an object value is the row whose id is stored in its parent\'s cell; '
          'the elements of an array are, in order, exactly the rows of the sub-table (named parent_key) whose '
          'back-reference column (named after the parent table, Ref:parent) holds the parent row id; non-object '
          'values sit in column ""; every scalar is found type-exactly in its cell; every row is reached exactly '
          'once and every cell not reached is None; the set of tables and of column ids is exactly what the '
          'value and the includes/excludes prefixes (path and everything below it) imply.')
ASSUMPTIONS = [
  'includes/excludes semantics are taken from import_json_test: an entry names a table or property path and '
  'covers it and everything nested below it; excluded tables/properties and references to them are absent, '
  'their included descendants remain (without parent reference)',
  'rows of a table whose parent table is filtered out are matched in document order (there is no reference '
  'to follow); in the collision-free class this order does not depend on key iteration order',
  'a table whose rows have no cells at all is returned without columns (as in import_json_test), so its row '
  'count is not observable; references into it are only checked to be distinct ids 1..n',
  'column types are not part of the statement and are only checked for the back-reference column (Ref:parent)',
  'callers of parse_file pass the SCHEMA key along with includes/excludes (without it parse_file resets the '
  'options, which is how the first, option-less call from Node works)',
  'the JSON value is what json.loads yields: str keys, int/float/bool/None/str scalars (NaN/Infinity allowed)',
]
TECHNIQUE = 'Hypothesis recursive JSON + guided structural walk (reference reconstruction)'
BUDGET = {'quick': dict(examples=4000, shards=8, max_seconds=50),
          'thorough': dict(examples=64000, shards=16, max_seconds=1800)}

NAMES = ['T', 'Hello', '', 'a', 'my_import', 'T2']
KEYS = ['a', 'b', 'c', 'ab', 'T', 'T2', 'Hello', '', '\xe9', '\u6f22\u5b57', 'a b', 'A', 'id', 'a_b', '_', 'b_']
MAX_DEPTH = 6


class Bad(Exception):
  def __init__(self, bucket, message, detail=None):
    Exception.__init__(self, message)
    self.bucket, self.message, self.detail = bucket, message, detail


def same_scalar(a, b):
  if type(a) is not type(b):
    return False
  if isinstance(a, float) and a != a:
    return b != b
  return a == b


def is_rowid(x):
  return isinstance(x, int) and not isinstance(x, bool) and x >= 1


def limit_depth(v, depth):
  """Normalisation for shrunk/odd cases: cut nesting beyond MAX_DEPTH, force str keys."""
  if isinstance(v, dict):
    if depth >= MAX_DEPTH:
      return None
    return {str(k): limit_depth(x, depth + 1) for k, x in v.items()}
  if isinstance(v, list):
    if depth >= MAX_DEPTH:
      return None
    return [limit_depth(x, depth + 1) for x in v]
  if v is None or isinstance(v, (bool, int, float, str)):
    return v
  return str(v)


class Model(object):
  """What the input alone implies: table paths, their rows, property paths."""
  def __init__(self, name, data, inc, exc):
    self.name = name
    self.inc = inc
    self.exc = exc
    self.table_rows = {}      # path tuple -> number of rows (stored or not)
    self.prop_paths = set()   # scalar property paths
    self.data_cols = {}       # path -> set of expected data column ids
    self.has_parent = {}      # path -> True if some row has a stored parent (array element of a stored row)
    self.shapes = set()
    self.max_depth = 0
    items = data if isinstance(data, list) else [data]
    for it in items:
      self._row((), it, None, 1)

  def S(self, path):
    return self.name + ''.join('_' + k for k in path)

  def included(self, path):
    """Path semantics: an option covers a path iff it names the path or one of its ancestors."""
    names = set(self.S(path[:i]) for i in range(len(path) + 1))
    inc_ok = any(o in names for o in self.inc) if self.inc else True
    exc_hit = any(o in names for o in self.exc) if self.exc else False
    return inc_ok and not exc_hit

  def included_by_string(self, path):
    s = self.S(path)
    inc_ok = any(s.startswith(o) for o in self.inc) if self.inc else True
    exc_hit = any(s.startswith(o) for o in self.exc) if self.exc else False
    return inc_ok and not exc_hit

  def _row(self, tpath, value, parent_stored, depth):
    self.max_depth = max(self.max_depth, depth)
    self.table_rows[tpath] = self.table_rows.get(tpath, 0) + 1
    stored = self.included(tpath)
    if parent_stored and stored:
      self.has_parent[tpath] = True
    cols = self.data_cols.setdefault(tpath, set())
    items = value.items() if isinstance(value, dict) else [('', value)]
    for k, v in items:
      cpath = tpath + (k,)
      if isinstance(v, dict):
        if not v:
          self.shapes.add('empty-object')
        if stored and self.included(cpath):
          cols.add(k)
        self._row(cpath, v, False, depth + 1)
      elif isinstance(v, list):
        kinds = set('object' if isinstance(e, dict) else 'array' if isinstance(e, list) else 'scalar' for e in v)
        if not v:
          self.shapes.add('empty-array')
        if len(kinds) > 1:
          self.shapes.add('mixed-array')
        for kd in kinds:
          self.shapes.add('array-of-%ss' % kd)
        self.table_rows.setdefault(cpath, 0)     # an empty array still names a table (matters for collisions)
        for e in v:
          self._row(cpath, e, stored, depth + 1)
      else:
        self.prop_paths.add(cpath)
        if v is None:
          self.shapes.add('null-scalar')
        if stored and self.included(cpath):
          cols.add(k)

  def collisions(self):
    by_name = {}
    for p in self.table_rows:
      by_name.setdefault(self.S(p), set()).add(p)
    return sorted(n for n, ps in by_name.items() if len(ps) > 1)

  def ambiguous(self):
    for p in list(self.table_rows) + sorted(self.prop_paths):
      if self.included(p) != self.included_by_string(p):
        return self.S(p)
    return None


def backref_id(parent_name, data_cols):
  if parent_name not in data_cols:
    return parent_name
  i = 2
  while '%s%d' % (parent_name, i) in data_cols:
    i += 1
  return '%s%d' % (parent_name, i)


def basic_shape(tables):
  """Totality-level checks that hold in every class. Returns {name: {'cols':{id:list},'n':int|None,'types':{}}}."""
  if not isinstance(tables, list):
    raise Bad('shape', 'tables is %r, not a list' % type(tables).__name__)
  out = {}
  for t in tables:
    name = t.get('table_name')
    meta = t.get('column_metadata')
    data = t.get('table_data')
    if not isinstance(meta, list) or not isinstance(data, list) or len(meta) != len(data):
      raise Bad('shape', 'table %r: column_metadata and table_data do not match in number' % (name,))
    lens = sorted(set(len(c) for c in data))
    if len(lens) > 1:
      raise Bad('column-length', 'table %r has columns of different lengths %r' % (name, lens),
                {'table': name, 'lengths': [len(c) for c in data]})
    ids = [m.get('id') for m in meta]
    out.setdefault(name, []).append({'cols': dict(zip(ids, data)), 'ids': ids, 'n': lens[0] if lens else None,
                                     'types': dict((m.get('id'), m.get('type')) for m in meta)})
  return out


def verify(model, data, tables):
  by_name = basic_shape(tables)
  for name, ts in by_name.items():
    if len(ts) > 1:
      raise Bad('duplicate-table', 'table name %r returned %d times' % (name, len(ts)))
    if len(set(ts[0]['ids'])) != len(ts[0]['ids']):
      raise Bad('duplicate-column', 'table %r has duplicate column ids %r' % (name, ts[0]['ids']))
  out = dict((n, ts[0]) for n, ts in by_name.items())

  # expected tables: those with at least one stored row
  exp_tables = {}
  for p, n in model.table_rows.items():
    if n > 0 and model.included(p):
      exp_tables[model.S(p)] = p
  for n in sorted(exp_tables, key=lambda x: (len(x), x)):
    if n not in out:
      raise Bad('missing-table', 'no table %r although the input has %d row(s) for it' % (
        n, model.table_rows[exp_tables[n]]), {'returned': sorted(out, key=str)})
  for n in out:
    if n not in exp_tables:
      raise Bad('spurious-table', 'table %r returned but nothing in the input (after filtering) belongs there' % (n,),
                {'expected': sorted(exp_tables)})

  # expected column ids
  backref = {}
  for n, p in exp_tables.items():
    want = set(model.data_cols.get(p, ()))
    if model.has_parent.get(p):
      backref[n] = backref_id(model.S(p[:-1]), want)
      want = want | {backref[n]}
    got = set(out[n]['ids'])
    if got != want:
      raise Bad('column-set', 'table %r has columns %r, expected %r' % (n, sorted(got, key=str), sorted(want)),
                {'table': n, 'missing': sorted(want - got), 'unexpected': sorted(got - want, key=str)})
    if n in backref:
      ty = out[n]['types'].get(backref[n])
      if ty != 'Ref:' + model.S(p[:-1]):
        raise Bad('backref-type', 'table %r: parent column %r has type %r, expected %r' % (
          n, backref[n], ty, 'Ref:' + model.S(p[:-1])))

  visited_rows = dict((n, set()) for n in out)
  visited_cells = set()
  orphan_next = {}

  def cell(n, col, rowid):
    c = out[n]['cols'].get(col)
    if c is None:
      return None
    return c[rowid - 1]

  def claim(n, rowid, why):
    if not is_rowid(rowid):
      raise Bad('bad-reference', '%s: %r is not a row id of table %r' % (why, rowid, n))
    nrows = out[n]['n']
    if nrows is not None and rowid > nrows:
      raise Bad('bad-reference', '%s: row id %r beyond the %d rows of table %r' % (why, rowid, nrows, n))
    if rowid in visited_rows[n]:
      raise Bad('row-reached-twice', '%s: row %d of table %r already stands for another input value' % (why, rowid, n))
    visited_rows[n].add(rowid)

  def walk(tpath, value, rowid, where):
    """rowid None <=> the table is filtered out (the row is not stored)."""
    n = model.S(tpath)
    items = value.items() if isinstance(value, dict) else [('', value)]
    for k, v in items:
      cpath = tpath + (k,)
      cn = model.S(cpath)
      cinc = model.included(cpath)
      here = '%s.%s' % (where, k)
      if isinstance(v, dict):
        if not cinc:
          walk(cpath, v, None, here)
        elif rowid is not None:
          ref = cell(n, k, rowid)
          visited_cells.add((n, k, rowid))
          claim(cn, ref, 'object at %s (cell %r[%d].%r)' % (here, n, rowid, k))
          walk(cpath, v, ref, here)
        else:
          r = orphan_next.get(cn, 0) + 1
          orphan_next[cn] = r
          claim(cn, r, 'object at %s (parent filtered out, document order)' % here)
          walk(cpath, v, r, here)
      elif isinstance(v, list):
        if not cinc:
          for i, e in enumerate(v):
            walk(cpath, e, None, '%s[%d]' % (here, i))
        elif rowid is not None:
          children = []
          if v or cn in out:
            bcol = out[cn]['cols'].get(backref.get(cn)) if cn in out else None
            if bcol is not None:
              children = [i + 1 for i, b in enumerate(bcol) if same_scalar(b, rowid)]
          if len(children) != len(v):
            raise Bad('array-rows', 'array at %s has %d element(s) but %d row(s) of %r point back to row %d of %r' % (
              here, len(v), len(children), cn, rowid, n), {'rows': children})
          for i, (e, r) in enumerate(zip(v, children)):
            claim(cn, r, 'element %d of array at %s' % (i, here))
            visited_cells.add((cn, backref[cn], r))
            walk(cpath, e, r, '%s[%d]' % (here, i))
        else:
          for i, e in enumerate(v):
            r = orphan_next.get(cn, 0) + 1
            orphan_next[cn] = r
            claim(cn, r, 'element %d of array at %s (parent filtered out, document order)' % (i, here))
            walk(cpath, e, r, '%s[%d]' % (here, i))
      else:
        if rowid is not None and cinc:
          got = cell(n, k, rowid)
          visited_cells.add((n, k, rowid))
          if not same_scalar(got, v):
            raise Bad('scalar', 'scalar %r at %s: cell %r[%d].%r holds %r' % (v, here, n, rowid, k, got),
                      {'table': n, 'row': rowid, 'column': k, 'expected': v, 'got': got})

  items = data if isinstance(data, list) else [data]
  main = model.S(())
  main_stored = model.included(())
  for i, it in enumerate(items):
    if main_stored:
      claim(main, i + 1, 'top-level item %d' % i)
    walk((), it, (i + 1) if main_stored else None, '$[%d]' % i)

  # every row reached exactly once, nothing else stored
  for n, t in out.items():
    want_n = model.table_rows[exp_tables[n]]
    if visited_rows[n] != set(range(1, want_n + 1)):
      raise Bad('row-ids', 'table %r: rows reached %r, expected ids 1..%d' % (n, sorted(visited_rows[n])[:20], want_n))
    if t['n'] is not None and t['n'] != want_n:
      raise Bad('row-count', 'table %r has %d rows, the input has %d value(s) for it' % (n, t['n'], want_n))
    for col, vals in t['cols'].items():
      for r, v in enumerate(vals):
        if v is not None and (n, col, r + 1) not in visited_cells:
          raise Bad('spurious-value', 'cell %r[%d].%r holds %r which corresponds to nothing in the input' % (
            n, r + 1, col, v), {'table': n, 'row': r + 1, 'column': col, 'value': v})


_tmp_dir = [None]

def _cleanup():
  if _tmp_dir[0]:
    shutil.rmtree(_tmp_dir[0], ignore_errors=True)

def import_via_file(data, name, opts):
  if _tmp_dir[0] is None:
    d = '/dev/shm' if os.path.isdir('/dev/shm') and os.access('/dev/shm', os.W_OK) else None
    _tmp_dir[0] = tempfile.mkdtemp(prefix='gv-c33-', dir=d)
    atexit.register(_cleanup)
  with open(os.path.join(_tmp_dir[0], 'in.json'), 'w') as f:
    f.write(json.dumps(data))
  old = os.environ.get('IMPORTDIR')
  os.environ['IMPORTDIR'] = _tmp_dir[0]
  try:
    po = dict(opts)
    po['SCHEMA'] = import_json.SCHEMA
    return import_json.parse_file({'path': 'in.json', 'origName': name + '.json'}, po)
  finally:
    if old is None:
      del os.environ['IMPORTDIR']
    else:
      os.environ['IMPORTDIR'] = old


def build_options(case, name, data):
  """Option strings come from the paths that occur in the value (selectors), plus literal extras."""
  probe = Model(name, data, [], [])
  paths = sorted(set(probe.table_rows) | probe.prop_paths, key=lambda p: (len(p), p))
  strings = [probe.S(p) for p in paths]

  def pick(sels):
    out = []
    for s in (list(sels)[:4] if strings else []):
      if isinstance(s, str):
        out.append(s)
      elif isinstance(s, bool) or not isinstance(s, int):
        continue
      elif s < 0:         # partial prefix of a real path: exercises the prefix-ambiguous class
        t = strings[(-s) % len(strings)]
        out.append(t[:max(1, len(t) - 1)])
      else:
        out.append(strings[s % len(strings)])
    return out
  return pick(case.get('inc', [])), pick(case.get('exc', []))


def run_case(case):
  out = Outcome()
  if not isinstance(case, dict):
    out['skipped'] = True
    return out
  name = NAMES[abs(int(case.get('name', 0))) % len(NAMES)]
  data = json.loads(json.dumps(limit_depth(case.get('doc'), 0)))
  inc_l, exc_l = build_options(case, name, data)
  sep = ';;' if case.get('double_sep') else ';'
  opts = {'includes': sep.join(inc_l), 'excludes': sep.join(exc_l)}
  inc = [o for o in opts['includes'].split(';') if o]
  exc = [o for o in opts['excludes'].split(';') if o]
  model = Model(name, data, inc, exc)
  via_file = bool(case.get('via_file')) and name != ''
  out['concrete'] = {'json': json.dumps(data)[:3000], 'name': name, 'parse_options': opts,
                     'call': 'parse_file' if via_file else 'dumps'}

  coll = model.collisions()
  amb = model.ambiguous() if (inc or exc) else None
  n_tables = sum(1 for n in model.table_rows.values() if n > 0)
  out.cls('via=%s' % ('parse_file' if via_file else 'dumps'),
          'top=%s' % ('array' if isinstance(data, list) else 'object' if isinstance(data, dict) else 'scalar'),
          'depth=%d' % model.max_depth, 'tables=%s' % (n_tables if n_tables < 6 else '6+'), 'name=%r' % name)
  out.cls(*sorted(model.shapes))
  if inc:
    out.cls('includes')
  if exc:
    out.cls('excludes')
  if coll:
    out.cls('class:table-name-collision')
  if amb is not None:
    out.cls('class:prefix-ambiguous')
  stored = [p for p, n in model.table_rows.items() if n > 0 and model.included(p)]
  if (inc or exc) and len(stored) < n_tables:
    out.cls('filter-removes-table')
  if any(p and not model.included(p[:-1]) for p in stored):
    out.cls('rows-whose-parent-table-is-filtered-out')
  if any(model.has_parent.get(p) and model.S(p[:-1]) in model.data_cols.get(p, ()) for p in stored):
    out.cls('backref-id-clash')
  if any(not model.data_cols.get(p) and not model.has_parent.get(p) for p in stored):
    out.cls('zero-column-table')
  if any(any(ord(ch) > 127 for ch in k) for p in model.table_rows for k in p):
    out.cls('unicode-key-table')
  if isinstance(data, list) and len(data) > 20:
    out.cls('top-level>20-items')
  kinds_by_path = {}
  _kinds(data if isinstance(data, list) else [data], (), kinds_by_path)
  if any({'object', 'array'} <= ks for ks in kinds_by_path.values()):
    out.cls('object-and-array-under-same-key')
  if any('scalar' in ks and len(ks) > 1 for ks in kinds_by_path.values()):
    out.cls('scalar-and-container-under-same-key')
  out['nontrivial'] = n_tables >= 2 or bool(inc or exc)

  try:
    if via_file:
      res = import_via_file(data, name, opts)
    else:
      res = import_json.dumps(data, name, dict(opts))
    tables = res['tables']
  except Exception as e:
    return out.fail('C33:raised', 'import raised %s: %s' % (type(e).__name__, e))
  try:
    if coll or amb is not None:
      basic_shape(tables)
    else:
      out.cls('class:main')
      verify(model, data, tables)
  except Bad as b:
    out.fail('C33:' + b.bucket, b.message, b.detail)
  return out


def _kinds(items, tpath, acc):
  for value in items:
    pairs = value.items() if isinstance(value, dict) else [('', value)]
    for k, v in pairs:
      kind = 'object' if isinstance(v, dict) else 'array' if isinstance(v, list) else 'scalar'
      acc.setdefault(tpath + (k,), set()).add(kind)
      if isinstance(v, dict):
        _kinds([v], tpath + (k,), acc)
      elif isinstance(v, list):
        _kinds(v, tpath + (k,), acc)


# ---------------------------------------------------------------------------
# strategy

def strategy(tier):
  scalar = st.one_of(
    st.none(), st.booleans(), st.integers(-3, 3), st.integers(-2**70, 2**70),
    st.floats(allow_nan=True, allow_infinity=True), st.sampled_from([0, 0.0, 1, 1.0, '', '0', 'x', 'T', '1']),
    st.text(max_size=6))
  main_keys = st.sampled_from(KEYS[:13])        # no '_' inside: collision-free
  any_keys = st.one_of(st.sampled_from(KEYS), st.text(alphabet='ab_T;', max_size=3))
  coll_keys = st.sampled_from(['a', 'b', 'a_b', '_', '', 'b_', '_b', 'a_'])   # 'a'->'b' vs 'a_b' etc.

  def values(keys):
    return st.recursive(
      scalar,
      lambda ch: st.one_of(st.lists(ch, max_size=4), st.dictionaries(keys, ch, max_size=4)),
      max_leaves=25)

  def docs(keys):
    v = values(keys)
    return st.one_of(st.lists(v, max_size=6), st.lists(st.dictionaries(keys, v, max_size=4), max_size=6),
                     st.dictionaries(keys, v, max_size=5), v,
                     st.lists(st.dictionaries(keys, scalar, max_size=3), min_size=21, max_size=40))
  sel = st.one_of(st.integers(0, 40), st.integers(0, 40), st.integers(-40, -1),
                  st.sampled_from(['zzz', 'T', 'T_a', 'Hello_', '_']))
  opts = st.one_of(st.just([]), st.just([]), st.lists(sel, min_size=1, max_size=3))
  return st.fixed_dictionaries({
    'doc': st.one_of(docs(main_keys), docs(main_keys), docs(main_keys), docs(main_keys), docs(any_keys),
                     docs(coll_keys)),
    'name': st.sampled_from([0, 0, 1, 2, 3, 4, 5]),
    'inc': opts,
    'exc': opts,
    'double_sep': st.booleans(),
    'via_file': st.sampled_from([False, False, True]),
  })
