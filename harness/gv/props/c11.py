"""C11 Two-way references stay symmetric.

A document with one or two user tables and a pair of reference columns linked as reverses of each other
(AddReverseColumn, or reverseCol set through the metadata record) is driven through a generated history of
bundles touching either side. After every successful bundle each linked pair must be symmetric over the
existing rows; a bundle that raises must leave the document unchanged; a record edit that would give a
single-valued (Ref) side two targets must raise.
"""
from hypothesis import strategies as st
from ..runner import Outcome
from ..doc import Doc, is_hidden_col
from .. import eqv

ID = 'C11'
LEVEL = 'exploration'
TECHNIQUE = 'stateful property-based testing; invariant oracle + rejection rule with a small relational model'
RULE = ('case = setup (tables People/Projects or the self pair People<->People; source column Ref or RefList; '
        'initial rows and values; pair made by AddReverseColumn or by setting reverseCol in the metadata record; '
        'optional Ref/RefList switch of the new side; optional second pair) + up to 10 (quick) / 14 (thorough) '
        'bundles of 1-3 ops: Update/BulkUpdate on either side (several rows aiming at one target, lists with '
        'repeated ids, clearing with None/0/[]), Add/BulkAdd with values for a linked column, Remove/BulkRemove '
        'on either side, ModifyColumn Ref<->RefList on either side, unlink (reverseCol=0 by ModifyColumn or '
        'metadata record, RemoveColumn), re-link, RemoveTable, column/table rename, one action writing both '
        'columns of a self pair, undo of the last successful '
        'bundles. Non-trivial = at least one successful bundle changed >= 1 cell of a column that is linked '
        '(before or after the bundle); distinct by hash of the concrete user actions.')
ORACLE = ('after each successful bundle, for every pair of columns c (table A) and r (table B) whose metadata '
          'records name each other in reverseCol, read through fetch_table: for all existing rows a of A, b of B: '
          '(b in refs(c[a])) == (a in refs(r[b])), refs(Ref cell) = {id} for an int id > 0, refs(RefList cell) = ids '
          'of [\'L\', ...], any other cell value (0, None, alt text) = {}. If the bundle raises: the Node-observable '
          'snapshot of all tables equals the one before the bundle. Independent model: a bundle made only of '
          'Update/Add record actions on one side of a pair whose net effect gives some row of a Ref-typed side '
          'two partners must raise.')
ASSUMPTIONS = ['reference values written by the generator name existing rows of the target table, or are 0, None, '
               '[] or alt text (no dangling ids, no temporary negative ids: C26)',
               'row id lists of bulk actions hold distinct ids (C27)',
               'reverseCol is set through the metadata record only between a column and a proper reverse candidate '
               '(a Ref/RefList column of the target table pointing back); linking two columns whose data is not '
               'already symmetric is generated rarely and judged under its own signature',
               'undo is applied in stack order to successful bundles only (as the client does)',
               'after a rejected bundle, differences confined to formula (display helper) cells that a following '
               'Calculate repairs are the known C04 finding (formula cells stay dirty after rollback) and are not '
               'charged here']
BUDGET = {'quick': dict(examples=1600, shards=16, max_seconds=40),
          'thorough': dict(examples=19000, shards=16, max_seconds=1800)}
SHRINK_BUDGET = {'quick': 120, 'thorough': 500}

A, B = 'People', 'Projects'


# ---------------------------------------------------------------------------
# reading the document

def ref_columns(d):
  """Visible data Ref/RefList columns of user tables: list of dicts sorted by colRef."""
  tmap = {t['id']: t['tableId'] for t in d.tables_meta() if not t['summarySourceTable']}
  out = []
  for c in d.columns_meta():
    typ = c['type']
    if c['parentId'] not in tmap or c['isFormula'] or is_hidden_col(c['colId']):
      continue
    if not (typ.startswith('Ref:') or typ.startswith('RefList:')):
      continue
    kind, target = typ.split(':', 1)
    out.append({'ref': c['id'], 'table': tmap[c['parentId']], 'col': c['colId'], 'kind': kind,
                'target': target, 'reverse': c['reverseCol']})
  out.sort(key=lambda x: x['ref'])
  return out


def linked_pairs(cols):
  """[(c, r)] with c.ref < r.ref for columns naming each other in reverseCol."""
  by = {c['ref']: c for c in cols}
  out = []
  for c in cols:
    r = by.get(c['reverse'])
    if r is not None and r['reverse'] == c['ref'] and c['ref'] < r['ref']:
      out.append((c, r))
  return out


def refs_of(kind, v):
  if kind == 'Ref':
    return {v} if isinstance(v, int) and not isinstance(v, bool) and v > 0 else set()
  if isinstance(v, list) and v[:1] == ['L']:
    return set(x for x in v[1:] if isinstance(x, int) and not isinstance(x, bool) and x > 0)
  return set()


def cells(d, col):
  rep = d.fetch_repr(col['table'])
  return dict(zip(rep[2], rep[3].get(col['col'], [None] * len(rep[2]))))


def asymmetries(d, c, r):
  """Violations of (b in c[a]) <=> (a in r[b]) over existing rows: list of [a, b, in_c, in_r]."""
  if c['target'] != r['table'] or r['target'] != c['table']:
    return [['types', c['table'] + '.' + c['col'], c['kind'] + ':' + c['target'], r['kind'] + ':' + r['target']]]
  cc, rc = cells(d, c), cells(d, r)
  fwd = set((a, b) for a, v in cc.items() for b in refs_of(c['kind'], v) if b in rc)
  bwd = set((a, b) for b, v in rc.items() for a in refs_of(r['kind'], v) if a in cc)
  return [[a, b, (a, b) in fwd, (a, b) in bwd] for (a, b) in sorted(fwd ^ bwd)]


def linked_cells(d, cols=None):
  cols = ref_columns(d) if cols is None else cols
  out = {}
  for c, r in linked_pairs(cols):
    for x in (c, r):
      out[x['ref']] = eqv.canon(sorted(cells(d, x).items()))
  return out


# ---------------------------------------------------------------------------
# model of "would give a Ref side two targets"

RECORD_EDITS = ('UpdateRecord', 'BulkUpdateRecord', 'AddRecord', 'BulkAddRecord')

def must_reject(d, uas, cols):
  """True if the net effect of some action of the bundle gives a row of a Ref-typed side two partners,
  False if surely not, None if the bundle is outside the model."""
  pairs = linked_pairs(cols)
  if not pairs:
    return None
  rows = {}
  state = []
  for c, r in pairs:
    cc, rc = cells(d, c), cells(d, r)
    rel = set((a, b) for a, v in cc.items() for b in refs_of(c['kind'], v))
    if any(b not in rc for (_, b) in rel):
      return None
    rows[c['table']] = set(cc); rows[r['table']] = set(rc)
    state.append([c, r, rel])
  fresh = [0]
  for ua in uas:
    if ua[0] not in RECORD_EDITS or ua[1].startswith('_grist_'):
      return None
    tid = ua[1]
    if ua[0] in ('UpdateRecord', 'AddRecord'):
      ids = [ua[2]]; colvals = {k: [v] for k, v in ua[3].items()}
    else:
      ids = list(ua[2]); colvals = ua[3]
    if ua[0] in ('AddRecord', 'BulkAddRecord'):
      if any(i is not None for i in ids):
        return None
      new_ids = []
      for _ in ids:
        fresh[0] += 1
        new_ids.append(('new', tid, fresh[0]))
      ids = new_ids
    elif len(set(ids)) != len(ids) or any(i not in rows.get(tid, ()) for i in ids if tid in rows):
      return None
    for st_ in state:
      c, r, rel = st_
      sides = [x for x in (c, r) if x['table'] == tid and x['col'] in colvals]
      if len(sides) > 1:
        return None
      if not sides:
        continue
      x = sides[0]
      other = r if x is c else c
      vals = colvals[x['col']]
      targets = []
      for v in vals:
        t = refs_of(x['kind'], v)
        if any(b not in rows.get(other['table'], ()) for b in t):
          return None
        targets.append(t)
      idset = set(ids)
      if x is c:
        rel = set(p for p in rel if p[0] not in idset) | set((a, b) for a, t in zip(ids, targets) for b in t)
      else:
        rel = set(p for p in rel if p[1] not in idset) | set((a, b) for b, t in zip(ids, targets) for a in t)
      st_[2] = rel
      if c['kind'] == 'Ref':
        seen = set()
        for (a, b) in rel:
          if a in seen:
            return True
          seen.add(a)
      if r['kind'] == 'Ref':
        seen = set()
        for (a, b) in rel:
          if b in seen:
            return True
          seen.add(b)
    if ua[0] in ('AddRecord', 'BulkAddRecord') and tid in rows:
      rows[tid] = rows[tid] | set(ids)
  return False


# ---------------------------------------------------------------------------
# abstract ops -> user actions

def _pick(seq, i):
  return seq[int(i) % len(seq)] if seq else None


def _order(cols):
  """Linked columns first (they are what the property is about)."""
  return [c for c in cols if c['reverse']] + [c for c in cols if not c['reverse']]


def ref_value(kind, pool, spec):
  """spec = [mode, i, j, k] -> encoded cell value for a Ref / RefList column with target rows `pool`."""
  m, i, j, k = [int(x) for x in (list(spec) + [0, 0, 0, 0])[:4]]
  m %= 12
  if kind == 'Ref':
    if m == 8: return 0
    if m == 9: return None
    if m == 10: return 'alt'
    if not pool: return 0
    return pool[i % len(pool)]
  if m == 8: return ['L']
  if m == 9: return None
  if m == 10: return 'alt'
  if not pool: return None
  if m in (0, 1, 2): return ['L', pool[i % len(pool)]]
  if m in (3, 4, 5): return ['L', pool[i % len(pool)], pool[j % len(pool)]]
  if m == 6: return ['L', pool[i % len(pool)], pool[j % len(pool)], pool[i % len(pool)]]
  if m == 7: return ['L', pool[i % len(pool)], pool[j % len(pool)], pool[k % len(pool)]]
  return ['L'] + list(pool[:4])


def _rows(d, tid, sels, maxn=3):
  rows = d.row_ids(tid)
  out = []
  for s in list(sels)[:maxn]:
    if rows:
      x = rows[int(s) % len(rows)]
      if x not in out:
        out.append(x)
  return out


def is_symmetric_candidate(d, c, r):
  return not asymmetries(d, c, r)


def resolve(d, op, st_):
  k = op.get('k')
  cols = ref_columns(d)
  tables = [t for _, t in d.user_tables()]
  if k == 'upd':
    c = _pick(_order(cols), op.get('c', 0))
    if not c: return None
    rows = _rows(d, c['table'], op.get('rows', [0]))
    if not rows: return None
    pool = d.row_ids(c['target']) if c['target'] in tables else []
    vals = op.get('vals') or [[0, 0, 0, 0]]
    if op.get('same'):      # every row aims at the same target(s)
      vs = [ref_value(c['kind'], pool, vals[0])] * len(rows)
    else:
      vs = [ref_value(c['kind'], pool, vals[i % len(vals)]) for i in range(len(rows))]
    colvals = {c['col']: vs}
    if op.get('both'):
      # self pair: one action writing both sides
      rv = [x for x in cols if x['ref'] == c['reverse'] and x['table'] == c['table']]
      if rv:
        pool2 = d.row_ids(rv[0]['target'])
        colvals[rv[0]['col']] = [ref_value(rv[0]['kind'], pool2, vals[(i + 1) % len(vals)]) for i in range(len(rows))]
    if len(rows) == 1 and not op.get('bulk'):
      return ['UpdateRecord', c['table'], rows[0], {k_: v_[0] for k_, v_ in colvals.items()}]
    return ['BulkUpdateRecord', c['table'], rows, colvals]
  if k == 'add':
    c = _pick(_order(cols), op.get('c', 0))
    if not c:
      t = _pick(tables, op.get('c', 0))
      return ['AddRecord', t, None, {}] if t else None
    n = 1 + int(op.get('n', 0)) % 3
    pool = d.row_ids(c['target']) if c['target'] in tables else []
    vals = op.get('vals') or [[0, 0, 0, 0]]
    if op.get('same'):
      vs = [ref_value(c['kind'], pool, vals[0])] * n
    else:
      vs = [ref_value(c['kind'], pool, vals[i % len(vals)]) for i in range(n)]
    if op.get('novalue'):
      return ['BulkAddRecord', c['table'], [None] * n, {}]
    if n == 1 and not op.get('bulk'):
      return ['AddRecord', c['table'], None, {c['col']: vs[0]}]
    return ['BulkAddRecord', c['table'], [None] * n, {c['col']: vs}]
  if k == 'rm':
    t = _pick(tables, op.get('t', 0))
    if not t: return None
    rows = _rows(d, t, op.get('rows', [0]))
    if not rows: return None
    return ['RemoveRecord', t, rows[0]] if len(rows) == 1 else ['BulkRemoveRecord', t, rows]
  if k == 'modtype':
    c = _pick(_order(cols), op.get('c', 0))
    if not c: return None
    typ = ('RefList:' if c['kind'] == 'Ref' else 'Ref:') + c['target']
    if op.get('meta'):
      return ['UpdateRecord', '_grist_Tables_column', c['ref'], {'type': typ}]
    return ['ModifyColumn', c['table'], c['col'], {'type': typ}]
  if k == 'unlink':
    lc = [c for c in cols if c['reverse']]
    c = _pick(lc, op.get('c', 0))
    if not c: return None
    how = int(op.get('how', 0)) % 4
    if how == 0: return ['ModifyColumn', c['table'], c['col'], {'reverseCol': 0}]
    if how == 1: return ['UpdateRecord', '_grist_Tables_column', c['ref'], {'reverseCol': 0}]
    if how == 2: return ['RemoveColumn', c['table'], c['col']]
    return ['RemoveRecord', '_grist_Tables_column', c['ref']]
  if k == 'link':
    free = [c for c in cols if not c['reverse'] and c['target'] in tables]
    if not free: return None
    c = _pick(free, op.get('c', 0))
    if op.get('meta'):
      cands = [r for r in free if r['ref'] != c['ref'] and r['table'] == c['target'] and r['target'] == c['table']]
      cands = [r for r in cands if op.get('force') or is_symmetric_candidate(d, c, r)]
      r = _pick(cands, op.get('r', 0))
      if r:
        return ['UpdateRecord', '_grist_Tables_column', c['ref'], {'reverseCol': r['ref']}]
    return ['AddReverseColumn', c['table'], c['col']]
  if k == 'addcol':
    t = _pick(tables, op.get('t', 0))
    tgt = _pick(tables, op.get('g', 0))
    if not t or not tgt: return None
    name = ['Link', 'Back', 'Rel', 'Peer'][int(op.get('name', 0)) % 4]
    return ['AddColumn', t, name, {'type': ('RefList:' if op.get('list') else 'Ref:') + tgt, 'isFormula': False}]
  if k == 'rmtable':
    t = _pick(tables, op.get('t', 0))
    if not t: return None
    # RefList columns showing a column of the removed table are converted by Node (call_external), which does
    # not exist here; like test_twoway_refs.py we drop their visible/display columns first.
    pre = [['ModifyColumn', c['table'], c['col'], {'visibleCol': 0, 'displayCol': 0}]
           for c in cols if c['target'] == t and c['kind'] == 'RefList' and c['table'] != t]
    return pre + [['RemoveTable', t]]
  if k == 'rename':
    c = _pick(_order(cols), op.get('c', 0))
    if not c: return None
    new = ['Owner', 'Members', 'Ties'][int(op.get('name', 0)) % 3]
    return ['RenameColumn', c['table'], c['col'], new]
  if k == 'rentable':
    t = _pick(tables, op.get('t', 0))
    if not t: return None
    new = {'People': 'Persons', 'Persons': 'People', 'Projects': 'Tasks', 'Tasks': 'Projects'}.get(t, t + 'X')
    return ['RenameTable', t, new]
  if k == 'undo':
    if not st_['undo']:
      return None
    return ['ApplyUndoActions', st_['undo'][-1]]
  return None


def setup_bundles(d, s):
  """Yields bundles (lists of user actions) building the initial document; resolved lazily against `d`."""
  self_pair = bool(s.get('self'))
  src_list = bool(s.get('src_list'))
  tgt = A if self_pair else B
  yield [['AddTable', A, [{'id': 'Name', 'type': 'Text', 'isFormula': False}]]]
  if not self_pair:
    yield [['AddTable', B, [{'id': 'Title', 'type': 'Text', 'isFormula': False}]]]
  yield [['AddColumn', A, 'Link', {'type': ('RefList:' if src_list else 'Ref:') + tgt, 'isFormula': False}]]
  meta = bool(s.get('meta_link'))
  if meta:
    yield [['AddColumn', tgt, 'Back', {'type': ('RefList:' if s.get('rev_list', True) else 'Ref:') + A,
                                       'isFormula': False}]]
  na = int(s.get('na', 3)) % 5
  nb = int(s.get('nb', 3)) % 5
  if not self_pair and nb:
    yield [['BulkAddRecord', B, [None] * nb, {'Title': ['p%d' % i for i in range(nb)]}]]
  if na:
    yield [['BulkAddRecord', A, [None] * na, {'Name': ['n%d' % i for i in range(na)]}]]
  when = int(s.get('fill', 0)) % 3     # 0: values before linking, 1: after, 2: none
  if meta and when == 0 and not s.get('unreconciled'):
    when = 1                           # a metadata link does not reconcile existing data (see known finding)
  init = s.get('init') or [[0, 0, 0, 0]]

  def fill():
    rows = d.row_ids(A)
    pool = d.row_ids(tgt)
    if not rows:
      return None
    return [['BulkUpdateRecord', A, rows,
             {'Link': [ref_value('RefList' if src_list else 'Ref', pool, init[i % len(init)])
                       for i in range(len(rows))]}]]
  if when == 0:
    b = fill()
    if b: yield b
  if meta:
    cols = {(c['table'], c['col']): c for c in ref_columns(d)}
    if (A, 'Link') in cols and (tgt, 'Back') in cols:
      if s.get('meta_from_back'):
        yield [['UpdateRecord', '_grist_Tables_column', cols[(tgt, 'Back')]['ref'], {'reverseCol': cols[(A, 'Link')]['ref']}]]
      else:
        yield [['UpdateRecord', '_grist_Tables_column', cols[(A, 'Link')]['ref'], {'reverseCol': cols[(tgt, 'Back')]['ref']}]]
  else:
    yield [['AddReverseColumn', A, 'Link']]
  if when == 1:
    b = fill()
    if b: yield b
  if s.get('rev_to_ref'):
    rev = [c for c in ref_columns(d) if c['reverse'] and not (c['table'] == A and c['col'] == 'Link')]
    if rev:
      c = rev[0]
      typ = ('RefList:' if c['kind'] == 'Ref' else 'Ref:') + c['target']
      yield [['ModifyColumn', c['table'], c['col'], {'type': typ}]]
  if s.get('second'):
    yield [['AddColumn', tgt, 'Rel', {'type': ('RefList:' if s.get('second') == 2 else 'Ref:') + A, 'isFormula': False}]]
    yield [['AddReverseColumn', tgt, 'Rel']]


# ---------------------------------------------------------------------------
# judging one bundle

def is_meta_link(uas):
  return any(u[0] in ('UpdateRecord', 'BulkUpdateRecord') and u[1] == '_grist_Tables_column'
             and 'reverseCol' in u[3] and u[3]['reverseCol'] not in (0, None, [0]) for u in uas)


def writes_both_sides(uas, pairs):
  """Some record action of the bundle carries values for both columns of a linked pair (self pair)."""
  for u in uas:
    if u[0] in RECORD_EDITS and len(u) > 3 and isinstance(u[3], dict):
      for c, r in pairs:
        if c['table'] == r['table'] == u[1] and c['col'] in u[3] and r['col'] in u[3]:
          return True
  return False


def bundle_class(uas):
  """Coarse kind of the mechanism a bundle exercises (for signatures)."""
  kinds = set(u[0] for u in uas)
  meta = [u for u in uas if len(u) > 1 and isinstance(u[1], str) and u[1].startswith('_grist_')]
  if 'ApplyUndoActions' in kinds:
    return 'undo'
  if 'AddReverseColumn' in kinds or any('reverseCol' in u[3] for u in meta if len(u) > 3 and isinstance(u[3], dict)):
    return 'link-change'
  if 'ModifyColumn' in kinds or any('type' in u[3] for u in meta if len(u) > 3 and isinstance(u[3], dict)):
    return 'type-switch'
  if 'RenameTable' in kinds or 'RenameColumn' in kinds:
    return 'rename'
  if kinds & set(['RemoveRecord', 'BulkRemoveRecord']):
    return 'row-removal'
  if kinds & set(['AddRecord', 'BulkAddRecord']):
    return 'row-add'
  if kinds & set(['UpdateRecord', 'BulkUpdateRecord']):
    return 'cell-update'
  return 'schema-change'


def exc_kind(e):
  return type(e).__name__


def step(d, out, st_, uas):
  """Apply one bundle and judge it. Returns True to stop."""
  cols_before = ref_columns(d)
  pairs_before = linked_pairs(cols_before)
  before_cells = linked_cells(d, cols_before)
  pre_asym = {}
  if is_meta_link(uas):
    # candidates for a metadata link: was their data already symmetric?
    by = {c['ref']: c for c in cols_before}
    for u in uas:
      if u[1] == '_grist_Tables_column' and u[0] == 'UpdateRecord' and u[3].get('reverseCol'):
        c, r = by.get(u[2]), by.get(u[3]['reverseCol'])
        if c and r:
          pre_asym[(min(c['ref'], r['ref']), max(c['ref'], r['ref']))] = bool(asymmetries(d, c, r))
  expect = must_reject(d, uas, cols_before) if pairs_before else None
  before = st_['snap']
  r = d.apply(uas)
  after = d.snapshot()
  st_['snap'] = after
  is_undo = uas[0][0] == 'ApplyUndoActions'
  if not r.ok:
    out.cls('rejected')
    unique = exc_kind(r.error) == 'UniqueReferenceError'
    out.cls('rejected:UniqueReferenceError' if unique else 'rejected:other:%s:%s' % (
      exc_kind(r.error), '+'.join(sorted(set(u[0] for u in uas)))))
    if unique and pairs_before:
      out.cls('rejected:UniqueReferenceError:' + '+'.join(sorted(set(u[0] for u in uas))))
    if expect is True:
      out.cls('model:two-targets->rejected')
    if is_undo:
      st_['undo'].pop()
    structural, cellsd = eqv.cells_diff(before, after)
    if structural or cellsd:
      from ..hist import col_kind
      if not structural and all(col_kind(before, x[0], x[1]) in ('formula', 'helper') for x in cellsd):
        d.calculate()
        again = d.snapshot()
        st_['snap'] = again
        s2, c2 = eqv.cells_diff(before, again)
        if not s2 and not c2:
          out.cls('formula-cells-dirty-after-rollback(charged to C04)')
          return False
        structural, cellsd = s2, c2
      what = 'unique-rejection' if unique else 'other-rejection:' + exc_kind(r.error)
      out.fail('C11:%s-left-trace' % what,
               'bundle %r raised %r but the document changed' % (uas, r.error),
               {'structural': structural[:4], 'cells': [list(x) for x in cellsd[:6]]})
      return True
    return False
  # success
  out.cls('accepted')
  if pairs_before:
    for u in uas:
      out.cls('ok-with-pair:' + u[0] + (':meta' if len(u) > 1 and isinstance(u[1], str) and u[1].startswith('_grist_') else ''))
  if is_undo:
    st_['undo'].pop()
    out.cls('undo-applied')
  else:
    st_['undo'].append(r.undo)
  cols = ref_columns(d)
  pairs = linked_pairs(cols)
  after_cells = linked_cells(d, cols)
  changed = [k for k in set(before_cells) | set(after_cells)
             if k in before_cells and k in after_cells and before_cells[k] != after_cells[k]]
  created = [k for k in after_cells if k not in before_cells]
  if changed or (created and any(after_cells[k] and any(v not in (0, None) for _, v in after_cells[k]) for k in created)):
    st_['nontrivial'] = True
    out.cls('linked-cells-changed')
    if pairs_before:
      out.cls('accepted-change:' + '+'.join(sorted(set(u[0] for u in uas))))
  if expect is True:
    out.fail('C11:two-targets-accepted',
             'bundle %r gives a row of a single-valued Ref side two partners but was accepted' % (uas,),
             {'pairs': [[c['table'] + '.' + c['col'] + ':' + c['kind'], r_['table'] + '.' + r_['col'] + ':' + r_['kind']]
                        for c, r_ in pairs_before]})
    return True
  if expect is False:
    out.cls('model:no-conflict->accepted')
  for c, r_ in pairs:
    out.cls('pair:%s<->%s%s' % (c['kind'], r_['kind'], ':self' if c['table'] == r_['table'] else ''))
    bad = asymmetries(d, c, r_)
    if bad:
      key = (c['ref'], r_['ref'])
      if pre_asym.get(key):
        sig = 'C11:asymmetric:reverseCol-set-on-unreconciled-columns'
      elif writes_both_sides(uas, pairs_before):
        sig = 'C11:asymmetric:one-action-writes-both-sides'
      else:
        sig = 'C11:asymmetric:after-' + bundle_class(uas)
      out.fail(sig,
               'after %r the linked columns %s.%s (%s) and %s.%s (%s) are not symmetric: [a, b, b in c[a], a in r[b]] = %r' % (
                 uas, c['table'], c['col'], c['kind'], r_['table'], r_['col'], r_['kind'], bad[:6]),
               {c['table'] + '.' + c['col']: sorted(cells(d, c).items()),
                r_['table'] + '.' + r_['col']: sorted(cells(d, r_).items())})
      return True
  return False


def run_case(case):
  out = Outcome()
  d = Doc()
  st_ = {'undo': [], 'snap': d.snapshot(), 'nontrivial': False}
  stop = False
  if case.get('concrete') is not None:
    for item in case['concrete']:
      uas = item[1] if (len(item) == 2 and isinstance(item[0], bool)) else item
      if uas and uas[0] and uas[0][0] == 'InitNewDoc':
        continue
      if step(d, out, st_, uas):
        break
  else:
    s = case.get('setup') or {}
    for uas in setup_bundles(d, s):
      if step(d, out, st_, uas):
        stop = True
        break
    st_['undo'] = []      # the setup is not undone
    out.cls('setup:%s:%s:%s' % ('self' if s.get('self') else 'two-tables', 'RefList' if s.get('src_list') else 'Ref',
                                'meta-link' if s.get('meta_link') else 'AddReverseColumn'))
    if not stop:
      for ops in case.get('bundles', []):
        uas = []
        for op in ops[:3]:
          if op.get('k') == 'undo' and uas:
            continue                      # undo travels alone
          if op.get('k') == 'link' and op.get('meta') and uas:
            continue                      # so does a metadata link: whether the data was reconciled is judged
                                          # on the state right before it
          ua = resolve(d, op, st_)
          if ua is not None and ua and isinstance(ua[0], list):
            uas.extend(ua)
          elif ua is not None:
            uas.append(ua)
            if ua[0] == 'ApplyUndoActions' or is_meta_link([ua]):
              uas = [ua]
              break
        if not uas:
          continue
        if step(d, out, st_, uas):
          break
  out['concrete'] = [u for ok, u in d.log[1:]]
  out['key'] = eqv.digest(out['concrete'])
  out['nontrivial'] = st_['nontrivial']
  return out


# ---------------------------------------------------------------------------
# strategy

_sel = st.integers(0, 5)
_vspec = st.tuples(st.integers(0, 11), _sel, _sel, _sel).map(list)


def _op():
  upd = st.fixed_dictionaries({'k': st.just('upd'), 'c': st.integers(0, 3), 'rows': st.lists(_sel, min_size=1, max_size=3),
                               'vals': st.lists(_vspec, min_size=1, max_size=3), 'same': st.booleans(),
                               'bulk': st.booleans(), 'both': st.sampled_from([False, False, False, True])})
  add = st.fixed_dictionaries({'k': st.just('add'), 'c': st.integers(0, 3), 'n': st.integers(0, 2),
                               'vals': st.lists(_vspec, min_size=1, max_size=3), 'same': st.booleans(),
                               'bulk': st.booleans(), 'novalue': st.sampled_from([False, False, False, True])})
  rm = st.fixed_dictionaries({'k': st.just('rm'), 't': st.integers(0, 1), 'rows': st.lists(_sel, min_size=1, max_size=3)})
  modtype = st.fixed_dictionaries({'k': st.just('modtype'), 'c': st.integers(0, 3), 'meta': st.sampled_from([False, False, True])})
  unlink = st.fixed_dictionaries({'k': st.just('unlink'), 'c': st.integers(0, 3), 'how': st.integers(0, 3)})
  link = st.fixed_dictionaries({'k': st.just('link'), 'c': st.integers(0, 3), 'r': st.integers(0, 2), 'meta': st.booleans(),
                                'force': st.sampled_from([False] * 7 + [True])})
  addcol = st.fixed_dictionaries({'k': st.just('addcol'), 't': st.integers(0, 1), 'g': st.integers(0, 1),
                                  'name': st.integers(0, 3), 'list': st.booleans()})
  rmtable = st.fixed_dictionaries({'k': st.just('rmtable'), 't': st.integers(0, 1)})
  rename = st.fixed_dictionaries({'k': st.just('rename'), 'c': st.integers(0, 3), 'name': st.integers(0, 2)})
  undo = st.fixed_dictionaries({'k': st.just('undo')})
  rentable = st.fixed_dictionaries({'k': st.just('rentable'), 't': st.integers(0, 1)})
  table = {'upd': upd, 'add': add, 'rm': rm, 'modtype': modtype, 'unlink': unlink, 'link': link, 'addcol': addcol,
           'undo': undo, 'rmtable': rmtable, 'rename': rename, 'rentable': rentable}
  kinds = []
  for k in sorted(WEIGHTS):
    kinds.extend([k] * WEIGHTS[k])
  return st.sampled_from(kinds).flatmap(lambda k: table[k])


WEIGHTS = {'upd': 30, 'add': 8, 'rm': 8, 'modtype': 8, 'unlink': 3, 'link': 5, 'addcol': 2, 'undo': 8,
           'rmtable': 1, 'rename': 1, 'rentable': 1}


def strategy(tier):
  big = tier == 'thorough'
  setup = st.fixed_dictionaries({
    'self': st.sampled_from([False, False, False, True]),
    'src_list': st.booleans(),
    'meta_link': st.sampled_from([False, False, True]),
    'meta_from_back': st.booleans(),
    'rev_list': st.booleans(),
    'rev_to_ref': st.sampled_from([False, False, True]),
    'second': st.sampled_from([0, 0, 0, 0, 1, 2]),
    'na': st.integers(0, 4), 'nb': st.integers(0, 4),
    'fill': st.integers(0, 2),
    'unreconciled': st.sampled_from([False] * 9 + [True]),
    'init': st.lists(_vspec, min_size=1, max_size=4),
  })
  bundle = st.lists(_op(), min_size=1, max_size=3).map(lambda ops: ops if len(ops) == 1 or ops[0]['k'] != 'undo' else ops[:1])
  weighted = st.one_of(st.lists(_op(), min_size=1, max_size=1), st.lists(_op(), min_size=1, max_size=1), bundle)
  return st.fixed_dictionaries({'setup': setup, 'bundles': st.lists(weighted, min_size=1, max_size=14 if big else 10)})
