"""C16 Renames never change formula results.

A generated document (2-3 tables, Ref/RefList columns between them, a summary table) carries formula
columns instantiated from a grammar of reference forms; one or two renames of a column or a table are
applied through one of the rename paths; the check is metamorphic:
 (1) every formula value keyed by (tableRef, colRef, rowId) is Node-equal before and after,
 (2) token-level diff of every formula text: only identifier tokens (or names inside order_by/group_by/
     sort_by string literals) change, old id -> new id,
 (3) every mention written through a supported reference form now reads the new id (expected text from the
     template the formula was generated from), look-alikes are untouched.
"""
import io
import re
import tokenize

from hypothesis import strategies as st

from ..runner import Outcome
from ..doc import Doc
from .. import eqv, env
env.setup()
import functions as _functions   # noqa: E402  (only to know which table ids are outside the sound domain)

ID = 'C16'
LEVEL = 'exploration'
TECHNIQUE = 'property-based testing; metamorphic oracle (values keyed by refs) + token-level text diff + template model'
RULE = ('case = document spec (table/column names from pools with cross-table name sharing, 2-3 tables with Ref, '
        'RefList and self-Ref columns, typed rows, 10-60 formula columns drawn from a grammar of ~85 reference forms '
        'hosted in all tables and in a summary table, a trigger-formula data column, a display helper column) + 1-2 '
        'renames (column or table; paths RenameColumn, RenameTable, UpdateRecord colId / tied label / untie toggle / '
        'bulk colId of two columns / tableId / raw view section title; targets plain, needing sanitising, keywords, '
        'colliding, case variants, empty). Non-trivial = an id actually changed and >= 1 generated formula mentions '
        'the renamed entity through a supported form; distinct by hash of the concrete user actions.')
ORACLE = ('metamorphic: (1) formula values keyed by (tableRef, colRef, rowId) Node-equal before/after, table ids inside '
          "['R',t,id]/['r',t,ids] mapped through the rename; (2) Python-tokenize diff of every formula text ($ marked): "
          'same token sequence and identical inter-token text, only NAME tokens old->new or the column name inside an '
          'order_by/group_by/sort_by string literal; (3) text == the generating template instantiated with the ids read '
          'back from metadata by ref (look-alike slots keep the original text). Rejected renames: formula texts and ids '
          'must be unchanged.')
ASSUMPTIONS = [
  'table ids never equal a name that formulas import (functions.*, grist, datetime, math, re): astroid then resolves '
  'the imported object and rename inference is known to break; such ids are avoided by construction except in the '
  'labelled class fn-table whose failures are bucketed under C16:table-id-shadows-formula-function',
  'formulas use only the reference forms the statement and test_renames*.py list as supported (no getattr, no '
  'iteration over a RefList column, no lookups through **kwargs, no lists of records from attribute chains)',
  'formula results do not stringify records or tables (their repr contains the table id)',
  'after a rejected rename only formula texts and ids are compared (value-level atomicity of failed bundles is C04)',
  'values of trigger-formula data columns are compared too (a rename must not recalculate them)',
]
BUDGET = {'quick': dict(examples=640, shards=16, max_seconds=40),
          'thorough': dict(examples=9000, shards=16, max_seconds=1800)}
SHRINK_BUDGET = {'quick': 40, 'thorough': 200}

TABLE_POOL = ['Src', 'People', 'Orders', 'Items2', 'Dst', 'Mid', 'Addr_book', 'Zeta', 'Tasks', 'Proj']
FN_TABLE_NAMES = ['DATE', 'T', 'N', 'SUM']
COL_POOL = ['name', 'num', 'cat', 'amount', 'qty', 'key', 'label', 'title', 'real', 'year', 'Total', 'a_b',
            'ref', 'items', 'code', 'val', 'Name2', 'owner', 'parent', 'kind', 'price', 'tags', 'State', 'link']
TEXTS = ['a', 'b', 'c', 'd']
RESERVED = set(dir(_functions)) | {'grist', 'datetime', 'math', 're'}

PLAIN = ['Zed', 'quantity2', 'NewName', 'other', 'Renamed_col', 'w']
SANITISE = ['a b', 'Ünï', '1st', 'x-y!', ' lead ', '日本x', '_under', 'a.b', 'é', '$money']
KEYWORDS = ['class', 'None', 'def', 'import', 'lambda', 'True', 'in']

# ---------------------------------------------------------------------------
# Template mini-language: «E» = live mention of entity E (must follow renames), ‹E› = look-alike text that was
# the id of E when the document was built (must never change). E is 'A.txt' (column) or '@A' (table).

SLOT_RE = re.compile(u'([«‹])([^»›]+)[»›]')

# named formula / special columns (entity, type, isFormula, template, label)
NAMED = [
  ('C.fnum', 'Any', True, u'$«C.num» * 2 + 1', 'dollar'),
  ('C.fref', 'Ref:«@A»', True, u'«@A».lookupOne(«A.txt»=$«C.key»)', 'lookupOne-typed-ref'),
  ('C.fany', 'Any', True, u'$«C.ref»', 'dollar-ref'),
  ('C.fset', 'Any', True, u'«@A».lookupRecords(«A.cat»=$«C.txt»)', 'lookupR-any-recordset'),
  ('C.frl', 'RefList:«@A»', True, u'«@A».lookupRecords(«A.txt»=$«C.key»)', 'lookupR-typed-reflist'),
]

FORMS = [
  # (label, host, template)
  ('dollar', 'C', u'$«C.num» * 2 + 1'),
  ('rec', 'C', u'rec.«C.num» + 1'),
  ('dollar-multi', 'C', u'"%s|%s" % ($«C.txt», $«C.num»)'),
  ('ref1', 'C', u'$«C.ref».«B.txt»'),
  ('ref2', 'C', u'$«C.ref».«B.ref».«A.txt»'),
  ('rec-ref2', 'C', u'rec.«C.ref».«B.ref».«A.num»'),
  ('ref-self', 'C', u'$«C.aref».«A.self».«A.num»'),
  ('reflist-attr', 'C', u'list($«C.list».«A.txt»)'),
  ('reflist-sum', 'C', u'SUM($«C.list».«A.num»)'),
  ('lookupR-len', 'C', u'len(«@A».lookupRecords(«A.txt»=$«C.key»))'),
  ('lookupR-2kw', 'C', u'«@A».lookupRecords(«A.txt»=$«C.key», «A.cat»=$«C.txt»)'),
  ('lookupR-attr', 'C', u'list(«@A».lookupRecords(«A.cat»=$«C.txt»).«A.num»)'),
  ('lookupOne-attr', 'C', u'«@A».lookupOne(«A.txt»=$«C.key»).«A.num»'),
  ('lookupOne-rec', 'C', u'«@A».lookupOne(«A.num»=$«C.num»)'),
  ('lookupOne-chain', 'C', u'«@B».lookupOne(«B.txt»=$«C.txt»).«B.ref».«A.cat»'),
  ('lookup-compr', 'C', u'[r.«A.num» for r in «@A».lookupRecords(«A.txt»=$«C.key», order_by="-«A.num»")]'),
  ('lookup-compr-set', 'C', u'sorted({r.«A.cat» for r in «@A».lookupRecords(«A.txt»=$«C.key»)})'),
  ('order_by-str', 'C', u"«@A».lookupRecords(«A.cat»=$«C.txt», order_by='«A.num»').«A.txt»"),
  ('order_by-desc', 'C', u'list(«@A».lookupRecords(«A.cat»=$«C.txt», order_by="-«A.txt»").«A.num»)'),
  ('order_by-tuple', 'C', u'«@A».lookupRecords(«A.cat»=$«C.txt», order_by=("«A.txt»", "-«A.num»")).«A.num»'),
  ('order_by-tuple1', 'C', u"list(«@A».lookupRecords(«A.cat»=$«C.txt», order_by=('-«A.num»',)).«A.txt»)"),
  ('order_by-tuple3', 'C', u'«@A».lookupRecords(order_by=("-«A.cat»", "«A.txt»", "-«A.num»"))'),
  ('lookupOne-order', 'C', u'«@A».lookupOne(«A.cat»=$«C.txt», order_by="-«A.num»").«A.txt»'),
  ('sort_by', 'C', u'«@A».lookupRecords(«A.cat»=$«C.txt», sort_by="-«A.num»").«A.num»'),
  ('all-attr', 'C', u'SUM(«@A».all.«A.num»)'),
  ('all-compr', 'C', u'[r.«A.txt» for r in «@A».all]'),
  ('all-compr-if', 'C', u'[r.«A.num» for r in «@A».all if r.«A.txt» == $«C.key»]'),
  ('all-genexp', 'C', u'SUM(r.«A.num» for r in «@A».all)'),
  ('all-dictcompr', 'C', u'sorted({r.«A.txt»: r.«A.num» for r in «@A».all}.items())'),
  ('all-len', 'C', u'len(«@B».all)'),
  ('prev', 'C', u'PREVIOUS(rec, order_by="«C.num»").«C.num»'),
  ('next-tuple', 'C', u'NEXT(rec, order_by=("«C.key»", "-«C.num»")).id'),
  ('rank-group', 'C', u'RANK(rec, order_by="-«C.num»", group_by="«C.key»")'),
  ('prev-group', 'C', u"PREVIOUS(rec, group_by='«C.key»', order_by='«C.num»').«C.txt»"),
  ('next-group-tuple', 'C', u'NEXT(rec, group_by=("«C.key»", "«C.txt»"), order_by=("-«C.num»",))'),
  ('rank-desc', 'C', u'RANK(rec, order_by="«C.num»", order="desc")'),
  ('find-le', 'C', u"«@A».lookupRecords(«A.cat»=$«C.txt», order_by='«A.num»').find.le($«C.num»).«A.txt»"),
  ('find-lt', 'C', u'«@A».lookupRecords(order_by="«A.num»").find.lt($«C.num»).«A.num»'),
  ('find-ge', 'C', u'«@A».lookupRecords(«A.cat»=$«C.txt», order_by="-«A.num»").find.ge($«C.num»).«A.txt»'),
  ('find-gt', 'C', u'«@A».lookupRecords(order_by=("«A.num»",)).find.gt($«C.num»).«A.cat»'),
  ('find-eq', 'C', u'«@A».lookupRecords(order_by="«A.txt»").find.eq($«C.key»).«A.num»'),
  ('summary-lookup', 'C', u'«@S».lookupOne(«C.key»=$«C.key»).«S.tot»'),
  ('dollar-formula-col', 'C', u'$«C.fnum» + 1'),
  ('ref-typed-formula', 'C', u'$«C.fref».«A.num»'),
  ('ref-any-formula', 'C', u'$«C.fany».«B.txt»'),
  ('ref-any-formula2', 'C', u'$«C.fany».«B.ref».«A.txt»'),
  ('recordset-any-formula', 'C', u'list($«C.fset».«A.num»)'),
  ('reflist-typed-formula', 'C', u'list(rec.«C.frl».«A.cat»)'),
  # look-alikes that must not change
  ('la-string', 'C', u'"‹C.num› $‹C.num› ‹@A›" + str($«C.num»)'),
  ('la-comment', 'C', u'$«C.num»  # ‹C.num› and $‹C.num› in ‹@A›'),
  ('la-local', 'C', u'‹C.num› = 5\nreturn $«C.num» + ‹C.num›'),
  ('la-attr', 'C', u"type('O', (), {'‹C.num›': 7})().‹C.num› + $«C.num»"),
  ('la-kwarg', 'C', u"dict(‹C.num›=$«C.num»)['‹C.num›']"),
  ('la-compr-var', 'C', u'[‹C.num› for ‹C.num› in [1, 2]][0] + $«C.num»'),
  ('la-lambda', 'C', u'(lambda ‹C.num›: ‹C.num› + 1)($«C.num»)'),
  ('la-local-table', 'C', u'‹@B› = «@A»\nreturn len(‹@B›.lookupRecords(«A.txt»=$«C.key»))'),
  ('la-local-table-self', 'C', u'‹@C› = «@A»\nreturn len(‹@C›.lookupRecords(«A.txt»=$«C.key»))'),
  ('la-local-table-in-comprehension', 'C',
   u'‹@C› = «@A»\nreturn [r.«A.num» for r in ‹@C›.lookupRecords(«A.txt»=$«C.key»)]'),
  ('la-local-table-in-lambda', 'C', u'‹@B› = «@A»\nreturn (lambda: len(‹@B›.all))()'),
  ('la-table-string', 'C', u"'‹@A›.lookupRecords' + str(len(«@A».all))"),
  ('la-other-table-col', 'C', u'str($«C.txt») + str($«C.aref».«A.txt») + str($«C.aref».«A.num»)'),
  ('la-order-string', 'C', u'"-‹A.num›" + str(«@A».lookupOne(order_by="-«A.num»").«A.num»)'),
  # position stressors
  ('pos-unicode', 'C', u'"Øî→" + $«C.txt» + "áü" + $«C.key»'),
  ('pos-multiline', 'C', u'if $«C.num» > 1:\n  \n  return $«C.txt»\nreturn $«C.key»'),
  ('pos-indent', 'C', u'   x1 = $«C.num»\n   if 1:\n    x1 += rec.«C.num»\n   x1'),
  ('pos-lazy-if', 'C', u'IF($«C.num» > 1, $«C.txt», $«C.key»)'),
  ('pos-multiline-str', 'C', u'x1 = """a\n  $‹C.num›\n"""\nreturn x1 + str($«C.num»)'),
  ('pos-fstring', 'C', u'f"{$«C.num»}-{rec.«C.txt»}"'),
  ('pos-repeat', 'C', u'$«C.num» + $«C.num» + $«C.num» + rec.«C.num»'),
  ('pos-blank-lines', 'C', u'\n\n  v1 = $«C.num»\n  \n  return v1 + $«C.num»\n \n'),
  ('pos-lookup-multiline', 'C', u'«@A».lookupRecords(\n  «A.txt»=$«C.key»,\n  order_by=(\n    "«A.cat»",\n    "-«A.num»"))'),
  ('pos-astral', 'C', u'"\U0001F600\U0001D11E" + $«C.txt» + "é" + $«C.key»'),
  ('pos-tab', 'C', u'if $«C.num»:\n\treturn $«C.txt»\nreturn $«C.key»'),
  ('pos-continuation', 'C', u'$«C.num» + \\\n  $«C.num» + \\\n  rec.«C.num»'),
  ('pos-crlf', 'C', u'if $«C.num» > 1:\r\n  return $«C.txt»\r\nreturn $«C.key»'),
  ('lookup-nested', 'C', u'«@A».lookupOne(«A.num»=«@A».lookupOne(«A.txt»=$«C.key»).«A.num»).«A.cat»'),
  ('nested-def', 'C', u'def f1(z):\n  return z + $«C.num»\nreturn f1(1) + (lambda: rec.«C.num»)()'),
  ('cond-expr', 'C', u'$«C.txt» if $«C.num» else $«C.key»'),
  ('la-syntax-error', 'C', u'$‹C.num› +'),
  ('la-kwarg-string-value', 'C', u'len(«@A».lookupRecords(«A.cat»="‹A.num›")) + len(«@A».lookupRecords(«A.txt»="-‹A.cat›"))'),
  # other hosts
  ('lookupR-reverse', 'A', u'len(«@C».lookupRecords(«C.aref»=$id))'),
  ('lookup-contains', 'A', u'[r.«C.num» for r in «@C».lookupRecords(«C.list»=CONTAINS($id))]'),
  ('dollar-A', 'A', u'$«A.num» + len($«A.txt»)'),
  ('self-ref', 'A', u'$«A.self».«A.txt»'),
  ('ref1-B', 'B', u'$«B.ref».«A.txt»'),
  ('lookupOne-B', 'B', u'«@C».lookupOne(«C.ref»=$id).«C.num»'),
  ('rec-B', 'B', u'rec.«B.amt» * 2'),
  # summary table formulas
  ('group-list', 'S', u'list($group.«C.txt»)'),
  ('group-key', 'S', u'$«C.key» + "!"'),
  ('group-max', 'S', u'MAX($group.«C.num») if $group else 0'),
  ('group-rec', 'S', u'len(rec.group.«C.num»)'),
]
FORM_LABELS = [f[0] for f in FORMS]
# several forms, one root cause
SIG_ALIAS = {'la-local-table-in-comprehension': 'local-table-alias-in-nested-scope',
             'la-local-table-in-lambda': 'local-table-alias-in-nested-scope'}


def parse_template(t):
  """-> list of parts: str or (live:bool, entity)."""
  parts, pos = [], 0
  for m in SLOT_RE.finditer(t):
    if m.start() > pos:
      parts.append(t[pos:m.start()])
    parts.append((m.group(1) == u'«', m.group(2)))
    pos = m.end()
  if pos < len(t):
    parts.append(t[pos:])
  return parts


def entity_key(e):
  return e[1:] if e.startswith('@') else e


def instantiate(parts, live_names, frozen_names):
  out = []
  for p in parts:
    if isinstance(p, tuple):
      out.append((live_names if p[0] else frozen_names)[entity_key(p[1])])
    else:
      out.append(p)
  return ''.join(out)


def entities_of(parts, live=None):
  return set(entity_key(p[1]) for p in parts if isinstance(p, tuple) and (live is None or p[0] == live))


# ---------------------------------------------------------------------------
# strategy

def strategy(tier):
  sel = st.integers(0, 999)
  rename = st.fixed_dictionaries({
    'path': st.integers(0, 9), 'ent': sel, 'ent2': sel,
    'tk': st.sampled_from([0, 0, 1, 1, 2, 3, 3, 4, 5, 6]), 'ti': st.integers(0, 23), 'tk2': st.integers(0, 5)})
  return st.fixed_dictionaries({
    'nt': st.sampled_from([3, 3, 3, 2]),
    'tn': st.lists(st.integers(0, len(TABLE_POOL) - 1), min_size=3, max_size=3),
    'cn': st.lists(st.integers(0, len(COL_POOL) - 1), min_size=21, max_size=21),
    'colliketab': st.integers(0, 5),
    'fn_table': st.integers(0, 39),
    'rows': st.fixed_dictionaries({
      'A': st.lists(st.lists(st.integers(0, 5), min_size=4, max_size=4), min_size=2, max_size=5),
      'B': st.lists(st.lists(st.integers(0, 5), min_size=3, max_size=3), min_size=1, max_size=4),
      'C': st.lists(st.lists(st.integers(0, 7), min_size=6, max_size=6), min_size=2, max_size=5)}),
    'forms': st.lists(st.integers(0, len(FORMS) - 1), min_size=10, max_size=60),
    'disp': st.booleans(),
    'same_bundle': st.booleans(),
    'renames': st.lists(rename, min_size=1, max_size=2),
  })


# ---------------------------------------------------------------------------
# document construction

def _pick_names(case):
  """Entity -> id for tables A,B,C and their named columns; distinct within a table (case-insensitively)."""
  names = {}
  tn = [int(x) for x in (list(case.get('tn') or []) + [0, 1, 2])[:3]]
  used = []
  for ent, i in zip('ABC', tn):
    k = i % len(TABLE_POOL)
    while TABLE_POOL[k].upper() in used:
      k = (k + 1) % len(TABLE_POOL)
    used.append(TABLE_POOL[k].upper())
    names[ent] = TABLE_POOL[k]
  fn = int(case.get('fn_table') or 0)
  if fn % 40 == 39:
    names['A'] = FN_TABLE_NAMES[(fn // 40 + tn[0]) % len(FN_TABLE_NAMES)]
  cn = [int(x) for x in list(case.get('cn') or [])]
  cn = (cn + list(range(21)))[:21]
  layout = [('A', ['txt', 'num', 'cat', 'self']), ('B', ['txt', 'ref', 'amt']),
            ('C', ['txt', 'ref', 'list', 'num', 'key', 'aref', 'fnum', 'fref', 'fany', 'trig', 'fset', 'frl']),
            ('S', ['tot', 'x'])]
  j = 0
  used_c = set()
  for t, cols in layout:
    # S shares the namespace of C (summary columns are avoided when naming source columns and vice versa)
    used_t = used_c if t in ('C', 'S') else set()
    if t in ('C', 'S'):
      used_t.update(['GROUP', 'COUNT'])
    for c in cols:
      k = cn[j] % len(COL_POOL); j += 1
      if t == 'C' and c == 'aref' and int(case.get('colliketab') or 0) % 6 == 5 and names['A'].upper() not in used_t:
        names['C.aref'] = names['A']
        used_t.add(names['A'].upper())
        continue
      while COL_POOL[k].upper() in used_t:
        k = (k + 1) % len(COL_POOL)
      used_t.add(COL_POOL[k].upper())
      names['%s.%s' % (t, c)] = COL_POOL[k]
  del names['S.x']
  return names


def build(case, out):
  """Builds the document. Returns (doc, st) where st holds names, refs, formulas: {colRef: (label, parts)}.
  Formula columns are created inside the AddTable actions (one usercode rebuild per table, not per column);
  rows are added last, so every formula is first evaluated against the complete schema."""
  names = _pick_names(case)
  nt = 2 if int(case.get('nt') or 3) == 2 else 3
  present = set(names)
  if nt == 2:
    present -= set(['B', 'B.txt', 'B.ref', 'B.amt', 'C.ref', 'C.fany'])
  present.add('S')
  d = Doc()
  n = names
  names['S'] = '%s_summary_%s' % (n['C'], n['C.key'])     # verified below

  # plan of formula columns: (host, colId, type, label, parts)
  plan = []
  for ent, typ, _isf, tmpl, label in NAMED:
    if ent in present:
      plan.append(('C', n[ent], typ, label, parse_template(tmpl)))
  plan.append(('S', n['S.tot'], 'Any', 'group-sum', parse_template(u'SUM($group.«C.num»)')))
  seen = set()
  k = 0
  for i in (case.get('forms') or []):
    i = abs(int(i)) % len(FORMS)
    if i in seen:
      continue
    seen.add(i)
    label, host, tmpl = FORMS[i]
    parts = parse_template(tmpl)
    if not (entities_of(parts) <= present) or host not in present:
      continue
    plan.append((host, 'f%d' % k, 'Any', label, parts)); k += 1

  def col(ent, typ, **kw):
    return dict({'id': n[ent], 'type': typ, 'isFormula': False}, **kw)

  def fcols(host, late):
    out_ = []
    for h, cid, typ, label, parts in plan:
      if h == host and (('S' in entities_of(parts)) == late):
        out_.append({'id': cid, 'type': instantiate(parse_template(typ), names, names), 'isFormula': True,
                     'formula': instantiate(parts, names, names)})
    return out_

  uas = [['AddTable', n['A'], [col('A.txt', 'Text'), col('A.num', 'Int'), col('A.cat', 'Text'),
                               col('A.self', 'Ref:' + n['A'])] + fcols('A', False)]]
  if nt == 3:
    uas.append(['AddTable', n['B'], [col('B.txt', 'Text'), col('B.ref', 'Ref:' + n['A']), col('B.amt', 'Numeric')]
                + fcols('B', False)])
  ccols = [col('C.txt', 'Text')]
  if nt == 3:
    ccols.append(col('C.ref', 'Ref:' + n['B']))
  ccols += [col('C.list', 'RefList:' + n['A']), col('C.num', 'Int'), col('C.key', 'Text'),
            col('C.aref', 'Ref:' + n['A']),
            col('C.trig', 'Int', formula='$%s + 1' % n['C.num'])]
  uas.append(['AddTable', n['C'], ccols + fcols('C', False)])
  r = d.apply(uas)
  if not r.ok:
    out.fail('C16:setup', 'cannot create tables: %r' % (r.error,), uas)
    return None, None

  # table refs
  tref = {}
  for t in d.tables_meta():
    for ent in 'ABC':
      if ent in present and t['tableId'] == n[ent]:
        tref[ent] = t['id']
  # summary table of C by key, its formulas, and the formulas that name it
  keyref = [c['id'] for c in d.columns(tref['C']) if c['colId'] == n['C.key']]
  r = d.apply([['CreateViewSection', tref['C'], 0, 'record', keyref, None]])
  if not r.ok:
    out.fail('C16:setup', 'cannot create summary table: %r' % (r.error,))
    return None, None
  for t in d.tables_meta():
    if t['summarySourceTable'] == tref['C']:
      tref['S'] = t['id']
      if names['S'] != t['tableId']:
        out.fail('C16:setup', 'summary table is called %r, expected %r' % (t['tableId'], names['S']))
        return None, None
  uas = [['AddColumn', names[h], c['id'], dict((k_, v) for k_, v in c.items() if k_ != 'id')]
         for h in ('S', 'C') for c in (fcols(h, False) if h == 'S' else []) + fcols(h, True)]
  r = d.apply(uas)
  if not r.ok:
    out.fail('C16:setup', 'cannot add summary formulas: %r' % (r.error,), uas)
    return None, None

  rows = case.get('rows') or {}
  def rowsof(t, width, default):
    rs = [([abs(int(x)) for x in row] + [0] * width)[:width] for row in (rows.get(t) or [])][:5]
    return rs or default
  ra = rowsof('A', 4, [[0, 1, 0, 0], [1, 2, 1, 1]])
  rb = rowsof('B', 3, [[0, 1, 1]])
  rc = rowsof('C', 6, [[0, 1, 1, 1, 0, 1], [1, 0, 2, 2, 1, 2]])
  na, nb = len(ra), len(rb)
  uas = [['BulkAddRecord', n['A'], [None] * na, {
    n['A.txt']: [TEXTS[x[0] % 4] for x in ra], n['A.num']: [x[1] for x in ra],
    n['A.cat']: [TEXTS[x[2] % 3] for x in ra], n['A.self']: [x[3] % (na + 1) for x in ra]}]]
  if nt == 3:
    uas.append(['BulkAddRecord', n['B'], [None] * nb, {
      n['B.txt']: [TEXTS[x[0] % 4] for x in rb], n['B.ref']: [x[1] % (na + 1) for x in rb],
      n['B.amt']: [x[2] + 0.5 for x in rb]}])
  cv = {n['C.txt']: [TEXTS[x[0] % 3] for x in rc],
        n['C.list']: [(['L'] + [i + 1 for i in range(na) if (x[2] >> i) & 1]) if x[2] % 8 else None for x in rc],
        n['C.num']: [x[3] for x in rc], n['C.key']: [TEXTS[x[4] % 4] for x in rc],
        n['C.aref']: [x[5] % (na + 1) for x in rc]}
  if nt == 3:
    cv[n['C.ref']] = [x[1] % (nb + 1) for x in rc]
  uas.append(['BulkAddRecord', n['C'], [None] * len(rc), cv])
  r = d.apply(uas)
  if not r.ok:
    out.fail('C16:setup', 'cannot add rows: %r' % (r.error,), uas)
    return None, None
  if case.get('disp') and 'C.ref' in present:
    cref_ = [c['id'] for c in d.columns(tref['C']) if c['colId'] == n['C.ref']][0]
    d.apply([['SetDisplayFormula', n['C'], None, cref_, '$%s.%s' % (n['C.ref'], n['B.txt'])]])

  # refs of entities and of generated formulas
  cref = {}
  byname = {}
  for c in d.columns_meta():
    byname[(c['parentId'], c['colId'])] = c['id']
  for ent in present:
    if '.' in ent:
      t, _ = ent.split('.')
      ref = byname.get((tref[t], names[ent]))
      if ref is None:
        out.fail('C16:setup', 'column for entity %s (%r) not found' % (ent, names[ent]))
        return None, None
      cref[ent] = ref
  formulas = {}
  for host, cid, typ, label, parts in plan:
    ref = byname.get((tref[host], cid))
    if ref is None:
      out.fail('C16:setup', 'formula column %s.%s not found' % (host, cid))
      return None, None
    formulas[ref] = (label, parts, host)
  # the trigger-formula data column and the display helper column
  formulas[cref['C.trig']] = ('trigger-formula', parse_template(u'$«C.num» + 1'), 'C')
  if case.get('disp') and 'C.ref' in present:
    for c in d.columns_meta():
      if c['parentId'] == tref['C'] and c['colId'].startswith('gristHelper_Display'):
        formulas[c['id']] = ('display-helper', parse_template(u'$«C.ref».«B.txt»'), 'C')
  stt = {'names': dict((e, names[e]) for e in present), 'tref': tref, 'cref': cref, 'formulas': formulas,
         'present': present}
  return d, stt


# ---------------------------------------------------------------------------
# observation

def observe(d):
  """-> dict(tables={tref: tableId}, cols={cref: meta}, values={(tref, cref): {row: canon}}, rows={tref: ids})"""
  tables = {t['id']: t for t in d.tables_meta()}
  cols = {c['id']: c for c in d.columns_meta()}
  values, rows = {}, {}
  views = {}
  for tr, t in tables.items():
    views[tr] = d.view(t['tableId'])
    rows[tr] = list(views[tr]['id'])
  for cr, c in cols.items():
    if not c['formula']:
      continue
    v = views.get(c['parentId'])
    if v is None or c['colId'] not in v:
      continue
    values[(c['parentId'], cr)] = v[c['colId']]
  return {'tables': tables, 'cols': cols, 'values': values, 'rows': rows}


def map_tables(v, tmap):
  if isinstance(v, list):
    if len(v) >= 2 and v[0] in ('R', 'r') and isinstance(v[1], str):
      return [v[0], tmap.get(v[1], v[1])] + [map_tables(x, tmap) for x in v[2:]]
    return [map_tables(x, tmap) for x in v]
  return v


# ---------------------------------------------------------------------------
# token-level diff

DOLLAR_RE = re.compile(r'\$(?=[A-Za-z_])')
MARK = 'D0LLAR__.'
STR_RE = re.compile(r'^([A-Za-z]*)(\'\'\'|"""|\'|")(.*)\2$', re.S)
SORT_KW = ('order_by', 'group_by', 'sort_by')
_LAYOUT = (tokenize.NL, tokenize.NEWLINE, tokenize.INDENT, tokenize.DEDENT, tokenize.ENDMARKER)


def tokens_of(text):
  """[(type, string, start_offset, end_offset)] of the $-marked text, or None when it cannot be tokenized."""
  src = DOLLAR_RE.sub(MARK, text)
  lines = src.splitlines(True)
  offs = [0]
  for l in lines:
    offs.append(offs[-1] + len(l))
  out = []
  try:
    for tok in tokenize.generate_tokens(io.StringIO(src).readline):
      if tok.type in _LAYOUT:
        continue
      (r1, c1), (r2, c2) = tok.start, tok.end
      out.append((tok.type, tok.string, offs[r1 - 1] + c1, offs[r2 - 1] + c2))
  except (tokenize.TokenError, IndentationError, SyntaxError, IndexError):
    return None, src
  return out, src


def _sort_context(toks, i):
  """True when the STRING token i is (an element of a tuple that is) the value of order_by=/group_by=/sort_by=."""
  j = i - 1
  while j >= 0 and (toks[j][0] == tokenize.STRING or (toks[j][0] == tokenize.OP and toks[j][1] in ('(', ','))):
    j -= 1
  return j >= 1 and toks[j][0] == tokenize.OP and toks[j][1] == '=' and \
      toks[j - 1][0] == tokenize.NAME and toks[j - 1][1] in SORT_KW


def token_diff(old, new, name_pairs, col_pairs):
  """None when `new` is `old` with only allowed token substitutions, else (kind, detail)."""
  if old == new:
    return None
  to, so = tokens_of(old)
  tn, sn = tokens_of(new)
  if to is None or tn is None:
    # crude fallback lexer (identifiers / anything else); strings are not recognised
    lex = lambda s: re.findall(r'[A-Za-z_][A-Za-z_0-9]*|[^A-Za-z_]+', s)
    lo, ln = lex(old), lex(new)
    if len(lo) != len(ln):
      return ('token-count', [old, new])
    for a, b in zip(lo, ln):
      if a != b and (a, b) not in name_pairs:
        return ('token-changed', [a, b])
    return None
  if len(to) != len(tn):
    return ('token-count', [[t[1] for t in to], [t[1] for t in tn]])
  # inter-token text (whitespace, line continuations) must be identical
  po = pn = 0
  for i, (a, b) in enumerate(zip(to, tn)):
    if so[po:a[2]] != sn[pn:b[2]]:
      return ('inter-token-text', [so[po:a[2]], sn[pn:b[2]]])
    po, pn = a[3], b[3]
    if a[0] == b[0] and a[1] == b[1]:
      continue
    if a[0] == tokenize.NAME and b[0] == tokenize.NAME and (a[1], b[1]) in name_pairs:
      continue
    if a[0] == tokenize.STRING and b[0] == tokenize.STRING:
      ma, mb = STR_RE.match(a[1]), STR_RE.match(b[1])
      if ma and mb and ma.group(1) == mb.group(1) and ma.group(2) == mb.group(2):
        ca, cb = ma.group(3), mb.group(3)
        if ca.startswith('-') == cb.startswith('-') and (ca.lstrip('-'), cb.lstrip('-')) in col_pairs:
          if _sort_context(to, i):
            continue
          return ('string-literal-outside-order_by', [a[1], b[1]])
      return ('string-literal-changed', [a[1], b[1]])
    return ('token-changed', [a[1], b[1]])
  if so[po:] != sn[pn:]:
    return ('inter-token-text', [so[po:], sn[pn:]])
  return None


# ---------------------------------------------------------------------------
# renames

COL_PATHS = ['RenameColumn', 'RenameColumn', 'meta-colId', 'meta-colId', 'label-tied', 'label-tied', 'untie-toggle',
             'bulk2-colId', 'RenameColumn', 'meta-colId']
TAB_PATHS = ['RenameTable', 'RenameTable', 'meta-tableId', 'meta-tableId', 'raw-title', 'raw-title', 'RenameTable',
             'meta-tableId', 'raw-title', 'RenameTable']


def _case_variant(s, i):
  return [s.upper(), s.lower(), s.capitalize(), s.swapcase()][i % 4]


def target_name(stt, obs, ent, tk, ti, is_table):
  """(requested name, kind label)."""
  tk, ti = abs(int(tk)) % 7, abs(int(ti))
  cur = current_names(stt, obs)[ent]
  if is_table:
    others = [t['tableId'] for r, t in sorted(obs['tables'].items()) if t['tableId'] != cur]
  else:
    ptab = stt['tref'][ent.split('.')[0]]
    others = [c['colId'] for r, c in sorted(obs['cols'].items())
              if c['parentId'] == ptab and c['colId'] != cur and not c['colId'].startswith('gristHelper')]
  if tk == 0:
    return PLAIN[ti % len(PLAIN)], 'plain'
  if tk == 1:
    return SANITISE[ti % len(SANITISE)], 'needs-sanitising'
  if tk == 2:
    return KEYWORDS[ti % len(KEYWORDS)], 'keyword'
  if tk == 3 and others:
    return others[ti % len(others)], 'collides-with-existing'
  if tk == 4:
    return _case_variant(cur, ti), 'case-variant-of-self'
  if tk == 5 and others:
    return _case_variant(others[ti % len(others)], ti // 4), 'case-variant-of-existing'
  if tk == 6:
    return '', 'empty'
  return PLAIN[ti % len(PLAIN)], 'plain'


def resolve_rename(d, stt, obs, spec, out):
  """-> (user actions, prelude actions, label list) for one rename spec."""
  ents = sorted(e for e in stt['present'] if '.' in e)
  # tables and the columns most formulas mention are drawn more often
  hot = ['A', 'B', 'C', 'A', 'C', 'A', 'B', 'C', 'A.num', 'A.txt', 'A.cat', 'C.num', 'C.key', 'C.txt', 'A.num', 'C.num',
         'A.txt', 'C.key', 'C.ref', 'B.ref', 'B.txt', 'C.list', 'C.aref', 'A.self', 'C.fany', 'C.fref', 'C.fset',
         'C.frl']
  pool = ents + [t for t in hot if t in stt['present']]
  names_now = current_names(stt, obs)
  ent = pool[abs(int(spec.get('ent') or 0)) % len(pool)]
  is_table = '.' not in ent
  path = (TAB_PATHS if is_table else COL_PATHS)[abs(int(spec.get('path') or 0)) % 10]
  name, kind = target_name(stt, obs, ent, spec.get('tk') or 0, spec.get('ti') or 0, is_table)
  labels = ['path:' + path, 'target:' + kind]
  pre = []
  cur = names_now[ent]
  if is_table:
    tr = stt['tref'][ent]
    if path == 'RenameTable':
      uas = [['RenameTable', cur, name]]
    elif path == 'meta-tableId':
      uas = [['UpdateRecord', '_grist_Tables', tr, {'tableId': name}]]
    else:
      uas = [['UpdateRecord', '_grist_Views_section', obs['tables'][tr]['rawViewSectionRef'], {'title': name}]]
    labels.append('renamed:table')
  else:
    cr = stt['cref'][ent]
    tname = names_now[ent.split('.')[0]]
    if path == 'RenameColumn':
      uas = [['RenameColumn', tname, cur, name]]
    elif path == 'meta-colId':
      uas = [['UpdateRecord', '_grist_Tables_column', cr, {'colId': name}]]
    elif path == 'label-tied':
      uas = [['UpdateRecord', '_grist_Tables_column', cr, {'label': name}]]
    elif path == 'untie-toggle':
      pre = [['UpdateRecord', '_grist_Tables_column', cr, {'untieColIdFromLabel': True, 'label': name}]]
      uas = [['UpdateRecord', '_grist_Tables_column', cr, {'untieColIdFromLabel': False}]]
    else:
      ent2 = ents[abs(int(spec.get('ent2') or 0)) % len(ents)]
      if ent2 == ent:
        uas = [['UpdateRecord', '_grist_Tables_column', cr, {'colId': name}]]
      else:
        name2, kind2 = target_name(stt, obs, ent2, spec.get('tk2') or 0, (spec.get('ti') or 0) + 1, False)
        uas = [['BulkUpdateRecord', '_grist_Tables_column', [cr, stt['cref'][ent2]], {'colId': [name, name2]}]]
        labels.append('target2:' + kind2)
    c = obs['cols'][cr]
    what = 'formula' if c['isFormula'] else ('groupby-source' if ent == 'C.key' else
                                               c['type'].split(':')[0].lower() if c['type'].startswith('Ref') else 'data')
    labels.append('renamed:column:' + what)
  return uas, pre, labels, ent, name


# ---------------------------------------------------------------------------

def _requested_names(ua):
  if ua[0] in ('RenameColumn',):
    return [ua[3]]
  if ua[0] == 'RenameTable':
    return [ua[2]]
  if ua[0] in ('UpdateRecord', 'BulkUpdateRecord'):
    out = []
    for k in ('colId', 'label', 'tableId', 'title'):
      v = ua[3].get(k)
      if v is not None:
        out.extend(v if isinstance(v, list) else [v])
    return out
  return []


def _renamed_ents(stt, uas, obs):
  """Entities directly addressed by the rename actions."""
  ents = set()
  for ua in uas:
    if ua[0] == 'RenameColumn':
      ents.update(e for e in stt['present'] if '.' in e and obs['cols'][stt['cref'][e]]['colId'] == ua[2]
                  and obs['tables'][stt['tref'][e.split('.')[0]]]['tableId'] == ua[1])
    elif ua[0] == 'RenameTable':
      ents.update(e for e in stt['present'] if '.' not in e and obs['tables'][stt['tref'][e]]['tableId'] == ua[1])
    elif ua[1] == '_grist_Tables_column':
      refs = ua[2] if isinstance(ua[2], list) else [ua[2]]
      ents.update(e for e in stt['present'] if '.' in e and stt['cref'][e] in refs)
    elif ua[1] == '_grist_Tables':
      ents.update(e for e in stt['present'] if '.' not in e and stt['tref'][e] == ua[2])
    elif ua[1] == '_grist_Views_section':
      ents.update(e for e in stt['present'] if '.' not in e and
                  obs['tables'][stt['tref'][e]]['rawViewSectionRef'] == ua[2])
  return ents


_SORT_CTX_RE = re.compile(r'(order_by|group_by|sort_by)\s*=\s*[\(\s"\'\-,\w]*$')


def slot_report(parts, old_names, new_names, frozen, text):
  """Walks `text` along the template. -> (kind, context): kind 'ok' | 'lookalike-rewritten' (some frozen slot shows
  the new id) | 'not-rewritten' (some live slot still shows the old id) | 'other'; context = 'sort_by-string' etc.
  when the first offending live slot sits inside an order_by/group_by/sort_by string literal. A rewritten
  look-alike takes precedence (it usually also derails the inference for the live mentions around it)."""
  pos = 0
  consumed = ''
  problems = []
  for i, p in enumerate(parts):
    if not isinstance(p, tuple):
      if not text.startswith(p, pos):
        return 'other', None
      pos += len(p); consumed += p
      continue
    nxt = parts[i + 1] if i + 1 < len(parts) and not isinstance(parts[i + 1], tuple) else ''
    key = entity_key(p[1])
    exp = (new_names if p[0] else frozen)[key]
    alt = old_names[key] if p[0] else new_names[key]
    if text.startswith(exp + nxt, pos) and (nxt or len(text) == pos + len(exp)):
      pos += len(exp); consumed += exp
      continue
    if alt != exp and text.startswith(alt + nxt, pos) and (nxt or len(text) == pos + len(alt)):
      m = _SORT_CTX_RE.search(consumed)
      ctx = (m.group(1) + '-string') if m and consumed.rstrip('-')[-1:] in ('"', "'") else None
      problems.append(('not-rewritten' if p[0] else 'lookalike-rewritten', ctx))
      pos += len(alt); consumed += alt
      continue
    return 'other', None
  if pos != len(text):
    return 'other', None
  for kind in ('lookalike-rewritten', 'not-rewritten'):
    for k, ctx in problems:
      if k == kind:
        return k, ctx
  return 'ok', None


def current_names(stt, obs):
  """entity -> id read back from metadata by ref."""
  out = {}
  for e in stt['present']:
    if '.' in e:
      out[e] = obs['cols'][stt['cref'][e]]['colId']
    else:
      out[e] = obs['tables'][stt['tref'][e]]['tableId']
  return out


def judge(stt, before, after, reply, out, uas, fn_table):
  """Compares two observations around one rename bundle. Returns True when a mention was renamed."""
  def fail(sig, msg, detail=None):
    if fn_table:
      sig = 'C16:table-id-shadows-formula-function'
    out.fail(sig, msg, detail)

  old_names = current_names(stt, before)
  formulas_before = {cr: c['formula'] for cr, c in before['cols'].items() if c['formula']}
  formulas_after = {cr: c['formula'] for cr, c in after['cols'].items() if c['formula']}
  if not reply.ok:
    out.cls('rejected')
    if set(before['cols']) != set(after['cols']) or set(before['tables']) != set(after['tables']) or \
       any(before['cols'][c]['colId'] != after['cols'][c]['colId'] or
           before['cols'][c]['formula'] != after['cols'][c]['formula'] for c in before['cols']) or \
       any(before['tables'][t]['tableId'] != after['tables'][t]['tableId'] for t in before['tables']):
      fail('C16:rejected-rename-left-changes', 'rename %r was rejected (%r) but ids or formula texts changed' % (
        uas, reply.error))
    return False
  if set(before['cols']) != set(after['cols']) or set(before['tables']) != set(after['tables']):
    fail('C16:rename-changed-column-set', 'rename %r added/removed tables or columns' % (uas,),
         [sorted(set(before['cols']) ^ set(after['cols'])), sorted(set(before['tables']) ^ set(after['tables']))])
    return False
  new_names = current_names(stt, after)
  tab_pairs = set((before['tables'][t]['tableId'], after['tables'][t]['tableId']) for t in before['tables']
                  if before['tables'][t]['tableId'] != after['tables'][t]['tableId'])
  col_pairs = set((before['cols'][c]['colId'], after['cols'][c]['colId']) for c in before['cols']
                  if before['cols'][c]['colId'] != after['cols'][c]['colId'])
  name_pairs = tab_pairs | col_pairs
  changed_ents = set(e for e in stt['present'] if old_names[e] != new_names[e])
  if not name_pairs:
    out.cls('noop-rename')
  tmap = dict(tab_pairs)

  frozen = stt['names']
  bad_text = set()
  mentioned = False
  for cr in sorted(formulas_before):
    old, new = formulas_before[cr], formulas_after.get(cr, '')
    meta = after['cols'][cr]
    where = '%s.%s' % (after['tables'][meta['parentId']]['tableId'], meta['colId'])
    gen = stt['formulas'].get(cr)
    label = gen[0] if gen else ('auto:' + re.sub(r'\W+', '_', old)[:20])
    if cr in stt.get('drifted', ()):
      out.cls('drifted-formula-not-judged')
      bad_text.add(cr)
      continue
    # (2) token-level diff (template-independent)
    td = token_diff(old, new, name_pairs, col_pairs)
    # (3) expected text from the generating template
    if gen:
      parts = gen[1]
      live = entities_of(parts, live=True)
      if live & changed_ents:
        mentioned = True
        out.cls('mention:' + label)
      exp = instantiate(parts, new_names, frozen)
      if instantiate(parts, old_names, frozen) != old:
        out.fail('C16:harness-template-drift', 'formula of %s is %r, template says %r' % (
          where, old, instantiate(parts, old_names, frozen)))
        continue
      if new != exp:
        bad_text.add(cr)
        # no longer follows its template; its later behaviour is a consequence of this failure (e.g. a stale
        # sort_by only surfaces as KeyError when the lookup is rebuilt by a later rename): not judged again
        stt['formulas'].pop(cr)
        stt.setdefault('drifted', set()).add(cr)
        kind, ctx = slot_report(parts, old_names, new_names, frozen, new)
        if kind in ('not-rewritten', 'lookalike-rewritten') and not td:
          fail('C16:%s:%s' % ('mention-not-rewritten' if kind == 'not-rewritten' else kind,
                              ctx or SIG_ALIAS.get(label, label)),
               'after %r the formula of %s reads %r; expected %r' % (uas, where, new, exp),
               {'old': old, 'new': new, 'expected': exp, 'renamed': sorted(name_pairs)})
          continue
        if not td:
          fail('C16:wrong-rewrite:' + label,
               'after %r the formula of %s reads %r; expected %r' % (uas, where, new, exp),
               {'old': old, 'new': new, 'expected': exp, 'renamed': sorted(name_pairs)})
          continue
    if td:
      bad_text.add(cr)
      fail('C16:text:%s:%s' % (td[0], label.split('-')[0]),
           'after %r the formula of %s changed from %r to %r: %s %r' % (uas, where, old, new, td[0], td[1]),
           {'old': old, 'new': new, 'renamed': sorted(name_pairs)})

  # (1) values
  for tr in sorted(before['rows']):
    if before['rows'][tr] != after['rows'].get(tr):
      fail('C16:row-ids-changed', 'after %r table %s has rows %r (before %r)' % (
        uas, after['tables'][tr]['tableId'], after['rows'].get(tr), before['rows'][tr]))
      return mentioned
  for key in sorted(before['values']):
    tr, cr = key
    if cr in bad_text:
      continue         # the text failure is the root cause
    vb, va = before['values'][key], after['values'].get(key)
    if va is None:
      fail('C16:value-column-missing', 'formula column ref %s has no values after %r' % (cr, uas))
      continue
    diffs = []
    for r in before['rows'][tr]:
      b = map_tables(vb.get(r), tmap)
      if b != va.get(r):
        diffs.append([r, vb.get(r), va.get(r)])
    if diffs:
      stt.setdefault('drifted', set()).add(cr)     # its values are off from here on: not judged again
      gen = stt['formulas'].get(cr)
      meta = after['cols'][cr]
      label = gen[0] if gen else ('auto:' + re.sub(r'\W+', '_', before['cols'][cr]['formula'])[:20])
      sig = 'C16:value-changed:' + label
      if tab_pairs and all(eqv.is_error_cell(x[2]) and x[2][1:2] == ['AssertionError'] and
                           not eqv.is_error_cell(x[1]) for x in diffs):
        # Record objects kept in an Any-typed formula column still carry a relation naming the old table id
        sig = 'C16:table-rename:stale-record-relation-AssertionError'
      fail(sig,
           'after %r the values of %s.%s (formula %r, was %r) changed: %r' % (
             uas, after['tables'][tr]['tableId'], meta['colId'], meta['formula'], before['cols'][cr]['formula'],
             diffs[:3]),
           {'diffs': diffs[:5], 'renamed': sorted(name_pairs)})
  return mentioned and bool(name_pairs)


def run_case(case):
  out = Outcome()
  if case.get('concrete') is not None:
    return run_concrete(case, out)
  d, stt = build(case, out)
  if d is None:
    return out
  fn_table = any(stt['names'][t] in RESERVED for t in 'ABC' if t in stt['present'])
  out.cls('fn-table' if fn_table else 'tables=%d' % (3 if 'B' in stt['present'] else 2))
  if stt['names'].get('C.aref') == stt['names']['A']:
    out.cls('column-named-like-table')
  specs = list(case.get('renames') or [])[:2]
  if not specs:
    out['skipped'] = True
    return out
  nontrivial = False
  # pre-error census (sensitivity of the value oracle)
  before = observe(d)
  n_err = sum(1 for v in before['values'].values() for x in v.values() if eqv.is_error_cell(x))
  out.cls('pre-error-cells:%s' % ('0' if not n_err else '1-5' if n_err <= 5 else '6+'))
  for cr, (label, parts, host) in stt['formulas'].items():
    out.cls('form:' + label)
  # plan: list of (user actions, prelude actions, labels); resolved lazily against the current document
  plan = [('spec', sp) for sp in specs]
  if len(specs) == 2 and case.get('same_bundle'):
    # two renames in one bundle, both resolved against the initial state; only when they address different
    # entities, neither is the table of the other, and neither needs a prelude
    a = resolve_rename(d, stt, before, specs[0], out)
    b = resolve_rename(d, stt, before, specs[1], out)
    ea, eb = a[3], b[3]
    if ea != eb and ea.split('.')[0] != eb and eb.split('.')[0] != ea and not a[1] and not b[1]:
      plan = [('bundle', (a[0] + b[0], [], a[2] + b[2] + ['two-renames-one-bundle']))]
  for i, (kind, item) in enumerate(plan):
    if kind == 'bundle':
      uas, pre, labels = item
    else:
      uas, pre, labels, _ent, _name = resolve_rename(d, stt, before, item, out)
      if i == 1:
        labels.append('second-rename')
    if pre:
      r0 = d.apply(pre)
      if not r0.ok:
        out.cls('prelude-rejected')
        continue
      before = observe(d)
    r = d.apply(uas)
    after = observe(d)
    out.cls(*labels)
    if r.ok:
      old_n, new_n = current_names(stt, before), current_names(stt, after)
      requested = set(str(x) for u in uas for x in _requested_names(u))
      addressed = _renamed_ents(stt, uas, before)
      for e in sorted(stt['present']):
        if old_n[e] != new_n[e] and e in addressed and new_n[e] not in requested:
          out.cls('actual:differs-from-requested')
          if re.search(r'[A-Za-z_]\d+$', new_n[e]) and any(l.endswith('-existing') for l in labels):
            out.cls('actual:numeric-suffix')
    if judge(stt, before, after, r, out, uas, fn_table):
      nontrivial = True
    before = after
  out['concrete'] = d.concrete_history()[1:]
  out['key'] = eqv.digest(out['concrete'])
  out['nontrivial'] = nontrivial
  return out


def run_concrete(case, out):
  """Known-finding witnesses / regression replays: {'concrete': [bundle, ...], 'n_renames': k, 'entities':
  {ent: tableId | [tableId, colId]}, 'templates': [[tableId, colId, label, template], ...]}. The last k bundles
  are the renames; everything is judged exactly like a generated case."""
  d = Doc()
  bundles = [(b[1] if (len(b) == 2 and isinstance(b[0], bool)) else b) for b in case['concrete']]
  n_ren = max(1, int(case.get('n_renames', 1)))
  for uas in bundles[:len(bundles) - n_ren]:
    r = d.apply(uas)
    if not r.ok:
      return out.fail('C16:setup', 'concrete setup bundle rejected: %r' % (r.error,), uas)
  before = observe(d)
  tid = {t['tableId']: r for r, t in before['tables'].items()}
  cid = {(c['parentId'], c['colId']): r for r, c in before['cols'].items()}
  stt = {'present': set(), 'names': {}, 'formulas': {}, 'tref': {}, 'cref': {}}
  for ent, v in sorted((case.get('entities') or {}).items(), key=lambda kv: ('.' in kv[0], kv[0])):
    stt['present'].add(ent)
    if isinstance(v, list):
      stt['tref'].setdefault(ent.split('.')[0], tid[v[0]])
      stt['cref'][ent] = cid[(tid[v[0]], v[1])]
      stt['names'][ent] = v[1]
    else:
      stt['tref'][ent] = tid[v]
      stt['names'][ent] = v
  for t, c, label, tmpl in case.get('templates') or []:
    stt['formulas'][cid[(tid[t], c)]] = (label, parse_template(tmpl), None)
  fn_table = any(t['tableId'] in RESERVED for t in before['tables'].values())
  for uas in bundles[len(bundles) - n_ren:]:
    r = d.apply(uas)
    after = observe(d)
    judge(stt, before, after, r, out, uas, fn_table)
    before = after
  out['concrete'] = d.concrete_history()[1:]
  out['nontrivial'] = True
  return out
