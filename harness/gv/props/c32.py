"""C32 CSV import keeps every cell.

A case is a ragged grid of text cells plus writer settings. The grid is written as CSV (own
writer, or Python's csv.writer in QUOTE_MINIMAL / QUOTE_ALL mode), the file is handed to
import_csv.parse_file with delimiter, quotechar, include_col_names_as_headers and encoding given
explicitly, and the returned columns are compared cell by cell with the grid.
"""
import atexit, csv, io, os, tempfile
from hypothesis import strategies as st
from ..runner import Outcome
from .. import env
env.setup()
from imports import import_csv  # noqa: E402

ID = 'C32'
LEVEL = 'exploration'
RULE = ('case = first row (1..8 non-blank cells) + head rows + N filler rows (N<=290, cycling over <=4 '
        'pattern rows, with per-cell row/column stamps) + tail rows; cells are picked from a fixed list '
        'of awkward texts (delimiters, quotes, CR/LF, U+2028/NEL/VT/FF/FS.., NUL, BOM, blanks, '
        'numeric/date-looking) and a generated pool of arbitrary unicode text; rows have 0..W0+1 cells '
        '(W0 = width of the first row); '
        'delimiter, quote char, line terminator, writer (own/csv.writer minimal/all), per-cell optional '
        'quoting, final newline, include_col_names_as_headers are generated. Non-trivial = more than 100 '
        'file rows, or ragged (some row width differs from the first row), or at least one quoted cell; '
        'distinct by hash of the case.')
ORACLE = ('reference comparison against the grid that was written: every returned column has exactly one '
          'entry per data row (all rows, minus the first when it is the header); returned columns map '
          'order-preservingly onto grid columns; every column with a header or a non-blank cell is present; '
          'every cell containing a non-whitespace character is returned verbatim at its row, every other '
          'entry is blank; header ids equal the header cells up to surrounding whitespace. Cases in the two '
          'known-defect classes are additionally checked in a neutralised variant (offending cells quoted / '
          'removed) and a failure is attributed to a known signature only if that variant passes.')
ASSUMPTIONS = [
  'CSV cells are text: the importer returns every CSV column as type "Any" with the cell strings unchanged '
  '(parse_data only converts values that are already numbers/dates, which CSV never yields), so cells are '
  'compared verbatim, including numeric- and date-looking text',
  '"non-empty cell" is read as "cell with at least one non-whitespace character (str.strip() non-empty)"; '
  'whitespace-only cells only have to come back as whitespace-only/empty text and do not force a column to be kept',
  'the first row is full (no blank cell) and no row has more than one cell more than the first row, so that '
  'the documented header heuristic ("first row with close to the usual number of fields, close = 1 less") '
  'picks row 1 unambiguously; title lines / narrower first rows are outside the domain',
  'a conforming writer quotes cells containing the delimiter, the quote char, CR or LF (quote chars doubled) and '
  'a lone empty cell; it need not quote other characters (RFC 4180; csv.writer QUOTE_MINIMAL). csv.writer is '
  'only used with its default \\r\\n terminator because with other terminators Python 3.12 leaves CR/LF unquoted',
  'skipinitialspace is not part of the statement: it is passed explicitly as False in most cases; when it is '
  'left to the sniffer, an unquoted cell may lose leading spaces (accepted); space is not used as a delimiter',
  'encoding is given as utf-8; cells never contain lone surrogates',
  'header text is compared modulo surrounding whitespace (the statement only requires the column to be kept)',
]
TECHNIQUE = 'Hypothesis grids + reference comparison, variant re-runs for root-cause attribution'
BUDGET = {'quick': dict(examples=4000, shards=8, max_seconds=50),
          'thorough': dict(examples=48000, shards=16, max_seconds=1800)}

DELIMS = [',', ';', '\t', '|', ':', '^', '~', '\xa7']
QUOTES = ['"', "'", '`', '$', '\xab']
TERMS = ['\r\n', '\n', '\r']
UBREAKS = '\x0b\x0c\x1c\x1d\x1e\x85\u2028\u2029'   # str.splitlines() boundaries other than CR/LF
MAXW = 8

FIXED = [
  '',                                   # 0: empty cell
  '\x00STAMP',                          # 1: replaced by R<i>C<j>
  '\x00DELIM', '\x00QUOTE', '\x00QQ', '\x00DQ', '\x00SQ',   # 2..6 built from the case's delimiter/quote
  ' ', '  x', 'x  ', ' x y ', '\t', '\xa0', '\u3000 z',
  '1', '-1.5', '1e3', '007', '1,000', '$5', '50%', '0x1F', 'NaN', '=1+1',
  '2020-01-02', '12/31/1999', '2018-02-27 16:08:39 +0000', 'Jan 5', 'TRUE', 'n/a', '--', '?',
  'a\nb', 'a\r\nb', '\r', '\n', 'a\rb', '\n\n', 'tail\n',
  '"', '""', "'", 'a"b', '"a"', "it's", ',', ';', '\t|', 'a,b;c:d',
  '\u2028', 'a\u2028b', 'a\x0bb', 'a\x0cb', 'a\x85b', 'a\x1cb', 'a\x1db', 'a\x1eb', 'a\u2029b',
  '\x00', 'a\x00b', '\ufeffx', '\U0001F600', '\xe9', 'e\u0301', '\u202eabc',
  'x' * 75, ('long cell ' * 30) + 'end',
]


def _cell_text(sel, pool, i, j, delim, quote):
  cells_n = len(FIXED) + len(pool)
  k = abs(int(sel)) % cells_n
  if k >= len(FIXED):
    return pool[k - len(FIXED)]
  t = FIXED[k]
  if t[:1] != '\x00' or len(t) < 2:
    return t
  if t == '\x00STAMP':
    return 'R%dC%d' % (i, j)
  if t == '\x00DELIM':
    return 'a' + delim + 'b'
  if t == '\x00QUOTE':
    return quote
  if t == '\x00QQ':
    return quote + quote
  if t == '\x00DQ':
    return delim + quote
  if t == '\x00SQ':
    return ' ' + quote + 'x' + quote
  return t


def nonblank(c):
  return bool(c.strip())


def build_grid(case):
  """Normalise the case into (grid, settings). Tolerates shrunk cases."""
  delim = DELIMS[abs(int(case.get('delim', 0))) % len(DELIMS)]
  quote = QUOTES[abs(int(case.get('quote', 0))) % len(QUOTES)]
  pool = [p for p in case.get('pool', []) if isinstance(p, str)]
  pool = [p.encode('utf-8', 'replace').decode('utf-8') for p in pool]
  first = list(case.get('first', []))[:MAXW] or [1]
  w0 = len(first)
  # wide: 0 = no row longer than the first, 1 = any row may have one more cell, 2 = only tail rows may
  wide = abs(int(case.get('wide', 0))) % 3
  maxw = w0 + 1 if wide == 1 else w0
  sel_rows = [first]
  head = [list(r)[:maxw] for r in case.get('head', [])][:40]
  fill = case.get('fill') or {}
  if not isinstance(fill, dict):
    fill = {}
  pat = [list(r)[:maxw] for r in fill.get('pat', [])][:6]
  nfill = abs(int(fill.get('n', 0))) % 300 if pat else 0
  tail = [list(r)[:(w0 + 1 if wide else w0)] for r in case.get('tail', [])][:40]
  sel_rows += head + [pat[i % len(pat)] for i in range(nfill)] + tail
  grid = []
  for i, r in enumerate(sel_rows):
    grid.append([_cell_text(s, pool, i, j, delim, quote) for j, s in enumerate(r)])
  # first row full: no blank cell
  grid[0] = [c if nonblank(c) else 'h%d' % j for j, c in enumerate(grid[0])]
  s = {
    'delim': delim, 'quote': quote,
    'lt': TERMS[abs(int(case.get('lt', 0))) % len(TERMS)],
    'headers': bool(case.get('headers')),
    'writer': ['own', 'minimal', 'all'][abs(int(case.get('writer', 0))) % 3],
    'qbits': [bool(b) for b in case.get('qbits', [])] or [False],
    'final_newline': bool(case.get('final_newline', True)),
    'explicit_sis': bool(case.get('explicit_sis', True)),
    'quote_ubreaks': bool(case.get('quote_ubreaks')),
  }
  return grid, s


def needs_quote(c, row_len, s):
  return (s['delim'] in c) or (s['quote'] in c) or ('\r' in c) or ('\n' in c) or (row_len == 1 and c == '')


def write_own(grid, s, mode, force_ubreaks):
  """Own CSV writer. mode: 'minimal' | 'all' | 'bits'. Returns (text, quoted[i][j])."""
  d, q, lt = s['delim'], s['quote'], s['lt']
  bits = s['qbits']
  lines = []
  quoted = []
  for i, row in enumerate(grid):
    fields = []
    qrow = []
    for j, c in enumerate(row):
      must = needs_quote(c, len(row), s)
      if force_ubreaks and any(u in c for u in UBREAKS):
        must = True
      opt = mode == 'all' or (mode == 'bits' and bits[(i * 7 + j) % len(bits)])
      if must or opt:
        fields.append(q + c.replace(q, q + q) + q)
        qrow.append(True)
      else:
        fields.append(c)
        qrow.append(False)
    lines.append(d.join(fields))
    quoted.append(qrow)
  text = lt.join(lines)
  if s['final_newline'] or (grid and grid[-1] == []):
    text += lt
  return text, quoted


def write_csv_module(grid, s, mode):
  buf = io.StringIO(newline='')
  w = csv.writer(buf, delimiter=s['delim'], quotechar=s['quote'], lineterminator='\r\n',
                 quoting=csv.QUOTE_ALL if mode == 'all' else csv.QUOTE_MINIMAL, doublequote=True)
  for r in grid:
    w.writerow(r)
  return buf.getvalue()


_tmp_path = [None]

def _cleanup():
  if _tmp_path[0] and os.path.exists(_tmp_path[0]):
    try:
      os.unlink(_tmp_path[0])
    except OSError:
      pass

def run_import(text, s):
  if _tmp_path[0] is None:
    d = '/dev/shm' if os.path.isdir('/dev/shm') and os.access('/dev/shm', os.W_OK) else None
    fd, p = tempfile.mkstemp(prefix='gv-c32-', suffix='.csv', dir=d)
    os.close(fd)
    _tmp_path[0] = p
    atexit.register(_cleanup)
  with open(_tmp_path[0], 'wb') as f:
    f.write(text.encode('utf-8'))
  opts = {'delimiter': s['delim'], 'quotechar': s['quote'],
          'include_col_names_as_headers': s['headers'], 'encoding': 'utf-8'}
  if s['explicit_sis']:
    opts['skipinitialspace'] = False
  try:
    return import_csv.parse_file(_tmp_path[0], opts), None
  except Exception as e:     # the statement promises a result for every grid
    return None, '%s: %s' % (type(e).__name__, e)


def compare(grid, quoted, s, result):
  """Returns None or (bucket, message, detail)."""
  options, tables = result
  headers = s['headers']
  data = grid[1:] if headers else grid
  qdata = quoted[1:] if headers else quoted
  n = len(data)
  ncols = max(len(r) for r in grid)
  must = []
  for j in range(ncols):
    has_header = headers and j < len(grid[0]) and nonblank(grid[0][j])
    must.append(has_header or any(j < len(r) and nonblank(r[j]) for r in data))
  if not isinstance(tables, list) or len(tables) > 1:
    return 'shape', 'expected one table, got %r' % (tables if not isinstance(tables, list) else len(tables)), None
  if not tables:
    if any(must):
      return 'no-table', 'importer returned no table although the grid has non-blank cells', None
    return None
  t = tables[0]
  cols = t['table_data']
  meta = t['column_metadata']
  if len(cols) != len(meta):
    return 'shape', 'column_metadata has %d entries, table_data %d' % (len(meta), len(cols)), None
  lens = [len(c) for c in cols]
  if any(l != n for l in lens):
    return 'column-length', 'column lengths %r, expected %d data rows' % (sorted(set(lens)), n), \
           {'lengths': lens, 'data_rows': n}
  lenient_sis = not s['explicit_sis']

  def cell_ok(i, j, got):
    exp = data[i][j] if j < len(data[i]) else ''
    if not isinstance(got, str):
      return False
    if not nonblank(exp):
      return not nonblank(got)
    if got == exp:
      return True
    if lenient_sis and not qdata[i][j] and exp[:1] == ' ' and got == exp.lstrip(' '):
      return True
    return False

  def first_bad(j, col):
    for i in range(n):
      if not cell_ok(i, j, col[i]):
        return i
    return None

  ptr = 0
  for r, col in enumerate(cols):
    placed = False
    while ptr < ncols:
      j = ptr
      if must[j]:
        bad = first_bad(j, col)
        if bad is not None:
          exp = data[bad][j] if j < len(data[bad]) else ''
          bucket = 'column-dropped' if len(cols) < sum(must) else 'cell-mismatch'
          return bucket, 'returned column %d vs grid column %d: data row %d has %r, expected %r' % (
            r, j, bad, col[bad], exp), {'returned_col': r, 'grid_col': j, 'data_row': bad,
                                        'got': col[bad], 'expected': exp}
        placed = True
      elif all(isinstance(v, str) and not nonblank(v) for v in col):
        placed = True
      if placed:
        hid = meta[r].get('id')
        exp_id = grid[0][j].strip() if (headers and j < len(grid[0])) else ''
        if not isinstance(hid, str) or hid.strip() != exp_id:
          return 'header-id', 'column %d has id %r, expected %r' % (j, hid, exp_id), None
        ptr += 1
        break
      ptr += 1
    if not placed:
      return 'extra-column', 'returned column %d matches no remaining grid column' % r, \
             {'returned_col': r, 'values': col[:5]}
  missing = [j for j in range(ptr, ncols) if must[j]]
  if missing:
    j = missing[0]
    i = next(i for i in range(n) if j < len(data[i]) and nonblank(data[i][j])) if not (
      headers and j < len(grid[0])) else None
    return 'column-dropped', 'grid column %d (has %s) is not returned' % (
      j, 'a header' if i is None else 'non-blank cell %r in data row %d' % (data[i][j], i)), \
      {'grid_col': j, 'data_row': i, 'returned_columns': len(cols)}
  return None


def evaluate(grid, s, force_ubreaks):
  """Write + import + compare. Returns (failure or None, quoted map, text, import result or None)."""
  w = s['writer']
  if w == 'own':
    text, quoted = write_own(grid, s, 'bits', force_ubreaks)
  else:
    # text comes from Python's csv.writer; the own writer in the same mode must agree with it (it supplies
    # the map of quoted cells, and the agreement cross-checks the own writer)
    text = write_csv_module(grid, s, w)
    mine, quoted = write_own(grid, dict_lt(s), w, False)
    if mine != text:
      raise AssertionError('own writer in %s mode differs from csv.writer: %r vs %r' % (w, mine[:300], text[:300]))
  res, err = run_import(text, s)
  if err is not None:
    return ('raised', 'parse_file raised %s' % err, None), quoted, text, None
  return compare(grid, quoted, s, res), quoted, text, res


def dict_lt(s):
  """csv.writer variants always use \\r\\n and a final terminator."""
  s2 = dict(s)
  s2['lt'] = '\r\n'
  s2['final_newline'] = True
  return s2


def late_wide_cells(grid):
  """Cells in file rows >= 100 that sit in a column where no earlier (first 100) row has a non-blank cell."""
  seen = 0
  for r in grid[:100]:
    for j, c in enumerate(r):
      if nonblank(c) and j + 1 > seen:
        seen = j + 1
  out = []
  for i in range(100, len(grid)):
    for j in range(seen, len(grid[i])):
      if nonblank(grid[i][j]):
        out.append((i, j))
  return seen, out


def run_case(case):
  out = Outcome()
  if not isinstance(case, dict):
    out['skipped'] = True
    return out
  grid, s = build_grid(case)
  force = s['quote_ubreaks'] and s['writer'] == 'own'
  ev = evaluate(grid, s, force)
  fail, quoted, text = ev[0], ev[1], ev[2]

  # ----- classes
  nrows = len(grid)
  w0 = len(grid[0])
  widths = [len(r) for r in grid]
  n_quoted = sum(1 for qr in quoted for q in qr if q)
  ragged = any(w != w0 for w in widths)
  out.cls('headers=%s' % s['headers'], 'writer=%s' % s['writer'], 'delim=%r' % s['delim'],
          'quote=%r' % s['quote'], 'rows:%s' % ('1' if nrows == 1 else '2-20' if nrows <= 20 else
                                                '21-100' if nrows <= 100 else '101-200' if nrows <= 200 else '>200'),
          'w0=%d' % w0)
  if s['writer'] == 'own':
    out.cls('lt=%r' % s['lt'], 'final_newline=%s' % s['final_newline'])
  if nrows > 100:
    out.cls('rows>100')
  if ragged:
    out.cls('ragged')
  if any(w > w0 for w in widths):
    out.cls('row-wider-than-first')
  if any(w == 0 for w in widths):
    out.cls('zero-cell-row')
  if n_quoted:
    out.cls('quoted-cells')
  flat = [(i, j, c) for i, r in enumerate(grid) for j, c in enumerate(r)]
  if any('\n' in c or '\r' in c for _, _, c in flat):
    out.cls('multi-line-cell')
  if any(s['delim'] in c for _, _, c in flat):
    out.cls('delimiter-in-cell')
  if any(s['quote'] in c for _, _, c in flat):
    out.cls('quote-in-cell')
  if any(c != c.strip() and nonblank(c) for _, _, c in flat):
    out.cls('blank-padded-cell')
  if any(c and not nonblank(c) for _, _, c in flat):
    out.cls('whitespace-only-cell')
  if any(_numeric(c) for _, _, c in flat):
    out.cls('numeric-looking-cell')
  if any(len(c) >= 8 and c[:4].isdigit() and c[4] == '-' for _, _, c in flat) or \
     any('/' in c and c.replace('/', '').isdigit() for _, _, c in flat):
    out.cls('date-looking-cell')
  if any(ord(ch) > 0xffff for _, _, c in flat for ch in c):
    out.cls('astral-char')
  if not s['explicit_sis']:
    out.cls('skipinitialspace-left-to-sniffer')
    if ev[3] and ev[3][0].get('skipinitialspace'):
      out.cls('sniffer-chose-skipinitialspace')
  if len(text.encode('utf-8')) > 100000:
    out.cls('file>100kB')
  hazard_b = [(i, j) for i, j, c in flat if not quoted[i][j] and any(u in c for u in UBREAKS)]
  any_ubreak = any(any(u in c for u in UBREAKS) for _, _, c in flat)
  if any_ubreak and not hazard_b:
    out.cls('ubreak-char-quoted')
  seen_w, hazard_a = late_wide_cells(grid)
  if hazard_b:
    out.cls('hazard:unquoted-ubreak-char')
  if hazard_a:
    out.cls('hazard:late-wider-row')
  out['nontrivial'] = nrows > 100 or ragged or n_quoted > 0
  out['weight'] = 1

  # ----- verdict, with root-cause attribution for the two known defect classes
  def neutral(a, b):
    g = grid
    if a:
      g = [r[:seen_w] if i >= 100 else r for i, r in enumerate(grid)]
    s2 = dict(s)
    if b:
      if s2['writer'] == 'minimal':   # keep csv.writer's quoting decisions, add quotes on the hazard cells
        s2 = dict_lt(s2)
        s2['writer'] = 'own'
        s2['qbits'] = [False]
      return evaluate(g, s2, True)[0]
    return evaluate(g, s2, force)[0]

  sigs = []
  if hazard_a or hazard_b:
    # always explore behind the known defects: the neutralised variant must satisfy the property
    out['weight'] = 2
    vfail = neutral(bool(hazard_a), bool(hazard_b))
    if vfail is not None:
      out.fail('C32:' + vfail[0], '[variant with known-defect triggers removed] ' + vfail[1], vfail[2])
    elif fail is not None:
      if hazard_a and hazard_b:
        fa = neutral(True, False)    # only a removed: b remains
        fb = neutral(False, True)    # only b removed: a remains
        if fb is None:
          sigs.append('b')           # removing b alone fixes it
        elif fa is None:
          sigs.append('a')
        else:
          sigs += ['a', 'b']
      elif hazard_a:
        sigs.append('a')
      else:
        sigs.append('b')
      for x in sigs:
        if x == 'a':
          i, j = hazard_a[0]
          out.fail('C32:late-row-wider-than-100-row-sample-loses-cells',
                   'cell %r at file row %d, column %d (no non-blank cell in that column in the first 100 rows) '
                   'is lost: %s' % (grid[i][j], i, j, fail[1]), fail[2])
        else:
          i, j = hazard_b[0]
          out.fail('C32:unquoted-unicode-line-boundary-splits-row',
                   'unquoted cell %r at file row %d, column %d contains a str.splitlines() boundary other than '
                   'CR/LF and breaks the row: %s' % (grid[i][j], i, j, fail[1]), fail[2])
  elif fail is not None:
    out.fail('C32:' + fail[0], fail[1], fail[2])
  if not out['ok']:
    out['concrete'] = {'csv_text': text if len(text) < 4000 else text[:4000] + '...',
                       'options': {'delimiter': s['delim'], 'quotechar': s['quote'],
                                   'include_col_names_as_headers': s['headers'], 'encoding': 'utf-8',
                                   'skipinitialspace': False if s['explicit_sis'] else '(not given)'}}
  return out


def _numeric(c):
  try:
    float(c)
    return True
  except ValueError:
    return False


# ---------------------------------------------------------------------------
# strategy

def strategy(tier):
  sel = st.one_of(st.just(0), st.just(1), st.integers(0, len(FIXED) + 11), st.integers(0, len(FIXED) + 11))
  nasty = st.text(alphabet=' ,;\t|:"\'`$\r\n\u2028\x0b\x0c\x85ab1.-/\xa7', max_size=10)
  anytext = st.text(alphabet=st.characters(exclude_categories=['Cs']), max_size=12)
  plain = st.text(alphabet=st.characters(exclude_categories=['Cs'], exclude_characters=UBREAKS), max_size=12)
  pool = st.lists(st.one_of(nasty, anytext, plain, plain), max_size=12)

  def rows(max_rows):
    return st.lists(st.lists(sel, max_size=MAXW + 1), max_size=max_rows)

  fill = st.fixed_dictionaries({
    'n': st.one_of(st.just(0), st.integers(0, 99), st.integers(85, 120), st.integers(100, 299)),
    'pat': st.lists(st.lists(sel, max_size=MAXW + 1), min_size=1, max_size=4)})
  return st.fixed_dictionaries({
    'pool': pool,
    'first': st.lists(sel, min_size=1, max_size=MAXW),
    'head': rows(10),
    'fill': fill,
    'tail': rows(8),
    'wide': st.sampled_from([0, 1, 1, 2]),
    'delim': st.integers(0, len(DELIMS) - 1),
    'quote': st.integers(0, len(QUOTES) - 1),
    'lt': st.integers(0, len(TERMS) - 1),
    'headers': st.booleans(),
    'writer': st.sampled_from([0, 0, 1, 2]),
    'qbits': st.lists(st.booleans(), min_size=1, max_size=8),
    'final_newline': st.booleans(),
    'explicit_sis': st.sampled_from([True, True, True, False]),
    'quote_ubreaks': st.booleans(),
  })
