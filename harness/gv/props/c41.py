"""C41 fetch_table queries return exactly the matching rows.

A small document (table Src with generated typed contents incl. alt text, None, equal values of
different Python types, lists stored in RefList/Any columns and returned by an Any formula; a second
table; optionally a summary table, removed rows) is built with user actions; then Engine.fetch_table
is called with generated queries and flag combinations on a user table, a summary table or a metadata
table and compared with a naive filter over the unfiltered fetch.
"""
from hypothesis import strategies as st
from ..runner import Outcome
from .. import env
env.setup()
import objtypes   # noqa: E402
import schema     # noqa: E402
import docmodel   # noqa: E402
from .. import ops as O, eqv  # noqa: E402
from ..doc import Doc  # noqa: E402

ID = 'C41'
LEVEL = 'exploration'
TECHNIQUE = 'PBT with a reference model (naive filter over the unfiltered fetch)'
RULE = ('case = document recipe (2-4 data columns of Src with types from Text/Int/Numeric/Bool/Choice/ChoiceList/'
        'RefList:Other/Any/Date, 0-8 rows of value specs incl. alt text, None, bool/int/float equal values and lists, an Any '
        'formula column returning lists / numbers / errors, optional removed rows, optional summary table) + 1-10 '
        'queries. A query picks a target table (Src, Other, the summary table, _grist_Tables_column, _grist_Tables, '
        '_grist_Views_section), 1-3 columns (incl. "id", formula and private columns, rarely an unknown column) each with '
        '0-4 requested values (stored values of that column, equal values of another Python type, literals absent from '
        'the table, lists) and the formulas/private flags. One evaluation = one query. Non-trivial = the query has >= 2 '
        'columns or an unhashable requested value and matches a non-empty strict subset of the rows; distinct by '
        '(document recipe, query).')
ORACLE = ('reference model: rows = ascending row ids of the unfiltered fetch_table(formulas=True, private=True) whose '
          'stored value in every queried column equals (Python ==, exceptions count as unequal) one of the requested '
          'values; returned columns = exactly the non-virtual columns c with (formulas or c is a data column) and (private '
          'or c is not private), data/formula kind taken from _grist_Tables_column (user tables) or schema.py (metadata '
          'tables) and privateness from docmodel.MetaTableExtras; every returned cell Node-equal to the unfiltered fetch')
ASSUMPTIONS = ['requested values are what Node can send (marshalled JSON: None, bool, int, float, str, lists); NaN is not generated',
               'columns whose id starts with "#" (lookup maps, summary helper) are never communicated (column.is_virtual_column) '
               'whatever the private flag says, and are not queried',
               'a query naming an unknown column is not judged (the engine raises KeyError; nothing is documented)',
               'membership is Python equality: a ChoiceList cell is stored as a tuple and therefore never equals a requested list']
BUDGET = {'quick': dict(examples=1200, shards=8, max_seconds=50),
          'thorough': dict(examples=12000, shards=16, max_seconds=1800)}

TYPES = ['Text', 'Int', 'Numeric', 'Bool', 'Choice', 'ChoiceList', 'RefList:Other', 'Any', 'Date']
COLS = ['A', 'B', 'C', 'D']
FORMULAS = ['[$A] if $id % 2 else $A', '$A', '[$id % 2]', '1 / ($id % 3)', '[1, 2] if $id % 2 else 1.0',
            'Other.lookupRecords(T=$A)', 'None']
LITERALS = [None, '', 'a', 'zz', 0, 1, 1.0, True, False, 2, 0.5, -1, [], [1], [1, 2], ['a'], ['a', 'b'], [[1]], 86400, 'b', '1']
TARGETS = ['Src', 'Src', 'Src', 'Other', '#summary', '#summary', '_grist_Tables_column', '_grist_Tables',
           '_grist_Views_section']


def _valspec():
  return st.tuples(st.integers(0, 11), st.integers(0, 3), st.sampled_from(['a', 'b', '', '1', 'a,b', '1.0'])).map(list)


def strategy(tier):
  qval = st.tuples(st.integers(0, 7), st.integers(0, 7), st.integers(0, len(LITERALS) - 1)).map(list)
  qcol = st.tuples(st.one_of(st.integers(0, 12), st.integers(-1, 12)),
                   st.one_of(st.lists(qval, min_size=1, max_size=4), st.lists(qval, min_size=0, max_size=4))).map(list)
  query = st.fixed_dictionaries({
    't': st.sampled_from(list(range(len(TARGETS)))), 'r': st.integers(0, 7),
    'q': st.lists(qcol, min_size=1, max_size=3),
    'f': st.booleans(), 'p': st.booleans()})
  return st.fixed_dictionaries({
    'types': st.lists(st.integers(0, len(TYPES) - 1), min_size=2, max_size=4),
    'rows': st.lists(st.lists(_valspec(), min_size=1, max_size=4), min_size=0, max_size=8),
    'fkind': st.sampled_from(list(range(len(FORMULAS)))),
    'summary': st.booleans(),
    'removed': st.lists(st.integers(0, 7), max_size=2),
    'queries': st.lists(query, min_size=1, max_size=10)})


# ---------------------------------------------------------------------------

def _pad(x, default):
  x = list(x) if isinstance(x, (list, tuple)) else []
  return x + default[len(x):]


def _eq(a, b):
  try:
    return bool(a == b)
  except Exception:
    return False


def _jsonable(v):
  """Stored Python value -> what Node could send back as a requested value (None when not expressible)."""
  if v is None or isinstance(v, (bool, int, str)):
    return True, v
  if isinstance(v, float):
    return (v == v), v
  if isinstance(v, (list, tuple)):
    out = []
    for x in v:
      ok, y = _jsonable(x)
      if not ok:
        return False, None
      out.append(y)
    return True, out
  return False, None


def _variant(v):
  """An equal value of another Python type where one exists."""
  if isinstance(v, bool):
    return int(v)
  if isinstance(v, int):
    return float(v)
  if isinstance(v, float) and v == int(v) and abs(v) < 2 ** 31:
    return bool(v) if v in (0.0, 1.0) else int(v)
  if isinstance(v, list):
    return list(v)
  return v


def _unhashable(v):
  return isinstance(v, (list, dict))


def build(case, out):
  d = Doc()
  types = [TYPES[int(t) % len(TYPES)] for t in case.get('types', [])][:4] or ['Text']
  cols = [{'id': COLS[i], 'type': t, 'isFormula': False} for i, t in enumerate(types)]
  fkind = int(case.get('fkind', 0)) % len(FORMULAS)
  cols.append({'id': 'F', 'type': 'Any', 'isFormula': True, 'formula': FORMULAS[fkind]})
  r = d.apply([['AddTable', 'Other', [{'id': 'T', 'type': 'Text', 'isFormula': False},
                                      {'id': 'N', 'type': 'Numeric', 'isFormula': False}]],
               ['BulkAddRecord', 'Other', [None] * 3, {'T': ['a', 'b', 'a'], 'N': [1, 1.5, True]}],
               ['AddTable', 'Src', cols]])
  if not r.ok:
    raise RuntimeError('C41 setup failed: %r' % (r.error,))
  rows = case.get('rows', [])[:8]
  if rows:
    cv = {}
    for i, t in enumerate(types):
      cv[COLS[i]] = [O.cell_value(d, t, _pad((row or [[0, 0, 'a']])[i % len(row or [0])], [0, 0, 'a'])) for row in rows]
    r = d.apply([['BulkAddRecord', 'Src', [None] * len(rows), cv]])
    if not r.ok:
      raise RuntimeError('C41 setup (rows) failed: %r' % (r.error,))
  rm = sorted(set(1 + int(i) % len(rows) for i in case.get('removed', [])[:2])) if rows else []
  if rm:
    d.apply([['BulkRemoveRecord', 'Src', rm]])
    out.cls('doc:removed-rows')
  if case.get('summary'):
    src_ref = [t for t in d.tables_meta() if t['tableId'] == 'Src'][0]['id']
    gb = [c['id'] for c in d.columns(src_ref) if c['colId'] == 'A' and c['type'].split(':')[0] in O.GROUPABLE]
    r = d.apply([['CreateViewSection', src_ref, 0, 'record', gb, None]])
    if not r.ok:
      raise RuntimeError('C41 setup (summary) failed: %r' % (r.error,))
    out.cls('doc:summary')
  out.cls('doc:formula=%d' % fkind)
  return d, types


_meta_kinds = {}


def meta_column_kinds(table_id):
  """{col: (is_formula, is_private)} of a metadata table from schema.py and docmodel.MetaTableExtras."""
  if not _meta_kinds:
    for a in schema.schema_create_actions():
      _meta_kinds[a.table_id] = {c['id']: (bool(c['isFormula']), False) for c in a.columns}
    for name, klass in vars(docmodel.MetaTableExtras).items():
      if name.startswith('__') or name not in _meta_kinds:
        continue
      for m in vars(klass):
        if not m.startswith('__'):
          _meta_kinds[name][m] = (True, True)
  return _meta_kinds[table_id]


def column_kinds(d, table_id):
  if table_id.startswith('_grist_'):
    return meta_column_kinds(table_id)
  tref = [t for t in d.tables_meta() if t['tableId'] == table_id][0]['id']
  return {c['colId']: (bool(c['isFormula']), False) for c in d.columns_meta() if c['parentId'] == tref}


def enc(v):
  return eqv.canon(objtypes.encode_object(v))


def run_query(d, q, out, doc_key):
  """Returns (nontrivial, key) ; records failures on out."""
  eng = d.engine
  tsel = TARGETS[int(q.get('t', 0)) % len(TARGETS)]
  if tsel == '#summary':
    st_ = d.summary_tables()
    table_id = st_[0][1] if st_ else 'Src'
  else:
    table_id = tsel
  formulas, private = bool(q.get('f')), bool(q.get('p'))
  full = eng.fetch_table(table_id, formulas=True, private=True)
  all_rows = list(full.row_ids)
  stored = dict(full.columns)
  stored['id'] = all_rows
  qcols = ['id'] + sorted(full.columns)
  query = {}
  unknown = False
  unhash = False
  anchor = int(q.get('r', 0))
  for item in (q.get('q') or [])[:3]:
    item = _pad(item, [0, []])
    sel, vspecs = int(item[0]), item[1] if isinstance(item[1], list) else []
    if sel < 0:
      col = 'no_such_col'
      unknown = True
    else:
      col = qcols[sel % len(qcols)]
    values = []
    for vs in vspecs[:4]:
      vs = _pad(vs, [0, 0, 0])
      mode, n, li = int(vs[0]) % 8, int(vs[1]), int(vs[2]) % len(LITERALS)
      v = LITERALS[li]
      if mode < 6 and all_rows and col in stored:
        # modes 0-2: stored value at the query's anchor row, 3: at row n, 4/5: an equal value of another type
        row = anchor if mode in (0, 1, 2, 4) else n
        ok, sv = _jsonable(stored[col][row % len(all_rows)])
        if ok:
          v = _variant(sv) if mode >= 4 else sv
      values.append(v)
    query[col] = values
    if any(_unhashable(v) for v in values):
      unhash = True
  labels = ['target:' + ('summary' if tsel == '#summary' and table_id != 'Src' else table_id),
            'flags:formulas=%s,private=%s' % (formulas, private), 'query:%d-cols' % len(query)]
  if unhash:
    labels.append('query:unhashable-value')
  if any(len(v) == 0 for v in query.values()):
    labels.append('query:empty-value-list')
  if 'id' in query:
    labels.append('query:id')
  concrete = {'table': table_id, 'query': query, 'formulas': formulas, 'private': private}
  try:
    got = eng.fetch_table(table_id, formulas=formulas, private=private, query=query)
  except Exception as e:
    if unknown:
      out.cls('query:unknown-column(raised, not judged)')
      return False, None
    out.fail('C41:query-raised:%s' % type(e).__name__, 'fetch_table(%r) raised %r' % (concrete, e), concrete)
    return False, None
  if unknown:
    out.cls('query:unknown-column(returned, not judged)')
    return False, None
  out.cls(*labels)
  # expected rows
  exp_rows = []
  for i, r in enumerate(all_rows):
    if all(any(_eq(stored[c][i], v) for v in vals) for c, vals in query.items()):
      exp_rows.append(r)
  exp_rows.sort()
  got_rows = list(got.row_ids)
  kinds = column_kinds(d, table_id)
  if any(c in kinds and kinds[c][0] for c in query):
    out.cls('query:on-formula-column')
  if any(c in kinds and kinds[c][1] for c in query):
    out.cls('query:on-private-column')
  for c, vals in query.items():
    for i in range(len(all_rows)):
      sv = stored[c][i]
      if _unhashable(sv) or isinstance(sv, list):
        out.cls('stored:unhashable-in-queried-column')
        break
  if got.table_id != table_id:
    out.fail('C41:wrong-table-id', 'fetch_table(%r) returned table id %r' % (concrete, got.table_id), concrete)
    return False, None
  if got_rows != exp_rows:
    if sorted(got_rows) == exp_rows:
      sig = 'C41:rows-not-in-id-order'
    elif set(exp_rows) - set(got_rows) and not set(got_rows) - set(exp_rows):
      sig = 'C41:matching-rows-missing'
    elif set(got_rows) - set(exp_rows) and not set(exp_rows) - set(got_rows):
      sig = 'C41:non-matching-rows-returned'
    else:
      sig = 'C41:wrong-rows'
    out.fail(sig, 'fetch_table(%r) returned rows %r, naive filter gives %r' % (concrete, got_rows, exp_rows),
             dict(concrete, got=got_rows, expected=exp_rows,
                  stored={c: [objtypes.encode_object(x) for x in stored[c]] for c in query}))
    return False, None
  exp_cols = sorted(c for c, (isf, priv) in kinds.items()
                    if c != 'id' and not c.startswith('#') and (formulas or not isf) and (private or not priv))
  got_cols = sorted(got.columns)
  if got_cols != exp_cols:
    extra = sorted(set(got_cols) - set(exp_cols))
    missing = sorted(set(exp_cols) - set(got_cols))
    what = []
    for c in extra + missing:
      k = kinds.get(c)
      what.append('virtual' if c.startswith('#') else 'private' if k and k[1] else 'formula' if k and k[0]
                  else 'data' if k else 'unknown')
    sig = 'C41:columns:%s-%s' % ('extra' if extra else 'missing', '+'.join(sorted(set(what))))
    out.fail(sig, 'fetch_table(%s, formulas=%s, private=%s) returned columns %r, expected %r' % (
      table_id, formulas, private, got_cols, exp_cols), dict(concrete, extra=extra, missing=missing))
    return False, None
  pos = {r: i for i, r in enumerate(all_rows)}
  for c in got_cols:
    vals = got.columns[c]
    if len(vals) != len(got_rows):
      out.fail('C41:column-length', 'column %s has %d values for %d rows' % (c, len(vals), len(got_rows)), concrete)
      return False, None
    for r, v in zip(got_rows, vals):
      if enc(v) != enc(stored[c][pos[r]]):
        out.fail('C41:wrong-cell-value', 'fetch_table(%r): cell %s[%s] = %r but the unfiltered fetch has %r' % (
          concrete, c, r, objtypes.encode_object(v), objtypes.encode_object(stored[c][pos[r]])), concrete)
        return False, None
  if exp_rows and len(exp_rows) < len(all_rows):
    out.cls('result:strict-nonempty-subset')
  elif not exp_rows:
    out.cls('result:empty')
  else:
    out.cls('result:all-rows')
  nt = (len(query) >= 2 or unhash) and 0 < len(exp_rows) < len(all_rows)
  return nt, eqv.digest([doc_key, concrete])


def run_case(case):
  out = Outcome()
  d, types = build(case, out)
  out.cls(*['type:' + t for t in types])
  doc_key = eqv.digest(d.concrete_history())
  n = 0
  nt = 0
  key = None
  shown = []
  for q in (case.get('queries') or [])[:10]:
    if not isinstance(q, dict):
      continue
    n += 1
    is_nt, k = run_query(d, q, out, doc_key)
    if is_nt:
      nt += 1
      key = key or k
    if not out['ok']:
      break
  out['weight'] = max(n, 1)
  out['nontrivial'] = nt > 0
  out['nt_weight'] = nt
  out['key'] = key
  out['concrete'] = {'history': d.concrete_history()[1:], 'queries': case.get('queries')}
  return out
