"""C20 Row positions stay unique and order-preserving.

Part 1 (pure): relabeling.prepare_inserts over generated position lists (integer, sparse and
adjacent-float chains) and *histories* of insert batches whose requested keys are resolved
against the live list (tie with a row, next float after a row, midpoints, +-inf, 0, literals).
The result of every batch is applied to a plain Python list and fed into the next batch, so
neighbourhoods crowded by earlier relabelings are reached too.

Part 2 (engine): histories of AddRecord/BulkAddRecord/BulkUpdateRecord/RemoveRecord with explicit
manualSort values on a user table, views/columns/tables added (parentPos, pagePos, tabPos), ACL rules
(rulePos), explicit writes into metadata position columns, and undo; after every bundle every
PositionNumber column of every table must hold distinct finite numbers, and in the user table the
rows that were not written keep their order while written rows land where requested.
"""
import bisect, itertools, math, struct
from hypothesis import strategies as st
from ..runner import Outcome
from .. import env
env.setup()
import relabeling  # noqa: E402
from sortedcontainers import SortedListWithKey  # noqa: E402

ID = 'C20'
LEVEL = 'exploration'
TECHNIQUE = 'property-based testing (Hypothesis) + small exhaustive enumeration, validity oracle'
RULE = ('pure case = (existing position list, sequence of insert batches); existing = union of integer runs, '
        'literal floats and nextfloat chains (gaps of 1-4 representable floats); each requested key is '
        '"at row i" (tie), "next float after row i", "previous float", midpoint, +inf, -inf, 0 or a literal, '
        'resolved against the list as left by the previous batch; batches of 1-24 keys, up to 5 batches; a '
        '"crowded" class puts dense clusters 2**3..2**22 floats apart so that relabel ranges of neighbouring '
        'insert groups overlap. '
        'Enumerated part: every chain of <=3 adjacent floats (gaps 1-3) at 5 anchors x every batch of <=3 '
        'keys over {at i, after i, +inf, -inf, 0}, and every pair/triple of adjacent floats at offsets 0..1023 '
        '(thorough 0..8191) from each anchor with a tie / next-float request. Engine case = history of <=30 position-writing bundles. '
        'Non-trivial = at least one batch/bundle forced a relabel (an adjustment to an existing row); '
        'distinct by the whole case.')
ORACLE = ('validity predicate written against plain sorted Python lists (bisect), independent of relabeling.py: '
          'after applying the adjustments the existing rows are still strictly increasing, all positions are '
          'finite and pairwise distinct, each new key lies strictly between the existing rows that surround '
          'bisect_left(original list, requested key), and new keys ordered by (request, request index) are '
          'strictly increasing. Engine: every PositionNumber column holds distinct finite numbers after every '
          'bundle; unwritten rows of the user table keep their relative order and written rows have as many '
          'unwritten rows below them as their request had.')
ASSUMPTIONS = [
  'existing positions are distinct finite floats (what the engine itself maintains); requested keys are '
  'floats or +-inf, never NaN (PositionNumber.do_convert; JSON cannot carry NaN)',
  'existing positions stay below 2**53: engine-assigned positions never exceed (rows ever added)+1. Appending '
  'after a last position >= 2**53 trips `assert self.count_range(begin, end) > 0`; generated as a labelled '
  'probe class and counted as skipped-by-precondition, not as a violation',
  'subnormal existing positions are IN the domain (reachable by ~1075 insert-at-top operations); their '
  'AssertionError was a finding (C20:subnormal-existing-assert), repaired in the repository',
  'an AssertionError is bucketed as C20:spurious-post-relabel-assert only when it comes from the post-relabel '
  'is_valid_range assert AND the same call on a harness-side copy of relabeling.py compiled without asserts '
  'returns a result that passes the whole oracle; any other AssertionError is an ordinary violation',
  'legacy non-positive existing positions (0, negatives) are generated as a labelled class because '
  'prep_inserts_at_index documents a renumber-everything fallback for them',
  '_grist_ACLRules row 1 (InitNewDoc special legacy record, "not actually used") keeps the unset position '
  '+inf; it still takes part in the distinctness check',
]
BUDGET = {'quick': dict(examples=6000, shards=8, max_seconds=60),
          'thorough': dict(examples=28000, shards=16, max_seconds=1800)}

INF = float('inf')
MIN_NORMAL = 2.2250738585072014e-308
HUGE = 2.0 ** 53
_MAXORD = 0x7fefffffffffffff
KNOWN_SUBNORMAL = 'C20:subnormal-existing-assert'
KNOWN_SPURIOUS = 'C20:spurious-post-relabel-assert'


# ---------------------------------------------------------------------------
# float helpers (own implementation, not relabeling.nextfloat)

def _ord(x):
  b = struct.unpack('<q', struct.pack('<d', x))[0]
  return b if b >= 0 else -(b & 0x7fffffffffffffff)


def _unord(n):
  n = max(-_MAXORD, min(_MAXORD, n))
  b = n if n >= 0 else ((-n) | 0x8000000000000000)
  return struct.unpack('<d', struct.pack('<Q', b))[0]


def skip(x, k):
  """The k-th representable float after (k<0: before) finite x."""
  return _unord(_ord(float(x)) + k) + 0.0


def fin(v, default=1.0):
  """Any JSON scalar -> finite float."""
  try:
    v = float(v)
  except (TypeError, ValueError, OverflowError):
    return default
  if v != v or v in (INF, -INF):
    return default
  return v + 0.0


def _int(v, default=0):
  try:
    return abs(int(v))
  except (TypeError, ValueError, OverflowError):
    return default


def _d(x):
  return x if isinstance(x, dict) else {}


def _l(x):
  return x if isinstance(x, list) else []


# ---------------------------------------------------------------------------
# case interpretation

def build_existing(spec):
  vals = set()
  for el in _l(spec)[:8]:
    el = _d(el)
    k = _int(el.get('k')) % 3
    if k == 0:
      n = _int(el.get('n')) % 41
      vals.update(float(i) for i in range(1, n + 1))
    elif k == 1:
      vals.add(fin(el.get('v')))
    else:
      x = fin(el.get('v'))
      vals.add(x)
      for g in _l(el.get('g'))[:60]:
        g = _int(g)
        step = 1 + g % 4 if g < 100 else 2 ** (g % 50)
        x = skip(x, step)
        vals.add(x)
  return sorted(vals)


def resolve_key(ks, cur):
  """Requested key (float or +-inf) for a key spec against the live sorted list `cur`."""
  ks = _d(ks)
  k = _int(ks.get('k')) % 8
  n = len(cur)
  i = _int(ks.get('i'))
  if k == 2:
    return INF, 'req:+inf'
  if k == 3:
    return -INF, 'req:-inf'
  if k == 4:
    return 0.0, 'req:zero'
  if k == 7 or n == 0:
    try:
      v = float(ks.get('v'))
    except (TypeError, ValueError, OverflowError):
      v = 0.0
    if v != v:
      v = 0.0
    return v + 0.0, 'req:literal'
  if k == 0:
    return cur[i % n], 'req:tie-with-existing'
  if k == 1:
    return skip(cur[i % n], 1), 'req:nextfloat-after-row'
  if k == 6:
    return skip(cur[i % n], -1), 'req:prevfloat-before-row'
  a = cur[i % n]
  b = cur[(i % n) + 1] if (i % n) + 1 < n else a + 2.0
  m = a + (b - a) / 2
  if m != m or m in (INF, -INF):
    m = a
  return m, 'req:midpoint'


# ---------------------------------------------------------------------------
# the oracle for one prepare_inserts call

def judge(old, keys, adjustments, new_keys):
  """old: strictly increasing finite floats; keys: requests. Returns (label, detail) or (None, None)."""
  n = len(old)
  try:
    adj = [(int(i), p) for (i, p) in adjustments]
    new = list(new_keys)
  except Exception as e:   # malformed result
    return 'malformed-result', repr(e)
  if len(new) != len(keys):
    return 'wrong-number-of-new-keys', {'expected': len(keys), 'got': len(new)}
  final = list(old)
  for i, p in adj:
    if i < 0 or i >= n:
      return 'adjustment-index-out-of-range', {'index': i, 'n': n}
    final[i] = p
  allv = final + new
  for v in allv:
    if isinstance(v, bool) or not isinstance(v, (int, float)) or v != v or v in (INF, -INF):
      return 'non-finite-position', {'value': repr(v)}
  for a, b in zip(final, final[1:]):
    if not a < b:
      return 'existing-order-changed', {'pair': [a, b]}
  if len(set(allv)) != len(allv):
    dup = sorted(v for v in set(allv) if allv.count(v) > 1)[:3]
    return 'duplicate-position', {'values': dup}
  for q, v in zip(keys, new):
    p = bisect.bisect_left(old, q)     # rows strictly below the request stay below
    lo = final[p - 1] if p > 0 else -INF
    hi = final[p] if p < n else INF
    if not (lo < v < hi):
      return 'new-row-misplaced', {'request': q, 'got': v, 'must_be_between': [repr(lo), repr(hi)],
                                   'rows_below_request': p}
  order = sorted(range(len(keys)), key=lambda j: (keys[j], j))
  for a, b in zip(order, order[1:]):
    if not new[a] < new[b]:
      return 'new-rows-out-of-request-order', {'requests': [keys[a], keys[b]], 'got': [new[a], new[b]],
                                               'request_index': [a, b]}
  return None, None


def exc_info(e):
  """(exception name, text, innermost function, innermost source line)"""
  import traceback
  tb = traceback.extract_tb(e.__traceback__)
  fn = tb[-1].name if tb else ''
  line = (tb[-1].line or '') if tb else ''
  return type(e).__name__, '%r at %s:%s' % (e, fn, tb[-1].lineno if tb else 0), fn, line


def call_prepare(old, keys):
  sl = SortedListWithKey(old, key=lambda x: x)
  try:
    adjustments, new_keys = relabeling.prepare_inserts(sl, list(keys))
    return None, list(adjustments), list(new_keys)
  except Exception as e:   # pylint: disable=broad-except
    return exc_info(e), None, None


_noassert = [None]


def noassert_module():
  """relabeling.py of the tree under test, compiled harness-side with assert statements stripped."""
  if _noassert[0] is None:
    import os, types
    path = os.path.join(env.GRIST, 'relabeling.py')
    with open(path) as f:
      src = f.read()
    mod = types.ModuleType('relabeling_noassert')
    mod.__file__ = path
    exec(compile(src, path, 'exec', optimize=1), mod.__dict__)   # pylint: disable=exec-used
    _noassert[0] = mod
  return _noassert[0]


def only_the_assert_is_wrong(old, keys):
  """Used only to bucket an AssertionError by root cause: True when the same call on the assert-free copy
  returns adjustments and keys that the oracle accepts in full."""
  try:
    sl = SortedListWithKey(old, key=lambda x: x)
    adjustments, new_keys = noassert_module().prepare_inserts(sl, list(keys))
    bad, _ = judge(old, list(keys), list(adjustments), list(new_keys))
    return bad is None
  except Exception:   # pylint: disable=broad-except
    return False


def bucket_exception(out, info, labels, old, keys, tag, detail):
  """Turn an exception of prepare_inserts into a failure (or a counted precondition skip)."""
  name, text, fn, line = info
  if name == 'AssertionError' and fn == '_find_sparse_enough_range' and 'existing:subnormal' in labels:
    out.cls('FINDING:subnormal-existing-assert')
    out.fail(KNOWN_SUBNORMAL, '%s: prepare_inserts raised %s with subnormal existing positions' % (tag, text), detail)
  elif (name == 'AssertionError' and fn == 'prep_inserts_at_index' and 'count_range' in line and
        'existing:huge' in labels):
    out.cls('precondition:huge-existing-append-assert(skipped)')
    out['skipped'] = True
  elif (name == 'AssertionError' and fn == 'prep_inserts_at_index' and 'is_valid_range' in line and
        only_the_assert_is_wrong(old, keys)):
    out.cls('FINDING:spurious-post-relabel-assert')
    out.fail(KNOWN_SPURIOUS, '%s: prepare_inserts raised %s although the relabeling it had computed is valid '
             '(a relabeled key coincides with the old value of a neighbour that has itself been moved)' % (tag, text),
             detail)
  else:
    out.fail('C20:%s:raised-%s' % (tag, name), 'prepare_inserts raised %s' % text, detail)


def classify_list(cur):
  labels = []
  if any(0 < abs(x) < MIN_NORMAL for x in cur):
    labels.append('existing:subnormal')
  if any(x <= 0 for x in cur):
    labels.append('existing:legacy-nonpositive')
  if cur and cur[-1] >= HUGE / 2:
    labels.append('existing:huge')
  if any(_ord(b) - _ord(a) <= 4 for a, b in zip(cur, cur[1:])):
    labels.append('existing:adjacent-floats')
  return labels


def one_batch(out, cur, keys, tag):
  """Run + judge one batch. Returns the new list, or None when the case must stop."""
  labels = classify_list(cur)
  exc, adjustments, new_keys = call_prepare(cur, keys)
  detail = {'existing': cur if len(cur) <= 40 else cur[:20] + ['...'] + cur[-20:], 'requested': keys}
  if exc:
    bucket_exception(out, exc, labels, cur, keys, tag, detail)
    return None
  bad, info = judge(cur, keys, adjustments, new_keys)
  if bad:
    detail.update({'adjustments': adjustments, 'new_keys': new_keys, 'info': info})
    out.fail('C20:%s:%s' % (tag, bad), 'prepare_inserts(%d existing, %d requests): %s %r' % (
      len(cur), len(keys), bad, info), detail)
    return None
  final = list(cur)
  for i, p in adjustments:
    final[i] = p
  if adjustments:
    out.cls('relabel-forced')
    if len(adjustments) == len(cur) and len(cur) > 1:
      out.cls('relabel-everything')
    if len(set(bisect.bisect_left(cur, q) for q in keys)) > 1:
      out.cls('relabel-with-several-insert-groups')
  if len(set(keys)) < len(keys):
    out.cls('req:duplicates')
  return sorted(final + new_keys), bool(adjustments)


def run_pure(case):
  out = Outcome()
  out.cls('pure')
  cur = build_existing(case.get('existing'))
  steps = _l(case.get('steps'))[:8]
  relabels = 0
  nsteps = 0
  for step in steps:
    specs = _l(step)[:40]
    if not specs:
      continue
    keys = []
    for ks in specs:
      q, label = resolve_key(ks, cur)
      keys.append(q)
      out.cls(label)
    for l in classify_list(cur):
      out.cls(l)
    if not cur:
      out.cls('existing:empty')
    res = one_batch(out, cur, keys, 'pure')
    if res is None:
      break
    cur, relabeled = res
    relabels += 1 if relabeled else 0
    nsteps += 1
  if nsteps > 1:
    out.cls('pure:multi-batch')
  out['nontrivial'] = relabels > 0
  return out


# -- enumerated part ----------------------------------------------------------

ANCHORS = [1.0, skip(1.0, -2), 3.0, 0.1, MIN_NORMAL]


def run_enum(case):
  out = Outcome()
  out.cls('enumerated')
  base = ANCHORS[_int(case.get('anchor')) % len(ANCHORS)]
  cur = [base]
  for g in _l(case.get('gaps'))[:2]:
    cur.append(skip(cur[-1], 1 + _int(g) % 3))
  n = len(cur)
  choices = ([cur[i] for i in range(n)] + [skip(cur[i], 1) for i in range(n)] + [INF, -INF, 0.0])
  w = nt = 0
  for m in (1, 2, 3):
    for keys in itertools.product(choices, repeat=m):
      w += 1
      o2 = Outcome()
      res = one_batch(o2, cur, list(keys), 'pure')
      if res is None:
        out['ok'] = out['ok'] and o2['ok']
        out['failures'].extend(o2['failures'])
        if not o2['ok']:
          out['weight'] = w
          return out
        continue
      if res[1]:
        nt += 1
  out['weight'] = w
  out['nontrivial'] = nt > 0
  out['nt_weight'] = nt
  if nt:
    out.cls('relabel-forced')
  return out


# ---------------------------------------------------------------------------
# Part 2: engine

META_POS = [('_grist_Pages', 'pagePos'), ('_grist_Views_section_field', 'parentPos'),
            ('_grist_Tables_column', 'parentPos'), ('_grist_TabBar', 'tabPos'), ('_grist_ACLRules', 'rulePos')]


def position_columns(d):
  import column
  res = []
  for t in sorted(d.engine.tables):
    for c, obj in d.engine.tables[t].all_columns.items():
      if isinstance(obj, column.PositionColumn):
        res.append((t, c))
  return res


def read_positions(d, table, col):
  rep = d.fetch_repr(table)
  return dict(zip(rep[2], rep[3][col]))


def check_all_distinct(d, out, when, only=None):
  for t, c in position_columns(d):
    if only is not None and t != only:
      continue
    pos = read_positions(d, t, c)
    vals = list(pos.values())
    for row, v in pos.items():
      if (t, c, row) == ('_grist_ACLRules', 'rulePos', 1) and v == INF:
        continue   # InitNewDoc's special legacy rule record ("not actually used"), written without a position
      if isinstance(v, bool) or not isinstance(v, (int, float)) or v != v or v in (INF, -INF):
        out.fail('C20:engine:non-finite-position', '%s.%s holds %r after %s' % (t, c, v, when),
                 {'table': t, 'column': c, 'values': repr(pos)[:600]})
        return False
    if len(set(vals)) != len(vals):
      dup = sorted(v for v in set(vals) if vals.count(v) > 1)[:3]
      kind = 'manualSort' if c == 'manualSort' else 'meta'
      out.fail('C20:engine:duplicate-position:' + kind, '%s.%s holds duplicate positions %r after %s' % (
        t, c, dup, when), {'table': t, 'column': c, 'values': repr(pos)[:600]})
      return False
  return True


def engine_fail_exc(out, d, r, what, table='T', before=None, reqs=None):
  """A bundle raised. When it was a position write (before/reqs given) and the exception comes out of
  relabeling.py, bucket it exactly like the pure part does."""
  info = exc_info(r.error)
  detail = {'action': r.uas if len(repr(r.uas)) < 2000 else repr(r.uas)[:2000]}
  if before is not None and info[2] in ('_find_sparse_enough_range', 'prep_inserts_at_index'):
    cur = sorted(before.values())
    labels = classify_list(cur)
    if 'existing:subnormal' in labels:
      out.cls('engine:subnormal-rows')
    bucket_exception(out, info, labels, cur, list(reqs), 'engine', detail)
  else:
    out.fail('C20:engine:raised-' + info[0], 'engine: %s raised %s' % (what, info[1]), detail)


def check_written(out, before, after, written, what):
  """before/after: {row: pos}; written: [(row, request)] in request order. Rows that existed and were not
  written keep their relative order; each written row has as many unwritten rows below as its request."""
  wset = set(r for r, _ in written)
  still = [r for r in before if r not in wset and r in after]
  o1 = sorted(still, key=lambda r: before[r])
  o2 = sorted(still, key=lambda r: after[r])
  if o1 != o2:
    out.fail('C20:engine:existing-order-changed', '%s changed the order of unwritten rows' % what,
             {'before': repr(before)[:500], 'after': repr(after)[:500]})
    return False
  b_sorted = sorted(before[r] for r in still)
  a_sorted = sorted(after[r] for r in still)
  for r, q in written:
    if r not in after:
      continue
    if bisect.bisect_left(b_sorted, q) != bisect.bisect_left(a_sorted, after[r]):
      out.fail('C20:engine:new-row-misplaced', '%s: row %r requested %r landed at %r' % (what, r, q, after[r]),
               {'before': repr(before)[:500], 'after': repr(after)[:500], 'written': repr(written)[:300]})
      return False
  order = sorted(range(len(written)), key=lambda j: (written[j][1], j))
  seq = [after[written[j][0]] for j in order if written[j][0] in after]
  if any(not a < b for a, b in zip(seq, seq[1:])):
    out.fail('C20:engine:new-rows-out-of-request-order', '%s: written rows not in request order' % what,
             {'written': repr(written)[:300], 'after': repr(after)[:500]})
    return False
  return any(before[r] != after[r] for r in still)


def run_engine(case):
  from ..doc import Doc
  out = Outcome()
  out.cls('engine')
  d = Doc()
  r = d.apply([['AddTable', 'T', [{'id': 'A', 'type': 'Int', 'isFormula': False}]]])
  if not r.ok:
    return out.fail('C20:engine:setup', 'AddTable failed %r' % r.error)
  tables = ['T']
  relabels = 0
  counter = [0]
  last_undo = [None]

  def positions(t):
    return read_positions(d, t, 'manualSort')

  def do_write(t, ua, before, written_reqs, what, only=None):
    """Apply a bundle writing manualSort in t and judge it. written_reqs: list of requests; row ids are
    taken from the action (updates) or from the return value (adds)."""
    r = d.apply([ua])
    if not r.ok:
      engine_fail_exc(out, d, r, what, t, before, written_reqs)
      return False
    last_undo[0] = r.undo
    if not check_all_distinct(d, out, what, only):
      return False
    after = positions(t)
    if ua[0] == 'AddRecord':
      rows = [r.ret[0]]
    elif ua[0] == 'BulkAddRecord':
      rows = list(r.ret[0])
    else:
      rows = list(ua[2])
    res = check_written(out, before, after, list(zip(rows, written_reqs)), what)
    if res is False and not out['ok']:
      return False
    if res:
      out.cls('relabel-forced', 'engine:relabel')
      nonlocal_relabels[0] += 1
    return True

  nonlocal_relabels = [0]

  # optional prelude: n insert-at-top operations (what the grid does for "insert row above the first row")
  halve = _int(case.get('halve')) % 1100
  if halve:
    out.cls('engine:top-insert-prelude')
    r = d.apply([['AddRecord', 'T', None, {'A': 0}]])
    for n in range(halve):
      first = min(positions('T').values())
      r = d.apply([['AddRecord', 'T', None, {'A': n, 'manualSort': first}]])
      if not r.ok:
        engine_fail_exc(out, d, r, 'insert-at-top #%d' % n, 'T', positions('T'), [first])
        break
    if out['ok'] and not check_all_distinct(d, out, 'top-insert prelude'):
      pass

  for op in _l(case.get('ops'))[:30]:
    if not out['ok']:
      break
    op = _d(op)
    o = _int(op.get('o')) % 13
    t = tables[_int(op.get('t')) % len(tables)]
    before = positions(t)
    cur = sorted(before.values())
    by_pos = sorted(before, key=lambda r: before[r])
    specs = _l(op.get('keys'))[:12] or [{}]
    counter[0] += 1
    if any(0 < abs(v) < MIN_NORMAL for v in cur):
      out.cls('engine:subnormal-rows')

    if o in (0, 1):
      # single AddRecord, possibly repeated against the same anchor row (closes the gap, forces relabel)
      rep = 1 + (_int(op.get('rep')) % 70 if o == 1 else 0)
      anchor = by_pos[_int(specs[0].get('i') if isinstance(specs[0], dict) else 0) % len(by_pos)] if by_pos else None
      k = _int(_d(specs[0]).get('k')) % 8
      if rep > 1:
        out.cls('engine:repeated-insert')
      for nrep in range(rep):
        before = positions(t)
        cur = sorted(before.values())
        if anchor is not None and k in (0, 1, 6):
          q = before[anchor] if k == 0 else skip(before[anchor], 1 if k == 1 else -1)
          label = {0: 'req:tie-with-existing', 1: 'req:nextfloat-after-row', 6: 'req:prevfloat-before-row'}[k]
        else:
          q, label = resolve_key(specs[0], cur)
        out.cls(label)
        # inside a repetition only the written table is re-read; all tables after the last one
        if not do_write(t, ['AddRecord', t, None, {'A': counter[0], 'manualSort': q}], before, [q], 'AddRecord',
                        only=(t if nrep < rep - 1 else None)):
          break
    elif o == 2:
      reqs = []
      for ks in specs:
        q, label = resolve_key(ks, cur)
        out.cls(label)
        reqs.append(q)
      if len(set(reqs)) < len(reqs):
        out.cls('req:duplicates')
      out.cls('engine:BulkAddRecord')
      do_write(t, ['BulkAddRecord', t, [None] * len(reqs), {'manualSort': reqs, 'A': [counter[0]] * len(reqs)}],
               before, reqs, 'BulkAddRecord')
    elif o == 3:
      # add without position / with None: appended at the end
      none = _int(op.get('rep')) % 2
      vals = {'A': counter[0]}
      if none:
        vals['manualSort'] = None
      out.cls('req:none' if none else 'req:omitted')
      do_write(t, ['AddRecord', t, None, vals], before, [INF], 'AddRecord(no position)')
    elif o in (4, 5):
      if not by_pos:
        continue
      m = min(len(specs), len(by_pos)) if o == 5 else 1
      start = _int(op.get('i'))
      rows = [by_pos[(start + j * (1 + _int(op.get('rep')) % 3)) % len(by_pos)] for j in range(m)]
      rows = list(dict.fromkeys(rows))
      reqs = []
      for ks in specs[:len(rows)]:
        q, label = resolve_key(ks, cur)
        out.cls(label)
        reqs.append(q)
      if len(set(reqs)) < len(reqs):
        out.cls('req:duplicates')
      out.cls('engine:update-position')
      do_write(t, ['BulkUpdateRecord', t, rows, {'manualSort': reqs}], before, reqs, 'BulkUpdateRecord')
    elif o == 6:
      if not by_pos:
        continue
      row = by_pos[_int(op.get('i')) % len(by_pos)]
      r = d.apply([['RemoveRecord', t, row]])
      if not r.ok:
        engine_fail_exc(out, d, r, 'RemoveRecord', t)
      else:
        last_undo[0] = r.undo
        check_all_distinct(d, out, 'RemoveRecord')
    elif o in (7, 8, 9):
      if o == 7:
        ua = ['AddView', t, 'raw_data', 'V%d' % counter[0]]
      elif o == 8:
        ua = ['AddColumn', t, 'C%d' % counter[0], {'type': 'Text', 'isFormula': False}]
      elif len(tables) < 3:
        ua = ['AddEmptyTable', None]
      else:
        ua = ['AddRecord', '_grist_ACLRules', None, {'resource': 1, 'aclFormula': '', 'permissionsText': 'all',
                                                     'rulePos': resolve_key(specs[0], [1.0, 2.0])[0]}]
      out.cls('engine:' + ua[0] + (':aclrule' if ua[1] == '_grist_ACLRules' else ''))
      r = d.apply([ua])
      if not r.ok:
        engine_fail_exc(out, d, r, ua[0], t)
      else:
        last_undo[0] = r.undo
        if ua[0] == 'AddEmptyTable':
          tables.append(r.ret[0]['table_id'])
        check_all_distinct(d, out, ua[0])
    elif o == 12:
      # rename the table (its position column is copied into a new Column object), then go on inserting
      new = 'Ren%d' % counter[0]
      out.cls('engine:RenameTable')
      r = d.apply([['RenameTable', t, new]])
      if not r.ok:
        engine_fail_exc(out, d, r, 'RenameTable', t)
      else:
        last_undo[0] = None
        tables[:] = [x for x in (r.ret[0] if x == t else x for x in tables)]
        tables[:] = [x for x in tables if x in d.engine.tables] or [x for x in d.engine.tables if not x.startswith('_grist_')][:1]
        check_all_distinct(d, out, 'RenameTable')
    elif o == 10:
      # explicit write into a metadata position column (the client reorders fields/pages this way)
      mt, mc = META_POS[_int(op.get('i')) % len(META_POS)]
      mb = read_positions(d, mt, mc)
      if not mb:
        continue
      mcur = sorted(mb.values())
      mrows_all = sorted(mb, key=lambda r: mb[r])
      rows = [mrows_all[(_int(op.get('rep')) + j) % len(mrows_all)] for j in range(min(len(specs), len(mrows_all)))]
      rows = list(dict.fromkeys(rows))
      reqs = []
      for ks in specs[:len(rows)]:
        q, label = resolve_key(ks, mcur)
        out.cls(label)
        reqs.append(q)
      out.cls('engine:meta-position-write', 'engine:write:%s.%s' % (mt, mc))
      r = d.apply([['BulkUpdateRecord', mt, rows, {mc: reqs}]])
      if not r.ok:
        engine_fail_exc(out, d, r, 'BulkUpdateRecord %s.%s' % (mt, mc), t, mb, reqs)
      else:
        last_undo[0] = r.undo
        if check_all_distinct(d, out, 'BulkUpdateRecord %s.%s' % (mt, mc)):
          ma = read_positions(d, mt, mc)
          check_written(out, mb, ma, list(zip(rows, reqs)), 'BulkUpdateRecord %s.%s' % (mt, mc))
    else:
      if last_undo[0] is None:
        continue
      out.cls('engine:undo')
      r = d.apply([['ApplyUndoActions', last_undo[0]]])
      last_undo[0] = None
      if not r.ok:
        engine_fail_exc(out, d, r, 'ApplyUndoActions', t)
      else:
        tables[:] = [x for x in tables if x in d.engine.tables]
        check_all_distinct(d, out, 'ApplyUndoActions')

  hist = d.concrete_history()[1:]
  out['concrete'] = hist if len(hist) <= 60 else hist[:3] + [['...', '%d bundles omitted' % (len(hist) - 33)]] + hist[-30:]
  out['nontrivial'] = nonlocal_relabels[0] > 0
  return out


def run_case(case):
  case = _d(case)
  kind = _int(case.get('kind')) % 4
  if kind == 1:
    return run_engine(case)
  if kind == 2:
    return run_enum(case)
  if kind == 3:
    return run_sweep(case)
  return run_pure(case)


# ---------------------------------------------------------------------------
# generation

def run_sweep(case):
  """Enumerated: every pair / triple of adjacent floats at 128 consecutive offsets from an anchor, with a tie or
  next-float request on each row (the alignment of the pair inside the relabel range matters)."""
  out = Outcome()
  out.cls('enumerated:offset-sweep')
  base = ANCHORS[_int(case.get('anchor')) % len(ANCHORS)]
  block = _int(case.get('block')) % 64
  w = nt = 0
  for off in range(block * 128, block * 128 + 128):
    for n in (2, 3):
      cur = [skip(base, off + j) for j in range(n)]
      for q in cur[1:] + [skip(cur[-1], 1)]:
        w += 1
        o2 = Outcome()
        res = one_batch(o2, cur, [q], 'pure')
        for c in o2['classes']:
          if c.startswith('FINDING'):
            out.cls(c)
        if res is None:
          if not o2['ok']:
            out['ok'] = False
            if not any(f['signature'] == o2['failures'][0]['signature'] for f in out['failures']):
              out['failures'].extend(o2['failures'][:1])
          continue
        if res[1]:
          nt += 1
  out['weight'] = w
  out['nontrivial'] = nt > 0
  out['nt_weight'] = nt
  if nt:
    out.cls('relabel-forced')
  return out


def enumerate_cases(tier):
  for a in range(len(ANCHORS)):
    for n in (0, 1, 2):
      for gaps in itertools.product(range(3), repeat=n):
        yield {'kind': 2, 'anchor': a, 'gaps': list(gaps)}
  for a in range(len(ANCHORS)):
    for block in range(8 if tier == 'quick' else 64):
      yield {'kind': 3, 'anchor': a, 'block': block}
  # the ordinary-use route to subnormal positions: 1074 insert-at-top, then insert above the second row
  yield {'kind': 1, 'halve': 1075, 'ops': [{'o': 0, 'keys': [{'k': 0, 'i': 1}]}]}
  yield {'kind': 1, 'halve': 1030, 'ops': [{'o': 1, 'rep': 60, 'keys': [{'k': 0, 'i': 1}]}]}
  # rows, a table rename (new Column object for manualSort), then repeated inserts above the same row
  yield {'kind': 1, 'ops': [{'o': 2, 'keys': [{'k': 3}, {'k': 3}, {'k': 3}]}, {'o': 12},
                            {'o': 1, 'rep': 69, 'keys': [{'k': 0, 'i': 1}]}]}


def _keyspec(lit):
  kind = st.sampled_from([0, 0, 0, 1, 1, 1, 2, 3, 4, 5, 6, 7])
  return st.fixed_dictionaries({'k': kind, 'i': st.integers(0, 60), 'v': lit})


def strategy(tier):
  normal = st.one_of(
    st.sampled_from([1.0, 0.5, 2.0, 1.5, 3.0, 0.1, 1e-5, 7.0, 1000.0, 2.0 ** 30, 2.0 ** 51, MIN_NORMAL, 1e-300,
                     skip(1.0, -1), skip(2.0, -3), skip(0.5, -2)]),
    st.floats(min_value=MIN_NORMAL, max_value=2.0 ** 51, allow_subnormal=False),
    st.floats(min_value=0.001, max_value=100.0))
  subn = st.one_of(st.sampled_from([5e-324, 1e-323, 1e-310, 2.0 ** -1050, skip(MIN_NORMAL, -1), skip(MIN_NORMAL, -3)]),
                   st.floats(min_value=5e-324, max_value=skip(MIN_NORMAL, -1), allow_subnormal=True))
  legacy = st.one_of(st.sampled_from([0.0, -1.0, -17.0, -0.5]), st.floats(min_value=-1e6, max_value=0.0))
  huge = st.sampled_from([2.0 ** 53, 2.0 ** 53 - 2, 2.0 ** 60, 1e300, 1.7e308, 2.0 ** 52])
  lit_req = st.one_of(st.floats(allow_nan=False, allow_infinity=True), st.floats(min_value=-2.0, max_value=50.0),
                      st.sampled_from([0.0, 1.0, 0.5, 2.5, -1.0, INF, -INF]))

  def existing(base):
    el = st.one_of(
      st.fixed_dictionaries({'k': st.just(0), 'n': st.integers(0, 40)}),
      st.fixed_dictionaries({'k': st.just(1), 'v': base}),
      st.fixed_dictionaries({'k': st.just(2), 'v': base,
                             'g': st.lists(st.one_of(st.integers(0, 3), st.integers(0, 3), st.integers(100, 149)),
                                           min_size=1, max_size=40)}),
      st.fixed_dictionaries({'k': st.just(2), 'v': base, 'g': st.lists(st.just(0), min_size=1, max_size=40)}))
    return st.lists(el, min_size=0, max_size=4)

  def pure(base, weight_multi=True):
    step = st.one_of(st.lists(_keyspec(lit_req), min_size=1, max_size=6),
                     st.lists(_keyspec(lit_req), min_size=1, max_size=24))
    return st.fixed_dictionaries({'kind': st.just(0), 'existing': existing(base),
                                  'steps': st.lists(step, min_size=1, max_size=5 if weight_multi else 2)})

  # dense clusters separated by 2**3..2**22 floats, hit by several tie / next-float requests in one batch:
  # the relabel ranges of neighbouring groups overlap, so rows are adjusted more than once per call
  cluster_gaps = st.lists(st.one_of(st.just(0), st.just(0), st.just(0), st.integers(0, 3), st.integers(103, 122)),
                          min_size=2, max_size=40)
  crowded = st.fixed_dictionaries({
    'kind': st.just(0),
    'existing': st.lists(st.fixed_dictionaries({'k': st.just(2), 'v': normal, 'g': cluster_gaps}),
                         min_size=1, max_size=2),
    'steps': st.lists(st.lists(st.fixed_dictionaries({'k': st.sampled_from([0, 0, 1, 1, 6]), 'i': st.integers(0, 60),
                                                      'v': st.just(0.0)}), min_size=2, max_size=16),
                      min_size=1, max_size=3)})

  op = st.fixed_dictionaries({
    'o': st.sampled_from([0, 0, 1, 1, 1, 2, 2, 3, 4, 5, 5, 6, 7, 8, 9, 10, 10, 11, 12, 12]),
    't': st.integers(0, 2), 'i': st.integers(0, 40), 'rep': st.integers(0, 69),
    'keys': st.lists(_keyspec(lit_req), min_size=1, max_size=8)})
  eng = st.fixed_dictionaries({'kind': st.just(1), 'ops': st.lists(op, min_size=1, max_size=30)})
  eng_halve = st.fixed_dictionaries({'kind': st.just(1), 'halve': st.integers(1015, 1080),
                                     'ops': st.lists(op, min_size=1, max_size=6)})
  mixed = st.one_of(normal, normal, subn, legacy)
  # explicit weights (per 1000); an engine case costs ~300x a pure case, a top-insert prelude ~2000x
  # (Hypothesis favours the ends of an integer range, so the expensive classes sit in the middle.)
  table = [(250, pure(normal)), (150, crowded), (60, pure(subn)), (60, pure(legacy)), (4, eng_halve), (76, eng),
           (60, pure(mixed)), (20, pure(huge, False)), (150, crowded), (170, pure(normal))]

  def pick(n):
    for w, s in table:
      if n < w:
        return s
      n -= w
    return table[0][1]
  return st.integers(0, 999).flatmap(pick)
