"""C29 Read-only calls leave the document untouched."""
from hypothesis import strategies as st
from ..runner import Outcome
from .. import ops as O, eqv
from ..hist import HistoryRun
from .. import env
env.setup()
import formula_prompt as _fp   # noqa: E402
import objtypes as _objtypes   # noqa: E402
import actions as _actions     # noqa: E402

ID = 'C29'
LEVEL = 'exploration'
TECHNIQUE = 'property-based testing: generated documents x generated read-only calls; state-invariance oracle'
RULE = ('case = document built by a formula-profile history (plus, optionally, a side-effect formula '
        'Side.lookupOrAddDerived(K=$id) feeding another table, and summary tables) + 1-6 calls to the seven '
        'read-only entry points (fetch_table with/without query, fetch_meta_tables, get_formula_error, '
        'evaluate_formula, get_formula_prompt, autocomplete, find_col_from_values) with generated valid and invalid '
        'arguments. Non-trivial = a call evaluated a formula (get_formula_error / evaluate_formula) on a cell with a '
        'side effect, an error value or a summary group; distinct by hash of document + calls.')
ORACLE = ('after every call (whether it returned or raised): snapshot of all tables == snapshot before the calls; '
          'after the calls a Calculate succeeds and emits no stored actions')
ASSUMPTIONS = ['the document is brought to a fixpoint with Calculate before the calls (dirty cells after a failed bundle '
               'are C04\'s known finding)', 'a side-effect formula adds rows to a different table over a bounded key space',
               'exceptions raised by the call itself are allowed']
BUDGET = {'quick': dict(examples=1100, shards=16, max_seconds=75),
          'thorough': dict(examples=3500, shards=16, max_seconds=1800)}
SHRINK_BUDGET = {'quick': 60, 'thorough': 400}
FNS = ['fetch_table', 'fetch_meta_tables', 'get_formula_error', 'evaluate_formula', 'get_formula_prompt',
       'autocomplete', 'find_col_from_values']
TXTS = ['$', 'rec.', '$A.', 'Alpha.', 'Beta.lookupRecords(', 'user.', 'len(', 'Alpha.lookupOne(A=', 'NO', '$gro',
        'Side.', '"abc".', 'Alpha.all.', '', ')(', 'rec.id.']
USER = {'Name': 'Foo', 'UserID': 1, 'UserRef': '1', 'LinkKey': {}, 'Origin': None, 'Email': 'foo@example.com',
        'Access': 'owners', 'SessionID': 'u1', 'IsLoggedIn': True, 'ShareRef': None}


def strategy(tier):
  call = st.fixed_dictionaries({'fn': st.sampled_from([0, 1, 2, 2, 2, 3, 3, 3, 4, 5, 6]), 'a': st.integers(0, 7), 'b': st.integers(0, 7),
                                'c': st.integers(0, 9), 'flag': st.booleans(), 'txt': st.integers(0, len(TXTS) - 1),
                                'vals': st.lists(O.valspec(), max_size=3)})
  return st.fixed_dictionaries({'h': O.history('formula', 0, 8), 'side': st.sampled_from([True, True, False]), 'summary': st.sampled_from([True, True, False]),
                                'calls': st.lists(call, min_size=1, max_size=6)})


def run_case(case):
  out = Outcome()
  hr = HistoryRun(case['h'], snapshots=False)
  hr.run(None)
  d = hr.doc
  extra = []
  if case.get('side') and any(t['tableId'] == 'Alpha' for t in d.tables_meta()):
    extra.append([['AddTable', 'Side', [{'id': 'K', 'type': 'Int', 'isFormula': False}]]])
    extra.append([['AddColumn', 'Alpha', 'SideEff', {'type': 'Any', 'isFormula': True,
                                                      'formula': 'Side.lookupOrAddDerived(K=$id).id'}]])
  if case.get('summary'):
    for t in d.tables_meta():
      if not t['summarySourceTable']:
        cols = [c for c in d.columns(t['id']) if c['type'].split(':')[0] in O.GROUPABLE][:1]
        extra.append([['CreateViewSection', t['id'], 0, 'record', [c['id'] for c in cols], None]])
        break
  extra_failed = False
  for uas in extra:
    if not d.apply(uas).ok:
      extra_failed = True
  # No Calculate here on purpose: the calls must be harmless right after an ordinary bundle too (the engine keeps
  # the previous bundle's action group around). Only a failed bundle is settled first (C04's known finding).
  if extra_failed:
    c0 = d.calculate()
    if not c0.ok:
      out['skipped'] = True
      return out
  before = d.snapshot()
  eng = d.engine
  tabs = d.tables_meta()
  nt = False
  done = []
  for call in case['calls']:
    fn = FNS[int(call['fn']) % len(FNS)]
    t = tabs[int(call['a']) % len(tabs)] if tabs else None
    tid = t['tableId'] if t and int(call['c']) % 10 != 9 else 'NoSuchTable'
    cols = d.columns(t['id'], visible_only=False) if t else []
    fcols = [c for c in cols if c['formula']]
    col = (fcols or cols or [{'colId': 'nope'}])[int(call['b']) % max(1, len(fcols or cols))]
    cid = col['colId'] if int(call['c']) % 10 != 8 else 'no_such_col'
    rows = d.row_ids(tid) if tid in eng.tables else []
    rid = rows[int(call['c']) % len(rows)] if rows and int(call['c']) % 10 not in (6, 7) else 900 + int(call['b'])
    desc = [fn, tid, cid, rid]
    try:
      if fn == 'fetch_table':
        q = None
        if call['flag'] and cols:
          q = {cid: [O.cell_value(d, col.get('type', 'Any'), v) for v in call['vals']]}
          q = _actions.decode_bulk_values(q) if hasattr(_actions, 'decode_bulk_values') else q
        _actions.get_action_repr(eng.fetch_table(tid, formulas=bool(int(call['b']) % 2), query=q))
      elif fn == 'fetch_meta_tables':
        eng.fetch_meta_tables(bool(call['flag']))
      elif fn == 'get_formula_error':
        _objtypes.encode_object(eng.get_formula_error(tid, cid, rid))
      elif fn == 'evaluate_formula':
        _fp.evaluate_formula(eng, tid, cid, rid)
      elif fn == 'get_formula_prompt':
        _fp.get_formula_prompt(eng, tid, cid, bool(call['flag']), bool(int(call['b']) % 2))
      elif fn == 'autocomplete':
        txt = TXTS[int(call['txt']) % len(TXTS)]
        desc.append(txt)
        eng.autocomplete(txt, tid, cid, rid, dict(USER))
      elif fn == 'find_col_from_values':
        vals = [O.cell_value(d, 'Any', v) for v in call['vals']]
        eng.find_col_from_values(vals, int(call['b']) % 3, tid if call['flag'] else None)
      out.cls(fn + ':returned')
    except Exception as e:
      out.cls(fn + ':raised')
      desc.append('raised ' + type(e).__name__)
    done.append(desc)
    if fn in ('get_formula_error', 'evaluate_formula') and tid in eng.tables and col.get('formula'):
      f = col['formula']
      v = before.get(tid, {}).get(cid, {}).get(rid)
      if 'lookupOrAddDerived' in f or eqv.is_error_cell(v) or 'group' in f or 'summary' in tid:
        nt = True
    now = d.snapshot()
    df = eqv.diff(before, now)
    if df:
      out.fail('C29:%s:document-changed' % fn, 'after read-only call %r the document differs' % (desc,), df)
      break
  if out['ok']:
    c = d.calculate()
    if not c.ok:
      out.fail('C29:calculate-raised-after:%s' % '+'.join(sorted(set(x[0] for x in done))),
               'Calculate after read-only calls %r raised %r' % (done, c.error))
    elif c.stored:
      out.fail('C29:calculate-emits-after:%s' % '+'.join(sorted(set(x[0] for x in done))),
               'Calculate after read-only calls %r emitted %r' % (done, c.stored[:3]), c.stored[:5])
  out['concrete'] = {'history': hr.concrete() + [[True, u] for u in extra], 'calls': done}
  out['key'] = eqv.digest(out['concrete'])
  out['nontrivial'] = nt
  return out
