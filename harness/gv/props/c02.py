"""C02 Emitted doc actions are a faithful persistence delta (reference model: independent interpreter)."""
from hypothesis import strategies as st
from ..runner import Outcome
from .. import ops as O, eqv
from ..hist import HistoryRun, bundle_sig, diff_locus
from ..docstore import Store, Reject

ID = 'C02'
LEVEL = 'exploration'
TECHNIQUE = 'stateful property-based testing against a reference model (independent doc-action interpreter)'
RULE = ('case = prelude + up to 12 bundles from the full vocabulary (general/schema profiles); every reply\'s stored '
        'actions (from InitNewDoc on) are applied to an independent strict store and compared with the engine after '
        'every bundle. Non-trivial = some bundle emitted a calc update of a formula column and the history has a '
        'successful schema action; distinct by hash of the concrete user actions.')
ORACLE = ('store == engine on table set, row ids, non-private column set and every cell (Node-observable equality) '
          'after every bundle, failed bundles included (they must add nothing); a stored action the store rejects '
          '(update of a missing row, add of an existing row/column/table ...) is a violation; len(stored)==len(direct)')
ASSUMPTIONS = ['removing an already-missing row is a no-op for the store (SQLite DELETE), counted in classes',
               'defaults for columns absent from an AddRecord come from documentation/grist-data-format.md']
BUDGET = {'quick': dict(examples=1100, shards=16, max_seconds=75),
          'thorough': dict(examples=4000, shards=16, max_seconds=1800)}
SHRINK_BUDGET = {'quick': 60, 'thorough': 400}


def strategy(tier):
  n = 14 if tier == 'thorough' else 10
  return st.one_of(st.fixed_dictionaries({'h': O.history('general', 1, n)}),
                   st.fixed_dictionaries({'h': O.history('schema', 1, n)}))


def run_case(case):
  out = Outcome()
  hr = HistoryRun(case['h'], snapshots=False)
  store = Store()
  for a in hr.doc.init_reply.stored:
    store.apply(a)
  st8 = {'calc': False}

  def on_step(s):
    sig = bundle_sig(s.uas)
    if s.reply.ok:
      stored, direct = s.reply.stored, s.reply.direct
      if len(stored) != len(direct):
        out.fail('C02:direct-length:' + sig, 'len(stored)=%d len(direct)=%d' % (len(stored), len(direct)))
        return True
      if any((not d) and a[0] in ('UpdateRecord', 'BulkUpdateRecord') for a, d in zip(stored, direct)):
        st8['calc'] = True
      for a in stored:
        try:
          store.apply(a)
        except Reject as e:
          out.fail('C02:stored-action-rejected:%s:%s' % (a[0], sig),
                   'stored action %r of bundle %r does not apply to the replayed store: %s' % (a, s.uas, e))
          return True
    eng = hr.doc.snapshot()
    d = eqv.diff(store.snapshot(), eng)
    if d and not s.reply.ok:
      # a failed bundle that leaves a (possibly transient) trace is C04's subject; C02 judges successful bundles
      st8['tainted'] = True
      out.cls('failed-bundle-left-trace(charged to C04)')
      return None
    if d:
      if st8.get('tainted'):
        out.fail('C02:store-differs-after-failed-bundle-trace:' + diff_locus(d),
                 'after %r (following a failed bundle that had left a trace) store and engine disagree' % (s.uas,), d)
      else:
        out.fail('C02:store-differs:%s:%s' % (sig, diff_locus(d)),
                 'after bundle %r replayed stored actions and engine disagree (first=store, second=engine)' % (s.uas,), d)
      return True
    st8['tainted'] = False
    return None

  hr.run(on_step)
  out['concrete'] = hr.concrete()
  out['key'] = eqv.digest(out['concrete'])
  out['nontrivial'] = st8['calc'] and hr.n_schema_ok >= 1
  out.cls(*sorted(hr.labels))
  if store.noop_removals:
    out.cls('noop-removal-in-stored')
  return out
