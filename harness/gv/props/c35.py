"""C35 SCHEDULE yields exactly the scheduled occurrences.

A case describes a schedule structurally (interval unit x multiple, slots as offsets inside one
interval plus syntax-style selectors), a start, an optional end, a count and a time zone. run_case
renders the schedule string in one of the documented spellings, computes the expected occurrences
with its own calendar arithmetic on (day ordinal, microsecond of day) pairs and compares with
list(SCHEDULE(...)). Invalid strings (no colon, bad interval, bad slot syntax, slot type not allowed
for the unit, duplicate unit, empty slot, unknown names) must raise ValueError.
"""
import datetime as _dtm
import itertools
import marshal
import os
import signal

from hypothesis import strategies as st
from ..runner import Outcome
from .. import env
env.setup()
import moment                                # noqa: E402
import docmodel                              # noqa: E402
from functions.schedule import SCHEDULE      # noqa: E402

ID = 'C35'
LEVEL = 'exploration'
TECHNIQUE = 'Hypothesis-generated schedules vs brute-force reference enumeration'
RULE = ('case = (interval unit in years..seconds x multiple, 1-5 slots given as offsets inside one interval and '
        'rendered in a generated spelling [aliases, N-unit/N unit, month names/numbers, /D, weekday names, '
        '24h/am-pm times, :MM, +N deltas, part order, letter case], start [uniform 1901-2100, or snapped onto / 1us or '
        '1s around a scheduled occurrence or the unit boundary], end [none, snapped around an occurrence, relative], '
        'count [default, 0..25], time zone of start [naive=document default, UTC, DST zones], start passed as '
        'datetime/date/string) plus invalid strings of seven kinds, plus the 11 example schedules of the docstring. '
        'Non-trivial = a valid, checked schedule with a non-empty expected result where the start bound discards '
        'at least one candidate of the first interval or the end bound cuts the series before count; or an '
        'invalid string that contains a colon. Distinct by the case.')
ORACLE = ('reference enumeration: B0 = start rounded down to the interval unit (weeks start on Sunday) in the wall '
          'clock of start; candidates B0 + k*interval + slot for k = 0, 1, ... with month/year steps done on month '
          'indexes and everything else on integer microseconds; keep those >= start, stop at the first > end, take '
          'the first count; compare wall-clock fields and time zone of every returned datetime, in order. '
          'Invalid strings: ValueError from the call or from iterating the result. No helper of schedule.py or '
          'date.py is used by the reference.')
ASSUMPTIONS = [
  'start years 1901..2100: functions.date.DATE documents that years below 1900 are shifted by 1900 and SCHEDULE steps through it, so '
  'starts whose unit boundary falls before 1900 (e.g. SCHEDULE("weekly: Mo", start=1900-01-01) yields year 3799) are outside the domain',
  'multiple N >= 1 (N = 0 never advances and is not a documented form)',
  'slot numbers stay in their natural ranges (hours 0-23 or 1-12 with am/pm, minutes 0-59, day 1-31, month 1-12); '
  'out-of-range numbers such as 25:00, 13pm, /0, 13/1 are accepted silently by the code and are neither required '
  'nor forbidden by the statement, so they are not generated',
  'a Month-Day or /Day slot naming a day that does not exist in some month of the explored horizon (Feb-30, /31 in April) '
  'is excluded: the docstring does not say what it means (class excluded:day-overflows-month)',
  'slots that, for some explored interval, are not strictly increasing or reach the next interval are excluded '
  '(precondition of the statement; class excluded:slot-outside-interval)',
  'zoned schedules are wall-clock schedules (time-of-day semantics as in test_schedule.test_timezone): boundaries, '
  'steps and comparisons with start/end in the same zone use local wall-clock fields',
  'if the zone of start has a UTC-offset transition inside the explored window and the schedule does sub-day '
  'arithmetic (unit hours/minutes/seconds or +NH/+NM/+NS deltas) the case is excluded: the docstring leaves wall-clock '
  'vs elapsed time open (class excluded:dst-subday-arithmetic)',
  'naive start/end take the document time zone, which is UTC when no document is loaded (docmodel.global_docmodel is None)',
  'the example schedules listed in the SCHEDULE docstring are valid schedules, except "4-hour: :00, 1:20, 2:40", which the same '
  'docstring contradicts (time of day only "for day-based or longer intervals"); time-of-day slots in hour-based intervals are '
  'therefore neither generated as valid nor as invalid',
]
BUDGET = {'quick': dict(examples=16000, shards=8, max_seconds=60),
          'thorough': dict(examples=300000, shards=16, max_seconds=1800)}

US = 1000000
DAY_US = 86400 * US
UNITS = ['years', 'months', 'weeks', 'days', 'hours', 'minutes', 'seconds']
SINGULAR = {'years': 'year', 'months': 'month', 'weeks': 'week', 'days': 'day', 'hours': 'hour',
            'minutes': 'minute', 'seconds': 'second'}
ALIAS = {'years': 'annual', 'months': 'monthly', 'weeks': 'weekly', 'days': 'daily', 'hours': 'hourly'}
UNIT_SECS = {'weeks': 604800, 'days': 86400, 'hours': 3600, 'minutes': 60, 'seconds': 1}
MAX_N = {'years': 12, 'months': 30, 'weeks': 8, 'days': 45, 'hours': 72, 'minutes': 180, 'seconds': 600}
MONTHS = ['january', 'february', 'march', 'april', 'may', 'june', 'july', 'august', 'september', 'october',
          'november', 'december']
WEEKDAYS = ['sunday', 'monday', 'tuesday', 'wednesday', 'thursday', 'friday', 'saturday']
ZONES = ['UTC', 'America/New_York', 'Europe/London', 'Australia/Lord_Howe', 'Asia/Kolkata',
         'America/Sao_Paulo', 'Pacific/Apia', 'Africa/Cairo']
SEPS = ['-', ' ', '--', ' - ', '  ']


class Excluded(Exception):
  pass


class Hang(Exception):
  pass


def _int(x, default=0):
  try:
    if isinstance(x, bool) or x != x or x in (float('inf'), float('-inf')):
      return default
    return int(x)
  except (TypeError, ValueError, OverflowError):
    return default


def casing(s, sel):
  sel = sel % 3
  return s if sel == 0 else s.upper() if sel == 1 else s[:1].upper() + s[1:]


def days_in_month(y, m):
  if m == 2:
    return 29 if (y % 4 == 0 and (y % 100 != 0 or y % 400 == 0)) else 28
  return 30 if m in (4, 6, 9, 11) else 31


# ---------------------------------------------------------------------------
# Own reading of the raw zone records (only to know whether a window contains an offset transition)

_RAW_UNTILS = {}

def zone_untils(name):
  if not _RAW_UNTILS:
    with open(os.path.join(env.GRIST, 'tzdata.data'), 'rb') as f:
      for rec in marshal.load(f):
        _RAW_UNTILS[rec[0]] = [u for u in rec[3] if u is not None and u != float('inf')]
  return _RAW_UNTILS.get(name, [])


def window_has_transition(name, lo, hi):
  """lo, hi: naive wall datetimes; generous +-2 days slack covers any UTC offset."""
  e = _dtm.datetime(1970, 1, 1)
  a = ((lo - e).total_seconds() - 2 * 86400) * 1000.0
  b = ((hi - e).total_seconds() + 2 * 86400) * 1000.0
  return any(a <= u <= b for u in zone_untils(name))


# ---------------------------------------------------------------------------
# Rendering of a structural schedule into one of the documented spellings

class Style(object):
  """deterministic stream of small choices decoded from one integer"""
  def __init__(self, n):
    self.n = abs(_int(n))
  def pick(self, k):
    self.n, r = divmod(self.n, k)
    return r


def render_interval(unit, n, st_):
  if n == 1 and unit in ALIAS and st_.pick(2) == 0:
    return casing(ALIAS[unit], st_.pick(3)), 'alias'
  name = SINGULAR[unit] if st_.pick(2) == 0 else unit
  num = str(n) if st_.pick(4) else '0' + str(n)
  return num + SEPS[st_.pick(len(SEPS))] + casing(name, st_.pick(3)), 'n-unit'


def render_tod(sod, st_, parts, tags, allow_empty):
  """time of day (seconds) -> parts; returns True when H/M/S delta syntax was used"""
  h, rem = divmod(sod, 3600)
  mi, s = divmod(rem, 60)
  mode = st_.pick(4)
  used_delta = False
  if mode == 3:
    if h or (not allow_empty and not mi and not s and st_.pick(2)):
      parts.append('+%dH' % h); used_delta = True
    if mi:
      parts.append('+%dM' % mi); used_delta = True
    tags.add('tod:deltas')
  elif h or mi or not allow_empty or st_.pick(2):
    if mode == 2 and mi == 0:
      parts.append('%d%s' % ((h % 12) or 12, casing('am' if h < 12 else 'pm', st_.pick(3))))
      tags.add('tod:ampm')
    elif mode == 1:
      parts.append('%d:%02d%s' % ((h % 12) or 12, mi, casing('am' if h < 12 else 'pm', st_.pick(3))))
      tags.add('tod:ampm')
    else:
      parts.append(('%02d:%02d' if st_.pick(2) else '%d:%02d') % (h, mi))
      tags.add('tod:24h')
  if s:
    parts.append('+%dS' % s); used_delta = True
  return used_delta


def render_slot(unit, n, spec, tags):
  """-> (text, months, microseconds, day_of_month_named or None, uses_subday_delta)"""
  st_ = Style(spec.get('st'))
  maj = abs(_int(spec.get('maj')))
  off = abs(_int(spec.get('off')))
  parts = []
  months = 0
  dom_named = None
  sub = False
  if unit in ('years', 'months'):
    off %= 31 * 86400
    dom, sod = off // 86400 + 1, off % 86400
    if unit == 'years':
      months = maj % (12 * n)
      yy, mo = divmod(months, 12)
      if yy:
        parts.append('+%dy' % yy)
      mode = st_.pick(4)
      if mode == 0:
        nm = MONTHS[mo] if st_.pick(2) else MONTHS[mo][:3]
        parts.append('%s-%d' % (casing(nm, st_.pick(3)), dom)); dom_named = dom; tags.add('slot:Mon-D')
      elif mode == 1:
        parts.append(('%d/%d' if st_.pick(2) else '%02d/%02d') % (mo + 1, dom)); dom_named = dom; tags.add('slot:M/D')
      else:
        if mo or st_.pick(3) == 0:
          parts.append('+%dm' % mo)
        if dom > 1 or st_.pick(3) == 0:
          parts.append('+%dd' % (dom - 1))
        tags.add('slot:+m+d')
    else:
      months = maj % n
      if months or st_.pick(4) == 0:
        parts.append('+%dm' % months)
      if st_.pick(3):
        parts.append(('/%d' if st_.pick(3) else '/%02d') % dom); dom_named = dom; tags.add('slot:/D')
      elif dom > 1 or st_.pick(2):
        parts.append('+%dd' % (dom - 1))
    sub = render_tod(sod, st_, parts, tags, allow_empty=bool(parts))
    us = ((dom - 1) * 86400 + sod) * US
  else:
    off %= n * UNIT_SECS[unit]
    us = off * US
    if unit == 'weeks':
      w, rem = divmod(off, 604800)
      d, sod = divmod(rem, 86400)
      if w or st_.pick(5) == 0:
        parts.append('+%dw' % w)
      mode = st_.pick(4)
      if mode:
        nm = WEEKDAYS[d][:[0, 2, 3, 9][mode]]
        parts.append(casing(nm, st_.pick(3))); tags.add('slot:weekday')
      elif d or st_.pick(2):
        parts.append('+%dd' % d)
      sub = render_tod(sod, st_, parts, tags, allow_empty=bool(parts))
    elif unit == 'days':
      d, sod = divmod(off, 86400)
      if d or st_.pick(4) == 0:
        parts.append('+%dd' % d)
      sub = render_tod(sod, st_, parts, tags, allow_empty=bool(parts))
    elif unit == 'hours':
      h, rem = divmod(off, 3600)
      mi, s = divmod(rem, 60)
      if h >= 24 and st_.pick(2):
        parts.append('+%dd' % (h // 24)); h %= 24
      if h or st_.pick(4) == 0:
        parts.append('+%dH' % h)
      if st_.pick(3):
        parts.append(':%02d' % mi); tags.add('slot::MM')
      elif mi or not parts:
        parts.append('+%dM' % mi)
      if s:
        parts.append('+%dS' % s)
    elif unit == 'minutes':
      mi, s = divmod(off, 60)
      if mi or st_.pick(3) == 0:
        parts.append('+%dM' % mi)
      if s or not parts:
        parts.append('+%dS' % s)
    else:
      parts.append('+%dS' % off)
  if not parts:
    parts.append({'hours': [':00', '+0H', '+0M'], 'minutes': ['+0M', '+0S', '+0M'], 'seconds': ['+0S'] * 3}.get(
      unit, ['0:00', '12am', '+0d'])[st_.pick(3)])
  order = st_.pick(3)
  if order == 1:
    parts.reverse()
  elif order == 2 and len(parts) > 2:
    parts = parts[1:] + parts[:1]
  glue = ' ' if st_.pick(4) else '  '
  return glue.join(parts), months, us, dom_named, sub


# ---------------------------------------------------------------------------
# Reference calendar arithmetic on (day ordinal, microsecond of day); no timedelta, no schedule.py helper

def split_dt(dt):
  return dt.toordinal(), ((dt.hour * 60 + dt.minute) * 60 + dt.second) * US + dt.microsecond


def join_dt(o, us):
  d = _dtm.date.fromordinal(o)
  s, u = divmod(us, US)
  return _dtm.datetime(d.year, d.month, d.day, s // 3600, s // 60 % 60, s % 60, u)


def norm(o, us):
  q, r = divmod(us, DAY_US)
  return o + q, r


def first_boundary(unit, dt):
  o, us = split_dt(dt)
  if unit == 'years':
    return _dtm.date(dt.year, 1, 1).toordinal(), 0
  if unit == 'months':
    return _dtm.date(dt.year, dt.month, 1).toordinal(), 0
  if unit == 'weeks':
    return o - o % 7, 0          # ordinal 1 (0001-01-01) is a Monday, so multiples of 7 are Sundays
  if unit == 'days':
    return o, 0
  g = UNIT_SECS[unit] * US
  return o, us - us % g


def add_months(o, months):
  d = _dtm.date.fromordinal(o)
  if d.day != 1:
    raise Excluded('month-step-from-mid-month')
  idx = d.year * 12 + (d.month - 1) + months
  return _dtm.date(idx // 12, idx % 12 + 1, 1).toordinal()


def boundary(unit, n, b0, k):
  if unit == 'years':
    return add_months(b0[0], 12 * n * k), 0
  if unit == 'months':
    return add_months(b0[0], n * k), 0
  return norm(b0[0], b0[1] + k * n * UNIT_SECS[unit] * US)


def occurrence(unit, b, slot):
  months, us, dom_named = slot
  o = b[0]
  if months or dom_named is not None:
    o = add_months(o, months) if unit in ('years', 'months') else o
    if dom_named is not None:
      d = _dtm.date.fromordinal(o)
      if dom_named > days_in_month(d.year, d.month):
        raise Excluded('day-overflows-month')
  return norm(o, b[1] + us)


def enumerate_reference(unit, n, slots, start, need):
  """-> (naive datetimes >= start in order (at least `need`), discarded count, first boundary, last boundary)"""
  b0 = first_boundary(unit, start)
  s = split_dt(start)
  res = []
  discarded = 0
  k = 0
  while len(res) < need:
    if k > need + 4:
      raise Excluded('reference-horizon')      # cannot happen for slots inside the interval
    b = boundary(unit, n, b0, k)
    nxt = boundary(unit, n, b0, k + 1)
    prev = None
    for sl in slots:
      t = occurrence(unit, b, sl)
      if t < b or t >= nxt or (prev is not None and t <= prev):
        raise Excluded('slot-outside-interval')
      prev = t
      if t < s:
        discarded += 1
      else:
        res.append(t)
    k += 1
  return [join_dt(*t) for t in res], discarded, join_dt(*b0), join_dt(*boundary(unit, n, b0, k))


# ---------------------------------------------------------------------------

def _alarm(_sig, _frm):
  raise Hang()


def call_schedule(s, kwargs, limit):
  """-> ('ok', list) | ('exc', exception) | ('hang', None)"""
  old = signal.signal(signal.SIGALRM, _alarm)
  signal.setitimer(signal.ITIMER_REAL, 20.0)
  try:
    try:
      return 'ok', list(itertools.islice(SCHEDULE(s, **kwargs), limit))
    except Hang:
      return 'hang', None
    except Exception as e:     # pylint: disable=broad-except
      return 'exc', e
  finally:
    signal.setitimer(signal.ITIMER_REAL, 0)
    signal.signal(signal.SIGALRM, old)


def build_start(case):
  v = list(case.get('start') or [])[:7]
  v = [_int(x) for x in v] + [0] * (7 - len(v))
  y = 1901 + abs(v[0] - 1901) % 200
  mo = 1 + abs(v[1] - 1) % 12
  d = 1 + abs(v[2] - 1) % days_in_month(y, mo)
  return _dtm.datetime(y, mo, d, abs(v[3]) % 24, abs(v[4]) % 60, abs(v[5]) % 60, abs(v[6]) % US)


def shift(dt, us):
  o, t = split_dt(dt)
  return join_dt(*norm(o, t + us))


def run_valid(case):
  out = Outcome()
  unit = case.get('unit') if case.get('unit') in UNITS else 'days'
  n = 1 + (abs(_int(case.get('n'), 1)) - 1) % MAX_N[unit] if _int(case.get('n'), 1) else 1
  tags = set()
  ist = Style(case.get('ist'))
  itext, ikind = render_interval(unit, n, ist)
  specs = [s for s in (case.get('slots') or []) if isinstance(s, dict)][:5]
  if not specs:
    out['skipped'] = True
    return out
  rendered = [render_slot(unit, n, sp, tags) for sp in specs]
  # listed in increasing order (approximate key; exactness is verified per interval by the reference)
  rendered.sort(key=lambda r: (r[1] * 31 * DAY_US + r[2], r[0]))
  dedup = []
  for r in rendered:
    if not dedup or (r[1], r[2]) != (dedup[-1][1], dedup[-1][2]):
      dedup.append(r)
  rendered = dedup
  sched = '%s%s:%s%s' % (itext, ' ' if ist.pick(5) == 0 else '', ' ' if ist.pick(4) else '',
                        (', ' if ist.pick(3) else ',').join(r[0] for r in rendered))
  slots = [(r[1], r[2], r[3]) for r in rendered]
  subday = unit in ('hours', 'minutes', 'seconds') or any(r[4] for r in rendered)

  zname = case.get('tz') if case.get('tz') in ZONES else None
  skind = case.get('skind') if case.get('skind') in ('dt', 'date', 'str') else 'dt'
  if zname is None and docmodel.global_docmodel is not None:
    out['skipped'] = True
    return out
  tzname = zname or 'UTC'
  if skind != 'dt':
    zname = None; tzname = 'UTC'
  tzi = moment.tzinfo(tzname)
  start = build_start(case)
  if skind == 'date':
    start = start.replace(hour=0, minute=0, second=0, microsecond=0)
  cnt = case.get('count')
  count = None if cnt is None else abs(_int(cnt)) % 26
  ceff = 10 if count is None else count
  need = ceff + 4

  try:
    snap = case.get('snap')
    if isinstance(snap, list) and len(snap) == 3 and skind == 'dt':
      mode, j, delta = snap[0], abs(_int(snap[1])), max(-2 * US, min(2 * US, _int(snap[2])))
      if mode == 'occ':
        occ0 = enumerate_reference(unit, n, slots, start, 8)[0]
        start = shift(occ0[j % len(occ0)], delta)
        tags.add('start:exactly-on-occurrence' if not delta else 'start:just-after-occurrence' if delta > 0
                 else 'start:just-before-occurrence')
      elif mode == 'bound':
        start = shift(join_dt(*first_boundary(unit, start)), delta)
        tags.add('start:at-unit-boundary' if not delta else 'start:near-unit-boundary')
      if not (1901 <= start.year <= 2100):
        raise Excluded('start-out-of-range')
    occ, discarded, first_b, last_b = enumerate_reference(unit, n, slots, start, need)
  except Excluded as e:
    out.cls('excluded:' + str(e))
    out['skipped'] = True
    return out
  if zname and subday and window_has_transition(tzname, first_b, last_b):
    out.cls('excluded:dst-subday-arithmetic')
    out['skipped'] = True
    return out

  def aware(dt):
    return dt.replace(tzinfo=tzi)

  # end bound
  end_naive = None
  end_val = None
  espec = case.get('end')
  ekind = 'none'
  if isinstance(espec, list) and len(espec) == 3:
    mode, a, delta = espec[0], _int(espec[1]), max(-2 * US, min(2 * US, _int(espec[2])))
    if mode == 'occ':
      end_naive = shift(occ[abs(a) % len(occ)], delta)
      ekind = 'end:exactly-on-occurrence' if not delta else 'end:near-occurrence'
    elif mode == 'rel':
      a = max(-10 * 86400, min(4000 * 86400, a))
      end_naive = shift(start, a * US)
      ekind = 'end:before-start' if a < 0 else 'end:relative'
    if end_naive is not None and not (1 < end_naive.year < 9000):
      end_naive = None; ekind = 'none'
  ezone = case.get('etz') if case.get('etz') in ZONES else None
  if end_naive is not None:
    if skind == 'date':
      end_naive = end_naive.replace(hour=0, minute=0, second=0, microsecond=0)
      end_val = end_naive.date()
    elif skind == 'str':
      end_val = end_naive.isoformat(' ')
    elif zname is None:
      end_val = end_naive
    elif ezone and ezone != tzname:
      end_val = aware(end_naive).astimezone(moment.tzinfo(ezone)); ekind += '(other-zone)'
    else:
      end_val = aware(end_naive)

  # expected
  other_zone = isinstance(end_val, _dtm.datetime) and end_val.tzinfo is not None and end_val.tzinfo is not tzi

  def after_end(t):
    if end_val is None:
      return False
    return (aware(t) > end_val) if other_zone else (t > end_naive)

  exp = []
  cut_by_end = False
  for t in occ:
    if len(exp) >= ceff:
      break
    if after_end(t):
      cut_by_end = True
      break
    exp.append(t)

  if skind == 'date':
    start_val = start.date()
  elif skind == 'str':
    start_val = start.isoformat(' ')
  elif zname is None:
    start_val = start
  else:
    start_val = aware(start)
  kwargs = {'start': start_val}
  if count is not None:
    kwargs['count'] = count
  if end_val is not None:
    kwargs['end'] = end_val
  concrete = 'SCHEDULE(%r, %s)' % (sched, ', '.join('%s=%r' % (k, kwargs[k]) for k in sorted(kwargs)))
  out['concrete'] = concrete
  status, got = call_schedule(sched, kwargs, ceff + 5)

  out.cls('valid', 'unit:' + unit, 'interval:' + ikind, 'n:1' if n == 1 else 'n:>1', 'slots:%d' % len(slots),
          'tz:' + (zname or 'document-default'), 'start-as:' + skind, ekind,
          'count:' + ('default' if count is None else '0' if count == 0 else 'n'))
  for t in sorted(tags):
    out.cls(t)
  if discarded:
    out.cls('start-discards-candidates')
  if cut_by_end:
    out.cls('end-cuts-series')
  if zname and window_has_transition(tzname, first_b, last_b):
    out.cls('zoned:window-has-dst-transition')
  out['nontrivial'] = bool(exp) and (discarded > 0 or cut_by_end)

  detail = {'schedule': sched, 'call': concrete, 'expected': [t.isoformat(' ') for t in exp]}
  if status == 'hang':
    return out.fail('C35:no-termination', '%s did not finish in 20 s' % concrete, detail)
  if status == 'exc':
    return out.fail('C35:valid-schedule-raised', '%s raised %r' % (concrete, got), detail)
  detail['got'] = [g.isoformat(' ') if isinstance(g, _dtm.datetime) else repr(g) for g in got]
  if not all(isinstance(g, _dtm.datetime) for g in got):
    return out.fail('C35:not-datetimes', '%s returned non-datetime values' % concrete, detail)
  gn = [g.replace(tzinfo=None) for g in got]
  if gn != exp:
    if any(g < start for g in gn):
      sig = 'before-start'
    elif any(after_end(g) for g in gn):
      sig = 'after-end'
    elif len(gn) > ceff:
      sig = 'more-than-count'
    elif any(b <= a for a, b in zip(gn, gn[1:])):
      sig = 'not-increasing'
    elif gn == exp[:len(gn)]:
      sig = 'stops-early'
    elif set(gn) <= set(occ) | set(exp):
      sig = 'skips-occurrence'
    else:
      sig = 'not-a-scheduled-time'
    return out.fail('C35:' + sig, '%s: expected %s got %s' % (concrete, detail['expected'][:4], detail['got'][:4]), detail)
  for g in got:
    z = getattr(g.tzinfo, 'zone', None)
    if z is None or z.name != tzname:
      return out.fail('C35:wrong-timezone', '%s: result carries tzinfo %r, expected zone %s' % (concrete, g.tzinfo, tzname),
                      detail)
  return out


# ---------------------------------------------------------------------------
# Invalid strings

BAD_INTERVALS = ['1y', '1Year', '1-daily', '3-fortnight', 'yearly', '-1-day', '1.5-day', 'day', '2-', 'two-day', '',
                 '1-', '3_day', 'every day', '1-day-2', 'week', '2weeks', '1-d', 'biweekly', '+1-day', '3-days!', '0-day', '0-week', '00-hour', '0-month']
BAD_TOKENS = ['9', 'H1', '/1d', 'Feb:1', '+d', '+1', '1+d', '10:5', '10:5am', ':5', ':123', '++1d', '+1.5d', '@noon',
              'Jan-', '-15', '/', 'Mon!', '+1t', '+1h', '+1D', '+1x', '+1Y', '+1W', '9am!', '9 am'.replace(' ', '_'),
              '1/2/3', '9:00:00', '+-1d', '1e3', '9:3pm', 'am9']
WRONG_TYPE = {   # slot of a type the docstring reserves for another interval unit
  'years': ['/15', 'Mon', ':30'], 'months': ['Jan-15', '1/15', 'Mon', ':30'], 'weeks': ['Jan-15', '1/15', '/15', ':30'],
  'days': ['Jan-15', '1/15', '/15', 'Mon', ':30'], 'hours': ['Jan-15', '4/15', '/15', 'Mon'],
  'minutes': ['Jan-15', '/15', 'Mon', '10am', '15:45', ':30'], 'seconds': ['1/15', '/15', 'Fri', '1:30pm', ':45'],
}
DUPLICATES = {
  'years': ['Feb-1 +1m', 'Feb-1 +3d', '2/1 12:30pm +20M', '+1d +2d', '9:30am +2H', '+1y +2y'],
  'months': ['/15 +1d', '+1m +2m', '/3 9am +1H', '+1S +2S'], 'weeks': ['Mon +1d', '+1d +2d', 'Tu 9:30am +2H', '+1w +1w'],
  'days': ['9:30am +2H', '1:15pm +5M', '+1d +1d'], 'hours': [':30 +5M', '+1H +2H', '+1M :15'], 'minutes': ['+1M +2M', '+5S +5S'],
  'seconds': ['+1S +2S'],
}
UNKNOWN_NAMES = {'years': ['februarium-1', 'Janu-15', 'x-1', 'sept-1'], 'weeks': ['snu', 'Monx', 'm', 'weds', 'noon', 'am']}
FIXED_START = _dtm.datetime(2018, 9, 4, 14, 0)


def invalid_string(case):
  kind = case.get('kind')
  a, b = abs(_int(case.get('a'))), abs(_int(case.get('b')))
  unit = UNITS[a % len(UNITS)]
  n = 1 + b % 4
  good = {'years': 'Mar-5', 'months': '/7', 'weeks': 'Tu', 'days': '9am', 'hours': ':20', 'minutes': '+1M',
          'seconds': '+0S'}[unit]
  head = '%d-%s' % (n, SINGULAR[unit])
  if kind == 'nocolon':
    text = case.get('text') if isinstance(case.get('text'), str) else ''
    return text.replace(':', ';'), 'invalid:no-colon'
  if kind == 'bad-interval':
    return '%s: %s' % (BAD_INTERVALS[b % len(BAD_INTERVALS)], good), 'invalid:bad-interval'
  if kind == 'bad-token':
    tok = BAD_TOKENS[b % len(BAD_TOKENS)]
    pos = (b // len(BAD_TOKENS)) % 3
    slots = [good, tok] if pos == 0 else [tok, good] if pos == 1 else [good + ' ' + tok]
    return '%s: %s' % (head, ', '.join(slots)), 'invalid:bad-slot-syntax'
  if kind == 'garbage-slot':
    text = case.get('text') if isinstance(case.get('text'), str) else ''
    text = ''.join(ch for ch in text if ch not in ',: \t\n\r\x0b\x0c') or '?'
    # a token containing a character that no documented slot form uses
    if all(ch.isalnum() or ch in '+-/' for ch in text):
      text += '?'
    return '%s: %s, %s' % (head, good, text), 'invalid:garbage-slot'
  if kind == 'wrong-type':
    opts = WRONG_TYPE[unit]
    return '%s: %s' % (head, opts[b % len(opts)]), 'invalid:slot-type-not-for-unit'
  if kind == 'duplicate':
    opts = DUPLICATES[unit]
    return '%s: %s' % (head, opts[b % len(opts)]), 'invalid:duplicate-unit'
  if kind == 'empty-slot':
    forms = ['%s: %s,', '%s:', '%s: %s,,%s', '%s: , %s', '%s:   ', '%s: %s, ,']
    f = forms[b % len(forms)]
    return f % ((head,) + (good,) * (f.count('%s') - 1)), 'invalid:empty-slot'
  if kind == 'unknown-name':
    u = 'years' if b % 2 else 'weeks'
    opts = UNKNOWN_NAMES[u]
    return '%d-%s: %s' % (n, SINGULAR[u], opts[(b // 2) % len(opts)]), 'invalid:unknown-name'
  return None, None


def run_invalid(case):
  out = Outcome()
  s, label = invalid_string(case)
  if s is None:
    out['skipped'] = True
    return out
  out.cls('invalid', label)
  out['concrete'] = 'SCHEDULE(%r, start=%r, count=3)' % (s, FIXED_START)
  out['nontrivial'] = ':' in s
  status, got = call_schedule(s, {'start': FIXED_START, 'count': 3}, 4)
  detail = {'schedule': s, 'kind': label}
  if status == 'hang':
    return out.fail('C35:no-termination', '%s did not finish' % out['concrete'], detail)
  if status == 'ok':
    detail['got'] = [repr(g) for g in got]
    return out.fail('C35:invalid-accepted:' + label.split(':')[1],
                    'invalid schedule %r accepted, returned %s' % (s, detail['got'][:2]), detail)
  if not isinstance(got, ValueError):
    return out.fail('C35:invalid-wrong-exception', 'invalid schedule %r raised %r, not ValueError' % (s, got), detail)
  return out


DOC_EXAMPLES = [
  ('annual-names', 'annual: Jan-15, Apr-15, Jul-15'), ('annual-numeric', 'annual: 1/15, 4/15, 7/15'),
  ('monthly-mday-time', 'monthly: /1 2pm, /15 2pm'), ('3-months', '3-months: /10, +1m /20'),
  ('weekly', 'weekly: Mo 9am, Tu 9am, Fr 2pm'), ('2-weeks', '2-weeks: Mo, +1w Tu'), ('daily', 'daily: 07:30, 21:00'),
  ('2-day', '2-day: 12am, 4pm, +1d 8am'), ('hourly', 'hourly: :15, :45'),
  ('4-hour-time-of-day-slots', '4-hour: :00, 1:20, 2:40'), ('10-minute-lowercase-s-delta', '10-minute: +0s'),
]


def run_doc(case):
  out = Outcome()
  i = abs(_int(case.get('i'))) % len(DOC_EXAMPLES)
  slug, s = DOC_EXAMPLES[i]
  out.cls('docstring-example')
  if slug == '4-hour-time-of-day-slots':
    # the same docstring says time-of-day slots are "available for day-based or longer intervals": the text
    # contradicts this example, so neither acceptance nor rejection is demanded
    out.cls('docstring-example:self-contradictory(not-checked)')
    out['skipped'] = True
    return out
  out['concrete'] = 'SCHEDULE(%r, start=%r, count=4)' % (s, FIXED_START)
  status, got = call_schedule(s, {'start': FIXED_START, 'count': 4}, 6)
  if status == 'hang':
    return out.fail('C35:no-termination', '%s did not finish' % out['concrete'])
  if status == 'exc':
    return out.fail('C35:doc-example-rejected:' + slug,
                    'schedule %r given as an example of the format in the SCHEDULE docstring raises %r' % (s, got),
                    {'schedule': s})
  if len(got) != 4 or any(b <= a for a, b in zip(got, got[1:])) or got[0] < FIXED_START.replace(tzinfo=got[0].tzinfo):
    return out.fail('C35:doc-example-wrong:' + slug, '%s returned %r' % (out['concrete'], got), {'schedule': s})
  return out


def run_case(case):
  k = case.get('k')
  if k == 'invalid':
    return run_invalid(case)
  if k == 'doc':
    return run_doc(case)
  if k == 'valid':
    return run_valid(case)
  out = Outcome()
  out['skipped'] = True
  return out


def enumerate_cases(tier):
  for i in range(len(DOC_EXAMPLES)):
    yield {'k': 'doc', 'i': i}
  # every listed invalid form once (the generated part revisits them with varying units)
  for kind, m in (('bad-interval', len(BAD_INTERVALS)), ('bad-token', 3 * len(BAD_TOKENS)), ('empty-slot', 6),
                  ('unknown-name', 12)):
    for a in range(len(UNITS)):
      for b in range(m):
        yield {'k': 'invalid', 'kind': kind, 'a': a, 'b': b}
  for kind in ('wrong-type', 'duplicate'):
    for a in range(len(UNITS)):
      for b in range(7):
        yield {'k': 'invalid', 'kind': kind, 'a': a, 'b': b}


SPECIAL_STARTS = [
  [2018, 9, 4, 14, 0, 0, 0], [2018, 1, 1, 0, 0, 0, 0], [2017, 12, 31, 23, 59, 59, 999999], [2020, 2, 29, 12, 0, 0, 0],
  [2019, 2, 28, 23, 59, 59, 0], [2018, 3, 11, 1, 30, 0, 0], [2018, 3, 11, 2, 30, 0, 0], [2018, 11, 4, 1, 30, 0, 0],
  [2018, 9, 2, 0, 0, 0, 0], [2018, 9, 1, 23, 59, 59, 999999], [2021, 1, 31, 0, 0, 0, 0], [2100, 12, 31, 23, 0, 0, 0],
  [1901, 1, 1, 0, 0, 0, 0], [2011, 12, 29, 12, 0, 0, 0], [2019, 10, 6, 1, 45, 0, 0], [2018, 11, 3, 23, 30, 0, 0]]
DELTAS = [0, 0, 0, 1, -1, US, -US]
SPAN_SECS = (_dtm.date(2101, 1, 1).toordinal() - _dtm.date(1901, 1, 1).toordinal()) * 86400


def decode_valid(t):
  """few cheap draws -> the readable case consumed by run_valid (keeps Hypothesis generation fast)"""
  unit, n, sel, raw_slots, secs, count, enda = t
  c = Style(sel)
  nmode = c.pick(3)
  n = 1 if nmode == 0 else 1 + (n - 1) % 6 if nmode == 1 else n
  tzsel = c.pick(len(ZONES) + 2)
  sk = c.pick(10)
  if c.pick(4) == 0:
    start = list(SPECIAL_STARTS[secs % len(SPECIAL_STARTS)])
  else:
    if c.pick(4):      # spread the (small-biased) draw over the whole range; keep some near the lower edge
      secs = (secs * 1000003 + 12345) % SPAN_SECS
    o, sod = divmod(secs, 86400)
    d = _dtm.date.fromordinal(_dtm.date(1901, 1, 1).toordinal() + o)
    start = [d.year, d.month, d.day, sod // 3600, sod // 60 % 60, sod % 60, 0 if c.pick(3) else (secs * 7919) % US]
  sm = c.pick(4)
  snap = None if sm < 2 else ['occ' if sm == 2 else 'bound', c.pick(8), DELTAS[c.pick(7)]]
  em = c.pick(5)
  end = None if em < 2 else ['occ', enda % 31, DELTAS[c.pick(7)]] if em < 4 else ['rel', enda - 86400, 0]
  etz = ZONES[c.pick(len(ZONES))] if c.pick(3) == 0 else None
  slots = []
  for maj, off, sst in raw_slots:
    q = sst % 4
    off = off if q == 0 else off - off % 900 if q == 1 else off - off % 3600 if q == 2 else off - off % 86400
    slots.append({'maj': maj, 'off': off, 'st': sst // 4})
  return {'k': 'valid', 'unit': unit, 'n': n, 'ist': c.n, 'slots': slots, 'start': start,
          'tz': None if tzsel < 2 else ZONES[tzsel - 2], 'skind': 'date' if sk == 0 else 'str' if sk == 1 else 'dt',
          'snap': snap, 'count': None if count == 26 else 1 + count % 6 if count > 26 else (count * 7 + 3) % 26,
          'end': end, 'etz': etz}


def strategy(tier):
  big = st.integers(0, 2 ** 60)
  slot = st.tuples(st.integers(0, 400), st.integers(0, 45 * 86400), st.integers(0, 2 ** 40))
  valid = st.tuples(st.sampled_from(UNITS), st.integers(1, 180), big, st.lists(slot, min_size=1, max_size=5),
                    st.integers(0, SPAN_SECS - 1), st.integers(0, 40), st.integers(0, 401 * 86400)).map(decode_valid)
  invalid = st.fixed_dictionaries({
    'k': st.just('invalid'),
    'kind': st.sampled_from(['nocolon', 'bad-interval', 'bad-token', 'garbage-slot', 'wrong-type', 'duplicate',
                             'empty-slot', 'unknown-name']),
    'a': st.integers(0, 6), 'b': st.integers(0, 500),
    'text': st.one_of(st.text(max_size=12), st.sampled_from(
      ['daily 9am', 'weekly Mo 9am', '3-month /10', 'garbage', '', 'annual; Jan-15', 'hourly']))})
  return st.one_of(valid, valid, valid, valid, valid, valid, valid, invalid)
