"""C13 Lookups return exactly the matching rows in documented order.

A looked-up table Src (typed key columns, homogeneous sort columns, explicit manualSort) and a table Probe
whose formula columns call Src.lookupRecords / Src.lookupOne; Src (and the probe keys) are then edited by a
generated history and every lookup cell is compared with a naive filter + sort after every bundle.
"""
from hypothesis import strategies as st
from ..runner import Outcome
from ..doc import Doc
from .. import lkref as R

ID = 'C13'
LEVEL = 'exploration'
TECHNIQUE = 'stateful property-based testing against a naive reference (filter + comparator sort)'
RULE = ('case = rows of table Src (key columns Text/Int/Numeric/Bool/Date/Choice/Ref/ChoiceList/RefList with '
        'right-type, alt-text and empty cells from small colliding pools; sort columns Numeric/Text/Int; explicit '
        'manualSort) + rows of Probe (typed key source columns) + 1-6 lookups (lookupRecords/lookupOne over 0-2 key '
        'columns, constant or per-row $col keys incl. cross-type keys, CONTAINS with/without match_empty on the list '
        'columns, order_by absent/None/str/-str/tuple/with id/-id/manualSort, legacy sort_by; one looked-up column is '
        'a formula column of Src) + up to 8 edit bundles on Src (key edits, sort edits, bulk edits, add, remove, '
        'manualSort moves, key-column type changes, remove + re-add of the same row id, ReplaceTableData, undo of the '
        'previous bundle) and on the probe keys. The oracle runs after the build and after EVERY bundle. '
        'Non-trivial = a judged lookup with >=2 matches or an explicit order_by/sort_by that was judged again after '
        '>=1 successful edit of Src; distinct by hash of the case.')
ORACLE = ('reference over fetch_table(Src)/fetch_table(Probe) values (gv/lkref.py, written from the docstrings): key '
          'converted by the type of the looked-up column, row matches when every key equals the cell (CONTAINS: cell '
          'is a container holding the key, an empty container matches only key == match_empty), rows ordered by the '
          'order_by columns (descending for "-"), then manualSort unless "id" was given, then row id; sort_by: its '
          'column then row id; lookupOne = first row or the empty record. The formula cell must equal '
          '["r","Src",ids] / ["R","Src",id].')
ASSUMPTIONS = ['preconditions of the statement: every column named in order_by/sort_by holds mutually comparable '
               'values (all numbers or all strings) - checked on the live data at every step, otherwise that lookup is '
               'not judged at that step; class "sort:with-none" additionally allows None using the rule commented in '
               'sort_key.py (None is less than everything else); no NaN anywhere',
               'equality lookups on RefList columns are not generated (RecordSet keys are unhashable; only CONTAINS is '
               'documented for list columns); CONTAINS is generated only on ChoiceList/RefList columns',
               'keys whose conversion is not covered by the type documentation (fractional number to Int, float to '
               'Ref, ISO text to Date, ...) are not judged (label unjudged:*)',
               'Date cells are whole-day timestamps; Ref/RefList target an existing table (Tgt, 3 rows)',
               'a bundle that the engine rejects ends the case (known: formula cells stay dirty after a failed bundle)',
               'root-cause attribution: ghost rows after ReplaceTableData and lookups not re-evaluated after a type '
               'change of their key column (key converts differently, cell unchanged since the previous check) are '
               'reported under their own signatures (known_findings.d/C13.json); any other difference keeps a generic one']
BUDGET = {'quick': dict(examples=2000, shards=16, max_seconds=50),
          'thorough': dict(examples=32000, shards=16, max_seconds=1800)}
SHRINK_BUDGET = {'quick': 120, 'thorough': 400}

KEYCOLS = [('KT', 'Text'), ('KI', 'Int'), ('KN', 'Numeric'), ('KB', 'Bool'), ('KD', 'Date'), ('KC', 'Choice'),
           ('KR', 'Ref:Tgt'), ('KL', 'ChoiceList'), ('KM', 'RefList:Tgt')]
SORTCOLS = [('SA', 'Numeric'), ('SB', 'Text'), ('SI', 'Int')]
SRC_COLS = KEYCOLS + SORTCOLS             # data columns
KF_FORMULA = "($KT or '').upper() + ($KC or '')"
LOOKUP_COLS = KEYCOLS + [('KF', 'Text')]  # KF is a formula column of Src: lookups of computed values
PROBECOLS = [('PT', 'Text'), ('PI', 'Int'), ('PN', 'Numeric'), ('PB', 'Bool'), ('PD', 'Date'), ('PC', 'Choice'),
             ('PR', 'Ref:Tgt'), ('PL', 'ChoiceList')]

# cell pools (JSON; lists are ChoiceList/RefList contents, 'L' is added when sent)
POOL = {
  'Text': ['a', 'b', '', None, 'A', '1', '2'],
  'Int': [1, 2, 0, None, 'abc', 'x'],
  'Numeric': [1.0, 2.0, 0.0, 1.5, None, 'abc', 'x'],
  'Bool': [True, False, 'maybe', None],
  'Date': [86400.0, 172800.0, 0.0, None, 'foo'],
  'Choice': ['a', 'b', '', None],
  'Ref': [1, 2, 0, 3, 'bad'],
  'ChoiceList': [['a'], ['a', 'b'], None, ['b', 'a'], ['b'], ['c', 'a', 'a'], 'alt'],
  'RefList': [[1], [1, 2], None, [2, 1], [3], 'alt'],
}
SORT_POOL = {'SA': [1.0, 2.0, 3.0, -1.5], 'SB': ['a', 'b', 'B', ''], 'SI': [1, 0, 2]}
MS_POOL = [1.0, 2.0, 3.0, 4.0, 5.0, 6.0, 7.0, 8.0, 0.5, 2.5]

# constant keys per looked-up column type (python literals in the formula)
CONST = {
  'Text': ['a', 'b', '', None, 1, 2.0, 'A', 'Aa', 'B'],
  'Int': [1, 2, 0, None, '2', 'abc', 2.0, True, ''],
  'Numeric': [1.0, 1.5, 2, None, '1.5', 'abc', '', 0],
  'Bool': [True, False, None, 1, 0, 'yes', 'maybe', 'no'],
  'Date': [86400.0, 172800, None, 0],
  'Choice': ['a', 'b', '', None],
  'Ref': [1, 2, 0, None, 'bad', 3],
  'ChoiceList': [['a', 'b'], ['a'], None, [], 'alt', ['b', 'a']],
}
CONTAINS_CONST = {'ChoiceList': ['a', 'b', '', 'c', 'zz'], 'RefList': [1, 2, 0, 3]}
MATCH_EMPTY = {'ChoiceList': ['', 'a', None, 0], 'RefList': [0, 1, None, '']}
# per-row key sources: probe columns whose values the documented conversions cover
KEY_SOURCES = {
  'Text': ['PT', 'PC', 'PI', 'PN'], 'Int': ['PI', 'PT', 'PN'], 'Numeric': ['PN', 'PI', 'PT'], 'Bool': ['PB', 'PT', 'PI'],
  'Date': ['PD'], 'Choice': ['PC', 'PT'], 'Ref': ['PR', 'PI'], 'ChoiceList': ['PL'],
}
CONTAINS_SOURCES = {'ChoiceList': ['PT', 'PC'], 'RefList': ['PR', 'PI']}
SORTABLE = ['SA', 'SB', 'SI', 'manualSort']
RETYPE = {'KT': ['Int', 'Numeric', 'Choice'], 'KI': ['Text', 'Numeric'], 'KN': ['Int', 'Text'], 'KB': ['Int', 'Text'],
          'KD': ['Numeric'], 'KC': ['Text'], 'KR': ['Int'], 'KL': ['Text'], 'KM': ['Text']}


def g(lst, i, default=0):
  try:
    v = lst[i]
  except (IndexError, TypeError, KeyError):
    return default
  return v


def gi(lst, i):
  v = g(lst, i)
  return abs(int(v)) if isinstance(v, (int, float)) and not isinstance(v, bool) and v == v and abs(v) < 1e9 else 0


def pick(pool, sel):
  return pool[sel % len(pool)]


def enc(v):
  return ['L'] + v if isinstance(v, list) else v


def src_cell(col, ctype, sel, with_none):
  if col in SORT_POOL:
    pool = SORT_POOL[col] + ([None] if with_none else [])
    return pick(pool, sel)
  return enc(pick(POOL[R.pure(ctype)], sel))


# ---------------------------------------------------------------------------
# strategy

def strategy(tier):
  sel = st.integers(0, 11)
  row = st.lists(sel, min_size=len(SRC_COLS) + 1, max_size=len(SRC_COLS) + 1)
  prow = st.lists(sel, min_size=len(PROBECOLS), max_size=len(PROBECOLS))
  keyspec = st.tuples(st.integers(0, len(LOOKUP_COLS) - 1), st.integers(0, 2), sel, st.booleans(), st.integers(0, 5)).map(list)
  order = st.tuples(st.sampled_from([0, 1, 2, 2, 3, 3, 4, 5, 6, 7, 8]), st.lists(st.tuples(st.integers(0, 3), st.booleans()).map(list), min_size=1, max_size=3),
                    st.booleans()).map(list)
  lookup = st.fixed_dictionaries({'one': st.booleans(), 'keys': st.one_of(st.lists(keyspec, min_size=1, max_size=2), st.lists(keyspec, min_size=0, max_size=2)),
                                  'ord': order})
  op = st.tuples(st.sampled_from(list(range(14))), sel, sel, sel, st.lists(sel, min_size=0, max_size=len(SRC_COLS))).map(list)
  bundle = st.lists(op, min_size=1, max_size=3)
  return st.fixed_dictionaries({
    'cls': st.integers(0, 2),
    'rows': st.lists(row, min_size=0, max_size=8),
    'prows': st.lists(prow, min_size=1, max_size=3),
    'lk': st.lists(lookup, min_size=1, max_size=6),
    'edits': st.lists(bundle, min_size=1, max_size=8),
  })


# ---------------------------------------------------------------------------
# building the document

def order_of(ord_spec):
  """-> (reference order form, formula argument text or None, label)"""
  kind = gi(ord_spec, 0) % 9
  cols = []
  for c in (g(ord_spec, 1, []) or [[0, False]])[:3]:
    name = SORTABLE[gi(c, 0) % len(SORTABLE)]
    cols.append(('-' if g(c, 1, False) is True else '') + name)
  flag = g(ord_spec, 2, False) is True
  if kind == 0:
    return ['default'], None, 'order:absent'
  if kind == 1:
    return ['order_by', None], 'order_by=None', 'order:None'
  if kind == 2:
    return ['order_by', cols[0]], 'order_by=%r' % cols[0], 'order:str' + ('-desc' if cols[0][0] == '-' else '')
  if kind in (3, 4):
    seen, tup = set(), []
    for c in cols:
      if c.lstrip('-') not in seen:
        seen.add(c.lstrip('-')); tup.append(c)
    if flag:
      tup.append('id')
    return ['order_by', tup], 'order_by=%r' % (tuple(tup),), 'order:tuple%d%s' % (len(tup), '+id' if flag else '')
  if kind in (5, 6):
    return ['sort_by', cols[0]], 'sort_by=%r' % cols[0], 'order:sort_by' + ('-desc' if cols[0][0] == '-' else '')
  if kind == 7:
    return ['order_by', 'id'], "order_by='id'", 'order:id'
  return ['order_by', '-id'], "order_by='-id'", 'order:-id'


def build_lookup(spec):
  """-> dict(formula, one, conds=[(col, mode, src, has_me, me)], order, labels)"""
  conds, args, labels, used = [], [], [], set()
  for ks in (g(spec, 'keys', []) or [])[:2]:
    col, ctype = LOOKUP_COLS[gi(ks, 0) % len(LOOKUP_COLS)]
    if col in used:
      continue
    used.add(col)
    p = R.pure(ctype)
    srckind, sel = gi(ks, 1) % 3, gi(ks, 2)
    contains = p == 'RefList' or (p == 'ChoiceList' and g(ks, 3, False) is True)
    if contains:
      if srckind == 0:
        src = ['const', pick(CONTAINS_CONST[p], sel)]
      else:
        src = ['col', pick(CONTAINS_SOURCES[p], sel)]
      me_sel = gi(ks, 4) % 6
      has_me = me_sel < 4
      me = pick(MATCH_EMPTY[p], me_sel) if has_me else None
      text = repr(src[1]) if src[0] == 'const' else '$' + src[1]
      args.append('%s=CONTAINS(%s%s)' % (col, text, ', match_empty=%r' % (me,) if has_me else ''))
      conds.append((col, 'contains', src, has_me, me))
      labels += ['key:CONTAINS:' + p, 'match_empty' if has_me else 'no-match_empty']
    else:
      if srckind == 0:
        src = ['const', pick(CONST[p], sel)]
      else:
        src = ['col', pick(KEY_SOURCES[p], sel)]
      text = repr(src[1]) if src[0] == 'const' else '$' + src[1]
      args.append('%s=%s' % (col, text))
      conds.append((col, 'eq', src, False, None))
      labels.append('key:eq:' + (p if col != 'KF' else 'formula-column'))
    labels.append('key-src:' + ('const' if src[0] == 'const' else 'per-row'))
  order, otext, olabel = order_of(g(spec, 'ord', [0]))
  if otext:
    args.append(otext)
  labels.append(olabel)
  one = g(spec, 'one', False) is True
  labels.append('lookupOne' if one else 'lookupRecords')
  labels.append('keys:%d' % len(conds))
  return dict(formula='Src.%s(%s)' % ('lookupOne' if one else 'lookupRecords', ', '.join(args)),
              one=one, conds=conds, order=order, labels=labels)


# ---------------------------------------------------------------------------
# edits -> user actions

def resolve_edits(d, bundle, with_none, last_undo=None):
  """One generated bundle -> (user actions, abstract kinds)."""
  uas, kinds = [], []
  if bundle and gi(bundle[0], 0) % 14 == 12:                    # undo the previous bundle (as the client would)
    if last_undo:
      return [['ApplyUndoActions', last_undo]], ['undo']
    return [], []
  rows = d.row_ids('Src')
  prows = d.row_ids('Probe')
  live = list(rows)
  for op in bundle[:3]:
    k = gi(op, 0) % 14
    a, b, c, vals = gi(op, 1), gi(op, 2), gi(op, 3), g(op, 4, []) or []
    if k in (0, 1) and live:                                   # key edit
      col, ctype = KEYCOLS[b % len(KEYCOLS)]
      uas.append(['UpdateRecord', 'Src', live[a % len(live)], {col: src_cell(col, ctype, c, with_none)}])
      kinds.append('key-edit')
    elif k == 2 and live:                                      # sort-column edit
      col, ctype = SORTCOLS[b % len(SORTCOLS)]
      uas.append(['UpdateRecord', 'Src', live[a % len(live)], {col: src_cell(col, ctype, c, with_none)}])
      kinds.append('sort-edit')
    elif k == 3 and live:                                      # bulk edit of a key and a sort column
      n = 1 + a % len(live)
      ids = [live[(c + i) % len(live)] for i in range(n)]
      ids = sorted(set(ids))
      col, ctype = KEYCOLS[b % len(KEYCOLS)]
      scol, stype = SORTCOLS[c % len(SORTCOLS)]
      uas.append(['BulkUpdateRecord', 'Src', ids, {
        col: [src_cell(col, ctype, gi(vals, i), with_none) for i in range(len(ids))],
        scol: [src_cell(scol, stype, gi(vals, i + 3), with_none) for i in range(len(ids))]}])
      kinds.append('bulk-edit')
    elif k in (4, 5) and len(live) < 10:                        # add a row
      values = {col: src_cell(col, ctype, gi(vals, i), with_none) for i, (col, ctype) in enumerate(SRC_COLS)}
      if a % 3:
        values['manualSort'] = pick(MS_POOL, b)
      uas.append(['AddRecord', 'Src', None, values])
      kinds.append('add')
      break                                                    # new id unknown to later ops of this bundle
    elif k == 6 and live:                                      # remove
      rid = live[a % len(live)]
      uas.append(['RemoveRecord', 'Src', rid])
      live.remove(rid)
      kinds.append('remove')
    elif k == 7 and live:                                      # move
      uas.append(['UpdateRecord', 'Src', live[a % len(live)], {'manualSort': pick(MS_POOL, b)}])
      kinds.append('move')
    elif k == 8:                                               # type change of a key column
      col = KEYCOLS[a % len(KEYCOLS)][0]
      uas.append(['ModifyColumn', 'Src', col, {'type': pick(RETYPE[col], b)}])
      kinds.append('retype')
    elif k == 9 and live:                                      # remove and re-add the same row id
      rid = live[a % len(live)]
      values = {col: src_cell(col, ctype, gi(vals, i), with_none) for i, (col, ctype) in enumerate(SRC_COLS)}
      if b % 2:
        values['manualSort'] = pick(MS_POOL, c)
      uas.append(['RemoveRecord', 'Src', rid])
      uas.append(['AddRecord', 'Src', rid, values])
      kinds.append('readd')
    elif k == 13:                                              # replace the whole table (as an import does)
      n = a % 5
      ids = [1 + ((b + 2 * i) % 9) for i in range(n)]
      ids = sorted(set(ids))
      values = {col: [src_cell(col, ctype, gi(vals, i + j), with_none) for j in range(len(ids))]
                for i, (col, ctype) in enumerate(SRC_COLS)}
      values['manualSort'] = [pick(MS_POOL, c + j) for j in range(len(ids))]
      return [['ReplaceTableData', 'Src', ids, values]], ['replace']
    elif k in (10, 11) and prows:                               # probe key edit
      col, ctype = PROBECOLS[b % len(PROBECOLS)]
      uas.append(['UpdateRecord', 'Probe', prows[a % len(prows)], {col: enc(pick(POOL[R.pure(ctype)], c))}])
      kinds.append('probe-edit')
  return uas, kinds


# ---------------------------------------------------------------------------
# oracle

def column_types(d, table_id):
  tref = [t['id'] for t in d.tables_meta() if t['tableId'] == table_id]
  types = {c['colId']: c['type'] for c in d.columns_meta() if tref and c['parentId'] == tref[0]}
  return types


class Checker(object):
  def __init__(self, d, lookups, out, with_none):
    self.d = d; self.lookups = lookups; self.out = out; self.with_none = with_none
    self.src_types = column_types(d, 'Src')
    self.probe_types = dict(PROBECOLS)
    self.judged_nontrivial = set()      # lookup indices judged with >=2 matches or explicit order
    self.judged_after_edit = set()
    self.last_edit = None
    self.replaced = False               # a ReplaceTableData was applied to Src at some point
    self.type_history = {c: [t] for c, t in self.src_types.items()}
    self.prev = {}                      # (lookup index, probe row index) -> cell seen at the previous check

  def refresh_types(self):
    self.src_types = column_types(self.d, 'Src')
    for c, t in self.src_types.items():
      h = self.type_history.setdefault(c, [])
      if not h or h[-1] != t:
        h.append(t)

  def check(self, stage, after_src_edit):
    """Compares every lookup cell with the reference. Returns True when a failure was recorded."""
    out = self.out
    srep = self.d.fetch_repr('Src')
    prep = self.d.fetch_repr('Probe')
    prev, self.prev = self.prev, {}
    for i in range(len(self.lookups)):
      for pi, cell in enumerate(prep[3].get('L%d' % i) or []):
        self.prev[(i, pi)] = cell
    self.before = prev
    types = dict(self.src_types)
    rows, bad = R.table_rows(srep, types)
    prows, pbad = R.table_rows(prep, self.probe_types)
    has_ms = 'manualSort' in srep[3]
    for i, lk in enumerate(self.lookups):
      cells = prep[3].get('L%d' % i)
      if cells is None:
        continue
      # preconditions on sort columns (statement: "whenever sort values are mutually comparable")
      spec = R.sort_spec(lk['order'], has_ms)
      skip = None
      for col, _sign in spec:
        if col == 'id':
          continue
        if col in bad:
          skip = 'unjudged:sort-column-out-of-model'
          break
        if col not in types:
          skip = 'unjudged:sort-column-missing'
          break
        cl = R.classify_values([r[col] for r in rows])
        if cl in ('num', 'str', 'empty'):
          continue
        if cl in ('num+none', 'str+none', 'none') and self.with_none:
          out.cls('sort:none-present')
          continue
        skip = 'unjudged:sort-values-not-comparable'
        break
      if skip:
        out.cls(skip)
        continue
      if any(c[0] in bad for c in lk['conds']):
        out.cls('unjudged:key-column-out-of-model')
        continue
      for pi, prow in enumerate(prows):
        try:
          exp_ids = self.expected(lk, rows, prow, types, spec, pbad)
        except R.OutOfModel as e:
          out.cls('unjudged:' + str(e).split(' for ')[0][:40])
          continue
        got = cells[pi]
        if lk['one']:
          exp = ['R', 'Src', exp_ids[0] if exp_ids else 0]
        else:
          exp = ['r', 'Src', exp_ids]
        if len(exp_ids) >= 2:
          out.cls('matches>=2')
        if len(exp_ids) >= 2 or lk['order'][0] != 'default':
          self.judged_nontrivial.add(i)
          if after_src_edit:
            self.judged_after_edit.add(i)
        if got != exp:
          self.report(i, lk, pi, prow, got, exp, stage, rows, spec)
          return True
    return False

  def expected(self, lk, rows, prow, types, spec, pbad):
    conds = []
    for col, mode, src, has_me, me in lk['conds']:
      if src[0] == 'const':
        key = R.literal(src[1])
      else:
        if src[1] in pbad:
          raise R.OutOfModel('probe cell')
        key = prow[src[1]]
      if mode == 'eq':
        key = R.convert_key(types[col], key)
        conds.append((col, mode, key, False, None))
      else:
        conds.append((col, mode, key, has_me, R.literal(me) if has_me else None))
    matched = []
    for r in rows:
      ok = True
      for col, mode, key, has_me, me in conds:
        cell = r[col]
        if mode == 'eq':
          ok = R.eq_rich(key, cell)
        else:
          ok = R.contains_match(cell, key, has_me, me)
        if not ok:
          break
      if ok:
        matched.append(r)
    if len(matched) >= 2 and spec:
      # label: the order had to fall back to manualSort / row id
      first = [R.row_value(matched[0], c) for c, _ in spec if c != 'manualSort']
      if any([R.row_value(m, c) for c, _ in spec if c != 'manualSort'] == first for m in matched[1:]):
        self.out.cls('ties-in-order-columns')
    return [r['id'] for r in R.ordered(matched, spec)]

  def report(self, i, lk, pi, prow, got, exp, stage, rows, spec):
    out = self.out
    modes = '+'.join(sorted(set('%s-%s' % (m, R.pure(self.src_types.get(c, '?'))) for c, m, _, _, _ in lk['conds']))) or 'all'
    # root cause attribution: the key was converted by the key column's OLD type and the formula is not
    # evaluated again when only the column's type changes (no dependency on the type)
    reconv = []
    for col, mode, src, _hm, _me in lk['conds']:
      hist = self.type_history.get(col, [])
      if mode != 'eq' or len(hist) < 2:
        continue
      convs = []
      for t in hist:
        try:
          convs.append(R.convert_key(t, R.literal(src[1]) if src[0] == 'const' else prow[src[1]]))
        except (R.OutOfModel, KeyError):
          convs.append(('unmodelled', t))
      if any(c != convs[-1] for c in convs[:-1]):
        reconv.append('%s: %s' % (col, ' -> '.join(hist)))
    if reconv and (i, pi) in self.before and self.before[(i, pi)] == got:
      out.fail('C13:stale:key-not-reconverted-after-key-column-type-change',
               '%s = %r was not evaluated again although the type of its key column changed (%s) and the key converts '
               'differently now; reference %r (%s)' % (lk['formula'], got, '; '.join(reconv), exp, stage if stage == 'initial' else 'after ' + str(self.last_edit)),
               {'formula': lk['formula'], 'probe_row': pi + 1, 'got': got, 'expected': exp, 'type_changes': reconv})
      return
    detail = {'formula': lk['formula'], 'probe_row': pi + 1, 'got': got, 'expected': exp, 'stage': stage,
              'last_bundle': self.last_edit, 'sort_spec': spec}
    stage_txt = stage if stage == 'initial' else 'after ' + self.last_edit
    live = set(r['id'] for r in rows)
    if self.replaced and not R_is_error(got) and isinstance(got, list) and len(got) == 3:
      # root cause attribution: rows dropped by ReplaceTableData stay in the lookup index (ghost row ids)
      if got[0] == 'r' and isinstance(got[2], list) and not lk['one']:
        ghosts = [x for x in got[2] if x not in live]
        if ghosts and [x for x in got[2] if x in live] == exp[2]:
          out.fail('C13:replace-table-data-keeps-dropped-rows-in-lookup-index',
                   '%s = %r still lists row(s) %r that ReplaceTableData removed; the table holds rows %r (%s)' % (
                     lk['formula'], got, ghosts, sorted(live), stage_txt), detail)
          return
      if got[0] == 'R' and lk['one'] and got[2] not in live and got[2] != 0:
        out.fail('C13:replace-table-data-keeps-dropped-rows-in-lookup-index',
                 '%s = %r is a row that ReplaceTableData removed; the table holds rows %r, reference %r (%s)' % (
                   lk['formula'], got, sorted(live), exp, stage_txt), detail)
        return
    if R_is_error(got):
      out.fail('C13:lookup-raised:%s:%s:%s' % (got[1] if len(got) > 1 else '?', modes, stage),
               '%s raised %r where the reference expects %r (%s)' % (lk['formula'], got, exp, stage_txt), detail)
      return
    gids = got[2] if (isinstance(got, list) and len(got) == 3 and got[0] == 'r') else None
    if not lk['one'] and gids is not None and sorted(gids) == sorted(exp[2]) and len(set(gids)) == len(gids):
      out.fail('C13:order:%s:%s' % (order_label(lk['order']), stage),
               '%s returns the right rows in the wrong order: %r, documented order %r (%s)' % (lk['formula'], gids, exp[2], stage_txt),
               detail)
      return
    if lk['one']:
      out.fail('C13:lookupOne:%s:%s:%s' % (modes, order_label(lk['order']), stage),
               '%s = %r, reference %r (%s)' % (lk['formula'], got, exp, stage_txt), detail)
      return
    out.fail('C13:rows:%s:%s' % (modes, stage),
             '%s = %r, the matching rows are %r (%s)' % (lk['formula'], got, exp, stage_txt), detail)


def R_is_error(v):
  return isinstance(v, list) and len(v) >= 1 and v[0] == 'E'


def order_label(order):
  if order[0] == 'default':
    return 'default'
  if order[0] == 'sort_by':
    return 'sort_by'
  v = order[1]
  if v is None:
    return 'None'
  if isinstance(v, str):
    return 'id' if v.lstrip('-') == 'id' else ('desc' if v.startswith('-') else 'asc')
  return 'tuple'


def _contains_replace(actions):
  """True when a list of action reprs (user actions or an undo list) replaces a whole table's data."""
  return any(isinstance(a, list) and a and a[0] == 'ReplaceTableData' for a in actions)


def run_case(case):
  out = Outcome()
  ex = case.get('explicit') if isinstance(case, dict) else None
  if isinstance(ex, dict):
    # stable witness form: formulas + their reference description + concrete data and user actions
    out.cls('explicit-case')
    with_none = bool(ex.get('with_none'))
    lookups = [dict(lk, conds=[tuple(c) for c in lk.get('conds', [])], labels=[]) for lk in ex.get('lookups', [])]
    src_vals, probe_vals = ex.get('src', {}), ex.get('probe', {})
    n_src = max([len(v) for v in src_vals.values()] + [0])
    n_probe = max([len(v) for v in probe_vals.values()] + [0])
  else:
    with_none = gi([g(case, 'cls', 0)], 0) % 3 == 2
    out.cls('sort:with-none' if with_none else 'sort:homogeneous')
    lookups = [build_lookup(s) for s in (g(case, 'lk', []) or [])[:6] if isinstance(s, dict)]
    rows = [x for x in (g(case, 'rows', []) or [])[:8] if isinstance(x, list)]
    src_vals = {col: [src_cell(col, ctype, gi(x, i), with_none) for x in rows] for i, (col, ctype) in enumerate(SRC_COLS)}
    src_vals['manualSort'] = [pick(MS_POOL, gi(x, len(SRC_COLS))) for x in rows]
    n_src = len(rows)
    prows = [x for x in (g(case, 'prows', []) or [])[:3] if isinstance(x, list)] or [[0] * len(PROBECOLS)]
    probe_vals = {col: [enc(pick(POOL[R.pure(ctype)], gi(x, i))) for x in prows] for i, (col, ctype) in enumerate(PROBECOLS)}
    n_probe = len(prows)
  if not lookups:
    out['skipped'] = True
    return out
  d = Doc()
  r = d.apply([['AddTable', 'Tgt', [{'id': 'Name', 'type': 'Text', 'isFormula': False}]],
               ['BulkAddRecord', 'Tgt', [None] * 3, {'Name': ['x', 'y', 'z']}],
               ['AddTable', 'Src', [{'id': c, 'type': t, 'isFormula': False} for c, t in SRC_COLS] +
                [{'id': 'KF', 'type': 'Text', 'isFormula': True, 'formula': KF_FORMULA}]]])
  if not r.ok:
    raise RuntimeError('setup failed: %r' % (r.error,))
  if n_src:
    r = d.apply([['BulkAddRecord', 'Src', [None] * n_src, src_vals]])
    if not r.ok:
      raise RuntimeError('adding rows failed: %r' % (r.error,))
  acts = [['AddTable', 'Probe', [{'id': c, 'type': t, 'isFormula': False} for c, t in PROBECOLS] +
           [{'id': 'L%d' % i, 'type': 'Any', 'isFormula': True, 'formula': lk['formula']} for i, lk in enumerate(lookups)]]]
  if n_probe:
    acts.append(['BulkAddRecord', 'Probe', [None] * n_probe, probe_vals])
  r = d.apply(acts)
  if not r.ok:
    raise RuntimeError('probe table failed: %r' % (r.error,))
  for lk in lookups:
    out.cls(*lk['labels'])
  ck = Checker(d, lookups, out, with_none)
  failed = ck.check('initial', False)
  n_src_edits = 0
  last_undo = None
  bundles = ex.get('edits', []) if isinstance(ex, dict) else (g(case, 'edits', []) or [])[:8]
  for bundle in bundles:
    if failed:
      break
    if not isinstance(bundle, list):
      continue
    if isinstance(ex, dict):
      uas, kinds = bundle, ['explicit']
    else:
      uas, kinds = resolve_edits(d, [op for op in bundle if isinstance(op, list)], with_none, last_undo)
    if not uas:
      continue
    r = d.apply(uas)
    if not r.ok:
      out.cls('rejected-bundle:' + '+'.join(sorted(set(kinds))))
      break
    if _contains_replace(uas) or (kinds == ['undo'] and _contains_replace(uas[0][1])):
      ck.replaced = True
    last_undo = r.undo if kinds != ['undo'] else None
    for k in kinds:
      out.cls('edit:' + k)
    if 'retype' in kinds or 'undo' in kinds or 'explicit' in kinds:
      ck.refresh_types()
    if any(k != 'probe-edit' for k in kinds):
      n_src_edits += 1
    ck.last_edit = '+'.join(sorted(set(kinds)))
    failed = ck.check('after-edit', n_src_edits > 0)
  out['concrete'] = d.concrete_history()[1:]
  out['nontrivial'] = bool(ck.judged_after_edit)
  return out
