"""C39 RenameChoices renames exactly the mapped choices.

A document with a Choice or ChoiceList column X (generated cells: choices, non-choice strings, numbers
entered as alt text, '' / None, lists with duplicates and with '' elements, removed rows), sibling
Choice / ChoiceList columns holding the same strings, saved filters on X and on other columns, an
optional summary table grouped by X or by a sibling, an optional formula column depending on X; then
one RenameChoices with a generated map (swaps, chains, cycles, absent keys, identity entries, '' as
key or value). Compared with a simultaneous-substitution model.
"""
import json
from hypothesis import strategies as st
from ..runner import Outcome
from .. import eqv
from ..doc import Doc

ID = 'C39'
LEVEL = 'exploration'
TECHNIQUE = 'PBT with a reference model (simultaneous substitution) + frame check on the whole document'
RULE = ('case = (column kind: Choice data / ChoiceList data / Choice formula column, 0-8 cells for X and for the siblings '
        'Y (Choice) and Z (ChoiceList) from a pool of 9 strings incl. "", " a", "A" plus numbers, None, empty lists, '
        'duplicates; removed rows; 0-4 saved filters {"included"|"excluded": [strings, numbers, null]} on X, Y, Z or '
        'Other.A in any section; optional summary table grouped by X or by Y; optional formula column $X; rename map of '
        '0-4 pairs over the same pool -> swaps, chains, cycles, identity entries, absent keys, "" as key/value). '
        'Non-trivial = the action succeeded and the model changes at least one cell of X or one filter of X; '
        'distinct by hash of the concrete user actions.')
ORACLE = ('reference model: every string cell of a Choice data column X and every element of a list cell of a ChoiceList '
          'data column X is replaced by map.get(v, v) in one simultaneous step (cells of other shapes, and all cells of a '
          'formula column, stay as they are); every string in the lists of the parsed JSON of the filters whose colRef is X '
          'likewise; every other cell of every table (user and metadata, incl. filters of other columns byte for byte) is '
          'unchanged, except formula columns that read X and summary tables grouped by X (not judged). The action must not raise.')
ASSUMPTIONS = ['rename maps are {str: str} (what the choice editor sends); filters are JSON objects of lists (column filters '
               'of choice columns), or the empty string',
               'formula results that depend on X and summary tables keyed on X legitimately change and are not judged',
               'widgetOptions are documented as not touched by this action, so they are part of "nothing else"']
BUDGET = {'quick': dict(examples=1000, shards=8, max_seconds=50),
          'thorough': dict(examples=10000, shards=16, max_seconds=1800)}

POOL = ['a', 'b', 'c', 'dd', '', 'zz', 'e', ' a', 'A']
FPOOL = POOL + [1, None, True, 2.5, 'b', 'a']
KINDS = ['Choice'] * 9 + ['formula'] * 2 + ['ChoiceList'] * 9


def strategy(tier):
  idx = st.integers(0, len(POOL) - 1)
  small = st.sampled_from([0, 0, 0, 1, 1, 1, 2, 2, 3, 4, 5, 6, 7, 8])
  cell = st.tuples(st.sampled_from([0, 1, 2, 3, 4, 5, 6, 7, 8, 9, 0, 1, 2, 3]), st.one_of(st.lists(small, min_size=1, max_size=3), st.lists(small, min_size=0, max_size=3))).map(list)
  flt = st.tuples(st.integers(0, 5), st.booleans(), st.lists(st.integers(0, len(FPOOL) - 1), min_size=1, max_size=4),
                  st.integers(0, 5), st.booleans()).map(list)
  key = st.one_of(small, st.integers(len(POOL), 2 * len(POOL) - 1))   # >= len(POOL): i-th string present in X
  pair = st.tuples(key, small).map(list)
  shaped = st.one_of(
    st.tuples(key, key).map(lambda t: [[t[0], t[1]], [t[1], t[0]]]),                              # swap
    st.tuples(key, key, key).map(lambda t: [[t[0], t[1]], [t[1], t[2]]]),                        # chain
    st.tuples(key, key, key).map(lambda t: [[t[0], t[1]], [t[1], t[2]], [t[2], t[0]]]),          # cycle
    st.lists(pair, min_size=1, max_size=4),
    st.lists(st.tuples(idx, idx).map(list), max_size=4))
  renames = st.tuples(shaped, st.lists(pair, max_size=1)).map(lambda t: (t[0] + t[1])[:4])
  return st.fixed_dictionaries({
    'kind': st.integers(0, len(KINDS) - 1),
    'cells': st.one_of(st.lists(cell, min_size=2, max_size=8), st.lists(cell, min_size=0, max_size=8)),
    'ycells': st.lists(cell, min_size=0, max_size=4),
    'removed': st.lists(st.integers(0, 7), max_size=2),
    'filters': st.lists(flt, max_size=4),
    'summary': st.sampled_from([0, 0, 0, 1, 1, 2]),
    'dep': st.booleans(),
    'wopt': st.booleans(),
    'renames': renames,
  })


def _pad(x, default):
  x = list(x) if isinstance(x, (list, tuple)) else []
  return x + default[len(x):]


def cell_value(kind, spec):
  """spec = [mode, [pool indexes]] -> encoded value sent by the client."""
  spec = _pad(spec, [0, []])
  m = int(spec[0]) % 10
  ix = [int(i) % len(POOL) for i in (spec[1] if isinstance(spec[1], list) else [])][:3]
  if kind == 'Choice':
    if m == 6:
      return None
    if m == 7:
      return 5 + (ix[0] if ix else 0)       # becomes the text "5" (Choice is a Text type)
    if m == 8:
      return ''
    return POOL[ix[0]] if ix else ''
  # ChoiceList
  if m == 6:
    return None
  if m == 7:
    return 7                               # alt text "7"
  if m == 8:
    return POOL[ix[0]] if ix else ''       # plain string = alt text in a ChoiceList column
  if m == 9:
    return ['L']
  return ['L'] + [POOL[i] for i in ix]


def substitute(v, ren):
  return ren.get(v, v) if isinstance(v, str) else v


def model_cell(col_kind, v, ren):
  """Encoded cell before -> expected encoded cell after."""
  if col_kind == 'Choice':
    return substitute(v, ren)
  if col_kind == 'ChoiceList':
    if isinstance(v, list) and v and v[0] == 'L':
      return ['L'] + [substitute(x, ren) for x in v[1:]]
    return v
  return v


def model_filter(text, ren):
  """Filter text before -> expected parsed JSON after (None = must stay byte-identical)."""
  if not text:
    return None
  f = json.loads(text)
  return {k: [substitute(x, ren) for x in vals] for k, vals in f.items()}


def build(case, out):
  d = Doc()
  kind = KINDS[int(case.get('kind', 0)) % len(KINDS)]
  xtype = 'Choice' if kind == 'formula' else kind
  wopt = json.dumps({'choices': ['a', 'b', 'c', 'dd'], 'choiceOptions': {'a': {'fillColor': '#fff'}}}) if case.get('wopt') else ''
  cols = [{'id': 'X', 'type': xtype, 'isFormula': kind == 'formula', 'formula': '$Y' if kind == 'formula' else '',
           'widgetOptions': wopt},
          {'id': 'Y', 'type': 'Choice', 'isFormula': False, 'widgetOptions': wopt},
          {'id': 'Z', 'type': 'ChoiceList', 'isFormula': False},
          {'id': 'S', 'type': 'Text', 'isFormula': False}]
  if case.get('dep'):
    cols.append({'id': 'D', 'type': 'Any', 'isFormula': True, 'formula': '$X'})
    cols.append({'id': 'E', 'type': 'Any', 'isFormula': True, 'formula': '($Y, $Z, $S)'})
  r = d.apply([['AddTable', 'Other', [{'id': 'A', 'type': 'Choice', 'isFormula': False}]],
               ['BulkAddRecord', 'Other', [None] * 3, {'A': ['a', 'b', '']}],
               ['AddTable', 'Src', cols]])
  if not r.ok:
    raise RuntimeError('C39 setup failed: %r' % (r.error,))
  cells = (case.get('cells') or [])[:8]
  ycells = (case.get('ycells') or [])[:4] or [[0, [0]]]
  n = len(cells)
  if n:
    cv = {'Y': [cell_value('Choice', ycells[i % len(ycells)]) for i in range(n)],
          'Z': [cell_value('ChoiceList', ycells[(i + 1) % len(ycells)]) for i in range(n)],
          'S': [POOL[i % len(POOL)] for i in range(n)]}
    if kind != 'formula':
      cv['X'] = [cell_value(xtype, c) for c in cells]
    r = d.apply([['BulkAddRecord', 'Src', [None] * n, cv]])
    if not r.ok:
      raise RuntimeError('C39 setup (rows) failed: %r' % (r.error,))
  rm = sorted(set(1 + int(i) % n for i in (case.get('removed') or [])[:2])) if n else []
  if rm:
    d.apply([['BulkRemoveRecord', 'Src', rm]])
    out.cls('doc:removed-rows')
  src_ref = [t for t in d.tables_meta() if t['tableId'] == 'Src'][0]['id']
  colref = {c['colId']: c['id'] for c in d.columns_meta() if c['parentId'] == src_ref}
  oth_ref = [t for t in d.tables_meta() if t['tableId'] == 'Other'][0]['id']
  ocol = [c['id'] for c in d.columns_meta() if c['parentId'] == oth_ref and c['colId'] == 'A'][0]
  summ = int(case.get('summary', 0)) % 3
  if summ and kind != 'formula':
    r = d.apply([['CreateViewSection', src_ref, 0, 'record', [colref['X' if summ == 1 else 'Y']], None]])
    if not r.ok:
      raise RuntimeError('C39 setup (summary) failed: %r' % (r.error,))
    out.cls('doc:summary-by-' + ('X' if summ == 1 else 'other-column'))
  secs = d.meta('_grist_Views_section')
  src_secs = [s['id'] for s in secs if s['tableRef'] == src_ref]
  oth_secs = [s['id'] for s in secs if s['tableRef'] == oth_ref]
  frecs = []
  for f in (case.get('filters') or [])[:4]:
    f = _pad(f, [0, True, [], 0, False])
    which = int(f[0]) % 6
    cref = [colref['X'], colref['X'], colref['X'], colref['Y'], colref['Z'], ocol][which]
    pool = oth_secs if which == 5 else src_secs
    vals = [FPOOL[int(i) % len(FPOOL)] for i in (f[2] if isinstance(f[2], list) else [])][:4]
    if which == 2 and int(f[3]) % 2 == 1:
      text = ''
    else:
      text = json.dumps({('included' if f[1] else 'excluded'): vals}, separators=(',', ':'))
    frecs.append({'viewSectionRef': pool[int(f[3]) % len(pool)], 'colRef': cref, 'filter': text, 'pinned': bool(f[4])})
  if frecs:
    r = d.apply([['BulkAddRecord', '_grist_Filters', [None] * len(frecs),
                  {k: [fr[k] for fr in frecs] for k in frecs[0]}]])
    if not r.ok:
      raise RuntimeError('C39 setup (filters) failed: %r' % (r.error,))
  return d, kind, colref


def from_concrete(case):
  """case = {'concrete': [[user actions of a bundle], ...]}: the last bundle is the RenameChoices on Src.X."""
  hist = [b for b in case['concrete'] if b]
  d = Doc()
  for uas in hist[:-1]:
    d.apply(uas)
  ua = hist[-1][0]
  if ua[0] != 'RenameChoices' or ua[1] != 'Src' or ua[2] != 'X':
    raise RuntimeError('C39 concrete case must end with RenameChoices on Src.X')
  src_ref = [t for t in d.tables_meta() if t['tableId'] == 'Src'][0]['id']
  colref = {c['colId']: c['id'] for c in d.columns_meta() if c['parentId'] == src_ref}
  xrec = [c for c in d.columns_meta() if c['id'] == colref['X']][0]
  kind = 'formula' if xrec['isFormula'] else xrec['type']
  return d, kind, colref, dict(ua[3])


def run_case(case):
  out = Outcome()
  fixed_ren = None
  if isinstance(case, dict) and case.get('concrete'):
    d, kind, colref, fixed_ren = from_concrete(case)
  else:
    d, kind, colref = build(case, out)
  before = d.snapshot()
  filters_before = {f['id']: f for f in d.meta('_grist_Filters')}
  raw_before = d.fetch_repr('Src')
  rows = list(raw_before[2])
  xb = dict(zip(rows, raw_before[3]['X']))
  present = set()
  for v in xb.values():
    if isinstance(v, str):
      present.add(v)
    elif isinstance(v, list):
      present.update(x for x in v[1:] if isinstance(x, str))
  for f in filters_before.values():
    if f['colRef'] == colref['X'] and f['filter']:
      for vals in json.loads(f['filter']).values():
        present.update(x for x in vals if isinstance(x, str))
  plist = sorted(present)

  def pick(i):
    i = abs(int(i))
    if i >= len(POOL) and plist:
      return plist[(i - len(POOL)) % len(plist)]
    return POOL[i % len(POOL)]
  ren = {}
  for p in (case.get('renames') or [])[:4]:
    p = _pad(p, [0, 0])
    ren[pick(p[0])] = pick(p[1])
  if fixed_ren is not None:
    ren = fixed_ren
  r = d.apply([['RenameChoices', 'Src', 'X', ren]])
  out['concrete'] = d.concrete_history()[1:]
  out['key'] = eqv.digest(out['concrete'])
  # labels
  out.cls('col:' + kind)
  keys = set(ren)
  if any(k != v and ren.get(v) == k for k, v in ren.items()):
    out.cls('map:swap')
  if any(k != v and v in keys and ren.get(v) not in (k, v) for k, v in ren.items()):
    out.cls('map:chain')
  if any(k == v for k, v in ren.items()):
    out.cls('map:identity-entry')
  if '' in keys:
    out.cls('map:empty-string-key')
  if '' in ren.values():
    out.cls('map:empty-string-value')
  if not ren:
    out.cls('map:empty')
  if keys - present:
    out.cls('map:key-absent-from-data')
  if any(isinstance(v, list) and len(v[1:]) != len(set(v[1:])) for v in xb.values()):
    out.cls('cells:list-with-duplicates')
  if any(v is None or v == '' or v == ['L'] for v in xb.values()):
    out.cls('cells:empty')
  xfilters = [f for f in filters_before.values() if f['colRef'] == colref['X']]
  if xfilters:
    out.cls('filters:on-X')
  if any(f['colRef'] != colref['X'] for f in filters_before.values()):
    out.cls('filters:on-other-columns')

  if not r.ok:
    if kind == 'Choice' and '' in keys:
      out.fail('C39:empty-string-key-raises',
               'RenameChoices on a Choice column with "" among the keys raised %r' % (r.error,), {'renames': ren})
    else:
      out.fail('C39:raised:%s' % type(r.error).__name__, 'RenameChoices(%r) raised %r' % (ren, r.error), {'renames': ren})
    return out

  after = d.snapshot()
  raw_after = d.fetch_repr('Src')
  if list(raw_after[2]) != rows:
    out.fail('C39:rows-changed', 'row ids of Src changed from %r to %r' % (rows, list(raw_after[2])))
    return out
  xa = dict(zip(rows, raw_after[3]['X']))
  changed = 0
  model_kind = kind if kind != 'formula' else 'formula'
  for row in rows:
    exp = model_cell(model_kind, xb[row], ren)
    if eqv.canon(exp) != eqv.canon(xb[row]):
      changed += 1
    if eqv.canon(xa[row]) != eqv.canon(exp):
      if eqv.canon(xa[row]) == eqv.canon(xb[row]):
        sig = 'C39:cell-not-renamed'
      elif eqv.canon(exp) == eqv.canon(xb[row]):
        sig = 'C39:cell-changed-but-not-mapped'
      else:
        sig = 'C39:cell-renamed-wrongly'
      out.fail(sig + ':' + kind, 'RenameChoices(%r): X[%s] was %r, is %r, expected %r' % (ren, row, xb[row], xa[row], exp),
               {'renames': ren, 'row': row, 'before': xb[row], 'after': xa[row], 'expected': exp})
      return out
  # filters
  filters_after = {f['id']: f for f in d.meta('_grist_Filters')}
  if sorted(filters_after) != sorted(filters_before):
    out.fail('C39:filter-rows-changed', 'filter records %r -> %r' % (sorted(filters_before), sorted(filters_after)))
    return out
  fchanged = 0
  for fid, fb in sorted(filters_before.items()):
    fa = filters_after[fid]
    for k in fb:
      if k != 'filter' and eqv.canon(fb[k]) != eqv.canon(fa[k]):
        out.fail('C39:filter-record-field-changed', 'filter %s field %s: %r -> %r' % (fid, k, fb[k], fa[k]))
        return out
    if fb['colRef'] != colref['X']:
      if fa['filter'] != fb['filter']:
        out.fail('C39:other-column-filter-changed', 'filter %s of column %s: %r -> %r' % (
          fid, fb['colRef'], fb['filter'], fa['filter']), {'renames': ren})
        return out
      continue
    exp = model_filter(fb['filter'], ren)
    if exp is None:
      if fa['filter'] != fb['filter']:
        out.fail('C39:empty-filter-changed', 'filter %s: %r -> %r' % (fid, fb['filter'], fa['filter']))
        return out
      continue
    if exp != json.loads(fb['filter']):
      fchanged += 1
    try:
      got = json.loads(fa['filter'])
    except Exception:
      out.fail('C39:filter-not-json', 'filter %s became %r' % (fid, fa['filter']))
      return out
    if got != exp or eqv.canon(got) != eqv.canon(exp):
      sig = 'C39:filter-not-renamed' if got == json.loads(fb['filter']) else 'C39:filter-renamed-wrongly'
      out.fail(sig, 'RenameChoices(%r): filter %s was %r, is %r, expected %r' % (ren, fid, fb['filter'], fa['filter'], exp),
               {'renames': ren})
      return out
  # frame: nothing else changes
  exempt_tables = set()
  tmeta = {t['id']: t for t in d.tables_meta()}
  for c in d.columns_meta():
    if c['summarySourceCol'] == colref['X']:
      exempt_tables.add(tmeta[c['parentId']]['tableId'])
  structural, cells = eqv.cells_diff(before, after)
  structural = [s for s in structural if s[0] not in exempt_tables]
  if structural:
    out.fail('C39:frame:structure-changed', 'table shapes changed: %r' % (structural[:3],), {'renames': ren})
    return out
  for (t, c, row, va, vb) in cells:
    if t in exempt_tables:
      continue
    if t == 'Src' and c in ('X', 'D'):
      continue
    if t == '_grist_Filters' and c == 'filter':
      continue
    where = 'metadata' if t.startswith('_grist_') else 'summary-table' if tmeta and any(
      x['tableId'] == t and x['summarySourceTable'] for x in tmeta.values()) else 'other-column'
    out.fail('C39:frame:%s-changed' % where, 'RenameChoices(%r) changed %s.%s[%s]: %r -> %r' % (ren, t, c, row, va, vb),
             {'renames': ren, 'all': [list(x) for x in cells[:6]]})
    return out
  if changed:
    out.cls('effect:cells-renamed')
  if fchanged:
    out.cls('effect:filters-renamed')
  if not changed and not fchanged:
    out.cls('effect:none')
  out['nontrivial'] = bool(changed or fchanged)
  return out
